/-
  C13 — which cluster messages a node applies.  Executable transcription of
    * `Zone::IsChildOf` / `Zone::CanAccessObject`            lib/remote/zone.cpp:91-121
    * origin construction in `JsonRpcConnection`              lib/remote/jsonrpcconnection.cpp:39-48, 304-327
    * the guard set in front of the effect of every registered JSON-RPC handler
      (lib/icinga/clusterevents.cpp, clusterevents-check.cpp, lib/remote/apilistener-configsync.cpp,
       apilistener-filesync.cpp, jsonrpcconnection-pki.cpp, jsonrpcconnection-heartbeat.cpp,
       jsonrpcconnection.cpp, apilistener.cpp)
  Core Lean only.
-/
namespace Icinga.C13

/-- A zone is identified by its index in the node's zone table. -/
abbrev Zone := Nat

/-- The zone objects a node knows: `parent` attribute (resolved by `Zone::GetByName`,
    zone.cpp:17) and the `global` flag.  Any function is allowed here (also cyclic or infinitely deep
    ones): the theorems quantify over all of them. -/
structure Forest where
  parent : Zone → Option Zone
  isGlobal : Zone → Bool

/-- `Zone::OnAllConfigLoaded` (zone.cpp:24-46) rejects a zone with more than 32 levels of parents, so the
    unbounded `while (azone)` loop of `IsChildOf` visits at most 34 zones in any configuration that loaded.
    The model walks with this fuel; every theorem is stated for an arbitrary fuel. -/
def maxDepth : Nat := 40

/-- `Zone::IsChildOf` (zone.cpp:109-121): `a` is `z` or has `z` among its parents. -/
def isChildOfFuel (f : Forest) : Nat → Zone → Zone → Bool
  | 0, _, _ => false
  | n + 1, a, z =>
    if a = z then true
    else match f.parent a with
      | none => false
      | some p => isChildOfFuel f n p z

def isChildOf (f : Forest) (a z : Zone) : Bool := isChildOfFuel f maxDepth a z

/-- Number of proper ancestors of `a` (zone.cpp:36-46 counts them in `levels`), if the chain of parents ends within the
    fuel. -/
def depthOf (f : Forest) : Nat → Zone → Option Nat
  | 0, _ => none
  | n + 1, a =>
    match f.parent a with
    | none => some 0
    | some p => (depthOf f n p).map (· + 1)

/-- Would `Zone::OnAllConfigLoaded` accept the zones `0 … n-1` with at most `bound` proper ancestors each?  (The driver
    evaluates this on every forest the harness registered; `loadedB_sound` turns it into the hypothesis `Loaded` of
    the completeness theorems.) -/
def loadedB (f : Forest) (n bound : Nat) : Bool :=
  (List.range n).all fun a => (depthOf f (bound + 1) a).isSome

/-- The correspondence runs use zone trees far below the source's limit (the property quantifies over depth ≤ 3). -/
def harnessLevelBound : Nat := 8

/-- `self->CanAccessObject(object)` (zone.cpp:91-107).  `objZone` is the object's `zone` attribute
    (`none`: unset ⇒ the local zone, zone.cpp:100-101). -/
def canAccessObject (f : Forest) (localZone self : Zone) (objZone : Option Zone) : Bool :=
  let oz := match objZone with | some z => z | none => localZone
  f.isGlobal oz || isChildOf f oz self

/-- The registered JSON-RPC methods, one constructor per `REGISTER_APIFUNCTION`. -/
inductive Method
  | configDeleteObject | configUpdate | configUpdateObject
  | checkResult | clearAcknowledgement | clearLastNotifiedStatePerUser | executeCommand | executedCommand
  | heartbeat | notificationSentToAllUsers | notificationSentUser | sendNotifications | setAcknowledgement
  | setForceNextCheck | setForceNextNotification | setLastCheckStarted | setNextCheck | setNextNotification
  | setRemovalInfo | setStateBeforeSuppression | setSuppressedNotificationTypes | setSuppressedNotifications
  | updateExecutions | updateLastNotifiedStatePerUser
  | hello | setLogPosition | requestCertificate | updateCertificate
  deriving DecidableEq, Repr, Inhabited

def Method.all : List Method :=
  [.configDeleteObject, .configUpdate, .configUpdateObject,
   .checkResult, .clearAcknowledgement, .clearLastNotifiedStatePerUser, .executeCommand, .executedCommand,
   .heartbeat, .notificationSentToAllUsers, .notificationSentUser, .sendNotifications, .setAcknowledgement,
   .setForceNextCheck, .setForceNextNotification, .setLastCheckStarted, .setNextCheck, .setNextNotification,
   .setRemovalInfo, .setStateBeforeSuppression, .setSuppressedNotificationTypes, .setSuppressedNotifications,
   .updateExecutions, .updateLastNotifiedStatePerUser,
   .hello, .setLogPosition, .requestCertificate, .updateCertificate]

/-- The name under which the method is registered (`#ns "::" #name`, apifunction.hpp:53-57). -/
def Method.name : Method → String
  | .configDeleteObject => "config::DeleteObject"
  | .configUpdate => "config::Update"
  | .configUpdateObject => "config::UpdateObject"
  | .checkResult => "event::CheckResult"
  | .clearAcknowledgement => "event::ClearAcknowledgement"
  | .clearLastNotifiedStatePerUser => "event::ClearLastNotifiedStatePerUser"
  | .executeCommand => "event::ExecuteCommand"
  | .executedCommand => "event::ExecutedCommand"
  | .heartbeat => "event::Heartbeat"
  | .notificationSentToAllUsers => "event::NotificationSentToAllUsers"
  | .notificationSentUser => "event::NotificationSentUser"
  | .sendNotifications => "event::SendNotifications"
  | .setAcknowledgement => "event::SetAcknowledgement"
  | .setForceNextCheck => "event::SetForceNextCheck"
  | .setForceNextNotification => "event::SetForceNextNotification"
  | .setLastCheckStarted => "event::SetLastCheckStarted"
  | .setNextCheck => "event::SetNextCheck"
  | .setNextNotification => "event::SetNextNotification"
  | .setRemovalInfo => "event::SetRemovalInfo"
  | .setStateBeforeSuppression => "event::SetStateBeforeSuppression"
  | .setSuppressedNotificationTypes => "event::SetSuppressedNotificationTypes"
  | .setSuppressedNotifications => "event::SetSuppressedNotifications"
  | .updateExecutions => "event::UpdateExecutions"
  | .updateLastNotifiedStatePerUser => "event::UpdateLastNotifiedStatePerUser"
  | .hello => "icinga::Hello"
  | .setLogPosition => "log::SetLogPosition"
  | .requestCertificate => "pki::RequestCertificate"
  | .updateCertificate => "pki::UpdateCertificate"

def Method.ofName? (s : String) : Option Method :=
  Method.all.find? (fun m => m.name == s)

/-- Everything a handler's guards look at. -/
structure Ctx where
  /-- the TLS layer verified the peer's certificate (`JsonRpcConnection::m_Authenticated`); an input bit -/
  authenticated : Bool
  /-- zone of the `Endpoint` object whose name equals the connection's identity; `none`: no such endpoint
      is configured on the receiver.  (Every configured endpoint belongs to a zone:
      `Endpoint::OnAllConfigLoaded` refuses the configuration otherwise.) -/
  endpointZone : Option Zone
  /-- `Zone::GetByName(message->Get("originZone"))`: `none` when the field is absent or names no zone -/
  originZone : Option Zone
  /-- `Zone::GetLocalZone()` of the receiver -/
  localZone : Zone
  /-- the object(s) the parameters name exist on the receiver (host/service/notification/user/comment,
      for `config::DeleteObject` an `_api` object); `false` is the malformed stream -/
  objExists : Bool
  /-- `zone` attribute of the target object (`none`: unset) -/
  objZone : Option Zone
  /-- `endpoint == checkable->GetCommandEndpoint()` (event::CheckResult) -/
  senderIsCommandEndpoint : Bool
  /-- event::ExecutedCommand: zone of the endpoint recorded in `executions[uuid].endpoint`
      (`none`: no such execution / endpoint) -/
  execEndpointZone : Option Zone
  /-- event::ExecuteCommand: the `endpoint` parameter names an existing endpoint other than the receiver;
      the value is that endpoint's zone (`none`: no `endpoint` parameter, or it names the receiver ⇒ the
      command is executed locally) -/
  forwardZone : Option Zone
  acceptConfig : Bool
  acceptCommands : Bool
  /-- config::UpdateObject: the message's `config` text is empty (apilistener-configsync.cpp:108, 112) -/
  configEmpty : Bool := false
  /-- config::UpdateObject: the message's `version` is greater than the existing object's (:139) -/
  versionNewer : Bool := true
  /-- config::DeleteObject: the existing object belongs to package `_api` (:281) -/
  apiPackage : Bool := true
  /-- event::ExecuteCommand, forwarding branch: an endpoint of the child zone towards the target does not announce
      the capability ExecuteArbitraryCommand (clusterevents.cpp:972) -/
  childLacksCapability : Bool := false
  /-- event::ExecuteCommand, forwarding branch: the child zone towards the target may not access the named
      checkable (clusterevents.cpp:1027) -/
  hostInaccessibleToChild : Bool := false
  deriving Repr, DecidableEq

/-- `m_Endpoint` of the connection (jsonrpcconnection.cpp:46-47: looked up only `if (authenticated)`);
    the value is the endpoint's zone. -/
def Ctx.endpoint (c : Ctx) : Option Zone :=
  if c.authenticated then c.endpointZone else none

/-- `origin->FromZone` as `JsonRpcConnection::MessageHandler` computes it (jsonrpcconnection.cpp:319-327):
    nothing without endpoint; the endpoint's zone if that differs from the local zone; otherwise whatever
    the message's `originZone` field names. -/
def fromZone (localZone : Zone) (endpoint originZone : Option Zone) : Option Zone :=
  match endpoint with
  | none => none
  | some ez => if ez ≠ localZone then some ez else originZone

def Ctx.fromZone (c : Ctx) : Option Zone := C13.fromZone c.localZone c.endpoint c.originZone

/-! ### Guard shapes (each is the *negation* of the handler's discard condition) -/

/-- not `origin->FromZone && !origin->FromZone->CanAccessObject(obj)` -/
def guardAccess (f : Forest) (c : Ctx) : Bool :=
  match c.fromZone with
  | none => true
  | some z => canAccessObject f c.localZone z c.objZone

/-- not `origin->FromZone && origin->FromZone != Zone::GetLocalZone()` -/
def guardLocal (c : Ctx) : Bool :=
  match c.fromZone with
  | none => true
  | some z => z == c.localZone

/-- not `origin->FromZone && !Zone::GetLocalZone()->IsChildOf(origin->FromZone)` -/
def guardParent (f : Forest) (c : Ctx) : Bool :=
  match c.fromZone with
  | none => true
  | some z => isChildOf f c.localZone z

/-- not `origin->FromZone && !command_endpoint->GetZone()->IsChildOf(origin->FromZone)`
    (clusterevents.cpp:1460-1474; a missing execution or endpoint returns earlier) -/
def guardExecEndpoint (f : Forest) (c : Ctx) : Bool :=
  match c.execEndpointZone with
  | none => false
  | some ez => match c.fromZone with
    | none => true
    | some z => isChildOf f ez z

/-- clusterevents.cpp:920-943: the sender's endpoint exists and its zone is the local zone or the
    local zone's *direct* parent. -/
def guardCommandSender (f : Forest) (c : Ctx) : Bool :=
  match c.endpoint with
  | none => false
  | some ez => ez == c.localZone || f.parent c.localZone == some ez

/-- apilistener-configsync.cpp:56-70, 243-254: endpoint exists and `LocalZone->IsChildOf(endpointZone)`. -/
def guardConfigSender (f : Forest) (c : Ctx) : Bool :=
  match c.endpoint with
  | none => false
  | some ez => isChildOf f c.localZone ez

/-- **The decision table**: `true` iff the handler gets past all its guards and performs its effect
    (for well-formed parameters that name existing objects and carry a value different from the current
    one).  One row per registered method. -/
def accepts (f : Forest) (m : Method) (c : Ctx) : Bool :=
  let ep := c.endpoint.isSome
  match m with
  -- clusterevents.cpp:107-183  (guard :167, the command endpoint is admitted as well)
  | .checkResult => ep && c.objExists && (guardAccess f c || c.senderIsCommandEndpoint)
  -- clusterevents.cpp:211-249 (:235), 277-312 (:301), 504-534 (:519), 670-705 (:695), 732-767 (:757),
  -- 802-848 (:827), 876-911 (:901), 1511-1569 (:1540)
  | .setNextCheck | .setLastCheckStarted | .setNextNotification | .setForceNextCheck
  | .setForceNextNotification | .setAcknowledgement | .clearAcknowledgement | .updateExecutions =>
    ep && c.objExists && guardAccess f c
  -- clusterevents.cpp:340-375 (:365), 402-437 (:427), 458-483 (:473), 557-592 (:568), 613-643 (:625),
  -- 1089-1145 (:1114), 1180-1248 (:1205), 1294-1391 (:1319)
  | .setStateBeforeSuppression | .setSuppressedNotifications | .setSuppressedNotificationTypes
  | .updateLastNotifiedStatePerUser | .clearLastNotifiedStatePerUser | .sendNotifications
  | .notificationSentUser | .notificationSentToAllUsers =>
    ep && c.objExists && guardLocal c
  -- clusterevents.cpp:1393-1509
  | .executedCommand => ep && c.objExists && guardExecEndpoint f c
  -- clusterevents.cpp:1593-1644: sender's zone is the local zone or above (:1597), the comment/downtime exists,
  -- and the sender's zone may access it (:1613, :1627)
  | .setRemovalInfo => ep && guardParent f c && c.objExists && guardAccess f c
  -- clusterevents.cpp:913-1068.  Sender zone :920-943.  Without `endpoint` parameter (or naming the receiver) the
  -- command is queued for local execution, clusterevents-check.cpp:108-201: FromZone guard :119,
  -- accept_commands :166.  With `endpoint` naming another node (:957-1062) it is FORWARDED towards that
  -- endpoint's zone if that zone is the local zone or below it (:961); accept_commands is not consulted.
  -- (For a forwarded command the harness keeps the child endpoints capable of ExecuteArbitraryCommand and names a
  --  host the child zone may access, so that the two error-notice branches :972-994, :1027-1051 are not taken.)
  | .executeCommand =>
    guardCommandSender f c &&
    (match c.forwardZone with
     | none => guardParent f c && c.acceptCommands
     | some tz => isChildOf f tz c.localZone)
  -- apilistener-filesync.cpp:296-330 (:299, :308)
  | .configUpdate => ep && guardParent f c && c.acceptConfig
  -- apilistener-configsync.cpp:42-96 (:63, :82)
  | .configUpdateObject => guardConfigSender f c && c.acceptConfig
  -- apilistener-configsync.cpp:215-300 (:245, :254; the object must exist :275 and belong to package _api :281)
  | .configDeleteObject => guardConfigSender f c && c.acceptConfig && c.objExists && c.apiPackage
  -- jsonrpcconnection-pki.cpp:344-351 (:346): endpoint exists and the FromZone guard
  | .updateCertificate => ep && guardParent f c
  -- jsonrpcconnection-pki.cpp:28-: meant for anonymous clients, no guard
  | .requestCertificate => true
  -- jsonrpcconnection-heartbeat.cpp:45-48: does nothing
  | .heartbeat => false
  -- apilistener.cpp:1783-1824: records version/capabilities on the sender's Endpoint object
  | .hello => ep
  -- jsonrpcconnection.cpp:376-388: advances the sender's Endpoint's local log position
  | .setLogPosition => ep

/-- `event::ExecuteCommand` forwarding (clusterevents.cpp:963-1054): instead of forwarding the command, the receiver
    answers with an `event::ExecutedCommand` error notice (exit 126) when the target zone lies strictly below it and
    an endpoint of the direct child zone on the way cannot execute arbitrary commands (:968-994), or that child zone
    is not the target's zone and may not access the checkable (:1027-1051). -/
def forwardErrorNotice (f : Forest) (c : Ctx) (tz : Zone) : Bool :=
  tz != c.localZone &&
  (c.childLacksCapability || (c.hostInaccessibleToChild && f.parent tz != some c.localZone))

/-- The notice is relayed with `RelayMessage(nullptr, nullptr, …)` (:992, :1049), i.e. to the receiver's own zone and
    to its parent zone.  With one peer in the own zone (the harness's topology) somebody OTHER than the sender gets it
    unless the sender is that peer and there is no parent zone (then the notice is merely the reply to the sender). -/
def noticeReachesSomeoneElse (f : Forest) (c : Ctx) : Bool :=
  c.endpointZone != some c.localZone || (f.parent c.localZone).isSome

/-- Past its guards, does the handler have anything left to do?  `config::UpdateObject`
    (apilistener-configsync.cpp:104-143): an object that does not exist yet is created from a non-empty `config`
    text (:112-136; nothing happens without text, :138); an existing object takes the modified attributes and the
    version only if the message's version is greater than its own (:142).  A forwarded `event::ExecuteCommand` that
    is answered with an error notice shows only if the notice reaches somebody else.  Every other handler acts on any
    well-formed message that passed its guards (the harness sends values that differ from the current ones). -/
def effective (f : Forest) (m : Method) (c : Ctx) : Bool :=
  match m with
  | .configUpdateObject => if c.objExists then c.versionNewer else !c.configEmpty
  | .executeCommand =>
    match c.forwardZone with
    | none => true
    | some tz => if forwardErrorNotice f c tz then noticeReachesSomeoneElse f c else true
  | _ => true

/-- The message changes something on the receiver (or makes it send something to somebody other than the sender). -/
def applies (f : Forest) (m : Method) (c : Ctx) : Bool := accepts f m c && effective f m c

/-- What can be seen of one handled message from outside (before/after snapshots of the receiver). -/
structure Obs where
  /-- the serialised state of some object differs -/
  objects : Bool
  /-- a file or directory under the data directory appeared, vanished or changed -/
  files : Bool
  /-- a message was queued to an endpoint other than the sender -/
  relayed : Bool
  /-- a command was executed or a notification signal was delivered to local subscribers -/
  executed : Bool
  /-- an object OTHER than the sender's own `Endpoint` object differs (implies `objects`) -/
  foreign : Bool := objects
  deriving Repr, DecidableEq

def Obs.applied (o : Obs) : Bool := o.objects || o.files || o.relayed || o.executed || o.foreign

def Obs.nothing : Obs := { objects := false, files := false, relayed := false, executed := false, foreign := false }

/-- `icinga::Hello` (apilistener.cpp:1791-1832) writes `icinga_version`/`capabilities`, `log::SetLogPosition`
    (jsonrpcconnection.cpp:376-388) writes `local_log_position` — of `origin->FromClient->GetEndpoint()`, the sender's
    own Endpoint object, and nothing else; `event::Heartbeat` does nothing. -/
def touchesOnlySenderEndpoint : Method → Bool
  | .hello | .setLogPosition | .heartbeat => true
  | _ => false

/-- **The model's observation of one message.**  `eff` is what the method's effect would show if it ran (what an
    accepted update does to an object is the business of other properties — any value is allowed); the model runs it
    only for a message that `applies`, and the connection-bookkeeping methods are confined to the sender's own
    Endpoint object. -/
def observe (f : Forest) (m : Method) (c : Ctx) (eff : Obs) : Obs :=
  if applies f m c then
    (if touchesOnlySenderEndpoint m then
       { objects := eff.objects, files := false, relayed := false, executed := false, foreign := false }
     else eff)
  else Obs.nothing

/-- One handled message at the level the property talks about: a refused message leaves the node's
    state as it is and sends nothing; an accepted one runs the method's effect.  The effect itself is
    a parameter (what an accepted update does to an object is the business of other properties). -/
def handle {σ μ : Type} (f : Forest) (m : Method) (c : Ctx) (effect : σ → σ × List μ) (s : σ) : σ × List μ :=
  if accepts f m c then effect s else (s, [])

end Icinga.C13

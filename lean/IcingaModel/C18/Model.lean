/-
  C18 — executable model of the API authorisation code.

  Transcribes  lib/remote/filterutility.cpp:182-240 (HasPermission / CheckPermission),
               lib/remote/filterutility.cpp:242-392 (GetFilterTargets, with EvaluatePermissionFilter :143-156
               and FilteredAddTarget :158-166),
               lib/remote/filterutility.cpp:71-117  (EvaluateFilter: a null filter is `true`),
               third-party/mmatch/mmatch.c:170-257  (match(): `*`, `?`, `\*`, `\?`, tolower on both sides)
               lib/remote/httputility.cpp:40-53     (GetLastParameter: the last element of an array counts).

  (file:line as of /repo after bce4be0.)

  Permission filters and user filters are abstract (the DSL that computes them is not part of this
  property): a user filter is `Obj → Option Bool` (`none`: evaluation raises), a permission filter is
  `Option Obj → Obj → Option Bool` — its value may depend on what the name `service` is bound to in the
  permission frame.  GetFilterTargets keeps ONE permission frame for all objects of a request (:256-257) and
  EvaluateFilter only adds bindings (:99-114); since bce4be0 (finding F-C18a) EvaluatePermissionFilter gives
  the frame a new, empty namespace before every object (:153).  `filterTargetsWith true` is the code before
  that repair, `filterTargets = filterTargetsWith false` the code as it is.  What the name-index fast path (C16) recognises in a user
  filter is an input (`UFilter.fast`).  Core Lean only.
-/
namespace Icinga.C18

/-! ## Wildcard matching (third-party/mmatch/mmatch.c `match`, reached through `Utility::Match`,
    lib/base/utility.cpp:155-158) -/

/-- One element of a mask: `*`, `?`, or a character to compare (after `tolower` on both sides). -/
inductive Tok
  | star
  | any
  | lit (c : Char)
  deriving DecidableEq, Repr

/-- mmatch.c:184-187, 208-210, 232-234: `\` followed by `*` or `?` stands for that character; every other
    `\` is an ordinary character.  `*` (:179, :206, :230) and `?` (:191, :202, :246) are the wildcards. -/
def tokenize : List Char → List Tok
  | [] => []
  | '\\' :: '*' :: rest => .lit '*' :: tokenize rest
  | '\\' :: '?' :: rest => .lit '?' :: tokenize rest
  | '*' :: rest => .star :: tokenize rest
  | '?' :: rest => .any :: tokenize rest
  | c :: rest => .lit c :: tokenize rest

/-- `ToLower(*s) != ToLower(ch)` (mmatch.c:188, 218, 236) in the C locale. -/
def litEq (c d : Char) : Bool := c.toLower == d.toLower

/-- A `*` absorbs any prefix of the remaining text. -/
def starAux (k : List Char → Bool) : List Char → Bool
  | [] => k []
  | c :: s => k (c :: s) || starAux k s

/-- What `match(mask, str) == 0` computes (the C function is an iterative backtracking matcher; this is
    its input/output relation, tied to the real function by the `M` lines of the correspondence run). -/
def matchToks : List Tok → List Char → Bool
  | [], s => s.isEmpty
  | .star :: ts, s => starAux (matchToks ts) s
  | .any :: _, [] => false
  | .any :: ts, _ :: s => matchToks ts s
  | .lit _ :: _, [] => false
  | .lit c :: ts, d :: s => litEq d c && matchToks ts s

/-- `String::ToLower` on ASCII (filterutility.cpp:191, 206). -/
def lower (s : String) : List Char := s.toList.map Char.toLower

/-- filterutility.cpp:191,206,208: `Utility::Match(permission.ToLower(), requiredPermission.ToLower())`. -/
def wildMatch (pattern required : String) : Bool :=
  matchToks (tokenize (lower pattern)) (lower required)

/-! ## Users, objects, queries -/

structure Obj where
  type : String
  name : String
  deriving DecidableEq, Repr

/-- A permission filter: `binding` is what the name `service` refers to when the filter runs (`none`:
    unbound), the object is the target; `none` as value: the evaluation raises an error. -/
abbrev PFilter := Option Obj → Obj → Option Bool

/-- One element of `ApiUser.permissions`: a plain string (no filter) or `{permission, filter}`. -/
structure Perm where
  pattern : String
  filter : Option PFilter

abbrev User := List Perm

/-- The registered objects of all types, in `ConfigType::GetObjects()` order. -/
abbrev Inventory := List Obj

/-- The user-supplied `filter` of a query. -/
structure UFilter where
  /-- sandboxed evaluation on an object (with `filter_vars` bound); `none`: the evaluation raises an error
      (a filter text that does not compile becomes an expression that raises when evaluated:
      `ConfigCompiler::CompileStream`, lib/config/configcompiler.cpp:244-250) -/
  pred : Obj → Option Bool
  /-- `ApplyRule::GetTargetHosts/GetTargetServices` recognise the filter as a disjunction of name
      comparisons and yield these (full) object names (filterutility.cpp:318-360) -/
  fast : Option (List String)

/-- The query dictionary, as `GetFilterTargets` reads it. -/
structure Query where
  /-- key `lower(type)` ↦ name (after `GetLastParameter`) -/
  single : List (String × String) := []
  /-- key `lower(pluralName(type))` ↦ array of names -/
  plural : List (String × List String) := []
  /-- key `type` -/
  type : Option String := none
  /-- `provider->IsValidType(type)` for that value (input: the set of config types is not modelled) -/
  typeValid : Bool := false
  /-- key `filter` (+ `filter_vars`) -/
  filter : Option UFilter := none

structure QD where
  /-- `qd.Types` in `std::set` order -/
  types : List String
  permission : String
  /-- the provider is the default `ConfigObjectTargetProvider` (filterutility.cpp:318) -/
  cfgProvider : Bool := true

inductive Err
  | permission            -- "Missing permission: …"                         :238
  | notFound              -- "Object does not exist."                        :51
  | denied                -- "Access denied to object '…' of type '…'"       :271, :287
  | typeRequired          -- "Type must be specified when using a filter."   :297
  | invalidType           -- "Invalid type specified."                       :302
  | wrongType             -- "Invalid type specified for this query."        :305
  | other                 -- a filter raises an error when evaluated         :161-162
  deriving DecidableEq, Repr

/-- Calls made on the `TargetProvider` (plus, for the fast path, on the config type's name index). -/
inductive Access
  | byName (type name : String)     -- GetTargetByName   :268, :284
  | pluralName (type : String)      -- GetPluralName     :276
  | validType (type : String)       -- IsValidType       :301
  | findAll (type : String)         -- FindTargets       :377, :385
  | fastGet (type name : String)    -- ctype->GetObject  :334, :350
  deriving DecidableEq, Repr

structure Outcome where
  result : Except Err (List Obj)
  log : List Access

/-! ## HasPermission / CheckPermission (filterutility.cpp:182-240) -/

/-- :208 `Utility::Match(permission, requiredPermission)` on the lower-cased strings. -/
def permMatches (required : String) (p : Perm) : Bool := wildMatch p.pattern required

/-- :187-188 an empty required permission is granted; otherwise :211 `foundPermission` — some entry matches. -/
def hasPermission (u : User) (required : String) : Bool :=
  required == "" || u.any (permMatches required)

/-- :213-223 the filters of the matching entries *that have one*, in order; they are OR-ed.  A matching
    entry without a filter adds nothing.  `[]` is the null `permissionFilter`. -/
def permissionFilters (u : User) (required : String) : List PFilter :=
  if required == "" then [] else
  (u.filter (permMatches required)).filterMap (·.filter)

/-- `f1.call(this) || f2.call(this) || …` (:222, LogicalOrExpression): left to right, the first true operand
    decides, an operand that raises ends the evaluation with that error. -/
def orAny : List PFilter → Option Obj → Obj → Option Bool
  | [], _, _ => some false
  | f :: fs, b, o =>
    match f b o with
    | none => none
    | some true => some true
    | some false => orAny fs b o

/-- EvaluateFilter (:71-75: `if (!filter) return true`) applied to the OR-chain built above. -/
def pfVal (fs : List PFilter) (b : Option Obj) (o : Obj) : Option Bool :=
  if fs.isEmpty then some true else orAny fs b o

/-! ## The permission frame (filterutility.cpp:71-117, 143-156, 256-257)

  EvaluateFilter binds `obj`, `lower(type)` (:99-100) and one name per navigation field of the target's
  type (:102-114, a null join is bound to null), then evaluates.  For the object kinds of the inventory —
  Host and Service, which have the same navigation fields except Service's `host` — every name is rebound
  at every visit except `service`: it is bound only by visiting a Service and nothing unbinds it.  The
  frame is therefore represented by the current binding of `service`. -/

/-- The binding of `service` after EvaluateFilter has bound the names for target `o` in a frame where it
    was `st`. -/
def bindSvc (st : Option Obj) (o : Obj) : Option Obj := if o.type == "Service" then some o else st

/-- The binding the permission filter of `o` sees: with `shared` whatever earlier visits left,
    with a namespace of its own per object (:153) nothing. -/
def frameFor (shared : Bool) (st : Option Obj) (o : Obj) : Option Obj :=
  bindSvc (if shared then st else none) o

/-- The permission filter evaluated on `o` alone (fresh frame): what "the filter is true for the object"
    means in the property. -/
def pfIso (fs : List PFilter) (o : Obj) : Option Bool := pfVal fs (bindSvc none o) o

/-! ## GetFilterTargets (filterutility.cpp:242-392) -/

def lookup (inv : Inventory) (type name : String) : Option Obj :=
  inv.find? (fun o => o.type == type && o.name == name)

def ofType (inv : Inventory) (type : String) : List Obj :=
  inv.filter (fun o => o.type == type)

/-- The by-name part of the loop over `qd.Types` (:259-293), flattened: for each type the single name
    (:266-274), the `GetPluralName` call (:276), the names of the plural list (:279-292). -/
inductive Step
  | get (type name : String)
  | plural (type : String)
  deriving DecidableEq, Repr

def namedSteps (types : List String) (q : Query) : List Step :=
  types.flatMap fun t =>
    (match q.single.lookup t with | some n => [Step.get t n] | none => [])
      ++ [Step.plural t]
      ++ (match q.plural.lookup t with | some ns => ns.map (Step.get t) | none => [])

/-- The objects a query addresses by name: `(type, name)` in the order the code looks them up. -/
def namedRequests (types : List String) (q : Query) : List (String × String) :=
  (namedSteps types q).filterMap fun | .get t n => some (t, n) | .plural _ => none

/-- Result, provider calls, and the frame left behind. -/
structure Named where
  result : Except Err (List Obj)
  log : List Access
  frame : Option Obj

/-- :268-273 and :284-289: look the object up (missing ⇒ the provider throws), evaluate the permission
    filter in the frame (false ⇒ "Access denied" is thrown, an error raised by the filter propagates),
    otherwise append.  An exception ends everything. -/
def runNamed (shared : Bool) (fs : List PFilter) (inv : Inventory) : List Step → Option Obj → Named
  | [], st => ⟨.ok [], [], st⟩
  | .plural t :: rest, st =>
    let r := runNamed shared fs inv rest st
    ⟨r.result, .pluralName t :: r.log, r.frame⟩
  | .get t n :: rest, st =>
    match lookup inv t n with
    | none => ⟨.error .notFound, [.byName t n], st⟩
    | some o =>
      let st' := frameFor shared st o
      match pfVal fs st' o with
      | none => ⟨.error .other, [.byName t n], st'⟩
      | some false => ⟨.error .denied, [.byName t n], st'⟩
      | some true =>
        let r := runNamed shared fs inv rest st'
        ⟨r.result.map (o :: ·), .byName t n :: r.log, r.frame⟩

/-- FilteredAddTarget (:158-166) over the objects a provider enumerates, or the loop :362-368 over the
    fast-path targets (`uf := fun _ => some true`): the permission filter in the frame first, then the user
    filter; an error raised by either ends the whole call. -/
def visitAll (shared : Bool) (fs : List PFilter) (uf : Obj → Option Bool) : List Obj → Option Obj → Except Err (List Obj)
  | [], _ => .ok []
  | o :: rest, st =>
    let st' := frameFor shared st o
    match pfVal fs st' o with
    | none => .error .other
    | some false => visitAll shared fs uf rest st'
    | some true =>
      match uf o with
      | none => .error .other
      | some b => (visitAll shared fs uf rest st').map (fun l => if b then o :: l else l)

/-- :318, :325, :341 the fast path is taken only with the default provider, for type Host or Service,
    when the recogniser accepted the filter. -/
def fastNames (qd : QD) (t : String) (uf : UFilter) : Option (List String) :=
  if qd.cfgProvider && (t == "Host" || t == "Service") then uf.fast else none

/-- :295-390 the part entered when the query has a `filter` or nothing was addressed by name; `st` is the
    frame the by-name part left behind. -/
def phase2 (shared : Bool) (fs : List PFilter) (qd : QD) (q : Query) (inv : Inventory) (st : Option Obj) :
    Except Err (List Obj) × List Access :=
  match q.type with
  | none => (.error .typeRequired, [])                                         -- :296-297
  | some t =>
    if !q.typeValid then (.error .invalidType, [.validType t])                 -- :301-302
    else if !qd.types.contains t then (.error .wrongType, [.validType t])      -- :304-305
    else match q.filter with
      | none =>                                                                -- :381-388
        (visitAll shared fs (fun _ => some true) (ofType inv t) st, [.validType t, .findAll t])
      | some uf =>
        match fastNames qd t uf with
          | some names =>                                                      -- :328-340, :344-356, :362-368
            (visitAll shared fs (fun _ => some true) (names.filterMap (lookup inv t)) st,
              .validType t :: names.map (.fastGet t))
          | none =>                                                            -- :369-380
            (visitAll shared fs uf.pred (ofType inv t) st, [.validType t, .findAll t])

/-- `shared = true`: the permission frame keeps its namespace for the whole request (the code before bce4be0);
    `shared = false`: EvaluatePermissionFilter replaces the namespace before every object (:153). -/
def filterTargetsWith (shared : Bool) (u : User) (qd : QD) (q : Query) (inv : Inventory) : Outcome :=
  if !hasPermission u qd.permission then ⟨.error .permission, []⟩              -- :253-254, :235-240
  else
    let fs := permissionFilters u qd.permission
    let r1 := runNamed shared fs inv (namedSteps qd.types q) none              -- :256-257 a new, empty frame
    match r1.result with
    | .error e => ⟨.error e, r1.log⟩
    | .ok named =>
      if q.filter.isSome || named.isEmpty then                                  -- :295
        let r2 := phase2 shared fs qd q inv r1.frame
        match r2.1 with
        | .error e => ⟨.error e, r1.log ++ r2.2⟩
        | .ok found => ⟨.ok (named ++ found), r1.log ++ r2.2⟩
      else ⟨.ok named, r1.log⟩

/-- FilterUtility::GetFilterTargets as it is. -/
def filterTargets (u : User) (qd : QD) (q : Query) (inv : Inventory) : Outcome :=
  filterTargetsWith false u qd q inv

/-- The variant before the repair of F-C18a (kept for the statements about it). -/
def filterTargetsUnrepaired (u : User) (qd : QD) (q : Query) (inv : Inventory) : Outcome :=
  filterTargetsWith true u qd q inv

/-- What ObjectQueryHandler does for a joined object (objectqueryhandler.cpp:262-299): HasPermission,
    then EvaluateFilter of the resulting permission filter on the object in a frame of its own (:282); a
    ScriptError counts as "not allowed" (:286-288). -/
def accessGranted (u : User) (required : String) (o : Obj) : Bool :=
  hasPermission u required && pfIso (permissionFilters u required) o == some true

/-- A joined object (objectqueryhandler.cpp:240-313: `host` of a service, `command_endpoint`, `check_period`, … of a
    checkable) is serialized into the response only under the permission `objects/query/<type of the JOINED
    object>` (:262-267) and that permission's filter evaluated on the joined object itself (:279-299).  The
    verdict is cached per joined object (:277, :291); a function of the object needs no cache. -/
def joinIncluded (u : User) (joined : Obj) : Bool :=
  accessGranted u ("objects/query/" ++ joined.type) joined

/-! ## The object handlers around GetFilterTargets (second, narrower layer of the correspondence) -/

/-- objectqueryhandler.cpp:117-119 (`query`), modifyobjecthandler.cpp:42-44 (`modify`),
    deleteobjecthandler.cpp:44-46 (`delete`): one type, permission `objects/<verb>/<Type>`, default provider. -/
def handlerQD (verb type : String) : QD :=
  { types := [type], permission := "objects/" ++ verb ++ "/" ++ type, cfgProvider := true }

/-- objectqueryhandler.cpp:147-153, modifyobjecthandler.cpp:46-52: `type` is forced to the URL's type, a name
    in the URL path is stored under `lower(type)` (overriding a request parameter of that name). -/
def handlerQuery (type : String) (pathName : Option String) (q : Query) : Query :=
  { q with type := some type, typeValid := true,
           single := match pathName with | some n => (type, n) :: q.single | none => q.single }

def handlerTargets (u : User) (verb type : String) (pathName : Option String) (q : Query) (inv : Inventory) :
    Except Err (List Obj) :=
  (filterTargets u (handlerQD verb type) (handlerQuery type pathName q) inv).result

/-- objectqueryhandler.cpp:159-166, 332-333: any exception of GetFilterTargets ⇒ 404, otherwise 200. -/
def httpStatus : Except Err (List Obj) → Nat
  | .ok _ => 200
  | .error _ => 404

/-- deleteobjecthandler.cpp:58-65, 83-91, 114-117 for objects that were *not* created through the API
    (configobjectutility.cpp:386-391 refuses them): 500 as soon as one target exists. -/
def deleteStatusNonApi : Except Err (List Obj) → Nat
  | .ok [] => 200
  | .ok _ => 500
  | .error _ => 404

/-- actionshandler.cpp:47-69: the action's types (here Host and Service), permission `actions/<name>`,
    `type` and the names come from the request; no target ⇒ 404. -/
def actionQD (action : String) : QD :=
  { types := ["Host", "Service"], permission := "actions/" ++ action, cfgProvider := true }

def actionQuery (type : String) (name : Option String) (q : Query) : Query :=
  { q with type := some type, typeValid := true,
           single := match name with | some n => (type, n) :: q.single | none => q.single }

def actionStatus : Except Err (List Obj) → Nat
  | .ok [] => 404
  | .ok _ => 200
  | .error _ => 404

/-- Required permission of the handlers whose targets are not config objects (checked against the source by
    the generated table IcingaProofs/Gen/Permissions.lean). -/
def handlerPermission : String → Option String
  | "templates" => some "templates/query/Host"   -- templatequeryhandler.cpp:106, for /v1/templates/hosts
  | "variables" => some "variables"              -- variablequeryhandler.cpp:80
  | "types" => some "types"                      -- typequeryhandler.cpp:70
  | "status" => some "status/query"              -- statushandler.cpp:93
  | "console" => some "console"                  -- consolehandler.cpp:81
  | "cfgpackages" => some "config/query"         -- configpackageshandler.cpp:51 (GET /v1/config/packages)
  | "cfgcreate" => some "config/modify"          -- configpackageshandler.cpp:101 (POST /v1/config/packages/<name>)
  | "debug" => some "debug"                      -- mallocinfohandler.cpp:41
  | "act:shutdown-process" => some "actions/shutdown-process"   -- actionshandler.cpp:52, 72: an action without types
  | "act:restart-process" => some "actions/restart-process"
  | "act:generate-ticket" => some "actions/generate-ticket"
  | _ => none

/-- The handlers that call `CheckPermission(user, perm)` WITHOUT a filter pointer (filterutility.cpp:213 `filter &&
    permissionFilter`: the filters of the matching entries are then not even collected): consolehandler.cpp:81,
    config*handler.cpp, mallocinfohandler.cpp:41, actionshandler.cpp:72 (actions without types).  They have no target
    object on which a filter could be evaluated; a matching entry grants, filtered or not. -/
def bareCheck (kind : String) : Bool :=
  kind == "console" || kind == "cfgpackages" || kind == "cfgcreate" || kind == "debug" || kind.startsWith "act:"

/-- What the model and the harness assume about the permission checks found in the source (the generated
    table `Gen.handlerPermissions`: normalised expressions, non-literal operands as `<>`): the strings used for
    the dispatched handlers occur in it, and no check asks for the empty permission.  Further entries (new
    handlers), their order and the files they live in are of no concern. -/
def usedPermissionExprs : List String :=
  ["objects/query/<>", "objects/modify/<>", "objects/delete/<>", "actions/<>", "templates/query/<>",
   "variables", "types", "status/query", "console", "objects/create/<>", "config/query", "config/modify", "debug"]

def permissionTableOk (table : List String) : Bool :=
  usedPermissionExprs.all table.contains && table.all (· != "")

/-- CheckPermission at the head of these handlers: no matching entry ⇒ the request fails (404). -/
def grantStatus (u : User) (perm : String) : Nat := if hasPermission u perm then 200 else 404

/-! ## Further entry points (round 3) -/

/-- actionshandler.cpp:47-58 with the action's registered types (apiactions.cpp:27-40: `Service;Host`, for
    remove-comment / remove-downtime also `Comment` / `Downtime`) in `std::set` order. -/
def actionQDT (action : String) (types : List String) : QD :=
  { types := types, permission := "actions/" ++ action, cfgProvider := true }

/-- ApiActions::GetSingleObjectByNameUsingPermissions (apiactions.cpp:632-655), the by-name lookup execute-command
    uses for the endpoint, the command, the user and the notification it is told to use: the query
    `{type: T, lower(T): name}` (:634-636), one type, permission `objects/query/T` (:638-640). -/
def lookupQuery (type name : String) : Query :=
  { single := [(type, name)], type := some type, typeValid := true }

/-- :644-655: any exception of GetFilterTargets and an empty result are "no such object"; otherwise `objs.at(0)`. -/
def lookupByPermission (u : User) (type name : String) (inv : Inventory) : Option Obj :=
  match (filterTargets u (handlerQD "query" type) (lookupQuery type name) inv).result with
  | .ok (o :: _) => some o
  | .ok [] => none
  | .error _ => none

/-- modifyobjecthandler.cpp:56-64, 106-150: the attributes are applied to exactly the objects GetFilterTargets
    returned (one `ModifyAttribute` per object and attribute); when it throws nothing is touched. -/
def modifyChanged (u : User) (type : String) (pathName : Option String) (q : Query) (inv : Inventory) : List Obj :=
  match handlerTargets u "modify" type pathName q inv with
  | .ok objs => objs
  | .error _ => []

/-- createobjecthandler.cpp:44 `FilterUtility::CheckPermission(user, "objects/create/" + type->GetName())` — no filter
    pointer: a matching entry grants the creation of ANY object of the type, whether or not it carries a filter
    (finding F-C18b).  The object is then created from the request (:47-150). -/
def createGranted (u : User) (type : String) : Bool := hasPermission u ("objects/create/" ++ type)

/-! ## Secondary objects (round 4): requests that act on more than their targets

  `deps o`: the objects that go with `o` — the services of a host (`Host::GetServices()`); which these are is the
  registry's business and an input here. -/

/-- DeleteObjectHandler on objects that WERE created through the API (deleteobjecthandler.cpp:83-104,
    ConfigObjectUtility::DeleteObjectHelper, configobjectutility.cpp:320-345): every target is deleted; a target with
    dependents is refused without `cascade` (the loop goes on with the next target) and with `cascade` its dependents are
    deleted first — for them neither a permission nor a filter is consulted (finding F-C18c). -/
def deleteGone (u : User) (type : String) (pathName : Option String) (q : Query) (inv : Inventory)
    (deps : Obj → List Obj) (cascade : Bool) : List Obj :=
  match handlerTargets u "delete" type pathName q inv with
  | .error _ => []
  | .ok objs => if cascade then objs.flatMap (fun o => o :: deps o) else objs.filter (fun o => (deps o).isEmpty)

/-- deleteobjecthandler.cpp:58-65, 114-117: 404 when GetFilterTargets throws, 500 as soon as one deletion was refused. -/
def deleteStatusApi (deps : Obj → List Obj) (cascade : Bool) : Except Err (List Obj) → Nat
  | .ok objs => if !cascade && objs.any (fun o => !(deps o).isEmpty) then 500 else 200
  | .error _ => 404

/-- schedule-downtime with `all_services` (apiactions.cpp:444-466): the handler invokes the action on every target; for a
    target that is a host every service of the host gets a downtime as well — again without looking at the user. -/
def downtimeActed (u : User) (types : List String) (q : Query) (inv : Inventory) (deps : Obj → List Obj) : List Obj :=
  match (filterTargets u (actionQDT "schedule-downtime" types) q inv).result with
  | .error _ => []
  | .ok objs => objs.flatMap (fun o => o :: deps o)

/-! ## Every registered URL handler checks a permission (round 4)

  `Gen.urlHandlerChecks` (regenerated from `/repo/lib` on every run by gen/c18_permissions.py): one row per `Handle*`
  method of every class registered with REGISTER_URLHANDLER — the permission expressions checked in its body
  (`qd.Permission = …`, `CheckPermission(user, …)`, `HasPermission(user, …)`), in source order, and whether the body calls
  another `Handle*` method (the config handlers' HandleRequest only dispatches on the HTTP verb to HandleGet / HandlePost /
  HandleDelete, each of which checks for itself). -/

/-- infohandler.cpp: `/` and `/v1` answer with the user's OWN permission list; no object is read or changed. -/
def handlersWithoutPermission : List String := ["InfoHandler"]

/-- Every method that handles a request itself contains a permission check, and no check asks for the empty permission. -/
def handlerChecksOk (table : List (String × String × List String × Bool)) : Bool :=
  table.all fun row =>
    (handlersWithoutPermission.contains row.1 || row.2.2.2 || !row.2.2.1.isEmpty) && row.2.2.1.all (· != "")

/-- all permission expressions checked anywhere in the `Handle*` methods of a class -/
def classChecks (table : List (String × String × List String × Bool)) (cls : String) : List String :=
  (table.filter (·.1 == cls)).flatMap (·.2.2.1)

/-- The permission each handler class must ask for — what the model (`handlerQD`, `actionQD`, `createGranted`,
    `handlerPermission`) and the harness assume per entry point. -/
def expectedClassChecks : List (String × String) :=
  [("ObjectQueryHandler", "objects/query/<>"), ("ModifyObjectHandler", "objects/modify/<>"),
   ("DeleteObjectHandler", "objects/delete/<>"), ("CreateObjectHandler", "objects/create/<>"),
   ("ActionsHandler", "actions/<>"), ("TemplateQueryHandler", "templates/query/<>"),
   ("VariableQueryHandler", "variables"), ("TypeQueryHandler", "types"), ("StatusHandler", "status/query"),
   ("ConsoleHandler", "console"), ("MallocInfoHandler", "debug"), ("EventsHandler", "events/<>"),
   ("ConfigPackagesHandler", "config/query"), ("ConfigPackagesHandler", "config/modify"),
   ("ConfigStagesHandler", "config/query"), ("ConfigStagesHandler", "config/modify"),
   ("ConfigFilesHandler", "config/query")]

def handlerTableOk (registered : List String) (table : List (String × String × List String × Bool)) : Bool :=
  handlerChecksOk table &&
  registered.all (fun c => table.any (·.1 == c)) &&                       -- a body was found for every registered class
  expectedClassChecks.all (fun ce => (classChecks table ce.1).contains ce.2) &&
  -- a handler class that is not known here (a new one) must check something in some method
  registered.all (fun c => handlersWithoutPermission.contains c || !(classChecks table c).isEmpty)

/-! ## Whole traces (round 4): requests of every entry point against a user and an inventory that CHANGE between requests -/

/-- One request, by entry point. -/
inductive Request
  | targets (qd : QD) (q : Query)                                            -- FilterUtility::GetFilterTargets
  | object (verb type : String) (pathName : Option String) (q : Query)       -- GET/POST/DELETE /v1/objects/<type>[/<name>]
  | action (name : String) (types : List String) (q : Query)                 -- POST /v1/actions/<name>
  | modify (type : String) (pathName : Option String) (q : Query)            -- POST /v1/objects/…: which objects change
  | lookup (type name : String)                                              -- GetSingleObjectByNameUsingPermissions
  | join (joined : Obj)                                                      -- a joined object of a query response
  | access (perm : String) (o : Obj)                                         -- HasPermission + EvaluateFilter on one object
  | bare (perm : String)                                                     -- CheckPermission(user, perm)

inductive Response
  | targets (result : Except Err (List Obj)) (log : List Access)
  | changed (objs : List Obj)
  | found (o : Option Obj)
  | granted (b : Bool)

/-- The code takes every decision from the user's permission list and the registry AS THEY ARE when the request arrives:
    nothing is remembered from one request to the next (HasPermission reads `user->GetPermissions()` each time,
    filterutility.cpp:193). -/
def runRequest (u : User) (inv : Inventory) : Request → Response
  | .targets qd q => .targets (filterTargets u qd q inv).result (filterTargets u qd q inv).log
  | .object verb type pn q =>
    .targets (filterTargets u (handlerQD verb type) (handlerQuery type pn q) inv).result
             (filterTargets u (handlerQD verb type) (handlerQuery type pn q) inv).log
  | .action name types q => .targets (filterTargets u (actionQDT name types) q inv).result (filterTargets u (actionQDT name types) q inv).log
  | .modify type pn q => .changed (modifyChanged u type pn q inv)
  | .lookup t n => .found (lookupByPermission u t n inv)
  | .join j => .granted (joinIncluded u j)
  | .access perm o => .granted (accessGranted u perm o)
  | .bare perm => .granted (hasPermission u perm)

structure World where
  user : User
  inv : Inventory

inductive Op
  | setUser (u : User)               -- `permissions` modified at runtime, or the ApiUser deleted and re-created
  | setInventory (inv : Inventory)   -- objects created / deleted
  | request (r : Request)

/-- what is observed of one request: the world it met, the request, the answer -/
structure Event where
  world : World
  request : Request
  response : Response

def runTrace : World → List Op → List Event
  | _, [] => []
  | w, .setUser u :: ops => runTrace { w with user := u } ops
  | w, .setInventory i :: ops => runTrace { w with inv := i } ops
  | w, .request r :: ops => ⟨w, r, runRequest w.user w.inv r⟩ :: runTrace w ops

/-! ## Authentication (lib/remote/apiuser.cpp:13-58): to which ApiUser is a request attributed? -/

structure AUser where
  name : String
  password : String
  clientCN : String
  deriving DecidableEq, Repr

/-- `FindFirstOf(c)` + the two `SubStr`s (:26, :33): the text before and after the first `c`. -/
def splitAtFirst (c : Char) : List Char → Option (List Char × List Char)
  | [] => none
  | x :: xs => if x == c then some ([], xs) else (splitAtFirst c xs).map fun ab => (x :: ab.1, ab.2)

/-- :26-40: user name and password presented by an `Authorization` header.  `decoded`: what `Base64::Decode`
    (OpenSSL) makes of the text after the first blank — `none`: it throws; consulted only for the scheme
    `Basic`.  Outer `none`: the exception leaves GetByAuthHeader.  No colon, another scheme, no blank: both
    empty. -/
def credentialsOf (header : String) (decoded : Option String) : Option (String × String) :=
  match splitAtFirst ' ' header.toList with
  | some (scheme, _) =>
    if String.ofList scheme == "Basic" then
      match decoded with
      | none => none
      | some cred =>
        match splitAtFirst ':' cred.toList with
        | some (u, p) => some (String.ofList u, String.ofList p)
        | none => some ("", "")
    else some ("", "")
  | none => some ("", "")

inductive AuthResult
  | user (u : AUser)
  | nobody
  | throws
  deriving DecidableEq, Repr

/-- ApiUser::GetByAuthHeader (:24-58): the user of that name (:42), refused when there is none or the GIVEN
    password is empty (:49-50) or it differs from the configured one (:51-52, Utility::ComparePasswords is
    equality in constant time). -/
def authByHeader (users : List AUser) (header : String) (decoded : Option String) : AuthResult :=
  match credentialsOf header decoded with
  | none => .throws
  | some (username, password) =>
    match users.find? (·.name == username) with
    | none => .nobody
    | some u => if password == "" then .nobody else if password == u.password then .user u else .nobody

/-- ApiUser::GetByClientCN (:13-22) returns the first ApiUser, in the order the type enumerates its objects, whose
    `client_cn` equals the CN; which one that is among several is the registry's business, so the model yields the
    candidates. -/
def authByCN (users : List AUser) (cn : String) : List AUser := users.filter (·.clientCN == cn)

/-- HttpServerConnection's constructor (httpserverconnection.cpp:47-49): the connection carries the ApiUser whose
    `client_cn` is the peer's identity ONLY when the TLS layer verified the peer's certificate (`authenticated`);
    otherwise none, and every request has to present an Authorization header (:510-514).  Candidates as in `authByCN`. -/
def connUser (users : List AUser) (identity : String) (authenticated : Bool) : List AUser :=
  if authenticated then authByCN users identity else []

end Icinga.C18

/-
  C18 — the property as an executable predicate over what was *observed* for one request:
  the user, the required permission, the query, the inventory, and the outcome (returned objects or an
  error, plus — when the provider was instrumented — the list of provider calls).  It never runs the
  model's `filterTargets`; the driver evaluates it on the implementation's own observations and the
  theorems in IcingaProofs/C18.lean show that every outcome of the model satisfies it.

  properties.jsonl, C18: "An API user can act on an object only if one of the user's permissions matches
  the permission the request requires (case-insensitively, with wildcards) and, when that permission
  carries a filter, only on objects for which the filter is true - no matter whether the objects are
  addressed by name, by a list of names, by a user-supplied filter expression or not at all.  A request for
  which no permission matches is rejected before any object is read or changed, and addressing a forbidden
  object by name yields an error rather than the object."
-/
import IcingaModel.C18.Model

namespace Icinga.C18

/-- The user may act on `o` under the required permission `perm`: some entry matches `perm` and has no
    filter, or its filter is true of `o` — evaluated on `o` alone, i.e. in a frame that holds nothing but
    what evaluation binds for `o` itself (`bindSvc none o`); a filter that raises an error is not true. -/
def Allowed (u : User) (perm : String) (o : Obj) : Prop :=
  ∃ p ∈ u, wildMatch p.pattern perm = true ∧
    (p.filter = none ∨ ∃ f, p.filter = some f ∧ f (bindSvc none o) o = some true)

def permAllows (perm : String) (o : Obj) (p : Perm) : Bool :=
  wildMatch p.pattern perm && (match p.filter with | none => true | some f => f (bindSvc none o) o == some true)

/-- Every permission filter of the user reads only names that evaluation binds for the visited object
    itself: its value on `o` does not depend on what earlier visits left in the frame. -/
def FrameIndependent (u : User) : Prop :=
  ∀ p ∈ u, ∀ f, p.filter = some f → ∀ st o, f (bindSvc st o) o = f (bindSvc none o) o

/-- The situations in which the permission filter of every visited object is evaluated as if alone:
    a fresh frame per object (the repaired code), frame-independent filters, or a request that can only
    visit objects of one kind with respect to the `service` binding (no Service at all, or only Services —
    in particular every single-type QueryDescription: object query / modify / delete). -/
def IsoVisit (shared : Bool) (types : List String) (u : User) : Prop :=
  shared = false ∨ FrameIndependent u ∨ (∀ t ∈ types, t ≠ "Service") ∨ (∀ t ∈ types, t = "Service")

/-- `Allowed`, executable. -/
def allowedB (u : User) (perm : String) (o : Obj) : Bool := u.any (permAllows perm o)

/-- Some entry of the user matches the required permission. -/
def someMatch (u : User) (perm : String) : Bool := u.any (fun p => wildMatch p.pattern perm)

/-- What is observed of one `GetFilterTargets` call. `log = none`: provider not instrumented. -/
structure Obs where
  result : Except Err (List Obj)
  log : Option (List Access)

inductive Clause
  | rejectedFirst | returnedExists | returnedAllowed | forbiddenByName | grantedAllowed | grantNeedsMatch
  | orderIndependent | joinedAllowed | attributedWithoutCredential
  | createdAllowed | changedAllowed | lookupNamed
  deriving DecidableEq, Repr

def Clause.name : Clause → String
  | .rejectedFirst => "no_permission_rejects_first"
  | .returnedExists => "returned_object_is_registered"
  | .returnedAllowed => "targets_subset_allowed"
  | .forbiddenByName => "forbidden_by_name_is_error"
  | .grantedAllowed => "granted_access_is_allowed"
  | .grantNeedsMatch => "grant_needs_matching_permission"
  | .orderIndependent => "result_independent_of_visit_order"
  | .joinedAllowed => "joined_objects_allowed"
  | .attributedWithoutCredential => "attributed_only_with_credential"
  | .createdAllowed => "created_object_is_allowed"
  | .changedAllowed => "changed_objects_allowed"
  | .lookupNamed => "lookup_returns_the_named_object"

/-- "rejected": the request failed.  Which error object or message the code uses for it is not part of the
    property (the model's `Err.permission` is finer than what is observed). -/
def isRejected : Except Err (List Obj) → Bool
  | .error _ => true
  | .ok _ => false

def logEmpty : Option (List Access) → Bool
  | none => true
  | some l => l.isEmpty

/-- An existing object addressed by name (single or in a plural list) that the user is not allowed. -/
def forbiddenNamed (u : User) (perm : String) (types : List String) (q : Query) (inv : Inventory) : Bool :=
  (namedRequests types q).any fun tn =>
    match lookup inv tn.1 tn.2 with
    | some o => !allowedB u perm o
    | none => false

/-- The property for one request that requires a (non-empty) permission. -/
def specQuery (u : User) (qd : QD) (q : Query) (inv : Inventory) (obs : Obs) : Option Clause :=
  if qd.permission == "" then none          -- the request requires no permission: nothing to enforce
  else if !someMatch u qd.permission then
    -- rejected, and before any object was looked at
    if isRejected obs.result && logEmpty obs.log then none else some .rejectedFirst
  else match obs.result with
    | .error _ => none
    | .ok objs =>
      if objs.any (fun o => !inv.contains o) then some .returnedExists
      else if objs.any (fun o => !allowedB u qd.permission o) then some .returnedAllowed
      else if forbiddenNamed u qd.permission qd.types q inv then some .forbiddenByName
      else none

/-- The property for a per-object access decision (joined objects): granted only if allowed. -/
def specAccess (u : User) (perm : String) (o : Obj) (granted : Bool) : Option Clause :=
  if perm == "" then none
  else if granted && !allowedB u perm o then some .grantedAllowed else none

/-- Joined objects are an access path of their own: every joined object serialized in a response is of a type the
    user may query and passes that permission's filter. -/
def specJoin (u : User) (joined : Obj) (serialized : Bool) : Option Clause :=
  if serialized && !allowedB u ("objects/query/" ++ joined.type) joined then some .joinedAllowed else none

/-- "A request is attributed to user U only if it presents U's non-empty password …" -/
def specAuthHeader (header : String) (decoded : Option String) (attributed : Option AUser) : Option Clause :=
  match attributed with
  | none => none
  | some u =>
    match credentialsOf header decoded with
    | some (name, pw) =>
      if name == u.name && pw != "" && pw == u.password then none else some .attributedWithoutCredential
    | none => some .attributedWithoutCredential

/-- "… or U's client CN" (the CN of the verified client certificate). -/
def specAuthCN (cn : String) (attributed : Option AUser) : Option Clause :=
  match attributed with
  | none => none
  | some u => if u.clientCN == cn then none else some .attributedWithoutCredential

/-- The property for a bare permission check: granted only if some entry matches. -/
def specGrant (u : User) (perm : String) (granted : Bool) : Option Clause :=
  if perm == "" then none
  else if granted && !someMatch u perm then some .grantNeedsMatch else none

/-- "can act on an object only if …": the objects a request CHANGED (read off the whole inventory after the request,
    not off the response) are all allowed, and a request for which no permission matches changes nothing. -/
def specChanged (u : User) (perm : String) (changed : List Obj) : Option Clause :=
  if perm == "" then none
  else if !someMatch u perm then (if changed.isEmpty then none else some .rejectedFirst)
  else if changed.any (fun o => !allowedB u perm o) then some .changedAllowed
  else none

/-- The by-name lookup of execute-command (endpoint, command, user, notification): whatever it hands out is the
    registered object of that type and name, and one the user may query — "addressing a forbidden object by name
    yields an error rather than the object", and rather than some other object. -/
def specLookup (u : User) (type name : String) (inv : Inventory) (returned : Option Obj) : Option Clause :=
  match returned with
  | none => none
  | some o =>
    if !someMatch u ("objects/query/" ++ type) then some .rejectedFirst
    else if o.type != type || o.name != name then some .lookupNamed
    else if !inv.contains o then some .returnedExists
    else if !allowedB u ("objects/query/" ++ type) o then some .returnedAllowed
    else none

/-- Creating an object is acting on it: it happens only if some entry matches `objects/create/<Type>` and, when that
    entry carries a filter, the filter is true of the object that comes into being.  `o` is the new object, the
    user's filters are total on it (the harness evaluates them on the created object). -/
def specCreate (u : User) (type : String) (o : Obj) (created : Bool) : Option Clause :=
  if !created then none
  else if !someMatch u ("objects/create/" ++ type) then some .rejectedFirst
  else if !allowedB u ("objects/create/" ++ type) o then some .createdAllowed
  else none

/-- Two outcomes agree up to the order of the returned objects (which error was raised first may depend on
    the order in which names are visited; whether the request fails may not). -/
def sameOutcome : Except Err (List Obj) → Except Err (List Obj) → Bool
  | .ok a, .ok b => a.isPerm b
  | .error _, .error _ => true
  | _, _ => false

/-- The property speaks of *objects*, not of requests: whether the user may act on an object must not depend
    on which other objects the same request visits before it.  Observable form: the same request with the
    names of a plural list permuted has the same outcome. -/
def specOrder (r1 r2 : Except Err (List Obj)) : Option Clause :=
  if sameOutcome r1 r2 then none else some .orderIndependent

/-! ### Declarative meaning of the wildcard language (for `wildcard_match_spec`) -/

/-- `Denotes ts s`: the text `s` is in the language of the mask `ts`. -/
inductive Denotes : List Tok → List Char → Prop
  | nil : Denotes [] []
  | star (pre : List Char) {ts s} : Denotes ts s → Denotes (.star :: ts) (pre ++ s)
  | any (d : Char) {ts s} : Denotes ts s → Denotes (.any :: ts) (d :: s)
  | lit {c d : Char} {ts s} : d.toLower = c.toLower → Denotes ts s → Denotes (.lit c :: ts) (d :: s)

end Icinga.C18

/-
  C18 — the property as an executable predicate over what was *observed* for one request:
  the user, the required permission, the query, the inventory, and the outcome (returned objects or an
  error, plus — when the provider was instrumented — the list of provider calls).  It never runs the
  model's `filterTargets`; the driver evaluates it on the implementation's own observations and the
  theorems in IcingaProofs/C18.lean show that every outcome of the model satisfies it.

  properties.jsonl, C18: "An API user can act on an object only if one of the user's permissions matches
  the permission the request requires (case-insensitively, with wildcards) and, when that permission
  carries a filter, only on objects for which the filter is true - no matter whether the objects are
  addressed by name, by a list of names, by a user-supplied filter expression or not at all.  A request for
  which no permission matches is rejected before any object is read or changed, and addressing a forbidden
  object by name yields an error rather than the object."
-/
import IcingaModel.C18.Model

namespace Icinga.C18

/-- The user may act on `o` under the required permission `perm`: some entry matches `perm` and has no
    filter, or its filter is true of `o` — evaluated on `o` alone, i.e. in a frame that holds nothing but
    what evaluation binds for `o` itself (`bindSvc none o`); a filter that raises an error is not true. -/
def Allowed (u : User) (perm : String) (o : Obj) : Prop :=
  ∃ p ∈ u, wildMatch p.pattern perm = true ∧
    (p.filter = none ∨ ∃ f, p.filter = some f ∧ f (bindSvc none o) o = some true)

def permAllows (perm : String) (o : Obj) (p : Perm) : Bool :=
  wildMatch p.pattern perm && (match p.filter with | none => true | some f => f (bindSvc none o) o == some true)

/-- Every permission filter of the user reads only names that evaluation binds for the visited object
    itself: its value on `o` does not depend on what earlier visits left in the frame. -/
def FrameIndependent (u : User) : Prop :=
  ∀ p ∈ u, ∀ f, p.filter = some f → ∀ st o, f (bindSvc st o) o = f (bindSvc none o) o

/-- The situations in which the permission filter of every visited object is evaluated as if alone:
    a fresh frame per object (the repaired code), frame-independent filters, or a request that can only
    visit objects of one kind with respect to the `service` binding (no Service at all, or only Services —
    in particular every single-type QueryDescription: object query / modify / delete). -/
def IsoVisit (shared : Bool) (types : List String) (u : User) : Prop :=
  shared = false ∨ FrameIndependent u ∨ (∀ t ∈ types, t ≠ "Service") ∨ (∀ t ∈ types, t = "Service")

/-- `Allowed`, executable. -/
def allowedB (u : User) (perm : String) (o : Obj) : Bool := u.any (permAllows perm o)

/-- Some entry of the user matches the required permission. -/
def someMatch (u : User) (perm : String) : Bool := u.any (fun p => wildMatch p.pattern perm)

/-- What is observed of one `GetFilterTargets` call. `log = none`: provider not instrumented. -/
structure Obs where
  result : Except Err (List Obj)
  log : Option (List Access)

inductive Clause
  | rejectedFirst | returnedExists | returnedAllowed | forbiddenByName | grantedAllowed | grantNeedsMatch
  | orderIndependent | joinedAllowed | attributedWithoutCredential
  | createdAllowed | changedAllowed | lookupNamed | responseShape | secondaryAllowed
  deriving DecidableEq, Repr

def Clause.name : Clause → String
  | .rejectedFirst => "no_permission_rejects_first"
  | .returnedExists => "returned_object_is_registered"
  | .returnedAllowed => "targets_subset_allowed"
  | .forbiddenByName => "forbidden_by_name_is_error"
  | .grantedAllowed => "granted_access_is_allowed"
  | .grantNeedsMatch => "grant_needs_matching_permission"
  | .orderIndependent => "result_independent_of_visit_order"
  | .joinedAllowed => "joined_objects_allowed"
  | .attributedWithoutCredential => "attributed_only_with_credential"
  | .createdAllowed => "created_object_is_allowed"
  | .changedAllowed => "changed_objects_allowed"
  | .lookupNamed => "lookup_returns_the_named_object"
  | .responseShape => "response_has_the_shape_of_the_request"
  | .secondaryAllowed => "secondary_objects_allowed"

/-- "rejected": the request failed.  Which error object or message the code uses for it is not part of the
    property (the model's `Err.permission` is finer than what is observed). -/
def isRejected : Except Err (List Obj) → Bool
  | .error _ => true
  | .ok _ => false

def logEmpty : Option (List Access) → Bool
  | none => true
  | some l => l.isEmpty

/-- An existing object addressed by name (single or in a plural list) that the user is not allowed. -/
def forbiddenNamed (u : User) (perm : String) (types : List String) (q : Query) (inv : Inventory) : Bool :=
  (namedRequests types q).any fun tn =>
    match lookup inv tn.1 tn.2 with
    | some o => !allowedB u perm o
    | none => false

/-- The property for one request that requires a (non-empty) permission. -/
def specQuery (u : User) (qd : QD) (q : Query) (inv : Inventory) (obs : Obs) : Option Clause :=
  if qd.permission == "" then none          -- the request requires no permission: nothing to enforce
  else if !someMatch u qd.permission then
    -- rejected, and before any object was looked at
    if isRejected obs.result && logEmpty obs.log then none else some .rejectedFirst
  else match obs.result with
    | .error _ => none
    | .ok objs =>
      if objs.any (fun o => !inv.contains o) then some .returnedExists
      else if objs.any (fun o => !allowedB u qd.permission o) then some .returnedAllowed
      else if forbiddenNamed u qd.permission qd.types q inv then some .forbiddenByName
      else none

/-- The property for a per-object access decision (joined objects): granted only if allowed. -/
def specAccess (u : User) (perm : String) (o : Obj) (granted : Bool) : Option Clause :=
  if perm == "" then none
  else if granted && !allowedB u perm o then some .grantedAllowed else none

/-- Joined objects are an access path of their own: every joined object serialized in a response is of a type the
    user may query and passes that permission's filter. -/
def specJoin (u : User) (joined : Obj) (serialized : Bool) : Option Clause :=
  if serialized && !allowedB u ("objects/query/" ++ joined.type) joined then some .joinedAllowed else none

/-- "A request is attributed to user U only if it presents U's non-empty password …" -/
def specAuthHeader (header : String) (decoded : Option String) (attributed : Option AUser) : Option Clause :=
  match attributed with
  | none => none
  | some u =>
    match credentialsOf header decoded with
    | some (name, pw) =>
      if name == u.name && pw != "" && pw == u.password then none else some .attributedWithoutCredential
    | none => some .attributedWithoutCredential

/-- "… or U's client CN" (the CN of the verified client certificate). -/
def specAuthCN (cn : String) (attributed : Option AUser) : Option Clause :=
  match attributed with
  | none => none
  | some u => if u.clientCN == cn then none else some .attributedWithoutCredential

/-- … and only of a certificate the TLS layer VERIFIED: a connection whose peer merely claims an identity carries no
    user. -/
def specConnUser (identity : String) (authenticated : Bool) (attributed : Option AUser) : Option Clause :=
  match attributed with
  | none => none
  | some u => if authenticated && u.clientCN == identity then none else some .attributedWithoutCredential

/-- The property for a bare permission check: granted only if some entry matches. -/
def specGrant (u : User) (perm : String) (granted : Bool) : Option Clause :=
  if perm == "" then none
  else if granted && !someMatch u perm then some .grantNeedsMatch else none

/-- "can act on an object only if …": the objects a request CHANGED (read off the whole inventory after the request,
    not off the response) are all allowed, and a request for which no permission matches changes nothing. -/
def specChanged (u : User) (perm : String) (changed : List Obj) : Option Clause :=
  if perm == "" then none
  else if !someMatch u perm then (if changed.isEmpty then none else some .rejectedFirst)
  else if changed.any (fun o => !allowedB u perm o) then some .changedAllowed
  else none

/-- "can act on an object only if …", for requests that act on more than they address (cascading delete, schedule-downtime
    with all_services): `targets` are the objects the handler obtained for the request, `acted` every object of the whole
    inventory that was deleted / got a downtime, `deps t` the objects that go with `t` in the registry (the services of a
    host).  All objects acted on must be allowed under the permission the request requires.  A forbidden object that is a
    dependent of a target (and not a target itself) is reported under a clause of its own, any other forbidden object —
    a target, or an object that has nothing to do with the targets — under `changed_objects_allowed`. -/
def specActed (u : User) (perm : String) (deps : Obj → List Obj) (targets acted : List Obj) : Option Clause :=
  let isDep (o : Obj) : Bool := !targets.contains o && targets.any (fun t => (deps t).contains o)
  if perm == "" then none
  else if !someMatch u perm then (if acted.isEmpty then none else some .rejectedFirst)
  else if acted.any (fun o => !isDep o && !allowedB u perm o) then some .changedAllowed
  else if acted.any (fun o => isDep o && !allowedB u perm o) then some .secondaryAllowed
  else none

/-- The by-name lookup of execute-command (endpoint, command, user, notification): whatever it hands out is the
    registered object of that type and name, and one the user may query — "addressing a forbidden object by name
    yields an error rather than the object", and rather than some other object. -/
def specLookup (u : User) (type name : String) (inv : Inventory) (returned : Option Obj) : Option Clause :=
  match returned with
  | none => none
  | some o =>
    if !someMatch u ("objects/query/" ++ type) then some .rejectedFirst
    else if o.type != type || o.name != name then some .lookupNamed
    else if !inv.contains o then some .returnedExists
    else if !allowedB u ("objects/query/" ++ type) o then some .returnedAllowed
    else none

/-- Creating an object is acting on it: it happens only if some entry matches `objects/create/<Type>` and, when that
    entry carries a filter, the filter is true of the object that comes into being.  `o` is the new object, the
    user's filters are total on it (the harness evaluates them on the created object). -/
def specCreate (u : User) (type : String) (o : Obj) (created : Bool) : Option Clause :=
  if !created then none
  else if !someMatch u ("objects/create/" ++ type) then some .rejectedFirst
  else if !allowedB u ("objects/create/" ++ type) o then some .createdAllowed
  else none

/-- Two outcomes agree up to the order of the returned objects (which error was raised first may depend on
    the order in which names are visited; whether the request fails may not). -/
def sameOutcome : Except Err (List Obj) → Except Err (List Obj) → Bool
  | .ok a, .ok b => a.isPerm b
  | .error _, .error _ => true
  | _, _ => false

/-- The property speaks of *objects*, not of requests: whether the user may act on an object must not depend
    on which other objects the same request visits before it.  Observable form: the same request with the
    names of a plural list permuted has the same outcome. -/
def specOrder (r1 r2 : Except Err (List Obj)) : Option Clause :=
  if sameOutcome r1 r2 then none else some .orderIndependent

/-! ### Whole traces: every request is judged against the user and the inventory of ITS OWN moment -/

/-- The property for one request of any entry point. -/
def specRequest (u : User) (inv : Inventory) : Request → Response → Option Clause
  | .targets qd q, .targets res log => specQuery u qd q inv ⟨res, some log⟩
  | .object verb type pn q, .targets res log => specQuery u (handlerQD verb type) (handlerQuery type pn q) inv ⟨res, some log⟩
  | .action name types q, .targets res log => specQuery u (actionQDT name types) q inv ⟨res, some log⟩
  | .modify type _ _, .changed objs =>
    if objs.any (fun o => !inv.contains o) then some .returnedExists else specChanged u ("objects/modify/" ++ type) objs
  | .lookup t n, .found o => specLookup u t n inv o
  | .join j, .granted b => specJoin u j b
  | .access perm o, .granted b => specAccess u perm o b
  | .bare perm, .granted b => specGrant u perm b
  | _, _ => some .responseShape

/-- The first violated clause of a trace; permissions revoked or granted and objects created or deleted between two
    requests count from the next request on, whatever was answered before. -/
def specTrace (events : List Event) : Option Clause :=
  events.findSome? fun e => specRequest e.world.user e.world.inv e.request e.response

/-! ### Declarative meaning of a RAW permission pattern (for `raw_mask_match_spec`) -/

/-- The character is neither a wildcard nor the start of one of the two escapes `\*`, `\?` (a lone `\` is ordinary). -/
def Ordinary (c : Char) (m : List Char) : Prop :=
  c ≠ '*' ∧ c ≠ '?' ∧ ¬ (c = '\\' ∧ ∃ x rest, m = x :: rest ∧ (x = '*' ∨ x = '?'))

/-- `DenotesMask m s`: the text `s` is in the language of the raw mask `m` — `\*` stands for the character `*`, `\?` for
    `?`, `*` for any (possibly empty) text, `?` for exactly one character, every other character for itself up to ASCII
    case. -/
inductive DenotesMask : List Char → List Char → Prop
  | nil : DenotesMask [] []
  | escStar {m s} : DenotesMask m s → DenotesMask ('\\' :: '*' :: m) ('*' :: s)
  | escAny {m s} : DenotesMask m s → DenotesMask ('\\' :: '?' :: m) ('?' :: s)
  | star (pre : List Char) {m s} : DenotesMask m s → DenotesMask ('*' :: m) (pre ++ s)
  | any (d : Char) {m s} : DenotesMask m s → DenotesMask ('?' :: m) (d :: s)
  | lit {c d : Char} {m s} : Ordinary c m → d.toLower = c.toLower → DenotesMask m s → DenotesMask (c :: m) (d :: s)

/-! ### Declarative meaning of the wildcard language (for `wildcard_match_spec`) -/

/-- `Denotes ts s`: the text `s` is in the language of the mask `ts`. -/
inductive Denotes : List Tok → List Char → Prop
  | nil : Denotes [] []
  | star (pre : List Char) {ts s} : Denotes ts s → Denotes (.star :: ts) (pre ++ s)
  | any (d : Char) {ts s} : Denotes ts s → Denotes (.any :: ts) (d :: s)
  | lit {c d : Char} {ts s} : d.toLower = c.toLower → Denotes ts s → Denotes (.lit c :: ts) (d :: s)

end Icinga.C18

/-
  C04 — the property as an executable predicate over an OBSERVED trace (what the harness's monitors and the
  schedule points report about the real CheckerComponent; never the model's internals).  Returns the first
  violated clause.
-/
namespace Icinga.C04

/-- Observations.  Times are integer µs. -/
inductive Ev where
  /-- membership of checkable `c` in the idle / pending set, read at a lock release -/
  | loc (c : Nat) (inIdle inPending : Bool)
  /-- the scheduler dispatched a check when the pending-checks counter was `counterBefore` -/
  | slot (counterBefore max : Int)
  /-- the scheduler's decision for the entry it took: was the check forced, was it skipped -/
  | decision (c : Nat) (forced skipped : Bool)
  /-- the check command of `c` started / delivered its result -/
  | execStart (c : Nat)
  | execEnd (c : Nat)
  /-- after an execution that nobody else rescheduled: clock before / after the result was processed,
      resulting next_check, and the interval in force -/
  | window (nowBefore nowAfter next interval : Int)
  /-- at quiescence (no operation in flight): attributes and membership of `c` -/
  | quiescent (c : Nat) (schedulable inIdle inPending : Bool) (key next : Int)
  deriving Repr, DecidableEq

inductive Clause where
  | one_location            -- in idle and pending at once
  | concurrency_slot        -- dispatched although the counter had reached max_concurrent_checks
  | forced_runs             -- a forced check was skipped
  | single_flight           -- two executions of the same checkable at once
  | concurrency_bound       -- more than max_concurrent_checks executions at once
  | exec_end_unmatched      -- a result without a running execution (trace malformed)
  | next_check_window       -- next check not in (now, now + interval]
  | quiescent_location      -- schedulable but in no set / unschedulable but in a set / in both
  | quiescent_key           -- idle under a key that is not its next_check
  deriving Repr, DecidableEq

def Clause.name : Clause → String
  | .one_location => "one_location"
  | .concurrency_slot => "concurrency_slot"
  | .forced_runs => "forced_runs"
  | .single_flight => "single_flight"
  | .concurrency_bound => "concurrency_bound"
  | .exec_end_unmatched => "exec_end_unmatched"
  | .next_check_window => "next_check_window"
  | .quiescent_location => "quiescent_location"
  | .quiescent_key => "quiescent_key"

/-- Specification state: the checkables whose command is executing right now. -/
structure SpecSt where
  max : Int
  executing : List Nat := []
  deriving Repr

/-- Check one observation against the state before it. -/
def specStep (sp : SpecSt) : Ev → Option Clause
  | .loc _ i p => if i && p then some .one_location else none
  | .slot k m => if 0 ≤ k ∧ k < m then none else some .concurrency_slot
  | .decision _ f s => if f && s then some .forced_runs else none
  | .execStart c =>
    if sp.executing.contains c then some .single_flight
    else if sp.max < (sp.executing.length + 1 : Nat) then some .concurrency_bound
    else none
  | .execEnd c => if sp.executing.contains c then none else some .exec_end_unmatched
  | .window nb na nx iv => if nb < nx ∧ nx ≤ na + iv then none else some .next_check_window
  | .quiescent _ s i p k nx =>
    if (i && p) || (s != (i || p)) then some .quiescent_location
    else if i && k != nx then some .quiescent_key
    else none

def specNext (sp : SpecSt) : Ev → SpecSt
  | .execStart c => { sp with executing := c :: sp.executing }
  | .execEnd c => { sp with executing := sp.executing.erase c }
  | _ => sp

/-- Whole trace: first violated clause, if any. -/
def specTrace (sp : SpecSt) : List Ev → Option Clause
  | [] => none
  | e :: es => match specStep sp e with
    | some cl => some cl
    | none => specTrace (specNext sp e) es

end Icinga.C04

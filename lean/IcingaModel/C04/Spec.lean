/-
  C04 — the property as an executable predicate over an OBSERVED trace (what the harness's monitors and the
  schedule points report about the real CheckerComponent; never the model's internals).  Returns the first
  violated clause.
-/
namespace Icinga.C04

/-- Observations.  Times are integer µs. -/
inductive Ev where
  /-- membership of checkable `c` in the idle / pending set, read at a lock release -/
  | loc (c : Nat) (inIdle inPending : Bool)
  /-- the scheduler dispatched a check when the pending-checks counter was `counterBefore` -/
  | slot (counterBefore max : Int)
  /-- the scheduler's decision for the due entry it took: was the check forced, was it skipped, and — from what the observer
      itself configured, never from the code under test — was the checkable `eligible` at that moment: active checks enabled
      (its own flag and the global flag of its type), inside its check period, no failed `disable_checks` dependency -/
  | decision (c : Nat) (forced skipped eligible : Bool)
  /-- the check command of `c` started / delivered its result -/
  | execStart (c : Nat)
  | execEnd (c : Nat)
  /-- after an execution that nobody else rescheduled: clock before / after the result was processed,
      resulting next_check, and the interval in force -/
  | window (nowBefore nowAfter next interval : Int)
  /-- an operation that changes `active`/`paused` of `c` (pause, resume, activation, deactivation) begins: until it has
      completed nothing is claimed about `c`'s membership -/
  | opBegin (c : Nat)
  /-- such an operation has completed (its ObjectHandler calls have returned): from now on `c` is / is not this node's to
      schedule (active ∧ ¬paused ∧ local zone) -/
  | authority (c : Nat) (schedulable : Bool)
  /-- at quiescence (no operation in flight, every dispatched helper has finished): attributes and membership of `c` -/
  | quiescent (c : Nat) (schedulable inIdle inPending : Bool) (key next : Int)
  /-- at quiescence (no helper, no command, no plugin process left anywhere): the pending-checks counter -/
  | quiescentCounter (k : Int)
  /-- an execution attempt of `c` has come back (`ExecuteCheck` returned: result delivered, process spawned, or the single-flight
      guard found busy) and nobody but the scheduler's own machinery wrote `next_check` since the attempt was dispatched:
      the clock at the (earliest outstanding) dispatch and `next_check` as it stands now -/
  | rearmed (c : Nat) (dispatchedAt next : Int)
  deriving Repr, DecidableEq

inductive Clause where
  | one_location            -- in idle and pending at once
  | concurrency_slot        -- dispatched although the counter had reached max_concurrent_checks
  | forced_runs             -- a forced check was skipped
  | single_flight           -- two executions of the same checkable at once
  | concurrency_bound       -- more than max_concurrent_checks executions at once
  | exec_end_unmatched      -- a result without a running execution (trace malformed)
  | next_check_window       -- next check not in (now, now + interval]
  | scheduled_while_not_responsible  -- paused / inactive (operation completed) but in the idle or pending set at a lock release
  | dropped_from_schedule   -- schedulable (operation completed) but in neither set at a lock release
  | quiescent_location      -- schedulable but in no set / unschedulable but in a set / in both
  | quiescent_key           -- idle under a key that is not its next_check
  | eligible_skipped        -- due, active checks enabled, inside its period, no failed dependency — and not executed
  | ran_although_disabled   -- not forced and active checks disabled / period closed / dependency failed — and executed
  | quiescent_pending       -- every helper has finished and the checkable is still in the pending set: it never comes back
  | slot_leaked             -- nothing is running any more and the pending-checks counter is not 0: a concurrency slot is lost
  | not_rearmed             -- an execution attempt has come back and next_check does not lie after the moment it was dispatched:
                            -- the checkable is still due, the scheduler takes it again at once (busy loop) - "after each execution the
                            -- next check time lies in the future"
  deriving Repr, DecidableEq

def Clause.name : Clause → String
  | .one_location => "one_location"
  | .concurrency_slot => "concurrency_slot"
  | .forced_runs => "forced_runs"
  | .single_flight => "single_flight"
  | .concurrency_bound => "concurrency_bound"
  | .exec_end_unmatched => "exec_end_unmatched"
  | .next_check_window => "next_check_window"
  | .scheduled_while_not_responsible => "scheduled_while_not_responsible"
  | .dropped_from_schedule => "dropped_from_schedule"
  | .quiescent_location => "quiescent_location"
  | .quiescent_key => "quiescent_key"
  | .eligible_skipped => "eligible_skipped"
  | .ran_although_disabled => "ran_although_disabled"
  | .quiescent_pending => "quiescent_pending"
  | .slot_leaked => "slot_leaked"
  | .not_rearmed => "not_rearmed"

/-- "with active checks enabled and inside its check period" in the property's terms, over facts the observer controls:
    the object's own `enable_active_checks`, the global `enable_host_checks` / `enable_service_checks` (whichever applies to
    its type), its check period, and its explicit `disable_checks` dependencies.  (The implicit dependency of a service on its
    host is about state and notifications, not about check execution: a service of a DOWN host keeps being checked.) -/
def eligible (isService own hostChecks svcChecks inPeriod depOk : Bool) : Bool :=
  own && (if isService then svcChecks else hostChecks) && inPeriod && depOk

/-- Specification state: the checkables whose command is executing right now, and for every checkable whose last
    authority-changing operation has completed whether it is this node's to schedule. -/
structure SpecSt where
  max : Int
  executing : List Nat := []
  known : List (Nat × Bool) := []
  deriving Repr

/-- what is known about `c` (nothing while an operation on it is in flight) -/
def getKnown (k : List (Nat × Bool)) (c : Nat) : Option Bool :=
  match k with
  | [] => none
  | (c', b) :: rest => if c' = c then some b else getKnown rest c

def dropKnown (k : List (Nat × Bool)) (c : Nat) : List (Nat × Bool) :=
  match k with
  | [] => []
  | (c', b) :: rest => if c' = c then dropKnown rest c else (c', b) :: dropKnown rest c

/-- Check one observation against the state before it. -/
def specStep (sp : SpecSt) : Ev → Option Clause
  | .loc c i p =>
    if i && p then some .one_location
    else match getKnown sp.known c with
      | some false => if i || p then some .scheduled_while_not_responsible else none
      | some true => if i || p then none else some .dropped_from_schedule
      | none => none
  | .opBegin _ => none
  | .authority _ _ => none
  | .slot k m => if 0 ≤ k ∧ k < m then none else some .concurrency_slot
  | .decision _ f s e =>
    if f && s then some .forced_runs
    else if !f && e && s then some .eligible_skipped
    else if !f && !e && !s then some .ran_although_disabled
    else none
  | .execStart c =>
    if sp.executing.contains c then some .single_flight
    else if sp.max < (sp.executing.length + 1 : Nat) then some .concurrency_bound
    else none
  | .execEnd c => if sp.executing.contains c then none else some .exec_end_unmatched
  | .window nb na nx iv => if nb < nx ∧ nx ≤ na + iv then none else some .next_check_window
  | .quiescent _ s i p k nx =>
    if (i && p) || (s != (i || p)) then some .quiescent_location
    else if i && k != nx then some .quiescent_key
    else if p then some .quiescent_pending
    else none
  | .quiescentCounter k => if k = 0 then none else some .slot_leaked
  | .rearmed _ d nx => if d < nx then none else some .not_rearmed

def specNext (sp : SpecSt) : Ev → SpecSt
  | .execStart c => { sp with executing := c :: sp.executing }
  | .execEnd c => { sp with executing := sp.executing.erase c }
  | .opBegin c => { sp with known := dropKnown sp.known c }
  | .authority c b => { sp with known := (c, b) :: dropKnown sp.known c }
  | _ => sp

/-- Whole trace: first violated clause, if any. -/
def specTrace (sp : SpecSt) : List Ev → Option Clause
  | [] => none
  | e :: es => match specStep sp e with
    | some cl => some cl
    | none => specTrace (specNext sp e) es

end Icinga.C04

/-
  C04 — check scheduler.  Executable transcription of the lock-protected sections of
  lib/checker/checkercomponent.cpp and of the single-flight flag / next-check arithmetic of
  lib/icinga/checkable-check.cpp as a transition system.  One action = one critical section (or one
  attribute write that happens outside `m_Mutex`); an interleaving is an arbitrary list of enabled
  actions.  Core Lean only.

  The two sets `m_IdleCheckables` / `m_PendingCheckables` (checkercomponent.hpp:83-84) are modelled as
  two independent membership bits per checkable (NOT as one three-valued location, which would make
  "never in both" true by construction); the idle set's key is a *copy* of `next_check` taken at
  insertion time (`GetCheckableScheduleInfo`, checkercomponent.cpp:318-324).
-/
namespace Icinga.C04

/-- State of one checkable as far as the scheduler is concerned. -/
structure Chk where
  /-- `ConfigObject::IsActive()` -/
  active : Bool := false
  /-- `ConfigObject::IsPaused()` (objects are created paused, configobject.ti:76) -/
  paused : Bool := true
  /-- `same_zone` of ObjectHandler (checkercomponent.cpp:298-299); constant per checkable -/
  localZone : Bool := true
  /-- ghost: an `ObjectHandler` critical section has run since the last write of active/paused -/
  synced : Bool := true
  /-- `force_next_check` (checkable.ti:150) -/
  forced : Bool := false
  /-- `next_check` attribute (checkable.ti:95), µs -/
  nextCheck : Int := 0
  /-- ghost: a `NextCheckChangedHandler` critical section has run since the last write of next_check -/
  keySynced : Bool := true
  /-- member of `m_IdleCheckables` -/
  inIdle : Bool := false
  /-- the key under which it sits in the idle set's next-check index -/
  idleKey : Int := 0
  /-- member of `m_PendingCheckables` -/
  inPending : Bool := false
  /-- `m_CheckRunning` (checkable.hpp:224) -/
  running : Bool := false
  /-- `ExecuteCheckHelper` calls dispatched by the scheduler that have not yet done `ExecuteCheck`'s early `UpdateNextCheck()`
      (checkable-check.cpp:578-584) -/
  hq : Nat := 0
  /-- helpers past that early `UpdateNextCheck()` that have not reached the single-flight guard yet -/
  hu : Nat := 0
  /-- ghost: the scheduler's clock at the earliest dispatch whose helper is still outstanding -/
  dispatchedAt : Int := 0
  /-- ghost: somebody other than the scheduler's own machinery (API action, external command, cluster event … — `setNextCheck`) has
      written `next_check` since that dispatch -/
  foreign : Bool := false
  /-- helpers past a successful `m_CheckRunning` test-and-set whose command function is still running: a synchronous
      command body, or a plugin command before it has spawned its process -/
  hx : Nat := 0
  /-- helpers whose command has spawned a plugin process (PluginUtility::ExecuteCommand, pluginchecktask.cpp:56-57) and
      that have not yet done PluginCheckTask's own `IncreasePendingChecks()` (:59-62) -/
  hs : Nat := 0
  /-- plugin processes spawned and not yet finished (ProcessFinishedHandler has not run) -/
  procs : Nat := 0
  /-- plugin processes that have finished and given back their unit (pluginchecktask.cpp:67-68) but whose result has not
      reached `ProcessCheckResult` yet -/
  pz : Nat := 0
  /-- PluginCheckTask's own `+1`s (after the spawn) minus its `-1`s (when the process finished); a fast process can
      finish before the `+1`, so this can be -1 for a moment -/
  pbal : Int := 0
  /-- helpers whose `ExecuteCheck` has returned (result delivered, or guard found busy), before `DecreasePendingChecks` -/
  hr : Nat := 0
  /-- helpers after `DecreasePendingChecks`, before their final critical section -/
  hd : Nat := 0
  deriving Repr, DecidableEq, Inhabited

/-- The facts the guard set of CheckThreadProc:142-176 reads, one field per read.  They are inputs of the scheduler's
    section (the harness records each of them from its OWN bookkeeping of what it configured / toggled, under the checker's
    mutex — never from the code under test); how they combine into "skip" is the model's business. -/
structure SkipIn where
  /-- `GetHostService(checkable)` yields a service (:151-153), else a host -/
  isService : Bool := false
  /-- `checkable->IsReachable(DependencyCheckExecution)` (:143): no explicit Dependency with `disable_checks` has failed.  The
      implicit service→host dependency does NOT count for this dependency type (checkable-dependency.cpp:200). -/
  depOk : Bool := true
  /-- `checkable->GetEnableActiveChecks()` -/
  own : Bool := true
  /-- `icingaApp->GetEnableHostChecks()` (:155) -/
  hostChecks : Bool := true
  /-- `icingaApp->GetEnableServiceChecks()` (:160) -/
  svcChecks : Bool := true
  /-- no check period, or inside it (:166-168) -/
  inPeriod : Bool := true
  deriving Repr, DecidableEq, Inhabited

/-- :155 / :160 — the object's own flag and the global flag of ITS type (host checks for hosts, service checks for services) -/
def SkipIn.enabled (i : SkipIn) : Bool := i.own && (if i.isService then i.svcChecks else i.hostChecks)

namespace Chk

/-- checkercomponent.cpp:304 `object->IsActive() && !object->IsPaused() && same_zone` -/
def schedulable (x : Chk) : Bool := x.active && !x.paused && x.localZone

/-- `m_IdleCheckables.insert(GetCheckableScheduleInfo(checkable))` — index 0 is `ordered_unique` on the
    object (checkercomponent.hpp:53-59): inserting a present object changes nothing (the old key stays). -/
def idleInsert (x : Chk) : Chk :=
  if x.inIdle then x else { x with inIdle := true, idleKey := x.nextCheck }

/-- attribute writes that happen outside `m_Mutex` (ConfigObject::PreActivate/Deactivate/SetAuthority) -/
def setActive (x : Chk) (b : Bool) : Chk := { x with active := b, synced := false }
def setPaused (x : Chk) (b : Bool) : Chk := { x with paused := b, synced := false }

/-- `CheckerComponent::ObjectHandler` critical section, checkercomponent.cpp:301-315 -/
def objectHandler (x : Chk) : Chk :=
  let x := { x with synced := true }
  if x.schedulable then
    if x.inPending then x            -- :305-306 already pending ⇒ return
    else x.idleInsert                -- :308
  else { x with inIdle := false, inPending := false }   -- :310-311

/-- `SetNextCheck` attribute write (outside `m_Mutex`) by an outside party with an arbitrary value: reschedule-check API action,
    external command, cluster event -/
def setNextCheck (x : Chk) (v : Int) : Chk := { x with nextCheck := v, keySynced := false, foreign := true }

/-- `Checkable::UpdateNextCheck()` called by the scheduler's own machinery — result processing (checkable-check.cpp:384), the skip
    path of the scheduler (checkercomponent.cpp:189): `SetNextCheck(v)` with `v` after the clock it read (`next_check_window`) -/
def ownResched (x : Chk) (v : Int) : Chk := { x with nextCheck := v, keySynced := false }

/-- `Checkable::ExecuteCheck`'s early, unconditional `UpdateNextCheck()` (checkable-check.cpp:578-584, BEFORE the single-flight
    guard): the helper re-arms the checkable and goes on towards the guard -/
def rearm (x : Chk) (v : Int) : Chk := { x with nextCheck := v, keySynced := false, hq := x.hq - 1, hu := x.hu + 1 }

/-- `CheckerComponent::NextCheckChangedHandler`, checkercomponent.cpp:326-345: re-index if idle -/
def nextCheckChanged (x : Chk) : Chk :=
  let x := { x with keySynced := true }
  if x.inIdle then { x with idleKey := x.nextCheck } else x

/-- `SetForceNextCheck(true)` -/
def force (x : Chk) : Chk := { x with forced := true }

/-- The guard set of CheckThreadProc:139-173 as ONE predicate: the check is skipped iff it is not forced and
    the checkable is unreachable (:140), or active checks are disabled for it / globally (:152,:157), or it is
    outside its check period (:165).  `reach`, `enabled`, `inPeriod` are oracle inputs. -/
def skips (forced reach enabled inPeriod : Bool) : Bool :=
  !forced && !(reach && enabled && inPeriod)

/-- the guard set applied to the recorded facts -/
def skipsIn (forced : Bool) (i : SkipIn) : Bool := skips forced i.depOk i.enabled i.inPeriod

/-- CheckThreadProc:133 + :196-217: erase from idle, insert into pending, clear force, dispatch a helper.  Ghosts: if no helper of
    this checkable is outstanding, this dispatch is the earliest one and nobody has interfered with `next_check` since. -/
def pick (x : Chk) (now : Int) : Chk :=
  { x with inIdle := false, inPending := true, forced := false, hq := x.hq + 1,
           dispatchedAt := if x.hq + x.hu + x.hx + x.hs + x.hr + x.hd = 0 then now else x.dispatchedAt,
           foreign := if x.hq + x.hu + x.hx + x.hs + x.hr + x.hd = 0 then false else x.foreign }

/-- CheckThreadProc:133 + :176-177: erase from idle and re-insert (with the current next_check). -/
def skip (x : Chk) : Chk := { x with inIdle := true, idleKey := x.nextCheck }

/-- the scheduler's critical section on the chosen entry -/
def sched (x : Chk) (now : Int) (i : SkipIn) : Chk :=
  if skipsIn x.forced i then x.skip else x.pick now

/-- `Checkable::ExecuteCheck` test-and-set, checkable-check.cpp:580-592 -/
def helperGuard (x : Chk) : Chk :=
  if x.running then { x with hu := x.hu - 1, hr := x.hr + 1 }          -- :584-585 return
  else { x with running := true, hu := x.hu - 1, hx := x.hx + 1 }       -- :587

/-- `ProcessCheckResult` called by the execution itself (command function / exception path of
    ExecuteCheckHelper:235-251): checkable-check.cpp:103-106 resets the flag; `ExecuteCheck` returns. -/
def result (x : Chk) : Chk := { x with running := false, hx := x.hx - 1, hr := x.hr + 1 }

/-- asynchronous command (PluginCheckTask::ScriptFunc): the process is spawned from inside the helper,
    pluginchecktask.cpp:56-57 -/
def spawn (x : Chk) : Chk := { x with hx := x.hx - 1, hs := x.hs + 1, procs := x.procs + 1 }

/-- PluginCheckTask's own `IncreasePendingChecks()` after the spawn (:59-62); then `ExecuteCheck` returns -/
def pluginInc (x : Chk) : Chk := { x with hs := x.hs - 1, hr := x.hr + 1, pbal := x.pbal + 1 }

/-- the process finished: `ProcessFinishedHandler` gives the unit back first (:67-68) … -/
def procExit (x : Chk) : Chk := { x with procs := x.procs - 1, pz := x.pz + 1, pbal := x.pbal - 1 }

/-- … and then hands the result to `ProcessCheckResult`, which resets the flag (checkable-check.cpp:103-106) -/
def procResult (x : Chk) : Chk := { x with pz := x.pz - 1, running := false }

/-- A passive result (process-check-result API action / external command: `active = false`) processed at any moment, also while
    an execution is in progress.  Since fix 1c45f06 the block that clears `m_CheckRunning` at the top of `ProcessCheckResult`
    runs only `if (!cr || cr->GetActive())` (checkable-check.cpp:106-114): a passive result leaves the flag alone. -/
def passiveResult (x : Chk) : Chk := x

/-- documentation only, NOT a transition of the model: what a passive result did before fix 1c45f06 (F-C04c) — it cleared the flag
    like every other result -/
def passiveResultPreFix (x : Chk) : Chk := { x with running := false }

/-- ExecuteCheckHelper:253 (the counter itself is global) -/
def helperDec (x : Chk) : Chk := { x with hr := x.hr - 1, hd := x.hd + 1 }

/-- ExecuteCheckHelper:255-271 final critical section -/
def helperFinish (x : Chk) : Chk :=
  let x := { x with hd := x.hd - 1 }
  if x.inPending then
    let x := { x with inPending := false }          -- :264
    if x.active then x.idleInsert else x            -- :266-267
  else x

/-- units of `m_PendingChecks` held on behalf of this checkable: one per helper that has not decremented yet, plus
    PluginCheckTask's own balance -/
def units (x : Chk) : Int := (x.hq + x.hu + x.hx + x.hs + x.hr : Nat) + x.pbal

/-- helpers that may still start a process or are running a command body, plus running processes: what
    `max_concurrent_checks` really bounds -/
def slots (x : Chk) : Int := (x.hq + x.hu + x.hx + x.procs : Nat)

/-- command executions of this checkable that are running right now (command bodies and plugin processes) -/
def execs (x : Chk) : Nat := x.hx + x.procs

/-- `ExecuteCheckHelper` calls dispatched for this checkable that have not passed their final critical section yet -/
def helpers (x : Chk) : Nat := x.hq + x.hu + x.hx + x.hs + x.hr + x.hd

/-- nothing of this checkable is in flight: no helper, no plugin process, no result on its way -/
def settled (x : Chk) : Bool := x.helpers == 0 && x.procs == 0 && x.pz == 0

end Chk

/-- Global state: checkables `0 … n-1`, the pending-checks counter (checkable-check.cpp:29, an `int`) and
    `max_concurrent_checks`. -/
structure St where
  n : Nat
  chk : Nat → Chk
  counter : Int
  max : Int

def init (n : Nat) (max : Int) : St := { n := n, chk := fun _ => {}, counter := 0, max := max }

def St.upd (s : St) (c : Nat) (x : Chk) : St := { s with chk := fun i => if i = c then x else s.chk i }

inductive Act where
  | setActive (c : Nat) (b : Bool)
  | setPaused (c : Nat) (b : Bool)
  | objectHandler (c : Nat)
  | setNextCheck (c : Nat) (v : Int)
  /-- `UpdateNextCheck()` by the scheduler's own machinery (result processing, skip path) at clock `now`, yielding `v` -/
  | ownResched (c : Nat) (now v : Int)
  /-- `ExecuteCheck`'s early `UpdateNextCheck()` at clock `now`, yielding `v`; the helper goes on towards the guard -/
  | rearm (c : Nat) (now v : Int)
  | nextCheckChanged (c : Nat)
  | force (c : Nat)
  | sched (c : Nat) (now : Int) (i : SkipIn)
  | helperGuard (c : Nat)
  | result (c : Nat)
  | spawn (c : Nat)
  | pluginInc (c : Nat)
  | procExit (c : Nat)
  | procResult (c : Nat)
  /-- a passive result is processed (F-C04c, fixed by 1c45f06: it no longer touches `m_CheckRunning`) -/
  | passiveResult (c : Nat)
  | helperDec (c : Nat)
  | helperFinish (c : Nat)
  deriving Repr, DecidableEq

def Act.isPassive : Act → Bool
  | .passiveResult _ => true
  | _ => false

/-- CheckThreadProc:110-129: `c` is an entry of the idle set with the smallest key (`idx.begin()`; among equal
    keys any), it is due, and `GetPendingChecks() < max_concurrent_checks`. -/
def schedEnabled (s : St) (c : Nat) (now : Int) : Prop :=
  c < s.n ∧ (s.chk c).inIdle = true ∧ (s.chk c).idleKey ≤ now ∧ s.counter < s.max ∧
  ∀ i, i < s.n → (s.chk i).inIdle = true → (s.chk c).idleKey ≤ (s.chk i).idleKey

instance (s : St) (c : Nat) (now : Int) : Decidable (schedEnabled s c now) := by
  unfold schedEnabled; exact inferInstance

/-- One action; `none` when it is not enabled in `s`.

    `sched` merges three steps of the scheduler thread into the critical section that precedes them:
    `SetForceNextCheck(false)` (:209-212), `IncreasePendingChecks()` (:217) and the dispatch of the helper (:225)
    happen after `lock.unlock()`.  This loses no interleaving that matters here: only the scheduler thread increments
    the counter and it does so before it reads the counter again (:121), helpers only decrement it, and the helper does
    not exist before it is queued.  (A `force` request that arrives between the unlock and the clearing of the flag is
    absorbed by the forced check that is being dispatched; the trace validation treats that window as ambiguous.) -/
def step (s : St) : Act → Option St
  | .setActive c b => if c < s.n then some (s.upd c ((s.chk c).setActive b)) else none
  | .setPaused c b => if c < s.n then some (s.upd c ((s.chk c).setPaused b)) else none
  | .objectHandler c => if c < s.n then some (s.upd c (s.chk c).objectHandler) else none
  | .setNextCheck c v => if c < s.n then some (s.upd c ((s.chk c).setNextCheck v)) else none
  -- `UpdateNextCheck` reads the clock (monotone: not before the clock of any earlier dispatch) and yields a later value
  | .ownResched c now v =>
    if c < s.n ∧ (s.chk c).dispatchedAt ≤ now ∧ now < v then some (s.upd c ((s.chk c).ownResched v)) else none
  | .rearm c now v =>
    if c < s.n ∧ 0 < (s.chk c).hq ∧ (s.chk c).dispatchedAt ≤ now ∧ now < v then some (s.upd c ((s.chk c).rearm v)) else none
  | .nextCheckChanged c => if c < s.n then some (s.upd c (s.chk c).nextCheckChanged) else none
  | .force c => if c < s.n then some (s.upd c (s.chk c).force) else none
  | .sched c now i =>
    if schedEnabled s c now then
      let x := s.chk c
      if Chk.skipsIn x.forced i then some (s.upd c x.skip)
      else some { s.upd c (x.pick now) with counter := s.counter + 1 }     -- :217 IncreasePendingChecks
    else none
  | .helperGuard c => if c < s.n ∧ 0 < (s.chk c).hu then some (s.upd c (s.chk c).helperGuard) else none
  | .result c => if c < s.n ∧ 0 < (s.chk c).hx then some (s.upd c (s.chk c).result) else none
  | .spawn c => if c < s.n ∧ 0 < (s.chk c).hx then some (s.upd c (s.chk c).spawn) else none
  | .pluginInc c =>
    if c < s.n ∧ 0 < (s.chk c).hs then some { s.upd c (s.chk c).pluginInc with counter := s.counter + 1 } else none
  | .procExit c =>
    if c < s.n ∧ 0 < (s.chk c).procs then some { s.upd c (s.chk c).procExit with counter := s.counter - 1 } else none
  | .procResult c => if c < s.n ∧ 0 < (s.chk c).pz then some (s.upd c (s.chk c).procResult) else none
  | .passiveResult c => if c < s.n then some (s.upd c (s.chk c).passiveResult) else none
  | .helperDec c =>
    if c < s.n ∧ 0 < (s.chk c).hr then some { s.upd c (s.chk c).helperDec with counter := s.counter - 1 } else none
  | .helperFinish c => if c < s.n ∧ 0 < (s.chk c).hd then some (s.upd c (s.chk c).helperFinish) else none

/-- Run a list of actions; `none` if one of them is not enabled when its turn comes. -/
def run (s : St) : List Act → Option St
  | [] => some s
  | a :: as => match step s a with
    | some s' => run s' as
    | none => none

/-- Σ_{i<n} f i -/
def sumTo (n : Nat) (f : Nat → Int) : Int :=
  match n with
  | 0 => 0
  | k + 1 => sumTo k f + f k

/-- number of command executions running right now: command bodies inside helpers and spawned, unfinished plugin
    processes, over all checkables -/
def St.executing (s : St) : Int := sumTo s.n fun i => ((s.chk i).execs : Int)

/-! ### `Checkable::UpdateNextCheck`, checkable-check.cpp:52-81, over exact rationals (seconds) -/

/-- C `fmod` for a positive divisor and non-negative dividend: `x − y·⌊x/y⌋` -/
def fmod (x y : Rat) : Rat := x - y * ((x / y).floor : Int)

def ratMin (a b : Rat) : Rat := if b < a then b else a     -- std::min(a, b)

/-- `adj` of checkable-check.cpp:62-69 -/
def nextCheckAdj (now off interval : Rat) : Rat :=
  let adj := if 1 < interval then fmod (now * 100 + off) (interval * 100) / 100 else 0     -- :65-66
  if adj ≠ 0 then ratMin ((1 : Rat) / 2 + fmod off (interval * 5) / 100) adj else adj        -- :68-69

/-- `nextCheck = now - adj + interval` (:71) -/
def updateNextCheck (now off interval : Rat) : Rat := now - nextCheckAdj now off interval + interval

end Icinga.C04

/-
  C04 — what an observer sees of a run of the model: the same kinds of observations the harness takes from the
  real CheckerComponent (IcingaModel/C04/Spec.lean), emitted per action, plus the quiescent snapshot at the end.
-/
import IcingaModel.C04.Model
import IcingaModel.C04.Spec

namespace Icinga.C04

/-- membership of `c` after a section, as the schedule points read it while the lock is still held -/
def locOf (s : St) (c : Nat) : Ev := .loc c (s.chk c).inIdle (s.chk c).inPending

/-- observations produced by one action that leads from `s` to `s'` -/
def obsStep (s : St) (a : Act) (s' : St) : List Ev :=
  match a with
  | .sched c _ i =>
    let x := s.chk c
    let skipped := Chk.skipsIn x.forced i
    (if skipped then [] else [Ev.slot s.counter s.max]) ++
      [Ev.decision c x.forced skipped (eligible i.isService i.own i.hostChecks i.svcChecks i.inPeriod i.depOk), locOf s' c]
  | .helperGuard c => if (s.chk c).running then [] else [Ev.execStart c]     -- the command starts after a successful guard
  | .result c => [Ev.execEnd c]
  | .procExit c => [Ev.execEnd c]                                            -- the process has finished
  | .setActive c _ => [Ev.opBegin c]                                          -- an authority-changing operation is under way
  | .setPaused c _ => [Ev.opBegin c]
  | .objectHandler c => [Ev.authority c (s'.chk c).schedulable, locOf s' c]    -- its handler has run
  | .nextCheckChanged c => [locOf s' c]
  | .helperFinish c => [locOf s' c]
  -- `ExecuteCheck` has returned: unless an outside party wrote next_check since the dispatch, the observer compares it with the dispatch time
  | .helperDec c => if (s.chk c).foreign then [] else [Ev.rearmed c (s.chk c).dispatchedAt (s.chk c).nextCheck]
  | _ => []

/-- nothing is in flight anywhere -/
def St.settled (s : St) : Bool := (List.range s.n).all fun c => (s.chk c).settled

/-- the snapshot the harness takes at quiescence: every checkable whose handlers have all run and whose helpers have all
    finished; and, if nothing at all is in flight any more, the pending-checks counter -/
def quiescentObs (s : St) : List Ev :=
  ((List.range s.n).filterMap fun c =>
    let x := s.chk c
    if x.synced && x.keySynced && x.helpers == 0 then some (.quiescent c x.schedulable x.inIdle x.inPending x.idleKey x.nextCheck)
    else none) ++
  (if s.settled then [Ev.quiescentCounter s.counter] else [])

/-- observed trace of a run; `none` if some action is not enabled when its turn comes -/
def traceOf (s : St) : List Act → Option (List Ev)
  | [] => some (quiescentObs s)
  | a :: as => match step s a with
    | some s' => (traceOf s' as).map (obsStep s a s' ++ ·)
    | none => none

end Icinga.C04

/-
  C10 — the property as an executable predicate over an *observed* trace of one object on the two members:
  rows (event, state on A, state on B).  The bookkeeping follows the events only (which connections to the other
  member are attached — a member sees the other one while at least one is left —, start times, restarts with or
  without the state file, what the last authority run on each side must have established); it never calls the
  model's `authority`.
-/
import IcingaModel.C10.Model

namespace Icinga.C10

/-- What the last authority run on a side established; void after a change of that side's view. -/
inductive Mode | unknown | paired | alone
  deriving DecidableEq, Repr

structure SpecHalf where
  conns : List Nat     -- connections to the other member attached and not removed since this side's start
  start : Int
  mode : Mode
  prev : Obj
  asked : Nat := 0     -- notification requests / due checks addressed to this object on this side since its start
  deriving DecidableEq, Repr

/-- "The two endpoints see each other", one direction: at least one connection to the other member is left. -/
def SpecHalf.sees (h : SpecHalf) : Bool := !h.conns.isEmpty

structure SpecSt where
  a : SpecHalf
  b : SpecHalf
  split : Option Bool      -- `some x`: the first time both sides were settled with each other, A was active iff x
  deriving DecidableEq, Repr

def specInit (c : ObjCfg) : SpecSt :=
  { a := { conns := [], start := 0, mode := .unknown, prev := fresh c },
    b := { conns := [], start := 0, mode := .unknown, prev := fresh c }, split := none }

/-- The start-up grace period of the property: 30 s after the start of the process (unknown start = still starting). -/
def inGrace (start now : Int) : Bool := decide (start = 0) || decide (now - start < 30)

def specHalfNext (l : Layout) (h : SpecHalf) (e : Ev) (o : Obj) : SpecHalf :=
  match e with
  -- through the state file the notifications requested and not yet delivered survive the restart, nothing else does
  | .boot _ start keep =>
    { conns := [], start := start, mode := .unknown, prev := o, asked := if keep then h.asked - h.prev.execs else 0 }
  -- what the last run established stays valid as long as the SET of connected endpoints is the same
  -- (a second connection coming up, one of two going down: no change)
  | .link _ id up =>
    let cs := if up then setInsert h.conns id else setErase h.conns id
    { h with conns := cs, mode := if cs.isEmpty == h.conns.isEmpty then h.mode else .unknown, prev := o }
  | .upd _ now =>
    let m := match l with
      | .pair => if h.sees then Mode.paired else if inGrace h.start now then h.mode else Mode.alone
      | _ => Mode.alone
    { h with mode := m, prev := o }
  | .idle _ => { h with prev := o }
  | .request _ => { h with prev := o, asked := h.asked + 1 }
  | .ntimer _ => { h with prev := o }
  | .due _ => { h with prev := o, asked := h.asked + 1 }
  | .fire _ => { h with prev := o }
  -- a new object: no authority run has decided about it yet, nothing has been asked of it
  | .create _ => { h with mode := .unknown, prev := o, asked := 0 }

inductive Clause
  | freshAfterBoot | noSpontaneousChange | coldStartNoChange | oncePerChange
  | aloneAllActive | exactlyOne | sameSplit | runEverywhereActive
  | pausedNodeIsSilent | neverMoreThanAsked | dueCheckRuns | pendingFires
  deriving DecidableEq, Repr

def Clause.name : Clause → String
  | .freshAfterBoot => "fresh_object_is_paused_unless_run_everywhere"
  | .noSpontaneousChange => "no_change_without_authority_run"
  | .coldStartNoChange => "cold_start_no_change"
  | .oncePerChange => "pause_resume_once_per_change"
  | .aloneAllActive => "alone_or_no_zone_all_active"
  | .exactlyOne => "exactly_one_active"
  | .sameSplit => "same_split_every_time"
  | .runEverywhereActive => "run_everywhere_always_active"
  | .pausedNodeIsSilent => "paused_node_is_silent"
  | .neverMoreThanAsked => "never_more_executions_than_requests"
  | .dueCheckRuns => "due_check_runs_on_the_active_node"
  | .pendingFires => "pending_notification_requested_by_the_active_node"

/-- "An authority change pauses or resumes an object exactly once": counters move with `paused`. -/
def deltaOk (prev o : Obj) : Bool :=
  if prev.paused == o.paused then o.pauses == prev.pauses && o.resumes == prev.resumes
  else if o.paused then o.pauses == prev.pauses + 1 && o.resumes == prev.resumes
  else o.pauses == prev.pauses && o.resumes == prev.resumes + 1

/-- A (re)started process — and a process in which the object has just been created at runtime — has no authority for a
    run-once object until an authority run decides — with or without a state file — and has resumed a run-everywhere object
    exactly once (the stash is internal bookkeeping). -/
def freshLike (c : ObjCfg) (o : Obj) : Bool :=
  o.paused == (fresh c).paused && o.pauses == (fresh c).pauses && o.resumes == (fresh c).resumes && o.execs == 0 && o.reqs == 0

/-- Authority state untouched. -/
def sameAuth (prev o : Obj) : Bool :=
  o.paused == prev.paused && o.pauses == prev.pauses && o.resumes == prev.resumes

/-- "A paused endpoint neither executes checks nor sends notifications for that object": work events
    (`silentWhenPaused` = the event is one for which the sentence applies on this kind of node). -/
def checkWork (c : ObjCfg) (h h' : SpecHalf) (silentWhenPaused : Bool) (o : Obj) : Option Clause :=
  if !sameAuth h.prev o then some .noSpontaneousChange
  else if silentWhenPaused && h.prev.paused && o.execs != h.prev.execs then some .pausedNodeIsSilent
  else if o.execs < h.prev.execs || o.execs > h'.asked then some .neverMoreThanAsked
  else if c.kind == .other && o.execs != h.prev.execs then some .noSpontaneousChange
  else if o.reqs != h.prev.reqs then some .noSpontaneousChange
  else none

/-- The suppressed-notifications timer with a notification pending on this object.  "A paused endpoint [does not send]
    notifications for that object": the member that is paused for the checkable requests none (the active one does, and relays
    the request); the active one requests it, once; no check runs, the authority is untouched. -/
def checkFire (c : ObjCfg) (h : SpecHalf) (o : Obj) : Option Clause :=
  if !sameAuth h.prev o || o.execs != h.prev.execs then some .noSpontaneousChange
  else if h.prev.paused && o.reqs != h.prev.reqs then some .pausedNodeIsSilent
  else if c.kind == .checkable && c.active && !h.prev.paused && o.reqs != h.prev.reqs + 1 then some .pendingFires
  else if !(c.kind == .checkable && c.active) && o.reqs != h.prev.reqs then some .noSpontaneousChange
  else none

/-- Checks on the side the event addresses (`h` = bookkeeping before, `h'` after). -/
def checkOwn (l : Layout) (c : ObjCfg) (h h' : SpecHalf) (e : Ev) (o : Obj) : Option Clause :=
  match e with
  | .boot _ _ _ => if !freshLike c o then some .freshAfterBoot else none
  | .link _ _ _ => if o != h.prev then some .noSpontaneousChange else none
  | .idle _ => if o != h.prev then some .noSpontaneousChange else none
  | .request _ => checkWork c h h' true o
  -- notificationcomponent.cpp:159: the timer honours `paused` only on a node with a local endpoint
  | .ntimer _ => checkWork c h h' (l != .noZone) o
  | .due _ =>
    match checkWork c h h' true o with
    | some cl => some cl
    | none =>
      if c.kind == .checkable && c.active && !h.prev.paused && o.execs != h.prev.execs + 1 then some .dueCheckRuns else none
  | .fire _ => checkFire c h o
  | .create _ => if !freshLike c o then some .freshAfterBoot else none
  | .upd _ now =>
    if l == .pair && !h.sees && inGrace h.start now && o != h.prev then some .coldStartNoChange
    else if o.execs != h.prev.execs || o.reqs != h.prev.reqs then some .noSpontaneousChange
    else if !deltaOk h.prev o then some .oncePerChange
    else if !touched c && o != h.prev then some .noSpontaneousChange
    else if touched c && h'.mode == .alone && o.paused then some .aloneAllActive
    else none

def specStep (l : Layout) (c : ObjCfg) (sp : SpecSt) (e : Ev) (oa ob : Obj) : Option Clause × SpecSt :=
  let (own, other, o, oo) := match e.side with
    | .A => (sp.a, sp.b, oa, ob)
    | .B => (sp.b, sp.a, ob, oa)
  let own' := specHalfNext l own e o
  let a' := match e.side with | .A => own' | .B => other
  let b' := match e.side with | .A => other | .B => own'
  let settled := touched c && a'.mode == .paired && b'.mode == .paired
  let split' := if settled && sp.split.isNone then some (!oa.paused) else sp.split
  let r : Option Clause :=
    match checkOwn l c own own' e o with
    | some cl => some cl
    | none =>
      if oo != other.prev then some .noSpontaneousChange
      else if c.active && !c.runOnce && (oa.paused || ob.paused) then some .runEverywhereActive
      else if settled && oa.paused == ob.paused then some .exactlyOne
      else if settled && sp.split.isSome && sp.split != some (!oa.paused) then some .sameSplit
      else none
  (r, { a := a', b := b', split := split' })

/-- The whole trace; the first violated clause, if any. -/
def specTrace (l : Layout) (c : ObjCfg) : SpecSt → List (Ev × Obj × Obj) → Option Clause
  | _, [] => none
  | sp, (e, oa, ob) :: rest =>
    match specStep l c sp e oa ob with
    | (some cl, _) => some cl
    | (none, sp') => specTrace l c sp' rest

end Icinga.C10

/-
  C10 — HA authority.  Executable transcription of
    Utility::SDBM                          lib/base/utility.cpp:1349-1364
    ApiListener::UpdateObjectAuthority     lib/remote/apilistener-authority.cpp:13-84
    ConfigObject::SetAuthority             lib/base/configobject.cpp:444-459
    ConfigObject::Activate (run-everywhere) lib/base/configobject.cpp:361-377
    Checkable::SendNotifications (paused / cold-start stash)   lib/icinga/checkable-notification.cpp:66-110
    NotificationComponent::NotificationTimerHandler (guards)   lib/notification/notificationcomponent.cpp:138-206
    CheckerComponent::ObjectHandler (idle set = active ∧ ¬paused) lib/checker/checkercomponent.cpp:291-317
    Endpoint::AddClient / RemoveClient / GetConnected (the SET of clients)  lib/remote/endpoint.cpp:38-92
    ConfigObject::DumpObjects / RestoreObjects (attributes with the `state` flag)  lib/base/configobject.cpp:465-586
  Core Lean only.
-/
namespace Icinga.C10

/-- An object / endpoint name: the bytes of the `std::string`. -/
abbrev Name := List UInt8

/-! ### Utility::SDBM -/

/-- utility.cpp:1354,1358: `for (char c : str)` … `c + …` — `char` is signed on this platform, so the byte is
    sign-extended to `int` and then converted to `unsigned long` (64 bit): bytes ≥ 0x80 add 2^64 - 256 + c. -/
def sext (c : UInt8) : UInt64 :=
  if c.toNat < 128 then c.toUInt64 else c.toUInt64 + 0xFFFFFFFFFFFFFF00

/-- utility.cpp:1358: `hash = c + (hash << 6) + (hash << 16) - hash;` in `unsigned long` (wraps mod 2^64). -/
def sdbmStep (h : UInt64) (c : UInt8) : UInt64 :=
  sext c + (h <<< 6) + (h <<< 16) - h

/-- utility.cpp:1349-1364 with the default `len = String::NPos` (the only way the authority code calls it). -/
def sdbm (s : Name) : UInt64 := s.foldl sdbmStep 0

/-! ### the order `std::sort` uses: `a->GetName() < b->GetName()` (apilistener-authority.cpp:49-53) -/

/-- `std::string::operator<`: lexicographic on *unsigned* bytes (`char_traits<char>::compare` = memcmp), a proper
    prefix is smaller. -/
def nameLt : Name → Name → Bool
  | [], [] => false
  | [], _ :: _ => true
  | _ :: _, [] => false
  | a :: as, b :: bs => decide (a.toNat < b.toNat) || (decide (a.toNat = b.toNat) && nameLt as bs)

/-- Insertion into a sorted list (the endpoints' names are distinct, so every correct sort gives this result). -/
def insertName (x : Name) : List Name → List Name
  | [] => [x]
  | y :: ys => if nameLt y x then y :: insertName x ys else x :: y :: ys

def sortNames : List Name → List Name
  | [] => []
  | x :: xs => insertName x (sortNames xs)

/-! ### Endpoint: the set of attached JSON-RPC connections (endpoint.cpp:38-92) -/

/-- endpoint.cpp:44 `m_Clients.insert(client)` — a `std::set`: inserting a member again changes nothing. -/
def setInsert {α : Type} [BEq α] (l : List α) (x : α) : List α := if l.contains x then l else x :: l

/-- endpoint.cpp:61 `m_Clients.erase(client)` — the other clients stay. -/
def setErase {α : Type} [BEq α] (l : List α) (x : α) : List α := l.filter (· != x)

/-- One connection attached to an `Endpoint` object: the endpoint's name and the identity of the connection
    (both members of a zone dial each other, so one endpoint can hold several at a time). -/
abbrev Client := Name × Nat

/-- endpoint.cpp:88-92 `GetConnected()`: `!m_Clients.empty()` of the endpoint called `e` — at least one client left. -/
def connectedTo (cs : List Client) (e : Name) : Bool := cs.any (fun c => c.1 == e)

/-! ### ApiListener::UpdateObjectAuthority -/

/-- What one run decides for one object name. -/
inductive Verdict
  | keep                 -- :46-47 cold start: return before the loop, nothing is touched
  | set (b : Bool)       -- :66-79 `object->SetAuthority(b)`
  | undefined            -- :71 with an empty `endpoints` vector (`% 0`): cannot happen when the local endpoint is a member
  deriving DecidableEq, Repr

/-- :34-41 — members of the local zone that are the local endpoint or connected, in the zone's iteration order. -/
def candidates (members : List Name) (self : Name) (conn : Name → Bool) : List Name :=
  members.filter (fun e => e == self || conn e)

/-- :46 — `num_total > 1 && endpoints.size() <= 1 && (startTime == 0 || Utility::GetTime() - startTime < 30)`. -/
def coldStart (numTotal nCand : Nat) (start now : Int) : Bool :=
  decide (numTotal > 1) && decide (nCand ≤ 1) && (decide (start = 0) || decide (now - start < 30))

/-- :71 — `endpoints[Utility::SDBM(name) % endpoints.size()]` (64-bit unsigned remainder). -/
def ownerOf (sorted : List Name) (name : Name) : Option Name :=
  sorted[(sdbm name).toNat % sorted.length]?

/-- :24-71.  `zone = none`: `Zone::GetLocalZone()` is null (no ApiListener, or the local endpoint is in no zone).
    `zone = some ms`: names of `my_zone->GetEndpoints()` (a `std::set` of pointers: distinct, arbitrary order). -/
def authority (zone : Option (List Name)) (self : Name) (conn : Name → Bool) (start now : Int) (name : Name) : Verdict :=
  match zone with
  | none => .set true
  | some ms =>
    let c := candidates ms self conn
    if coldStart ms.length c.length start now then .keep
    else match ownerOf (sortNames c) name with
      | none => .undefined
      | some o => .set (o == self)

/-! ### ConfigObject::SetAuthority with ghost counters -/

/-- What kind of work an object stands for. -/
inductive Kind | notification | checkable | other
  deriving DecidableEq, Repr

/-- What the property looks at of one config object. -/
structure ObjCfg where
  name : Name
  runOnce : Bool      -- `GetHAMode() == HARunOnce` (configobject.ti:83, default)
  active : Bool       -- `IsActive()`
  kind : Kind := .other
  deriving DecidableEq, Repr

structure Obj where
  paused : Bool       -- configobject.ti:76, default true
  pauses : Nat        -- ghost: number of `Pause()` calls
  resumes : Nat       -- ghost: number of `Resume()` calls
  execs : Nat := 0    -- ghost: executions of the notification command / the check command for this object
  stash : Nat := 0    -- length of a Notification's `stashed_notifications` (notification.ti:80)
  reqs : Nat := 0     -- ghost: notifications this node REQUESTED for this checkable out of `Checkable::FireSuppressedNotificationsTimer`
  deriving DecidableEq, Repr

/-- configobject.cpp:444-459. -/
def setAuthority (o : Obj) (authority : Bool) : Obj :=
  if authority && o.paused then { o with paused := false, resumes := o.resumes + 1 }
  else if !authority && !o.paused then { o with paused := true, pauses := o.pauses + 1 }
  else o

/-- A freshly activated object: `paused` defaults to true; configobject.cpp:372-373 `Activate()` calls
    `SetAuthority(true)` for run-everywhere objects. -/
def fresh (c : ObjCfg) : Obj :=
  if c.active && !c.runOnce then setAuthority { paused := true, pauses := 0, resumes := 0 } true
  else { paused := true, pauses := 0, resumes := 0 }

/-- (Re)start of the process: the config compiler creates every object anew (`fresh`).  `keep`: the old process had
    written its state file (icingaapplication.cpp:164 `DumpObjects`, every 5 minutes and at shutdown) and the new one restores it
    into the new objects before they are activated (daemoncommand.cpp:289 `RestoreObjects`): attributes with the `state` flag
    only.  Of what the model holds that is a Notification's `stashed_notifications` (notification.ti:80); `paused`
    (configobject.ti:76) carries no `state` flag, nor do the `Pause()`/`Resume()` flags. -/
def restart (c : ObjCfg) (old : Obj) (keep : Bool) : Obj :=
  { fresh c with stash := if keep then old.stash else 0 }

/-! ### the work a node does for an object: notifications and checks -/

/-- checkable-notification.cpp:66-110, for one Notification of the checkable a notification is requested for.
    `updated` = `ApiListener::UpdatedObjectAuthority()`: an authority run has completed in this process.
    Not yet ⇒ stash; paused ⇒ skip; otherwise send — or stash behind earlier stashed ones to preserve the order. -/
def requestObj (updated : Bool) (c : ObjCfg) (o : Obj) : Obj :=
  if c.kind != .notification then o
  else if !updated then { o with stash := o.stash + 1 }
  else if o.paused then o
  else if o.stash > 0 then { o with stash := o.stash + 1 }
  else { o with execs := o.execs + 1 }

/-- notificationcomponent.cpp:138-206, for one Notification (`enable_ha` at its default true, notifications
    enabled, checkable reachable, no reminder due).  :139 inactive ⇒ skip.  :146-156 paused and authority known ⇒
    the stash is dropped.  :159-163 paused on a node with a local endpoint ⇒ skip.  :176-205 otherwise every
    stashed notification is sent. -/
def ntimerObj (updated endpoint : Bool) (c : ObjCfg) (o : Obj) : Obj :=
  if c.kind != .notification || !c.active then o
  else
    let o1 : Obj := if o.paused && updated then { o with stash := 0 } else o
    if o.paused && endpoint then o1
    else { o1 with execs := o1.execs + o1.stash, stash := 0 }

/-- checkercomponent.cpp:291-317: a checkable is in the scheduler's idle set iff active ∧ ¬paused (objects of the
    harness have no zone of their own); a due check of an object in the idle set is executed, any other is not. -/
def dueObj (c : ObjCfg) (o : Obj) : Obj :=
  if c.kind == .checkable && c.active && !o.paused then { o with execs := o.execs + 1 } else o

/-- checkable-notification.cpp:132-250 `Checkable::FireSuppressedNotifications()`, run for every Host/Service by the 5 s timer
    `Checkable::FireSuppressedNotificationsTimer` (:252-261), for a checkable on which a suppressed Problem notification is pending
    and every other re-send condition holds (notifications enabled, hard state that differs from the state before the
    suppression, no downtime / acknowledgement / unreachable parent any more, no check due soon, no recent parent recovery).
    :134 inactive ⇒ nothing.  :137 **paused ⇒ nothing** (the member in charge of the checkable requests the notification and relays
    it to the other one, ClusterEvents::SendNotificationsHandler).  Otherwise :215 `OnNotificationsRequested` once. -/
def fireObj (c : ObjCfg) (o : Obj) : Obj :=
  if c.kind == .checkable && c.active && !o.paused then { o with reqs := o.reqs + 1 } else o

/-- An object created while the process is running (configobjectutility.cpp:255-300 `CreateObject` → configitem.cpp `ActivateItems`
    with `runtimeCreated = true` → configobject.cpp:361-377 `Activate(true)`; the same path on the other zone member through
    `config::UpdateObject`): a new object like any other — `paused` by default, resumed by `Activate()` only if it runs everywhere.
    Nothing of an earlier object of that name is left. -/
def created (c : ObjCfg) : Obj := fresh c

/-- apilistener-authority.cpp:63 — the guard of the loop body. -/
def touched (c : ObjCfg) : Bool := c.active && c.runOnce

def applyVerdict (c : ObjCfg) (o : Obj) (v : Verdict) : Obj :=
  if touched c then
    match v with
    | .set b => setAuthority o b
    | _ => o
  else o

/-! ### one node -/

structure Node where
  zone : Option (List Name)
  self : Name
  clients : List Client  -- the connections attached to the Endpoint objects of this process (`Endpoint::m_Clients`)
  start : Int            -- `Application::GetStartTime()`, 0 = not set yet
  objs : List Obj
  updated : Bool := false   -- `ApiListener::m_UpdatedObjectAuthority` (apilistener-authority.cpp:83)
  endpoint : Bool := true   -- `Endpoint::GetLocalEndpoint()` is non-null (an ApiListener exists)
  deriving Repr

/-- One run of `UpdateObjectAuthority` at time `now` over the objects described by `cfgs`. -/
def Node.update (cfgs : List ObjCfg) (n : Node) (now : Int) : Node :=
  let f := fun (c : ObjCfg) (o : Obj) =>
    applyVerdict c o (authority n.zone n.self (connectedTo n.clients) n.start now c.name)
  -- :46-47 the cold-start return comes before `m_UpdatedObjectAuthority.store(true)` (:83); it does not depend on a name
  let cold := authority n.zone n.self (connectedTo n.clients) n.start now [] == .keep
  { n with objs := List.zipWith f cfgs n.objs, updated := n.updated || !cold }

/-- `Endpoint::AddClient` / `RemoveClient` on the Endpoint object called `e` with connection number `id`. -/
def Node.link (n : Node) (e : Name) (id : Nat) (up : Bool) : Node :=
  { n with clients := if up then setInsert n.clients (e, id) else setErase n.clients (e, id) }

/-- A notification is requested for the checkable all Notification objects of the case belong to. -/
def Node.request (cfgs : List ObjCfg) (n : Node) : Node :=
  { n with objs := List.zipWith (requestObj n.updated) cfgs n.objs }

/-- One run of the notification timer. -/
def Node.ntimer (cfgs : List ObjCfg) (n : Node) : Node :=
  { n with objs := List.zipWith (ntimerObj n.updated n.endpoint) cfgs n.objs }

/-- `dueObj` on the object at position `i` (`k` = position of the head). -/
def dueList (i : Nat) : Nat → List ObjCfg → List Obj → List Obj
  | k, c :: cs, o :: os => (if k == i then dueObj c o else o) :: dueList i (k + 1) cs os
  | _, _, os => os

/-- Object number `i` becomes due for a check. -/
def Node.due (cfgs : List ObjCfg) (n : Node) (i : Nat) : Node :=
  { n with objs := dueList i 0 cfgs n.objs }

/-- `f` on the object at position `i` (`k` = position of the head). -/
def atList (f : ObjCfg → Obj → Obj) (i : Nat) : Nat → List ObjCfg → List Obj → List Obj
  | k, c :: cs, o :: os => (if k == i then f c o else o) :: atList f i (k + 1) cs os
  | _, _, os => os

/-- The suppressed-notifications timer runs while a suppressed notification is pending on object number `i` (only). -/
def Node.fire (cfgs : List ObjCfg) (n : Node) (i : Nat) : Node :=
  { n with objs := atList fireObj i 0 cfgs n.objs }

/-- Object number `i` is deleted and created anew at runtime. -/
def Node.create (cfgs : List ObjCfg) (n : Node) (i : Nat) : Node :=
  { n with objs := atList (fun c _ => created c) i 0 cfgs n.objs }

/-! ### two members, one object: the system the whole-trace theorem is about -/

inductive Side | A | B
  deriving DecidableEq, Repr

/-- Zone layouts of the property: no zone configuration, a zone of one's own, one zone with both members. -/
inductive Layout | noZone | single | pair
  deriving DecidableEq, Repr

inductive Ev
  | boot (s : Side) (start : Int) (keep : Bool)  -- (re)start of the process: new objects, no connections; `keep`: through the state file
  | link (s : Side) (id : Nat) (up : Bool)  -- connection number `id` of `s` to the other member is attached / removed
  | upd (s : Side) (now : Int)        -- `UpdateObjectAuthority()` on `s` (directly, or the authority timer fired)
  | idle (s : Side)                   -- anything else (a timer pump in which the authority timer was not due)
  | request (s : Side)                -- a notification is requested on `s` for the object's checkable
  | ntimer (s : Side)                 -- the notification timer runs on `s`
  | due (s : Side)                    -- this object (a checkable) becomes due for a check on `s`
  | fire (s : Side)                   -- the suppressed-notifications timer runs on `s` while one is pending on this object (a checkable)
  | create (s : Side)                 -- this object is created at runtime on `s` (a new object; an older one of that name is gone)
  deriving DecidableEq, Repr

def Ev.side : Ev → Side
  | .boot s _ _ => s | .link s _ _ => s | .upd s _ => s | .idle s => s
  | .request s => s | .ntimer s => s | .due s => s | .fire s => s | .create s => s

structure Half where
  conns : List Nat       -- numbers of the connections to the other member that are attached on this side
  start : Int
  obj : Obj
  updated : Bool := false
  deriving DecidableEq, Repr

/-- `Endpoint::GetConnected()` of the other member's Endpoint object: at least one connection left. -/
def Half.sees (h : Half) : Bool := !h.conns.isEmpty

structure Pair where
  a : Half
  b : Half
  deriving DecidableEq, Repr

def zoneOf (l : Layout) (nA nB : Name) (s : Side) : Option (List Name) :=
  match l with
  | .noZone => none
  | .single => some [match s with | .A => nA | .B => nB]
  | .pair => some [nA, nB]

def selfOf (nA nB : Name) : Side → Name
  | .A => nA | .B => nB

def otherOf (nA nB : Name) : Side → Name
  | .A => nB | .B => nA

def stepHalf (l : Layout) (nA nB : Name) (c : ObjCfg) (s : Side) (h : Half) : Ev → Half
  | .boot _ start keep => { conns := [], start := start, obj := restart c h.obj keep, updated := false }
  | .link _ id up => { h with conns := if up then setInsert h.conns id else setErase h.conns id }
  | .upd _ now =>
    let v := authority (zoneOf l nA nB s) (selfOf nA nB s) (fun e => h.sees && e == otherOf nA nB s) h.start now c.name
    { h with obj := applyVerdict c h.obj v, updated := h.updated || v != .keep }
  | .idle _ => h
  | .request _ => { h with obj := requestObj h.updated c h.obj }
  | .ntimer _ => { h with obj := ntimerObj h.updated (l != .noZone) c h.obj }
  | .due _ => { h with obj := dueObj c h.obj }
  | .fire _ => { h with obj := fireObj c h.obj }
  | .create _ => { h with obj := created c }

def step (l : Layout) (nA nB : Name) (c : ObjCfg) (p : Pair) (e : Ev) : Pair :=
  match e.side with
  | .A => { p with a := stepHalf l nA nB c .A p.a e }
  | .B => { p with b := stepHalf l nA nB c .B p.b e }

def initPair (c : ObjCfg) : Pair :=
  { a := { conns := [], start := 0, obj := fresh c }, b := { conns := [], start := 0, obj := fresh c } }

/-- The observed trace: after every event, the object's state on A and on B. -/
def trace (l : Layout) (nA nB : Name) (c : ObjCfg) : Pair → List Ev → List (Ev × Obj × Obj)
  | _, [] => []
  | p, e :: es => let p' := step l nA nB c p e; (e, p'.a.obj, p'.b.obj) :: trace l nA nB c p' es

end Icinga.C10

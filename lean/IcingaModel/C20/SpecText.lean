/-
  C20 — the property's clauses about text (UTF-8 sanitising) as executable predicates over observations.
  The only definition shared with the model side is the *format* (the strict decoder `utf8Decode`, which
  accepts exactly well-formed UTF-8: shortest form, no surrogates, at most U+10FFFF).
-/
import IcingaModel.C20.Spec
import IcingaModel.C20.Utf8

namespace Icinga.C20

/-- The sanitising step (Utility::ValidateUTF8) observed on one input: the output is always well-formed UTF-8,
    and a well-formed input comes back unchanged.  (That every ill-formed sequence becomes exactly one U+FFFD the
    way utf8cpp does it is a matter of the correspondence diff against `sanitise`.) -/
def sanitiseSpec (input output : List UInt8) : Option Clause :=
  if (utf8Decode output).isNone then some .utf8Wellformed
  else if (utf8Decode input).isSome && output != input then some .utf8KeepsValid
  else none

end Icinga.C20

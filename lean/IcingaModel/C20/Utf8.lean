/-
  C20 — UTF-8 sanitising in front of / behind the JSON codec: executable model of
  `Utility::ValidateUTF8` (lib/base/utility.cpp:1780-1794), i.e. of `utf8::replace_invalid`
  (third-party/utf8cpp/source/utf8/checked.h:83-120) looping over `utf8::internal::validate_next`
  (third-party/utf8cpp/source/utf8/core.h:239-292), and of the way `JsonEncode`/`JsonDecode` use it
  (lib/base/json.cpp:98, 113, 147, 211).  Core Lean only.

  Iterators are modelled as list suffixes: the C++ iterator `it` is "the list starting at `*it`",
  `it == end` is "the list is `[]`".

  Shifts and masks are written arithmetically so that `omega` can reason about them; on the
  non-negative values that occur this is the same function: `x >> k` is `x / 2^k`, `x << k` is
  `x * 2^k` (no 32-bit overflow: the largest shift is `0xFF << 18 < 2^32`), `x & (2^k - 1)` is
  `x % 2^k`, and `hi | lo` is `hi + lo` whenever the two operands have no set bit in common (true at
  every `|` in `append`).  `(*it) & 0x3f` on a possibly signed `char` equals `mask8(*it) & 0x3f`
  because sign extension only touches bits 8 and up.
-/
import IcingaModel.C20.Json
namespace Icinga.C20

/-! ## core.h predicates -/

/-- core.h:85-89 `is_trail`: `(mask8(oc) >> 6) == 0x2`, i.e. 0x80..0xBF. -/
def isTrail (b : UInt8) : Bool := b.toNat / 64 == 2

/-- core.h:103-107 `is_surrogate`: `cp >= 0xd800 && cp <= 0xdfff`. -/
def isSurrogate (cp : Nat) : Bool := decide (0xD800 ≤ cp) && decide (cp ≤ 0xDFFF)

/-- core.h:109-113 `is_code_point_valid`: `cp <= 0x10ffff && !is_surrogate(cp)`. -/
def isCodePointValid (cp : Nat) : Bool := decide (cp ≤ 0x10FFFF) && !isSurrogate cp

/-- core.h:115-130 `sequence_length`: 1 for 0x00..0x7F, 2 for 0xC0..0xDF (`lead >> 5 == 6`), 3 for
    0xE0..0xEF (`lead >> 4 == 0xe`), 4 for 0xF0..0xF7 (`lead >> 3 == 0x1e`), 0 (= invalid lead)
    for 0x80..0xBF and 0xF8..0xFF.  Note that 0xC0, 0xC1 and 0xF5..0xF7 *are* leads here; their
    sequences fail later as overlong / invalid code point. -/
def sequenceLength (lead : UInt8) : Nat :=
  if lead.toNat < 0x80 then 1
  else if lead.toNat / 32 = 0x6 then 2
  else if lead.toNat / 16 = 0xE then 3
  else if lead.toNat / 8 = 0x1E then 4
  else 0

/-- core.h:132-149 `is_overlong_sequence`. -/
def isOverlongSequence (cp length : Nat) : Bool :=
  if cp < 0x80 then length != 1
  else if cp < 0x800 then length != 2
  else if cp < 0x10000 then length != 3
  else false

/-- core.h:151 `enum utf_error` without `UTF8_OK` (success is `Except.ok`). -/
inductive Utf8Err where
  | notEnoughRoom
  | invalidLead
  | incompleteSequence
  | overlongSequence
  | invalidCodePoint
  deriving DecidableEq, Repr

/-! ## core.h `get_sequence_x` -/

/-- core.h:153-164 `increase_safely(it, end)`.  The argument is what follows the byte `it`
    currently points at (so `++it == end` iff it is `[]`); the result is the byte `it` points at
    afterwards together with what follows that byte.  Order of the two checks as in the source:
    end of input first (`NOT_ENOUGH_ROOM`), then `!is_trail(*it)` (`INCOMPLETE_SEQUENCE`). -/
def increaseSafely : List UInt8 → Except Utf8Err (UInt8 × List UInt8)
  | [] => .error .notEnoughRoom
  | b :: rest => if isTrail b then .ok (b, rest) else .error .incompleteSequence

/-- core.h:169-178 `get_sequence_1`; `after` = input following the lead.  The `it == end` guard of
    every `get_sequence_x` cannot fire: `validate_next` returned at core.h:242 already.  The second
    component is the input after the *last* byte of the sequence, i.e. the `++it` of core.h:279 is
    folded in (it is only ever looked at on success). -/
def getSequence1 (lead : UInt8) (after : List UInt8) : Except Utf8Err (Nat × List UInt8) :=
  .ok (lead.toNat, after)

/-- core.h:180-193 `get_sequence_2`: `((lead << 6) & 0x7ff) + (b1 & 0x3f)`. -/
def getSequence2 (lead : UInt8) (after : List UInt8) : Except Utf8Err (Nat × List UInt8) :=
  match increaseSafely after with
  | .error e => .error e
  | .ok (b1, r1) => .ok (lead.toNat * 64 % 0x800 + b1.toNat % 64, r1)

/-- core.h:195-212 `get_sequence_3`:
    `((lead << 12) & 0xffff) + ((b1 << 6) & 0xfff)`, then `+= b2 & 0x3f`. -/
def getSequence3 (lead : UInt8) (after : List UInt8) : Except Utf8Err (Nat × List UInt8) :=
  match increaseSafely after with
  | .error e => .error e
  | .ok (b1, r1) =>
    match increaseSafely r1 with
    | .error e => .error e
    | .ok (b2, r2) => .ok (lead.toNat * 4096 % 0x10000 + b1.toNat * 64 % 0x1000 + b2.toNat % 64, r2)

/-- core.h:214-235 `get_sequence_4`: `((lead << 18) & 0x1fffff) + ((b1 << 12) & 0x3ffff)`, then
    `+= (b2 << 6) & 0xfff`, then `+= b3 & 0x3f`. -/
def getSequence4 (lead : UInt8) (after : List UInt8) : Except Utf8Err (Nat × List UInt8) :=
  match increaseSafely after with
  | .error e => .error e
  | .ok (b1, r1) =>
    match increaseSafely r1 with
    | .error e => .error e
    | .ok (b2, r2) =>
      match increaseSafely r2 with
      | .error e => .error e
      | .ok (b3, r3) =>
        .ok (lead.toNat * 262144 % 0x200000 + b1.toNat * 4096 % 0x40000 + b2.toNat * 64 % 0x1000
          + b3.toNat % 64, r3)

/-- core.h:256-271, the `switch (length)`.  `case 0: return INVALID_LEAD`; `sequence_length` only
    returns 0..4, so the catch-all stands for 0. -/
def getSequence (length : Nat) (lead : UInt8) (after : List UInt8) :
    Except Utf8Err (Nat × List UInt8) :=
  match length with
  | 1 => getSequence1 lead after
  | 2 => getSequence2 lead after
  | 3 => getSequence3 lead after
  | 4 => getSequence4 lead after
  | _ => .error .invalidLead

/-- core.h:273-287, the "security checks" after a successful decode. -/
def checkCodePoint (cp length : Nat) : Except Utf8Err Unit :=
  if isCodePointValid cp then
    if !isOverlongSequence cp length then .ok ()
    else .error .overlongSequence
  else .error .invalidCodePoint

/-- core.h:239-292 `validate_next(it, end, code_point)`: on success the code point and the input
    after the sequence (`it` advanced past it, core.h:279); on failure the error code (the C++
    restores `it` to the start of the sequence, core.h:290 — the caller still has that list).
    On `[]` (`it == end`, core.h:242) the result is `NOT_ENOUGH_ROOM`; `replace_invalid` never calls
    it that way (`while (start != end)`). -/
def validateNext : List UInt8 → Except Utf8Err (Nat × List UInt8)
  | [] => .error .notEnoughRoom
  | lead :: after =>
    let length := sequenceLength lead
    match getSequence length lead after with
    | .error e => .error e
    | .ok (cp, rest) =>
      match checkCodePoint cp length with
      | .error e => .error e
      | .ok () => .ok (cp, rest)

/-! ## checked.h `replace_invalid`, `Utility::ValidateUTF8` -/

/-- core.h:303-323 `append(cp, result)` (via checked.h:73-81, whose validity check holds for every
    `Char`): the UTF-8 encoding of a scalar value, 1..4 bytes.  `(cp >> 6) | 0xc0` is written
    `cp / 64 + 0xC0` etc.; `UInt8.ofNat` is the `static_cast<octet_type>`. -/
def utf8EncodeChar (c : Char) : List UInt8 :=
  let cp := c.toNat
  if cp < 0x80 then [UInt8.ofNat cp]
  else if cp < 0x800 then [UInt8.ofNat (cp / 64 + 0xC0), UInt8.ofNat (cp % 64 + 0x80)]
  else if cp < 0x10000 then
    [UInt8.ofNat (cp / 4096 + 0xE0), UInt8.ofNat (cp / 64 % 64 + 0x80), UInt8.ofNat (cp % 64 + 0x80)]
  else
    [UInt8.ofNat (cp / 262144 + 0xF0), UInt8.ofNat (cp / 4096 % 64 + 0x80),
      UInt8.ofNat (cp / 64 % 64 + 0x80), UInt8.ofNat (cp % 64 + 0x80)]

def utf8Encode : List Char → List UInt8
  | [] => []
  | c :: cs => utf8EncodeChar c ++ utf8Encode cs

/-- U+FFFD as `utf8::append(replacement, out)` writes it (checked.h:117, utility.cpp:1780). -/
def replacementMark : List UInt8 := [0xEF, 0xBF, 0xBD]

/-- checked.h:111-112 `while (start != end && is_trail(*start)) ++start;`. -/
def skipTrail (bs : List UInt8) : List UInt8 := bs.dropWhile isTrail

/-- checked.h:91-92: the bytes `[sequence_start, start)` copied on `UTF8_OK`, where `bs` is the
    input at `sequence_start` and `rest` the input at `start`. -/
def consumed (bs rest : List UInt8) : List UInt8 := bs.take (bs.length - rest.length)

/-- checked.h:83-115 `replace_invalid` with fuel.  Every iteration consumes at least one byte, so
    fuel = input length is enough (`sanitiseF_fuel` in the lemma file).
    * `UTF8_OK`: copy the sequence, continue after it (:90-93);
    * `NOT_ENOUGH_ROOM`: one U+FFFD, `start = end`, i.e. stop (:94-97);
    * `INVALID_LEAD`: one U+FFFD, skip that one byte (:98-101);
    * `INCOMPLETE_SEQUENCE`, `OVERLONG_SEQUENCE`, `INVALID_CODE_POINT`: one U+FFFD, skip the lead
      and every trail byte directly following it (:102-111). -/
def sanitiseF : Nat → List UInt8 → List UInt8
  | 0, _ => []
  | _ + 1, [] => []
  | f + 1, b :: after =>
    match validateNext (b :: after) with
    | .ok (_, rest) => consumed (b :: after) rest ++ sanitiseF f rest
    | .error .notEnoughRoom => replacementMark
    | .error .invalidLead => replacementMark ++ sanitiseF f after
    | .error .incompleteSequence => replacementMark ++ sanitiseF f (skipTrail after)
    | .error .overlongSequence => replacementMark ++ sanitiseF f (skipTrail after)
    | .error .invalidCodePoint => replacementMark ++ sanitiseF f (skipTrail after)

/-- utility.cpp:1782-1794 `Utility::ValidateUTF8`.  Its `catch (const utf8::not_enough_room&)` is
    dead with this utf8cpp version: `replace_invalid` handles `NOT_ENOUGH_ROOM` itself
    (checked.h:94-97) and `validate_next` reports errors by return value. -/
def sanitise (bs : List UInt8) : List UInt8 := sanitiseF bs.length bs

/-! ## Strict decoder (specification side) -/

/-- Strict UTF-8 decoder with fuel: every sequence must pass `validateNext` (shortest form, no
    surrogates, at most 0x10FFFF). -/
def utf8DecodeF : Nat → List UInt8 → Option (List Char)
  | _, [] => some []
  | 0, _ :: _ => none
  | f + 1, b :: after =>
    match validateNext (b :: after) with
    | .error _ => none
    | .ok (cp, rest) =>
      match charOfNat? cp with
      | none => none
      | some c =>
        match utf8DecodeF f rest with
        | none => none
        | some cs => some (c :: cs)

def utf8Decode (bs : List UInt8) : Option (List Char) := utf8DecodeF bs.length bs

/-- Decoding of sanitised bytes.  `utf8Decode (sanitise bs)` is never `none`
    (`utf8Decode_sanitise_isSome` in the lemma file); the `[]` is only there for totality. -/
def decodeLossy (bs : List UInt8) : List Char :=
  match utf8Decode (sanitise bs) with
  | some cs => cs
  | none => []

/-! ## Values with byte-string strings -/

/-- Value with byte-string strings/keys (what an Icinga `Value` holds). -/
inductive BValue (N : Type) where
  | null
  | bool (b : Bool)
  | num (n : N)
  | str (s : List UInt8)
  | arr (xs : List (BValue N))
  | obj (kvs : List (List UInt8 × BValue N))

mutual
/-- Every string/key `s` becomes the code points of `sanitise s`. -/
def BValue.toJ {N : Type} : BValue N → JValue N
  | .null => .null
  | .bool b => .bool b
  | .num n => .num n
  | .str s => .str (decodeLossy s)
  | .arr xs => .arr (BValue.toJElems xs)
  | .obj kvs => .obj (BValue.toJMembers kvs)
def BValue.toJElems {N : Type} : List (BValue N) → List (JValue N)
  | [] => []
  | x :: xs => x.toJ :: BValue.toJElems xs
def BValue.toJMembers {N : Type} : List (List UInt8 × BValue N) → List (List Char × JValue N)
  | [] => []
  | (k, v) :: kvs => (decodeLossy k, v.toJ) :: BValue.toJMembers kvs
end

mutual
/-- Every string/key becomes its UTF-8 encoding. -/
def JValue.toB {N : Type} : JValue N → BValue N
  | .null => .null
  | .bool b => .bool b
  | .num n => .num n
  | .str s => .str (utf8Encode s)
  | .arr xs => .arr (JValue.toBElems xs)
  | .obj kvs => .obj (JValue.toBMembers kvs)
def JValue.toBElems {N : Type} : List (JValue N) → List (BValue N)
  | [] => []
  | x :: xs => x.toB :: JValue.toBElems xs
def JValue.toBMembers {N : Type} : List (List Char × JValue N) → List (List UInt8 × BValue N)
  | [] => []
  | (k, v) :: kvs => (utf8Encode k, v.toB) :: JValue.toBMembers kvs
end

mutual
/-- Every string/key `s` becomes `sanitise s`. -/
def BValue.sanitised {N : Type} : BValue N → BValue N
  | .null => .null
  | .bool b => .bool b
  | .num n => .num n
  | .str s => .str (sanitise s)
  | .arr xs => .arr (BValue.sanitisedElems xs)
  | .obj kvs => .obj (BValue.sanitisedMembers kvs)
def BValue.sanitisedElems {N : Type} : List (BValue N) → List (BValue N)
  | [] => []
  | x :: xs => x.sanitised :: BValue.sanitisedElems xs
def BValue.sanitisedMembers {N : Type} : List (List UInt8 × BValue N) → List (List UInt8 × BValue N)
  | [] => []
  | (k, v) :: kvs => (sanitise k, v.sanitised) :: BValue.sanitisedMembers kvs
end

/-- `JsonEncode` on values holding byte strings: json.cpp:147
    `stateMachine.Strng(Utility::ValidateUTF8(value.Get<String>()))`, :98/:113
    `stateMachine.Key(Utility::ValidateUTF8(kv.first))`; the sanitised bytes are then UTF-8 decoded
    by `dump_escaped` (taken as given in Json.lean, made explicit here by `decodeLossy`). -/
def jsonEncodeB {N : Type} (c : NumCodec N) (v : BValue N) : List UInt8 := jsonEncode c v.toJ

/-- `JsonDecode`: json.cpp:211 `String sanitized (Utility::ValidateUTF8(data));`, then :215
    `sax_parse(sanitized...)`; the parser stores strings as UTF-8 bytes. -/
def jsonDecodeB {N : Type} (c : NumCodec N) (bs : List UInt8) : Option (BValue N) :=
  (jsonDecode c (sanitise bs)).map JValue.toB

end Icinga.C20

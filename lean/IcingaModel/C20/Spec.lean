/-
  C20 — the property as executable predicates over *observed* behaviour (what the harness saw the real
  code do), written at the level of properties.jsonl.  Nothing here looks at the readers' models; the
  only shared definition is the *format* itself (`nsEncode`: decimal length, ':', payload, ',').
  The driver evaluates these predicates on the implementation's observations; the theorems in
  IcingaProofs/C20.lean show that the models satisfy them on every input.
-/
import IcingaModel.C20.Model

namespace Icinga.C20

inductive Clause
  | tlsOnlyCanonical     -- a payload was returned although the consumed bytes are not its canonical frame
  | tlsOverLimit         -- a payload longer than the limit was returned
  | tlsValidRejected     -- a canonical frame within the limit was not returned (round trip broken)
  | tlsLimitLate         -- an over-limit header was not rejected before the payload (bytes after ':' consumed)
  | framesSplit          -- framed stream: the items are not exactly the payloads written, in order
  | framesEnd            -- framed stream: the loop did not end in end-of-file (resp. the limit error)
  | readerEnds           -- hostile stream: the loop did not end (call budget exceeded) or ended in neither EOF nor error
  | itemsInside          -- hostile stream: the items returned are longer than the stream that was fed
  | writerFormat         -- WriteStringToStream did not emit `len ":" payload ","`
  | jsonRoundtrip        -- JsonDecode (JsonEncode v) ≠ v
  | messageOnlyObjects   -- JsonRpc::DecodeMessage returned something that is not a dictionary (null pointer, other value)
  | messageNotObjectText -- JsonRpc::DecodeMessage returned a dictionary for a payload that is not a JSON object text
  | depthLimit           -- JsonDecode accepted a document nested deeper than its declared limit
  | utf8Wellformed       -- ValidateUTF8 returned bytes that are not well-formed UTF-8
  | utf8KeepsValid       -- ValidateUTF8 changed a well-formed input
  | noCrash              -- the real code crashed, aborted or hung while processing the case
  | tlsViolationNotRejected -- a frame from the network that visibly violates the format was not answered with an error (the reader kept waiting / saw end-of-stream)
  | connUnauthLimit      -- a peer that is not authenticated got a frame of more than 1 MiB (or anything after it) delivered
  | connFrames           -- a started connection did not deliver exactly the messages of the leading well-formed frames, in order
  | connEnds             -- a started connection did not shut itself down after the peer's end of stream
  | stateRestore         -- a well-framed state file was refused, or its one applicable record did not arrive in the object
  | stateRoundtrip       -- a state file written by DumpObjects was refused by RestoreObjects, or an object did not get back the value it held
  | tlsAllocBounded      -- a read from the network allocated a buffer larger than the limit declared for it
  deriving Repr, DecidableEq

def Clause.name : Clause → String
  | .tlsOnlyCanonical => "tlsOnlyCanonical" | .tlsOverLimit => "tlsOverLimit"
  | .tlsValidRejected => "tlsValidRejected" | .tlsLimitLate => "tlsLimitLate"
  | .framesSplit => "framesSplit" | .framesEnd => "framesEnd" | .readerEnds => "readerEnds"
  | .itemsInside => "itemsInside" | .writerFormat => "writerFormat" | .jsonRoundtrip => "jsonRoundtrip"
  | .messageOnlyObjects => "messageOnlyObjects" | .messageNotObjectText => "messageNotObjectText" | .noCrash => "no_crash"
  | .depthLimit => "depthLimit"
  | .utf8Wellformed => "utf8Wellformed" | .utf8KeepsValid => "utf8KeepsValid"
  | .tlsViolationNotRejected => "tlsViolationNotRejected"
  | .connUnauthLimit => "connUnauthLimit" | .connFrames => "connFrames" | .connEnds => "connEnds"
  | .stateRestore => "stateRestore"
  | .stateRoundtrip => "stateRoundtrip" | .tlsAllocBounded => "tlsAllocBounded"

/-! ### frames from the network -/

/-- The frame a stream starts with, read off the *format*: the leading digits denote `n`; the next `n`
    bytes after one separator are the candidate payload `p`; it is a frame iff the canonical encoding of
    `p` is a prefix of the stream (and the length field has at most nine digits). -/
def specFrame (bs : Bytes) : Option (Bytes × Bytes) :=
  let ds := bs.takeWhile isDigit
  let n := digitsVal 0 ds
  let p := (bs.drop (ds.length + 1)).take n
  if ds.length ≤ 9 ∧ (nsEncode p).isPrefixOf bs then some (p, bs.drop (nsEncode p).length) else none

def withinLimit (max : Option Nat) (n : Nat) : Bool :=
  match max with
  | none => true
  | some m => decide (n ≤ m)

/-- What was observed of one TLS read. -/
inductive TlsObs
  | ok (payload : Bytes) (restLen : Nat)
  | err (restLen : Nat)
  | eof
  deriving Repr, DecidableEq

/-- The declared length of a well-formed header `digits ":"` at the head of the stream, with the number of
    bytes that follow the ':' . -/
def specHeader (bs : Bytes) : Option (Nat × Nat) :=
  let ds := bs.takeWhile isDigit
  match bs.drop ds.length with
  | c :: tail => if c == colon ∧ ds ≠ [] ∧ ds.length ≤ 9 ∧ natDigits (digitsVal 0 ds) == ds then some (digitsVal 0 ds, tail.length) else none
  | [] => none

/-- The property for one read from the network:
    * a payload is returned only for a canonical frame within the limit, and the rest of the stream is untouched;
    * a canonical frame within the limit is always returned;
    * a header declaring more than the limit is rejected with everything after the ':' unread. -/
def tlsSpec (max : Option Nat) (bs : Bytes) (o : TlsObs) : Option Clause :=
  match o with
  | .ok p restLen =>
    if !((nsEncode p).isPrefixOf bs && restLen + (nsEncode p).length == bs.length) then some .tlsOnlyCanonical
    else if !withinLimit max p.length then some .tlsOverLimit
    else none
  | .err restLen =>
    match specFrame bs with
    | some (p, _) => if withinLimit max p.length then some .tlsValidRejected else
        match specHeader bs with
        | some (_, after) => if restLen == after then none else some .tlsLimitLate
        | none => none
    | none =>
      match specHeader bs with
      | some (n, after) => if !withinLimit max n && restLen != after then some .tlsLimitLate else none
      | none => none
  | .eof =>
    match specFrame bs with
    | some (p, _) => if withinLimit max p.length then some .tlsValidRejected else some .tlsLimitLate
    | none =>
      match specHeader bs with
      | some (n, _) => if !withinLimit max n then some .tlsLimitLate else none
      | none => none

/-- A digit string that starts with '0' and goes on. -/
def zeroThenDigit : Bytes → Bool
  | a :: _ :: _ => a == 48
  | _ => false

/-- Does the stream, as far as it goes, VISIBLY violate the frame format (under the limit `max`)?  Read off the format
    `digits ":" payload ","`:
    * a length field of more than nine digits, or a leading zero followed by another digit;
    * a byte that is neither a digit nor ':' where the length field should end, or no digit at all before the ':';
    * a complete header that declares more than the limit;
    * header within the limit, all declared bytes and one more present — and that byte is not ','.
    A stream that is merely truncated (a proper prefix of a frame) does not violate anything yet. -/
def specViolation (max : Option Nat) (bs : Bytes) : Bool :=
  let ds := bs.takeWhile isDigit
  if decide (ds.length > 9) || zeroThenDigit ds then true
  else
    match bs.drop ds.length with
    | [] => false
    | c :: tail =>
      if c != colon then true
      else if ds.isEmpty then true
      else
        let n := digitsVal 0 ds
        if !withinLimit max n then true
        else
          match tail.drop n with
          | [] => false
          | t :: _ => t != comma

/-- The positive clause "frames from the network that violate the framing format are always rejected with an error":
    on a stream that visibly violates the format the reader must answer with an error — not keep reading until the
    stream ends (on a live connection: wait for bytes that may never come), and not with a payload. -/
def tlsRejectSpec (max : Option Nat) (bs : Bytes) (o : TlsObs) : Option Clause :=
  if specViolation max bs then
    match o with
    | .err _ => none
    | _ => some .tlsViolationNotRejected
  else none

/-- Bytes a read may allocate beside the payload buffer (exception objects, message texts, handler frames, a scratch
    buffer of whatever size an implementation likes to read through): generous, the clause is about allocations that
    follow the DECLARED length instead of the limit. -/
def allocSlack : Nat := 262144

/-- The largest payload the format allows: a length field has at most nine digits. -/
def formatMaxLen : Nat := 10 ^ 9 - 1

/-- "… or allocating beyond the declared limits": whatever the stream contains, no single allocation made while a frame
    is read from the network is larger than the limit declared for the connection (without a limit: than the largest
    length the format can express), apart from `allocSlack` of bookkeeping.  `alloc` = the largest single allocation
    observed during the read. -/
def tlsAllocSpec (max : Option Nat) (alloc : Nat) : Option Clause :=
  let limit := match max with | some m => m | none => formatMaxLen
  if alloc ≤ limit + allocSlack then none else some .tlsAllocBounded

def obsOfTls (r : TlsResult) : TlsObs :=
  match r.out with
  | .ok p rest => .ok p rest.length
  | .error _ rest => .err rest.length
  | .eof => .eof

/-! ### framed streams through the buffered reader -/

/-- One observed status of the buffered reader. -/
inductive SObs
  | item (p : Bytes) | need | eof | err | hang
  deriving Repr, DecidableEq

def itemsOf : List SObs → List Bytes
  | [] => []
  | .item p :: r => p :: itemsOf r
  | _ :: r => itemsOf r

/-- Payloads the buffered reader must accept under `max` (its test is `len + 1 > max`). -/
def bufWithin (max : Option Nat) (p : Bytes) : Bool := !bufLimitExceeded max p.length && decide (p.length < 10 ^ 9)

/-- The payloads up to the first one that is over the limit. -/
def acceptedPrefix (max : Option Nat) : List Bytes → List Bytes × Bool
  | [] => ([], true)
  | p :: ps => if bufWithin max p then let (a, all) := acceptedPrefix max ps; (p :: a, all) else ([], false)

/-- Framed stream (`stream` was produced by the writer from `ps`, cut into arbitrary chunks): the items are
    exactly the payloads, in order, then end-of-file; with a limit, exactly the payloads before the first
    oversized one, then an error.  `untilEof = false` (FIFO feeding: no end-of-file exists): the sequence
    ends in need-data instead. -/
def framedSpec (max : Option Nat) (ps : List Bytes) (stream : Bytes) (untilEof : Bool) (obs : List SObs) : Option Clause :=
  if stream != nsEncodeAll ps then some .writerFormat
  else
    let (want, all) := acceptedPrefix max ps
    if itemsOf obs != want then some .framesSplit
    else if obs.contains .hang then some .framesEnd
    else
      let last := obs.getLast?
      if all then
        if obs.contains .err then some .framesEnd
        else if untilEof then (if last == some .eof then none else some .framesEnd)
        else (if last == some .need ∨ obs == [] then none else some .framesEnd)
      else (if last == some .err then none else some .framesEnd)

/-- Hostile stream: the loop ends (in end-of-file or an error; with FIFO feeding in need-data or an error),
    and the items cannot be longer than what was fed (each item costs its length plus three framing bytes). -/
def hostileSpec (stream : Bytes) (untilEof : Bool) (obs : List SObs) : Option Clause :=
  if obs.contains .hang then some .readerEnds
  else
    let last := obs.getLast?
    let endsOk := if untilEof then (last == some .eof || last == some .err)
                  else (last == some .need || last == some .err || obs == [])
    if !endsOk then some .readerEnds
    else if ((itemsOf obs).map (fun p => p.length + 3)).sum > stream.length then some .itemsInside
    else none

def sobsOfRun (r : RunResult) : List SObs :=
  r.items.map .item ++ [match r.final with | .eof => .eof | .error _ => .err | .outOfFuel => .hang]

end Icinga.C20

/-
  C20 — netstring framing: executable transcription of lib/base/netstring.cpp and of the
  StreamReadContext part of lib/base/stream.cpp.  Core Lean only.

  Bytes are `UInt8`; a stream is a list of bytes (TLS reader) or a list of chunks (buffered reader:
  one chunk = what one `StreamReadContext::FillFromStream` call appended to the context buffer).
-/
namespace Icinga.C20

abbrev Bytes := List UInt8

/-- `isdigit(c)` in the C locale (netstring.cpp:62,68,145,224). -/
def isDigit (b : UInt8) : Bool := decide (48 ≤ b.toNat) && decide (b.toNat ≤ 57)

/-- `byte - '0'` for a digit byte (netstring.cpp:73,154,233). -/
def digitVal (b : UInt8) : Nat := b.toNat - 48

/-- The character `'0' + k`. -/
def digitByte (k : Nat) : UInt8 := UInt8.ofNat (48 + k)

def colon : UInt8 := 58   -- ':'
def comma : UInt8 := 44   -- ','

/-- Decimal digits of `n`, most significant first, as `std::ostream << size_t` prints them
    (netstring.cpp:333).  Structural recursion on a fuel that is always sufficient (`natDigits`). -/
def natDigitsF : Nat → Nat → Bytes
  | 0, _ => []
  | f + 1, n => if n < 10 then [digitByte n] else natDigitsF f (n / 10) ++ [digitByte (n % 10)]

def natDigits (n : Nat) : Bytes := natDigitsF (n + 1) n

/-- `len = len * 10 + (byte - '0')` folded over a digit string (netstring.cpp:73,154,233). -/
def digitsVal (acc : Nat) (ds : Bytes) : Nat := ds.foldl (fun a d => a * 10 + digitVal d) acc

/-- NetString::WriteStringToStream (netstring.cpp:331-334): `len ":" payload ","`. -/
def nsEncode (p : Bytes) : Bytes := natDigits p.length ++ colon :: (p ++ [comma])

/-- Several frames one after the other (what a sequence of WriteStringToStream calls produces). -/
def nsEncodeAll : List Bytes → Bytes
  | [] => []
  | p :: ps => nsEncode p ++ nsEncodeAll ps

/-- The `std::invalid_argument`s the readers throw. -/
inductive NsErr
  | tooLong        -- "Length specifier must not exceed 9 characters"
  | leadingZero    -- "Invalid NetString (leading zero)"
  | noLength       -- "Invalid NetString (no length specifier)"
  | missingColon   -- "Invalid NetString (missing :)"
  | maxExceeded    -- "Max data length exceeded: … KB"
  | missingComma   -- "Invalid NetString (missing ,)"
  deriving Repr, DecidableEq

def NsErr.toNat : NsErr → Nat
  | .tooLong => 1 | .leadingZero => 2 | .noLength => 3 | .missingColon => 4 | .maxExceeded => 5 | .missingComma => 6

/-! ## TLS reader (netstring.cpp:129-198 synchronous, 208-277 coroutine: the same statements, the
    only difference is `asio::read` vs `asio::async_read(…, yc)`) -/

/-- Result of the header loop. `rest` is what is still unread in the stream. -/
inductive HdrResult
  | done (len : Nat) (rest : Bytes)     -- `break` at ':' (netstring.cpp:164)
  | error (e : NsErr) (rest : Bytes)    -- exception thrown after consuming the offending byte
  | eof                                 -- `asio::read` hit the end of the stream (system_error)
  deriving Repr, DecidableEq

/-- netstring.cpp:137-168.  `rb` = `readBytes`, `lz` = `leadingZero`.  One byte is consumed per iteration. -/
def hdrLoop : Nat → Nat → Bool → Bytes → HdrResult
  | _, _, _, [] => .eof                                              -- :142
  | rb, len, lz, b :: bs =>
    if isDigit b then                                                -- :145
      if rb == 9 then .error .tooLong bs                             -- :146
      else if lz then .error .leadingZero bs                         -- :150
      else hdrLoop (rb + 1) (len * 10 + digitVal b) (rb == 0 && b == 48) bs   -- :154-158
    else if b == colon then                                          -- :159
      if rb == 0 then .error .noLength bs                            -- :160
      else .done len bs                                              -- :164
    else .error .missingColon bs                                     -- :166

/-- `maxMessageLength >= 0 && len > maxMessageLength` (netstring.cpp:170); `none` = -1 (no limit). -/
def tlsLimitExceeded (max : Option Nat) (len : Nat) : Bool :=
  match max with
  | none => false
  | some m => decide (m < len)

inductive TlsOutcome
  | ok (payload : Bytes) (rest : Bytes)   -- returned payload; `rest` = unread remainder of the stream
  | error (e : NsErr) (rest : Bytes)      -- invalid_argument; `rest` = what had not been read when it was thrown
  | eof                                   -- the stream ended inside the frame (asio::read throws)
  deriving Repr, DecidableEq

/-- Outcome plus the size of the payload buffer that was allocated (`payload.Append(len, 0)`, :180). -/
structure TlsResult where
  out : TlsOutcome
  alloc : Nat
  deriving Repr, DecidableEq

/-- netstring.cpp:129-198 / 208-277. -/
def nsReadTls (max : Option Nat) (bs : Bytes) : TlsResult :=
  match hdrLoop 0 0 false bs with
  | .eof => ⟨.eof, 0⟩
  | .error e rest => ⟨.error e rest, 0⟩
  | .done len rest =>
    if tlsLimitExceeded max len then ⟨.error .maxExceeded rest, 0⟩        -- :170-175, before :180
    else if rest.length < len then ⟨.eof, len⟩                            -- :183 read of `len` bytes fails
    else
      match rest.drop len with
      | [] => ⟨.eof, len⟩                                                 -- :190
      | t :: rest' =>
        if t == comma then ⟨.ok (rest.take len) rest', len⟩               -- :197
        else ⟨.error .missingComma rest', len⟩                            -- :193

/-! ## Buffered reader (netstring.cpp:26-101) with StreamReadContext (stream.hpp:24-39, stream.cpp:111-144) -/

/-- StreamReadContext: `Buffer[0..Size)`, `MustRead`, `Eof` (stream.hpp:34-37). -/
structure Ctx where
  buf : Bytes := []
  mustRead : Bool := true
  eof : Bool := false
  deriving Repr, DecidableEq

inductive ColonResult
  | found (headerLength : Nat)
  | notFound
  | error (e : NsErr)
  deriving Repr, DecidableEq

/-- netstring.cpp:43-54: scan for ':'; `i` is the index of the head of the list. -/
def findColon : Nat → Bytes → ColonResult
  | _, [] => .notFound
  | i, b :: bs =>
    if b == colon then (if i == 0 then .error .noLength else .found i)    -- :44-51
    else if i > 16 then .error .missingColon                               -- :52-53
    else findColon (i + 1) bs

/-- netstring.cpp:62: `Buffer[0] == '0' && isdigit(Buffer[1])`.  (Buffer[1] exists: the ':' is at index ≥ 1.) -/
def bufLeadingZero : Bytes → Bool
  | b0 :: b1 :: _ => b0 == 48 && isDigit b1
  | _ => false

/-- `maxMessageLength >= 0 && data_length > maxMessageLength` with `data_length = len + 1`
    (netstring.cpp:77-79) — note: one stricter than the TLS reader's `len > max`. -/
def bufLimitExceeded (max : Option Nat) (len : Nat) : Bool :=
  match max with
  | none => false
  | some m => decide (m < len + 1)

inductive ParseResult
  | item (payload : Bytes) (consumed : Nat)
  | need
  | error (e : NsErr)
  deriving Repr, DecidableEq

/-- netstring.cpp:41-100 on the context buffer. -/
def nsParseBuf (max : Option Nat) (buf : Bytes) : ParseResult :=
  match findColon 0 buf with
  | .error e => .error e
  | .notFound => .need                                                     -- :56-59
  | .found hl =>
    if bufLeadingZero buf then .error .leadingZero                         -- :62-63
    else
      let ds := (buf.take hl).takeWhile isDigit                            -- :68
      if ds.length > 9 then .error .tooLong                                -- :70-71 (thrown at i = 9)
      else
        let len := digitsVal 0 ds                                          -- :73
        if bufLimitExceeded max len then .error .maxExceeded               -- :79-84
        else if buf.length < hl + 1 + (len + 1) then .need                 -- :88-91
        else
          match buf.drop (hl + 1 + len) with                               -- data[len]
          | [] => .need          -- unreachable: excluded by the size test above
          | t :: _ =>
            if t != comma then .error .missingComma                        -- :93-94
            else .item ((buf.drop (hl + 1)).take len) (hl + 1 + len + 1)   -- :96-98

inductive Status
  | newItem (p : Bytes)
  | needData
  | eof
  | error (e : NsErr)
  deriving Repr, DecidableEq

/-- One call of NetString::ReadStringFromStream (buffered), netstring.cpp:26-101.
    `stream` = the chunks the stream will still deliver, one per FillFromStream call; `[]` = the
    stream is at EOF (FillFromStream returns false, stream.cpp:133-134). -/
def nsBufCall (max : Option Nat) (ctx : Ctx) (stream : List Bytes) : Status × Ctx × List Bytes :=
  if ctx.eof then (.eof, ctx, stream)                                      -- :29-30
  else
    let filled : Option (Ctx × List Bytes) :=
      if ctx.mustRead then                                                 -- :32
        match stream with
        | [] => none                                                       -- :33-36
        | c :: cs => some ({ ctx with buf := ctx.buf ++ c, mustRead := false }, cs)   -- :38, stream.cpp:127-130
      else some (ctx, stream)
    match filled with
    | none => (.eof, { ctx with eof := true }, [])
    | some (ctx, stream) =>
      match nsParseBuf max ctx.buf with
      | .need => (.needData, { ctx with mustRead := true }, stream)        -- :57,:89
      | .error e => (.error e, ctx, stream)
      | .item p n => (.newItem p, { ctx with buf := ctx.buf.drop n }, stream)   -- :98 DropData

/-- How the loop over the reader ended. -/
inductive RunEnd
  | eof
  | error (e : NsErr)
  | outOfFuel          -- never produced with `runFuel` (theorem `buffered_reader_total`)
  deriving Repr, DecidableEq

structure RunResult where
  items : List Bytes
  calls : Nat
  final : RunEnd
  deriving Repr, DecidableEq

/-- The read loop every caller uses (configobject.cpp:544-556, apilistener.cpp:1507-1517,
    cli/objectlistcommand.cpp:93-103): call until StatusEof (or an exception), collect the items. -/
def nsBufRun (max : Option Nat) : Nat → Ctx → List Bytes → List Bytes → Nat → RunResult
  | 0, _, _, acc, k => ⟨acc.reverse, k, .outOfFuel⟩
  | fuel + 1, ctx, stream, acc, k =>
    match nsBufCall max ctx stream with
    | (.eof, _, _) => ⟨acc.reverse, k + 1, .eof⟩
    | (.error e, _, _) => ⟨acc.reverse, k + 1, .error e⟩
    | (.needData, ctx', s') => nsBufRun max fuel ctx' s' acc (k + 1)
    | (.newItem p, ctx', s') => nsBufRun max fuel ctx' s' (p :: acc) (k + 1)

/-- Termination measure of the read loop: total bytes not yet turned into items, twice the number of
    chunks still to come, one for a pending parse. -/
def runMeasure (ctx : Ctx) (stream : List Bytes) : Nat :=
  ctx.buf.length + stream.flatten.length + 2 * stream.length + (if ctx.mustRead then 0 else 1)

def runFuel (ctx : Ctx) (stream : List Bytes) : Nat := runMeasure ctx stream + 1

/-- Read a whole chunked stream with a fresh context. -/
def nsReadAll (max : Option Nat) (chunks : List Bytes) : RunResult :=
  nsBufRun max (runFuel {} chunks) {} chunks [] 0

end Icinga.C20

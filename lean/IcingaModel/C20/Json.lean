/-
  C20 — JSON wire codec: executable model of `JsonEncode` (lib/base/json.cpp:192-207, 353-525, compact
  mode) together with nlohmann's `serializer::dump_escaped` (`ensure_ascii = true`,
  third-party/nlohmann_json/json.hpp:15817ff) and of `JsonDecode` (json.cpp:209-351, nlohmann SAX
  parser) restricted to the whitespace-free language the encoder emits (plus a little more, see
  `decodeChar1`).  Core Lean only.

  Strings are lists of Unicode scalar values (`Char`), i.e. the UTF-8 decoding that `dump_escaped`
  performs on its input is taken as given; the wire side is a list of bytes.
-/
namespace Icinga.C20

/-! ## Numbers (abstracted) -/

/-- Bytes a JSON number token may consist of: `-+.eE0123456789`. -/
def isNumChar (b : UInt8) : Bool :=
  b == 45 || b == 43 || b == 46 || b == 101 || b == 69 ||
    (decide (48 ≤ b.toNat) && decide (b.toNat ≤ 57))

/-- Number codec: parameter standing for nlohmann's integer/float printer and its number
    lexer/strtod. -/
structure NumCodec (N : Type) where
  fmt : N → List UInt8
  parse : List UInt8 → Option N

/-- The laws the round-trip theorem needs from a number codec. -/
structure NumCodec.Lawful {N : Type} (c : NumCodec N) : Prop where
  roundtrip : ∀ x, c.parse (c.fmt x) = some x
  nonempty : ∀ x, c.fmt x ≠ []
  chars : ∀ x, ∀ b ∈ c.fmt x, isNumChar b = true

/-! ## Values -/

inductive JValue (N : Type) where
  | null
  | bool (b : Bool)
  | num (n : N)
  | str (s : List Char)
  | arr (xs : List (JValue N))
  | obj (kvs : List (List Char × JValue N))

/-! ## Hex digits -/

/-- `%x` digit for `0 ≤ k < 16` (lowercase, as `snprintf("%04x")` prints). -/
def hexDigit (k : Nat) : UInt8 := if k < 10 then UInt8.ofNat (48 + k) else UInt8.ofNat (87 + k)

/-- Value of a hex digit byte; upper case is accepted like nlohmann's `get_codepoint` does. -/
def hexVal (b : UInt8) : Option Nat :=
  if 48 ≤ b.toNat ∧ b.toNat ≤ 57 then some (b.toNat - 48)
  else if 97 ≤ b.toNat ∧ b.toNat ≤ 102 then some (b.toNat - 87)
  else if 65 ≤ b.toNat ∧ b.toNat ≤ 70 then some (b.toNat - 55)
  else none

/-- `snprintf("%04x", (uint16_t) n)`. -/
def hex4 (n : Nat) : List UInt8 :=
  [hexDigit (n / 4096 % 16), hexDigit (n / 256 % 16), hexDigit (n / 16 % 16), hexDigit (n % 16)]

/-- Four hex digits → their value, and the remaining input (lexer `get_codepoint`). -/
def parseHex4 : List UInt8 → Option (Nat × List UInt8)
  | a :: b :: c :: d :: rest =>
    match hexVal a, hexVal b, hexVal c, hexVal d with
    | some a, some b, some c, some d => some (((a * 16 + b) * 16 + c) * 16 + d, rest)
    | _, _, _, _ => none
  | _ => none

/-- A code point as a `Char`, `none` for surrogates and values above 0x10FFFF. -/
def charOfNat? (n : Nat) : Option Char :=
  if h : n.isValidChar then some (Char.ofNatAux n h) else none

/-! ## Strings: encoder (`dump_escaped`, `ensure_ascii = true`) -/

/-- One code point. -/
def encodeChar (c : Char) : List UInt8 :=
  let cp := c.toNat
  if cp = 0x08 then [92, 98]            -- \b
  else if cp = 0x09 then [92, 116]      -- \t
  else if cp = 0x0A then [92, 110]      -- \n
  else if cp = 0x0C then [92, 102]      -- \f
  else if cp = 0x0D then [92, 114]      -- \r
  else if cp = 0x22 then [92, 34]       -- \"
  else if cp = 0x5C then [92, 92]       -- \\
  else if cp ≤ 0x1F ∨ cp ≥ 0x7F then
    if cp ≤ 0xFFFF then 92 :: 117 :: hex4 cp
    else 92 :: 117 :: (hex4 (0xD7C0 + cp / 1024) ++ 92 :: 117 :: hex4 (0xDC00 + cp % 1024))
  else [UInt8.ofNat cp]

def encodeChars : List Char → List UInt8
  | [] => []
  | c :: cs => encodeChar c ++ encodeChars cs

/-- `"` + escaped + `"`. -/
def jsonEncodeString (s : List Char) : List UInt8 := 34 :: (encodeChars s ++ [34])

/-! ## Strings: decoder (lexer `scan_string`) -/

/-- What follows `\u`: four hex digits (either case) giving a non-surrogate code point, or a high
    surrogate `D800..DBFF` immediately followed by `\u` and a low surrogate `DC00..DFFF` (lexer
    `scan_string`, case `'u'`).  Lone or unpaired surrogates are rejected. -/
def decodeUEscape (r : List UInt8) : Option (Char × List UInt8) :=
  match parseHex4 r with
  | none => none
  | some (hi, r1) =>
    if 0xD800 ≤ hi ∧ hi ≤ 0xDBFF then
      match r1 with
      | b1 :: b2 :: r2 =>
        if b1 = 92 ∧ b2 = 117 then
          match parseHex4 r2 with
          | none => none
          | some (lo, r3) =>
            if 0xDC00 ≤ lo ∧ lo ≤ 0xDFFF then
              (charOfNat? (0x10000 + (hi - 0xD800) * 1024 + (lo - 0xDC00))).map (·, r3)
            else none
        else none
      | _ => none
    else (charOfNat? hi).map (·, r1)

/-- One (possibly escaped) code point.  Accepted: raw bytes 0x20..0x7F other than `"` and `\`; the
    escapes `\" \\ \/ \b \f \n \r \t`; `\uXXXX` as in `decodeUEscape`.  Everything else (control bytes,
    lone or unpaired surrogates, truncated escapes, raw non-ASCII bytes) is rejected; raw UTF-8
    multi-byte sequences, which nlohmann accepts and the encoder never emits, are outside the model. -/
def decodeChar1 : List UInt8 → Option (Char × List UInt8)
  | [] => none
  | b :: rest =>
    if b = 92 then
      match rest with
      | [] => none
      | e :: r =>
        if e = 34 then some (Char.ofNat 0x22, r)
        else if e = 92 then some (Char.ofNat 0x5C, r)
        else if e = 47 then some (Char.ofNat 0x2F, r)
        else if e = 98 then some (Char.ofNat 0x08, r)
        else if e = 102 then some (Char.ofNat 0x0C, r)
        else if e = 110 then some (Char.ofNat 0x0A, r)
        else if e = 114 then some (Char.ofNat 0x0D, r)
        else if e = 116 then some (Char.ofNat 0x09, r)
        else if e = 117 then decodeUEscape r
        else none
    else if b = 34 then none
    else if 0x20 ≤ b.toNat ∧ b.toNat ≤ 0x7F then (charOfNat? b.toNat).map (·, rest)
    else none

/-- Code points up to the closing quote; `acc` holds the ones read so far, newest first.  Every
    iteration consumes at least one byte, so fuel = input length is always enough. -/
def decodeCharsF : Nat → List UInt8 → List Char → Option (List Char × List UInt8)
  | 0, _, _ => none
  | f + 1, bs, acc =>
    match bs with
    | [] => none
    | b :: rest =>
      if b = 34 then some (acc.reverse, rest)
      else
        match decodeChar1 (b :: rest) with
        | none => none
        | some (c, rest') => decodeCharsF f rest' (c :: acc)

/-- Expects the opening quote; returns the string and what follows the closing quote. -/
def jsonDecodeString : List UInt8 → Option (List Char × List UInt8)
  | [] => none
  | b :: rest => if b = 34 then decodeCharsF rest.length rest [] else none

/-! ## Values: encoder -/

mutual
/-- `JsonEncode(value, false)`. -/
def jsonEncode {N : Type} (c : NumCodec N) : JValue N → List UInt8
  | .null => [110, 117, 108, 108]
  | .bool true => [116, 114, 117, 101]
  | .bool false => [102, 97, 108, 115, 101]
  | .num n => c.fmt n
  | .str s => jsonEncodeString s
  | .arr [] => [91, 93]
  | .arr (x :: xs) => 91 :: (jsonEncode c x ++ encodeRestElems c xs)
  | .obj [] => [123, 125]
  | .obj ((k, v) :: kvs) =>
    123 :: (jsonEncodeString k ++ 58 :: (jsonEncode c v ++ encodeRestMembers c kvs))
/-- What follows the first array element: `,v` for each further one, then `]`. -/
def encodeRestElems {N : Type} (c : NumCodec N) : List (JValue N) → List UInt8
  | [] => [93]
  | x :: xs => 44 :: (jsonEncode c x ++ encodeRestElems c xs)
/-- What follows the first object member: `,"k":v` for each further one, then `}`. -/
def encodeRestMembers {N : Type} (c : NumCodec N) : List (List Char × JValue N) → List UInt8
  | [] => [125]
  | (k, v) :: kvs =>
    44 :: (jsonEncodeString k ++ 58 :: (jsonEncode c v ++ encodeRestMembers c kvs))
end

/-! ## Values: decoder -/

/-- `some rest` iff the input is `p ++ rest`. -/
def stripPrefix : List UInt8 → List UInt8 → Option (List UInt8)
  | [], bs => some bs
  | _ :: _, [] => none
  | p :: ps, b :: bs => if p = b then stripPrefix ps bs else none

/-- Number token = maximal run of number characters, handed to the codec's parser. -/
def decodeNumber {N : Type} (c : NumCodec N) (bs : List UInt8) : Option (JValue N × List UInt8) :=
  match c.parse (bs.takeWhile isNumChar) with
  | none => none
  | some n => some (JValue.num n, bs.dropWhile isNumChar)

mutual
/-- One value.  Fuel bounds nesting depth plus container sizes; input length + 1 is enough. -/
def decodeValueF {N : Type} (c : NumCodec N) : Nat → List UInt8 → Option (JValue N × List UInt8)
  | 0, _ => none
  | f + 1, bs =>
    match bs with
    | [] => none
    | b :: rest =>
      if b = 110 then (stripPrefix [117, 108, 108] rest).map (JValue.null, ·)
      else if b = 116 then (stripPrefix [114, 117, 101] rest).map (JValue.bool true, ·)
      else if b = 102 then (stripPrefix [97, 108, 115, 101] rest).map (JValue.bool false, ·)
      else if b = 34 then
        match jsonDecodeString (b :: rest) with
        | none => none
        | some (s, r) => some (JValue.str s, r)
      else if b = 91 then
        match rest with
        | [] => none
        | b' :: r =>
          if b' = 93 then some (JValue.arr [], r)
          else
            match decodeElemsF c f rest with
            | none => none
            | some (xs, r') => some (JValue.arr xs, r')
      else if b = 123 then
        match rest with
        | [] => none
        | b' :: r =>
          if b' = 125 then some (JValue.obj [], r)
          else
            match decodeMembersF c f rest with
            | none => none
            | some (kvs, r') => some (JValue.obj kvs, r')
      else if isNumChar b then decodeNumber c (b :: rest)
      else none
/-- `v (,v)* ]` -/
def decodeElemsF {N : Type} (c : NumCodec N) :
    Nat → List UInt8 → Option (List (JValue N) × List UInt8)
  | 0, _ => none
  | f + 1, bs =>
    match decodeValueF c f bs with
    | none => none
    | some (v, r) =>
      match r with
      | [] => none
      | d :: r' =>
        if d = 93 then some ([v], r')
        else if d = 44 then
          match decodeElemsF c f r' with
          | none => none
          | some (vs, r'') => some (v :: vs, r'')
        else none
/-- `"k":v (,"k":v)* }` -/
def decodeMembersF {N : Type} (c : NumCodec N) :
    Nat → List UInt8 → Option (List (List Char × JValue N) × List UInt8)
  | 0, _ => none
  | f + 1, bs =>
    match jsonDecodeString bs with
    | none => none
    | some (k, r0) =>
      match r0 with
      | [] => none
      | col :: r1 =>
        if col = 58 then
          match decodeValueF c f r1 with
          | none => none
          | some (v, r) =>
            match r with
            | [] => none
            | d :: r' =>
              if d = 125 then some ([(k, v)], r')
              else if d = 44 then
                match decodeMembersF c f r' with
                | none => none
                | some (kvs, r'') => some ((k, v) :: kvs, r'')
              else none
        else none
end

/-- `JsonDecode`: one value, and the whole input must be consumed. -/
def jsonDecode {N : Type} (c : NumCodec N) (bs : List UInt8) : Option (JValue N) :=
  match decodeValueF c (bs.length + 1) bs with
  | some (v, []) => some v
  | _ => none

/-! ## A concrete number codec: canonical decimal integers -/

/-- Decimal digits of `n`, least significant first.  Fuel `n + 1` is always enough. -/
def revDigitsF : Nat → Nat → List UInt8
  | 0, _ => []
  | f + 1, n =>
    if n < 10 then [UInt8.ofNat (48 + n)] else UInt8.ofNat (48 + n % 10) :: revDigitsF f (n / 10)

/-- Value of a digit string given least significant digit first; `none` on a non-digit. -/
def revDigitsVal : List UInt8 → Option Nat
  | [] => some 0
  | b :: bs =>
    if 48 ≤ b.toNat ∧ b.toNat ≤ 57 then
      match revDigitsVal bs with
      | none => none
      | some v => some (v * 10 + (b.toNat - 48))
    else none

def natToDec (n : Nat) : List UInt8 := (revDigitsF (n + 1) n).reverse

def decToNat? (bs : List UInt8) : Option Nat :=
  match bs with
  | [] => none
  | _ :: _ => revDigitsVal bs.reverse

def intFmt : Int → List UInt8
  | .ofNat n => natToDec n
  | .negSucc n => 45 :: natToDec (n + 1)

/-- Permissive reading (leading zeros, `-0`), before the canonicity check. -/
def intParseLoose : List UInt8 → Option Int
  | [] => none
  | b :: rest =>
    if b = 45 then
      match decToNat? rest with
      | none => none
      | some n => some (-(Int.ofNat n))
    else
      match decToNat? (b :: rest) with
      | none => none
      | some n => some (Int.ofNat n)

/-- Accepts exactly the canonical spelling `intFmt` produces. -/
def intParse (bs : List UInt8) : Option Int :=
  match intParseLoose bs with
  | none => none
  | some x => if intFmt x = bs then some x else none

/-- Decimal integers: `-` for negatives, `0` for zero, no leading zeros, no `+`, no `-0`. -/
def intCodec : NumCodec Int := { fmt := intFmt, parse := intParse }

end Icinga.C20

/-
  C20 — a started JsonRpcConnection: which frame limit applies to which peer (lib/remote/jsonrpcconnection.cpp:45-46
  constructor, :75 `m_Endpoint ? -1 : 1024 * 1024`), the receive loop (:71-133), and a record of the state file as
  ConfigObject::RestoreObject consumes it (lib/base/configobject.cpp:506-526).  Model and, separately, the
  property's clauses for them as executable predicates over what was observed.  Core Lean only.
-/
import IcingaModel.C20.Message

namespace Icinga.C20

/-! ## Model -/

/-- jsonrpcconnection.cpp:45-46: `if (authenticated) m_Endpoint = Endpoint::GetByName(identity);` — `ep` = an Endpoint
    object with the peer's identity is configured. -/
def hasEndpoint (auth ep : Bool) : Bool := auth && ep

/-- jsonrpcconnection.cpp:75: `m_Endpoint ? -1 : 1024 * 1024`. -/
def limitFor (auth ep : Bool) : Option Nat := if hasEndpoint auth ep then none else some (1024 * 1024)

/-- jsonrpcconnection.cpp:71-133: read a frame, decode it, hand the dictionary to MessageHandler; an exception of
    ReadMessage (:76-83) or DecodeMessage (:119-131) ends the loop (and the connection).  Result: the dictionaries
    handed to MessageHandler, in order.  Every message consumes at least three bytes: fuel `length + 1` suffices. -/
def connLoop {N : Type} (c : NumCodec N) (max : Option Nat) : Nat → Bytes → List (List (List Char × JValue N))
  | 0, _ => []
  | fuel + 1, bs =>
    match recvMessage c max bs with
    | .message kvs rest => kvs :: connLoop c max fuel rest
    | _ => []

/-- Everything a connection to a peer (authenticated or not, with or without Endpoint object) hands to MessageHandler
    out of the bytes the peer sends. -/
def connRecv {N : Type} (c : NumCodec N) (auth ep : Bool) (bs : Bytes) : List (List (List Char × JValue N)) :=
  connLoop c (limitFor auth ep) (bs.length + 1) bs

/-- What ConfigObject::RestoreObject does with one record of the state file (configobject.cpp:506-532). -/
inductive RecOutcome
  | crash      -- null pointer dereferenced (what the code did before the repair of finding F-C20b; no longer produced)
  | error      -- an exception (swallowed by the WorkQueue of RestoreObjects: the record is skipped)
  | handled    -- a dictionary: looked up by type/name, applied or skipped (:519-532)
  deriving Repr, DecidableEq

/-- configobject.cpp:509-515 (repair of F-C20b, commit 7e39c42): `Value decoded = JsonDecode(message); if
    (!decoded.IsObjectType<Dictionary>()) throw std::invalid_argument(…)` — a record that is not a JSON object (null,
    scalars, arrays, malformed or too deeply nested text) is refused with an error before anything is dereferenced.
    (Before the repair the implicit conversion Value → Dictionary::Ptr turned JSON `null` into a NULL pointer that
    `persistentObject->Get("type")` dereferenced.) -/
def restoreRecord {N : Type} (c : NumCodec N) (p : Bytes) : RecOutcome :=
  match jsonDecodeL c p with
  | some (.obj _) => .handled
  | _ => .error

/-! ## Specification (over observations; shares only the *format* `nsEncode` with the model side) -/

/-- The limit the property states for peers that are not authenticated. -/
def unauthLimit : Nat := 1048576

/-- One message the peer sent as a canonical frame; `id` is how the observer recognises it at the handler. -/
structure ConnFrame where
  id : Nat
  payload : Bytes
  deriving Repr, DecidableEq

def connStream (frames : List ConnFrame) (tail : Bytes) : Bytes := nsEncodeAll (frames.map (·.payload)) ++ tail

/-- Ids of the leading frames that must be delivered, and whether the run was stopped by a frame over the 1 MiB
    limit (`limited`) . -/
def connExpected (limited : Bool) : List ConnFrame → List Nat × Bool
  | [] => ([], false)
  | f :: fs =>
    if limited && decide (unauthLimit < f.payload.length) then ([], true)
    else let (a, s) := connExpected limited fs; (f.id :: a, s)

/-- Does `delivered` fit the frames under the given reading of the limit?  Exactly the expected ids when the run was
    stopped by an over-limit frame or the tail is not a frame at all; otherwise (the tail starts with a canonical
    frame of its own, whatever it carries) at least those, first. -/
def connFits (limited : Bool) (frames : List ConnFrame) (tail : Bytes) (delivered : List Nat) : Bool :=
  let (ids, stopped) := connExpected limited frames
  if stopped || (specFrame tail).isNone then delivered == ids else ids.isPrefixOf delivered

/-- The property for one connection: the peer sent `frames` (each a message the handler recognises by its id) and
    then `tail` (arbitrary bytes), then ended the stream.
    * a peer that is NOT authenticated (whatever name it claims): frames of more than 1 MiB are never delivered, nor
      anything behind them; everything before is delivered, in order;
    * an authenticated peer with an Endpoint object: all frames are delivered, in order;
    * an authenticated peer without Endpoint object: the statement names no limit — either reading is accepted;
    * nothing is delivered out of a tail that is not a frame; the connection ends. -/
def connSpec (auth ep : Bool) (frames : List ConnFrame) (tail : Bytes) (delivered : List Nat) (ended : Bool) : Option Clause :=
  if !ended then some .connEnds
  else if !auth then
    if connFits true frames tail delivered then none
    else
      let (ids, stopped) := connExpected true frames
      if stopped && ids.isPrefixOf delivered then some .connUnauthLimit else some .connFrames
  else if ep then (if connFits false frames tail delivered then none else some .connFrames)
  else (if connFits true frames tail delivered || connFits false frames tail delivered then none else some .connFrames)

/-- All canonical frames a byte string consists of, if it consists of nothing else. -/
def specFramesAll : Nat → Bytes → Option (List Bytes)
  | 0, _ => none
  | fuel + 1, bs =>
    if bs.isEmpty then some []
    else match specFrame bs with
      | some (p, rest) => (specFramesAll fuel rest).map (p :: ·)
      | none => none

/-- What was observed of ConfigObject::RestoreObjects on one file. -/
inductive StateObs
  | ok (attempt : Nat)     -- returned; the probe object's attribute afterwards
  | err                    -- threw
  deriving Repr, DecidableEq

/-- The property for the state file: a file that consists of canonical frames only is never refused, and when exactly
    one of its records is the applicable one (`good`, carrying `want`) while no other record is, that value arrives in
    the object whatever the other records are.  (Crashes are clause `no_crash`.) -/
def stateSpec (good : Bytes) (want : Nat) (file : Bytes) (o : StateObs) : Option Clause :=
  match specFramesAll (file.length + 1) file with
  | none => none
  | some ps =>
    match o with
    | .err => some .stateRestore
    | .ok k => if (ps.filter (· == good)).length == 1 && k != want then some .stateRestore else none

/-! ## The state file as a whole: ConfigObject::DumpObjects / ConfigObject::RestoreObjects -/

/-- configobject.cpp:465-503 DumpObjects: per object one dictionary {type, name, update}, `JsonEncode`d and written with
    `NetString::WriteStringToStream` — no limit on the size of a record. -/
def dumpObjects {N : Type} (c : NumCodec N) (recs : List (List (List Char × JValue N))) : Bytes :=
  nsEncodeAll (recs.map (fun kvs => jsonEncode c (.obj kvs)))

/-- configobject.cpp:547-562: the read loop of RestoreObjects — `NetString::ReadStringFromStream(sfp, &message, src)`,
    i.e. WITHOUT a maximum length (the parameter defaults to -1) — over a file the stream delivers in `chunks`.
    `none`: an exception of the reader leaves RestoreObjects (nothing after the damaged place is restored);
    `some items`: the records handed to RestoreObject, in file order. -/
def restoreItems (chunks : List Bytes) : Option (List Bytes) :=
  match (nsReadAll none chunks).final with
  | .eof => some (nsReadAll none chunks).items
  | _ => none

/-- Is the decoded record a dictionary (configobject.cpp:511)? -/
def asDict {N : Type} : Option (JValue N) → Option (JValue N)
  | some (.obj kvs) => some (.obj kvs)
  | _ => none

/-- The dictionaries that reach the type/name lookup of RestoreObject (configobject.cpp:509-521), in file order; a
    record RestoreObject refuses is skipped (its exception stays in the WorkQueue). -/
def restoreObjectsM {N : Type} (c : NumCodec N) (chunks : List Bytes) : Option (List (JValue N)) :=
  (restoreItems chunks).map (fun items => items.filterMap (fun p => asDict (icingaDecodeL c p)))

/-- What the probe object shows after RestoreObjects: `apply p` = the value record `p` writes into it (`none`: the
    record does not touch it).  The records are applied by parallel workers; for files with at most one applicable
    record (all the specification speaks about) the order does not matter — the model takes file order. -/
def stateObsM (apply : Bytes → Option Nat) (init : Nat) (chunks : List Bytes) : StateObs :=
  match restoreItems chunks with
  | none => .err
  | some items =>
    match (items.filterMap apply).getLast? with
    | some k => .ok k
    | none => .ok init

/-- What one object held before DumpObjects / holds after RestoreObjects (the attributes the observer looks at). -/
structure ObjState (V : Type) where
  attempt : Nat      -- check_attempt
  outLen : Nat       -- length of last_check_result.output
  outGood : Nat      -- how many bytes of it are the byte that was written
  value : V          -- last_check_result.command: an arbitrary value of the data model
  deriving Repr, DecidableEq

/-- "Every value placed in the state file is decoded by the receiver to an equal value": the file DumpObjects wrote
    is never refused by RestoreObjects, and every object gets back exactly what it held — whatever the size of its
    record and of the records before it.  `got = none`: RestoreObjects threw. -/
def stateRoundtripSpec {V : Type} [DecidableEq V] (put : List (ObjState V)) (got : Option (List (ObjState V))) : Option Clause :=
  match got with
  | none => some .stateRoundtrip
  | some g => if g = put then none else some .stateRoundtrip

/-- The file itself is a sequence of canonical frames and nothing else (clause `writerFormat`). -/
def stateFileSpec (file : Bytes) : Option Clause :=
  match specFramesAll (file.length + 1) file with
  | some _ => none
  | none => some .writerFormat

end Icinga.C20

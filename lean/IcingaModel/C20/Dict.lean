/-
  C20 — JSON wire codec, dictionary layer: what `JsonDecode` hands to Icinga for a JSON object.

  An Icinga `Dictionary` is a `std::map<String, Value>` (lib/base/dictionary.hpp:79).  Consequences:

  * iteration, and therefore `JsonEncode` (lib/base/json.cpp:106-118, `EncodeDictionary` walks the
    dictionary), is in ascending key order;
  * `Dictionary::Set` (lib/base/dictionary.cpp:91-100) is `m_Data[key] = value`: insert the key, or
    overwrite the value of a key that is already present;
  * `JsonDecode`'s SAX adapter (`start_object` creates a `Dictionary`, every member is stored with
    `Set(m_CurrentKey, value)`) therefore turns an object text with members `k1:v1, …, kn:vn` (textual
    order) into the map built by `Set` in that order: sorted by key, and for a key that occurs more
    than once the LAST value wins.  Arrays keep their order.

  `IcingaModel/C20/Json.lean` models the parser proper: `jsonDecode` returns the member list in
  textual order without de-duplication.  This file adds the map semantics on top of it (`canonV`),
  and `icingaDecode = canonV ∘ jsonDecode` is `JsonDecode` as the rest of Icinga sees it.

  Key order.  `String::operator<` is `std::string::operator<`, i.e. lexicographic comparison of the
  bytes as unsigned values, a proper prefix being smaller.  Keys that reach the encoder are
  well-formed UTF-8 (`Utility::ValidateUTF8`), and on well-formed UTF-8 bytewise lexicographic order
  coincides with lexicographic order of the code point sequences (UTF-8 is order preserving).  Keys
  are `List Char` here (see Json.lean), so `keyLt` compares code points (`Char.toNat`)
  lexicographically, shorter prefix first.

  Core Lean only.
-/
import IcingaModel.C20.Json

namespace Icinga.C20

/-! ## Key order -/

/-- Strict lexicographic order on keys by code point; a proper prefix is smaller
    (`std::string::operator<` on the UTF-8 encodings). -/
def keyLt : List Char → List Char → Bool
  | [], [] => false
  | [], _ :: _ => true
  | _ :: _, [] => false
  | a :: as, b :: bs =>
    if a.toNat < b.toNat then true
    else if b.toNat < a.toNat then false
    else keyLt as bs

/-! ## `std::map` as a key-sorted association list -/

/-- `m_Data[k] = v` on a key-sorted association list.  Like `std::map` it only uses the comparator:
    walk past the smaller keys; in front of the first key `k'` that is not smaller than `k`, insert
    if `k < k'`, otherwise (`k` and `k'` are equivalent, which for a total order means equal)
    overwrite the value and keep the node's key. -/
def dictSet {N : Type} (k : List Char) (v : JValue N) :
    List (List Char × JValue N) → List (List Char × JValue N)
  | [] => [(k, v)]
  | (k', v') :: m =>
    if keyLt k k' then (k, v) :: (k', v') :: m
    else if keyLt k' k then (k', v') :: dictSet k v m
    else (k', v) :: m

/-- The dictionary the SAX adapter builds from an object's members given in textual order:
    `Set` one after the other (left fold), starting from the empty dictionary.  Later members
    overwrite earlier ones. -/
def dictOfMembers {N : Type} (kvs : List (List Char × JValue N)) : List (List Char × JValue N) :=
  kvs.foldl (fun m kv => dictSet kv.1 kv.2 m) []

/-- `Dictionary::Get`: the (first) binding of `k`. -/
def dictGet {N : Type} (k : List Char) : List (List Char × JValue N) → Option (JValue N)
  | [] => none
  | (k', v) :: m => if k' = k then some v else dictGet k m

/-- Keys strictly ascending (hence pairwise different): the shape of a `std::map` iteration. -/
def keysSorted {N : Type} : List (List Char × JValue N) → Bool
  | [] => true
  | [_] => true
  | (k1, _) :: (k2, v2) :: m => keyLt k1 k2 && keysSorted ((k2, v2) :: m)

/-! ## The Icinga value a decoded tree denotes -/

mutual
/-- Recursively: every object becomes the dictionary built from its members (whose values are
    converted first, as the SAX adapter finishes a nested container before it stores it); arrays
    element-wise; scalars unchanged. -/
def canonV {N : Type} : JValue N → JValue N
  | .null => .null
  | .bool b => .bool b
  | .num n => .num n
  | .str s => .str s
  | .arr xs => .arr (canonElems xs)
  | .obj kvs => .obj (dictOfMembers (canonMembers kvs))
/-- Element-wise `canonV` (order kept). -/
def canonElems {N : Type} : List (JValue N) → List (JValue N)
  | [] => []
  | x :: xs => canonV x :: canonElems xs
/-- The members in textual order with converted values (order and duplicates kept; `canonV` then
    folds `dictSet` over this list). -/
def canonMembers {N : Type} : List (List Char × JValue N) → List (List Char × JValue N)
  | [] => []
  | (k, v) :: kvs => (k, canonV v) :: canonMembers kvs
end

mutual
/-- Every object in the tree has strictly ascending keys. -/
def canonicalB {N : Type} : JValue N → Bool
  | .null => true
  | .bool _ => true
  | .num _ => true
  | .str _ => true
  | .arr xs => canonicalElems xs
  | .obj kvs => keysSorted kvs && canonicalMembers kvs
def canonicalElems {N : Type} : List (JValue N) → Bool
  | [] => true
  | x :: xs => canonicalB x && canonicalElems xs
/-- All member values are canonical (says nothing about the keys of this level). -/
def canonicalMembers {N : Type} : List (List Char × JValue N) → Bool
  | [] => true
  | (_, v) :: kvs => canonicalB v && canonicalMembers kvs
end

/-- The trees that are Icinga values: every object, at any depth, has strictly ascending (in
    particular duplicate-free) keys — exactly what iterating `std::map`s produces. -/
def Canonical {N : Type} (v : JValue N) : Prop := canonicalB v = true

instance {N : Type} (v : JValue N) : Decidable (Canonical v) :=
  inferInstanceAs (Decidable (canonicalB v = true))

/-- `JsonDecode` as Icinga sees it: parse, then store every object's members into a `Dictionary`. -/
def icingaDecode {N : Type} (c : NumCodec N) (bs : List UInt8) : Option (JValue N) :=
  (jsonDecode c bs).map canonV

end Icinga.C20

/-
  C20 — JSON-RPC message decoding: JsonRpc::DecodeMessage (lib/remote/jsonrpc.cpp:147-157) as the
  receive loop uses it (lib/remote/jsonrpcconnection.cpp:71-99: ReadMessage, then DecodeMessage, then
  `message->Get("method")` on the result), and the property's clause for it as an executable predicate
  over the observed outcome.  Core Lean only.
-/
import IcingaModel.C20.Model
import IcingaModel.C20.Spec
import IcingaModel.C20.Json
import IcingaModel.C20.Limit

namespace Icinga.C20

/-- Why DecodeMessage throws. -/
inductive MsgErr
  | malformed    -- JsonDecode throws (jsonrpc.cpp:149)
  | notObject    -- "JSON-RPC message must be a dictionary." (jsonrpc.cpp:151-154)
  deriving Repr, DecidableEq

/-- jsonrpc.cpp:147-157: decode, insist on a dictionary, return it. -/
def decodeMessage {N : Type} (c : NumCodec N) (bs : List UInt8) :
    Except MsgErr (List (List Char × JValue N)) :=
  match jsonDecodeL c bs with
  | none => .error .malformed                 -- :149 (malformed text, or nested too deeply: json.cpp:282,314)
  | some (.obj kvs) => .ok kvs                -- :156
  | some _ => .error .notObject               -- :151-154

/-- What was observed of one DecodeMessage call: the class of what came back. -/
inductive MsgObs
  | dict         -- a non-null Dictionary::Ptr
  | rejected     -- an exception (std::exception)
  | null         -- a null pointer
  | other        -- anything else
  deriving Repr, DecidableEq

/-- First byte that is not JSON whitespace (space, \t, \n, \r). -/
def firstNonWs : List UInt8 → Option UInt8
  | [] => none
  | b :: r => if b == 32 || b == 9 || b == 10 || b == 13 then firstNonWs r else some b

/-- The property for one message payload: whatever is not a JSON object is rejected with an error — the
    caller never gets a null pointer or another kind of value; a dictionary is returned only for a text
    that starts (after whitespace) with '{'. -/
def messageSpec (payload : List UInt8) (o : MsgObs) : Option Clause :=
  match o with
  | .null => some .messageOnlyObjects
  | .other => some .messageOnlyObjects
  | .rejected => none
  | .dict => if firstNonWs payload == some 123 then none else some .messageNotObjectText

def obsOfMsg {N : Type} : Except MsgErr (List (List Char × JValue N)) → MsgObs
  | .ok _ => .dict
  | .error _ => .rejected

/-- One iteration of JsonRpcConnection::HandleIncomingMessages (jsonrpcconnection.cpp:71-99) on a byte
    stream: read a frame with the connection's limit, decode it as a message. -/
inductive RecvOutcome (N : Type)
  | message (kvs : List (List Char × JValue N)) (rest : Bytes)
  | rejected (e : MsgErr) (rest : Bytes)          -- DecodeMessage threw: the connection is closed (:119-131)
  | frameError (e : NsErr) (rest : Bytes)         -- ReadMessage threw invalid_argument (:76-83)
  | eof

def recvMessage {N : Type} (c : NumCodec N) (max : Option Nat) (bs : Bytes) : RecvOutcome N :=
  match (nsReadTls max bs).out with
  | .eof => .eof
  | .error e rest => .frameError e rest
  | .ok p rest =>
    match decodeMessage c p with
    | .ok kvs => .message kvs rest
    | .error e => .rejected e rest

end Icinga.C20

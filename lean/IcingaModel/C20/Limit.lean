/-
  C20 — the nesting limit of JsonDecode (lib/base/json.cpp:276-283, 312-315, repair of finding F-C20a):
  `JsonSax::start_object` / `start_array` throw "JSON document is nested too deeply." when
  `m_CurrentSubtree.size() >= l_JsonMaxNestingDepth`, i.e. a container may be opened only while fewer than
  1000 containers are open — a document whose value nests more than 1000 containers is refused, whatever else
  it contains.  As accept/reject of a whole document that is: parse, then refuse if the value's nesting depth
  exceeds the limit (a document that is also malformed elsewhere is refused either way).  Core Lean only.

  The constant is tied to the source by gen/c20_limits.py -> IcingaProofs/Gen/Limits.lean and the theorem
  `nesting_limit_matches_source`.
-/
import IcingaModel.C20.Json
import IcingaModel.C20.Dict
import IcingaModel.C20.Utf8

namespace Icinga.C20


/-- `n` arrays inside each other around an empty array: the value of the text `[`ⁿ⁺¹ `]`ⁿ⁺¹. -/
def nest {N : Type} : Nat → JValue N
  | 0 => .arr []
  | n + 1 => .arr [nest n]

mutual
  /-- Nesting depth of a value = depth of the recursion that destroys (or renders) it. -/
  def depth {N : Type} : JValue N → Nat
    | .arr xs => depthElems xs + 1
    | .obj kvs => depthMembers kvs + 1
    | _ => 0
  def depthElems {N : Type} : List (JValue N) → Nat
    | [] => 0
    | x :: xs => Nat.max (depth x) (depthElems xs)
  def depthMembers {N : Type} : List (List Char × JValue N) → Nat
    | [] => 0
    | (_, v) :: r => Nat.max (depth v) (depthMembers r)
end

/-- json.cpp:277 `l_JsonMaxNestingDepth`. -/
def jsonMaxNestingDepth : Nat := 1000

/-- json.cpp:282,314: the guard, on the finished value. -/
def withinNesting {N : Type} (v : JValue N) : Bool := decide (depth v ≤ jsonMaxNestingDepth)

/-- `JsonDecode` with its nesting limit (json.cpp:209-218 with :279-323): the parser of Json.lean, refusing
    documents nested deeper than the limit. -/
def jsonDecodeL {N : Type} (c : NumCodec N) (bs : List UInt8) : Option (JValue N) :=
  match jsonDecode c bs with
  | some v => if withinNesting v then some v else none
  | none => none

/-- `JsonDecode` as the rest of Icinga sees it: limit, then dictionaries as sorted maps (Dict.lean). -/
def icingaDecodeL {N : Type} (c : NumCodec N) (bs : List UInt8) : Option (JValue N) :=
  (jsonDecodeL c bs).map canonV

/-- `JsonDecode` on bytes: sanitise (json.cpp:211), parse with the limit, strings back to UTF-8 (Utf8.lean). -/
def jsonDecodeBL {N : Type} (c : NumCodec N) (bs : List UInt8) : Option (BValue N) :=
  (jsonDecodeL c (sanitise bs)).map JValue.toB

end Icinga.C20

/-
  C20 — JsonEncoder::NumberFloat (lib/base/json.cpp:386-407): which numbers are written as integer literals.
  A `double` is given by its binary64 bit pattern.  Core Lean only.

      if (value < 0) { long long i = value;          if (i == value) AppendJson(i); else AppendJson(value); }
      else           { unsigned long long i = value; if (i == value) AppendJson(i); else AppendJson(value); }

  The conversion double → (unsigned) long long is defined only when the truncated value is representable; for the
  other values (|x| ≥ 2^64 resp. x < -2^63: all of them integral) the code relies on the result comparing unequal and
  prints the number with nlohmann's floating-point printer.  The model follows that: integer literal exactly for the
  integral values in [-2^63, 2^64), the floating-point printer (a parameter: the number codec) otherwise.
-/
import IcingaModel.C20.Json

namespace Icinga.C20

/-- Sign bit, exponent field, fraction field of a binary64 bit pattern (`bits < 2^64`). -/
def b64Sign (bits : Nat) : Bool := decide (2 ^ 63 ≤ bits % 2 ^ 64)
def b64Exp (bits : Nat) : Nat := (bits / 2 ^ 52) % 2048
def b64Frac (bits : Nat) : Nat := bits % 2 ^ 52

/-- Finite? (exponent field 2047 = infinities and NaNs: JsonEncode never sees them in a Value that came from JSON.) -/
def b64Finite (bits : Nat) : Bool := b64Exp bits != 2047

/-- Magnitude of a finite binary64 as `m * 2^e2 / 2^d2`: (m, e2, d2) with one of e2, d2 zero. -/
def b64Mag (bits : Nat) : Nat × Nat × Nat :=
  let e := b64Exp bits
  let m := if e == 0 then b64Frac bits else 2 ^ 52 + b64Frac bits
  let e := if e == 0 then 1 else e
  -- value = m * 2^(e - 1075)
  if 1075 ≤ e then (m, e - 1075, 0) else (m, 0, 1075 - e)

/-- The magnitude when the number is integral. -/
def b64NatMag (bits : Nat) : Option Nat :=
  if !b64Finite bits then none else
  let (m, e2, d2) := b64Mag bits
  if m % 2 ^ d2 == 0 then some (m / 2 ^ d2 * 2 ^ e2) else none

/-- json.cpp:392-406: the integer NumberFloat prints for this double, if it takes the integer path.
    `value < 0` is false for -0.0, which therefore prints as `0` (:391 "Make sure 0.0 is serialized as 0"). -/
def numberFloatInt (bits : Nat) : Option Int :=
  match b64NatMag bits with
  | none => none
  | some n =>
    if b64Sign bits && n != 0 then (if n ≤ 2 ^ 63 then some (-(n : Int)) else none)     -- long long: [-2^63, 0)
    else (if n < 2 ^ 64 then some (n : Int) else none)                                  -- unsigned long long: [0, 2^64)

/-- The text NumberFloat emits on the integer path (`AppendJson(i)`: nlohmann's integer dump = plain decimal). -/
def numberFloatText (bits : Nat) : Option (List UInt8) := (numberFloatInt bits).map intCodec.fmt

end Icinga.C20

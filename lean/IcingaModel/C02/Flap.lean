/-
  C02 — flapping detection.  Executable transcription of `Checkable::UpdateFlappingStatus`
  (lib/icinga/checkable-flapping.cpp:38-96) and `Checkable::IsFlapping` (:98-104): a ring buffer of 20
  state-change flags, a weighted total (0.8 for the oldest … 1.18 for the newest result), hysteresis
  between `flapping_threshold_low` and `flapping_threshold_high`.  Arithmetic in hundredths (exact
  integers; the code uses binary64 — away from an exact tie with the threshold both agree, checked over
  all 2^20 windows; at an exact tie the model reports a tie and accepts either answer).
  Also the property-level reading: a sliding window over the last 20 results.  Core Lean only.
-/
import IcingaModel.C01.Model

namespace Icinga.C02
open Icinga.C01

/-- `flapping_threshold_low` / `flapping_threshold_high` in percent (checkable.ti:81-87: 25 / 30). -/
structure FlapCfg where
  low : Nat := 25
  high : Nat := 30
  deriving Repr, DecidableEq

/-- `flapping_buffer` (bits 0…19), `flapping_index`, `flapping_last_state`, `flapping`. -/
structure FlapSt where
  buf : List Bool := List.replicate 20 false
  idx : Nat := 0
  last : SState := .unknown          -- checkable.ti:169-171
  flapping : Bool := false
  deriving Repr, DecidableEq

/-- Weight of position `i` of the window in hundredths: `0.8 + 0.02 * i` (checkable-flapping.cpp:66). -/
def flapWeight (i : Nat) : Nat := 80 + 2 * i

/-- checkable-flapping.cpp:63-67: weighted total over the ring, starting at the oldest entry. -/
def ringSumUpTo (buf : List Bool) (start : Nat) : Nat → Nat
  | 0 => 0
  | n + 1 => ringSumUpTo buf start n + (if buf.getD ((start + n) % 20) false then flapWeight n else 0)

def ringSum (buf : List Bool) (start : Nat) : Nat := ringSumUpTo buf start 20

/-- The hysteresis decision on a weighted total `S` (hundredths): `100 * S/100 / 20 > threshold`,
    i.e. `S > 20 * threshold`; second component: exact tie with the applicable threshold. -/
def flapDecide (fc : FlapCfg) (was : Bool) (S : Nat) : Bool × Bool :=
  let thr := if was then fc.low else fc.high
  (decide (S > 20 * thr), S == 20 * thr)

/-- `Checkable::UpdateFlappingStatus(newState)` without an ignore filter (checkable-flapping.cpp:38-96).
    Returns the new attributes (with the exact-arithmetic decision) and "exact tie". -/
def flapUpdate (fc : FlapCfg) (f : FlapSt) (new : SState) : FlapSt × Bool :=
  let sc := new != f.last
  let buf := f.buf.set f.idx sc
  let idx := (f.idx + 1) % 20
  let d := flapDecide fc f.flapping (ringSum buf idx)
  ({ buf := buf, idx := idx, last := new, flapping := d.1 }, d.2)

/-- `Checkable::IsFlapping()` (:98-104) with `enable_flapping` (object and application). -/
def isFlappingOf (enabled : Bool) (f : FlapSt) : Bool := enabled && f.flapping

/-! ## The property-level reading: the last 20 results -/

/-- Did the state change at each of the last 20 results (oldest first), the state of the latest result,
    is the object flapping. -/
structure SpecFlap where
  window : List Bool := List.replicate 20 false
  last : SState := .unknown
  flapping : Bool := false
  deriving Repr, DecidableEq

/-- Weighted total of a window, position `i` (from `k`) weighing `0.8 + 0.02 i`. -/
def windowSumFrom : Nat → List Bool → Nat
  | _, [] => 0
  | k, b :: rest => (if b then flapWeight k else 0) + windowSumFrom (k + 1) rest

def windowSum (w : List Bool) : Nat := windowSumFrom 0 w

/-- One result: the window slides, flapping starts above the high and ends at or below the low threshold. -/
def specFlapStep (fc : FlapCfg) (f : SpecFlap) (new : SState) : SpecFlap × Bool :=
  let w := f.window.drop 1 ++ [new != f.last]
  let d := flapDecide fc f.flapping (windowSum w)
  ({ window := w, last := new, flapping := d.1 }, d.2)

end Icinga.C02

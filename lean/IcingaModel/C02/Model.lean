/-
  C02 — Problem/Recovery/Flapping notification requests, suppression and release.
  Executable transcription of the notification part of `Checkable::ProcessCheckResult`
  (lib/icinga/checkable-check.cpp:309-325, 460-539) and of `Checkable::FireSuppressedNotifications`
  (lib/icinga/checkable-notification.cpp:132-239), on top of the C01 state machine.  Core Lean only.
-/
import IcingaModel.C01.Model

namespace Icinga.C02
open Icinga.C01

/-- The four notification types this property is about (lib/icinga/notification.hpp:40-51:
    Problem = 32, Recovery = 64, FlappingStart = 128, FlappingEnd = 256). -/
inductive NType | problem | recovery | flapStart | flapEnd
  deriving DecidableEq, Repr, Inhabited

def NType.bit : NType → Nat
  | .problem => 32 | .recovery => 64 | .flapStart => 128 | .flapEnd => 256

def NType.ofBit? : Nat → Option NType
  | 32 => some .problem | 64 => some .recovery | 128 => some .flapStart | 256 => some .flapEnd | _ => none

structure Notif where
  ty : NType
  state : SState
  deriving DecidableEq, Repr

/-- `suppressed_notifications` restricted to the four types above. -/
structure Sup where
  problem : Bool := false
  recovery : Bool := false
  flapStart : Bool := false
  flapEnd : Bool := false
  deriving DecidableEq, Repr

def Sup.toNat (s : Sup) : Nat :=
  (if s.problem then 32 else 0) + (if s.recovery then 64 else 0) +
  (if s.flapStart then 128 else 0) + (if s.flapEnd then 256 else 0)

def Sup.ofNat (n : Nat) : Sup :=
  { problem := n / 32 % 2 == 1, recovery := n / 64 % 2 == 1,
    flapStart := n / 128 % 2 == 1, flapEnd := n / 256 % 2 == 1 }

def Sup.hasState (s : Sup) : Bool := s.problem || s.recovery
def Sup.isEmpty (s : Sup) : Bool := !(s.problem || s.recovery || s.flapStart || s.flapEnd)

structure St where
  core : C01.St
  sup : Sup                -- suppressed_notifications
  sbs : SState             -- state_before_suppression
  deriving Repr, DecidableEq

def init : St := { core := C01.pending, sup := {}, sbs := .ok }

/-- What `ProcessCheckResult` reads from its surroundings (oracle inputs, taken from the implementation). -/
structure REnv where
  notifReachable : Bool    -- IsReachable(DependencyNotification), evaluated before the result
  inDowntime : Bool        -- IsInDowntime() after TriggerDowntimes
  acked : Bool             -- IsAcknowledged() after the state-change clearing
  wasFlapping : Bool
  isFlapping : Bool
  paused : Bool
  deriving Repr, DecidableEq

/-- checkable-check.cpp:309-325: is a state notification due for this result? -/
def sendOf (c : Cfg) (s : C01.St) (new : SState) (newType : SType) : Bool :=
  let okOld := isOK c.kind s.state
  let okNew := isOK c.kind new
  let hardChange := hardChangeOf c s new newType
  let send :=
    if hardChange && !(s.stype == .soft && okNew) then true
    else if c.volatile && newType == .hard && !(s.stype == .soft && okNew) then true  -- (with fix F-C02b)
    else false
  let send := if okOld && s.stype == .soft then false else send
  let send := if c.volatile && okOld && okNew then false else send
  send

/-- checkable-check.cpp:462-493: flapping start/end — what is requested now, what is stashed. -/
def flapPartOf (e : REnv) (newState : SState) : Sup × List Notif :=
  let flapTy : Option NType :=
    if !e.wasFlapping && e.isFlapping then some .flapStart
    else if e.wasFlapping && !e.isFlapping then some .flapEnd else none
  match flapTy with
  | none => ({}, [])
  | some t =>
    if e.paused then ({}, [])
    else if e.inDowntime then
      (match t with | .flapStart => { flapStart := true } | _ => { flapEnd := true }, [])
    else ({}, [⟨t, newState⟩])

/-- checkable-check.cpp:495-509: the state notification — requested now or stashed. -/
def statePartOf (send recovery : Bool) (hasPending : Bool) (e : REnv) (newState : SState) : Sup × List Notif :=
  let suppress := !e.notifReachable || e.inDowntime || e.acked
  let sty : NType := if recovery then .recovery else .problem
  if send && !e.isFlapping && !e.paused then
    if suppress || hasPending then
      (match sty with | .recovery => { recovery := true } | _ => { problem := true }, [])
    else ({}, [⟨sty, newState⟩])
  else ({}, [])

/-- checkable-check.cpp:511-539: merge the newly suppressed types `st` into the stored ones. -/
def stash (sup : Sup) (sbs : SState) (st : Sup) (oldType : SType) (oldState : SState) : Sup × SState :=
  if st.isEmpty then (sup, sbs)
  else
    let after : Sup := { problem := sup.problem || st.problem, recovery := sup.recovery || st.recovery,
                         flapStart := sup.flapStart || st.flapStart, flapEnd := sup.flapEnd || st.flapEnd }
    let after : Sup := if after.flapStart && after.flapEnd then { after with flapStart := false, flapEnd := false } else after
    let sbs' := if !sup.hasState && st.hasState then (if oldType == .hard then oldState else .ok) else sbs
    (after, sbs')

/-- checkable-check.cpp:460-539. Returns the new suppression fields and the requests, in order. -/
def notifyOnResult (c : Cfg) (old : C01.St) (new : C01.St) (sup : Sup) (sbs : SState) (e : REnv) :
    Sup × SState × List Notif :=
  let recovery := isOK c.kind new.state && !isOK c.kind old.state
  let f := flapPartOf e new.state
  let s := statePartOf (sendOf c old new.state new.stype) recovery sup.hasState e new.state
  let st : Sup := { problem := s.1.problem, recovery := s.1.recovery, flapStart := f.1.flapStart, flapEnd := f.1.flapEnd }
  let r := stash sup sbs st old.stype old.state
  (r.1, r.2, f.2 ++ s.2)

/-- One `ProcessCheckResult`: C01 step, then the notification part.  A stale (dropped) result does nothing. -/
def resultStep (c : Cfg) (s : St) (r : Res) (e : REnv) : St × List Notif × Bool :=
  if stale s.core r then (s, [], false)
  else
    let p := stepCore c s.core r
    let q := notifyOnResult c s.core p.1 s.sup s.sbs e
    ({ core := p.1, sup := q.1, sbs := q.2.1 }, q.2.2, true)

/-- What `FireSuppressedNotifications` reads from its surroundings.  Times in microseconds (integers). -/
structure FEnv where
  paused : Bool
  enabled : Bool            -- enable_notifications
  stateSuppressed : Bool    -- the property's suppression reasons: unreachable ∨ downtime ∨ acknowledged
  inDowntime : Bool
  isFlapping : Bool
  activeChecks : Bool       -- enable_active_checks
  interval : Int            -- check_interval
  nextIn : Int              -- next_check − Utility::GetTime()
  parentRecent : Bool       -- a parent / the host recovered since the last result
  deriving Repr, DecidableEq

/-- checkable-notification.cpp:331-338: `threshold = check_interval − 10`, limited to 0 … 60 s. -/
def soonThreshold (interval : Int) : Int :=
  let t := interval - 10000000
  if t > 60000000 then 60000000 else if t < 0 then 0 else t

/-- `Checkable::IsLikelyToBeCheckedSoon()`, checkable-notification.cpp:325-341. -/
def FEnv.likelySoon (e : FEnv) : Bool :=
  if !e.activeChecks then false else decide (e.nextIn ≤ soonThreshold e.interval)

/-- Do the stashed state bits get processed now?  checkable-notification.cpp:190 -/
def releaseNow (s : St) (e : FEnv) : Bool :=
  !e.stateSuppressed && s.core.stype == .hard && !e.likelySoon && !e.parentRecent

/-- State comparison of checkable-notification.cpp:205 (projected for hosts, fix F-C02a). -/
def differs (c : Cfg) (a b : SState) : Bool := proj c.kind a != proj c.kind b

/-- checkable-notification.cpp:171-210: the stashed state bits. Returns (clear the bits?, requests). -/
def fireState (c : Cfg) (s : St) (e : FEnv) : Bool × List Notif :=
  let ty : NType := if isOK c.kind s.core.state then .recovery else .problem
  if s.sup.hasState && releaseNow s e then
    (true, if differs c s.core.state s.sbs then [⟨ty, s.core.state⟩] else [])
  else (false, [])

/-- checkable-notification.cpp:212-226: one stashed flapping bit. Returns (clear the bit?, requests). -/
def fireFlapOne (e : FEnv) (cur : SState) (has applies : Bool) (t : NType) : Bool × List Notif :=
  if has then
    if applies then
      if !e.inDowntime && !e.likelySoon && !e.parentRecent then (true, [⟨t, cur⟩]) else (false, [])
    else (true, [])
  else (false, [])

/-- checkable-notification.cpp:132-239 (the object is active). -/
def fireStep (c : Cfg) (s : St) (e : FEnv) : St × List Notif :=
  if e.paused || !e.enabled || s.sup.isEmpty then (s, [])
  else
    let a := fireState c s e
    let fs := fireFlapOne e s.core.state s.sup.flapStart e.isFlapping .flapStart
    let fe := fireFlapOne e s.core.state s.sup.flapEnd (!e.isFlapping) .flapEnd
    let sup' : Sup := { problem := s.sup.problem && !a.1, recovery := s.sup.recovery && !a.1,
                        flapStart := s.sup.flapStart && !fs.1, flapEnd := s.sup.flapEnd && !fe.1 }
    ({ s with sup := sup' }, a.2 ++ fs.2 ++ fe.2)

/-- The handler runs while another thread processes a check result.  `FireSuppressedNotifications` reads
    `suppressed_notifications` at checkable-notification.cpp:143 without a lock, requests the state
    notification at :214 and subtracts `Problem|Recovery` from the *then current* value at :237-245;
    a `ProcessCheckResult` in between sees the old bits as "pending" (checkable-check.cpp:506) and
    stashes its own event, which the subtraction then clears unseen.  The schedule point is the
    handler's request (when it requests nothing, or flapping bits are stashed, the result comes after
    the handler).  Returns the new state, all requests in order, accepted?, interleaved? -/
def fireResultStep (c : Cfg) (s : St) (ef : FEnv) (r : Res) (er : REnv) : St × List Notif × Bool × Bool :=
  let f := fireStep c s ef
  if s.sup.flapStart || s.sup.flapEnd || f.2.isEmpty then
    let q := resultStep c f.1 r er
    (q.1, f.2 ++ q.2.1, q.2.2, false)
  else
    let q := resultStep c s r er
    ({ q.1 with sup := { q.1.sup with problem := false, recovery := false } }, f.2 ++ q.2.1, q.2.2, true)

end Icinga.C02

/-
  C02 — the composed system: the acknowledgement attributes (IcingaModel/C02/Ack.lean) together with
  the notification bookkeeping (IcingaModel/C02/Model.lean).  "Acknowledged" is no longer an input of
  the environments: `ProcessCheckResult` and `FireSuppressedNotifications` read it from the object
  (`IsAcknowledged()`, checkable-check.cpp:320, checkable-notification.cpp:305) after the result's own
  clearing of the acknowledgement (checkable-check.cpp:277-285).  Core Lean only.
-/
import IcingaModel.C02.Model
import IcingaModel.C02.Spec
import IcingaModel.C02.Ack

namespace Icinga.C02
open Icinga.C01

/-- Operations of the composed system.  In `result` the field `e.acked` is ignored; in `fire` the field
    `e.stateSuppressed` stands for "unreachable for notifications ∨ in a downtime" only. -/
inductive SysOp
  | result (r : Res) (e : REnv)
  | fire (e : FEnv)
  | ackSet (sticky : Bool) (expiry : Int)
  | ackClear

structure Sys where
  s : St
  a : AckSt

/-- What the operation does to / reads from the acknowledgement. -/
def sysAckOp (c : Cfg) (s : St) : SysOp → AckOp
  | .result r _ =>
    if stale s.core r then .query
    else .result (stateChange c.kind s.core.state r.state) (isOK c.kind r.state)
  | .fire _ => .query
  | .ackSet st e => .set st e
  | .ackClear => .clear

/-- One operation at virtual time `now`: the new system, the observation of the notification side (none
    for acknowledgement set / clear) — its environment carries the `IsAcknowledged()` value the code
    computed —, and the observation of the acknowledgement side. -/
def sysStep (c : Cfg) (y : Sys) (now : Int) (op : SysOp) : Sys × Option Obs × (Int × AckOp × Bool) :=
  let aop := sysAckOp c y.s op
  let acked := ackObs y.a now aop
  let a' := ackStep y.a now aop
  match op with
  | .result r e =>
    let e' : REnv := { e with acked := acked }
    let o := resultStep c y.s r e'
    (⟨o.1, a'⟩, some (.result o.2.2 o.1.core.state o.1.core.stype e' o.2.1 o.1.sup.hasState o.1.sbs), (now, aop, acked))
  | .fire e =>
    let e' : FEnv := { e with stateSuppressed := e.stateSuppressed || acked }
    let o := fireStep c y.s e'
    (⟨o.1, a'⟩, some (.fire e' o.2 o.1.sup.hasState o.1.sbs), (now, aop, acked))
  | .ackSet _ _ => (⟨y.s, a'⟩, none, (now, aop, acked))
  | .ackClear => (⟨y.s, a'⟩, none, (now, aop, acked))

def sysTrace (c : Cfg) : Sys → List (Int × SysOp) → List (Option Obs × (Int × AckOp × Bool))
  | _, [] => []
  | y, (now, op) :: rest => let p := sysStep c y now op; p.2 :: sysTrace c p.1 rest

/-- Non-decreasing timestamps, starting at `t0`. -/
def sysMonotoneFrom : Int → List (Int × SysOp) → Bool
  | _, [] => true
  | t0, (now, _) :: rest => decide (t0 ≤ now) && sysMonotoneFrom now rest

end Icinga.C02

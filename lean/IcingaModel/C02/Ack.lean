/-
  C02 — the suppression reason "acknowledged".  Executable transcription of the acknowledgement
  attributes and their lazy expiry (lib/icinga/checkable.cpp:138-193, checkable-check.cpp:277-285),
  and the property-level reading of "acknowledgement set / clear / expiry" (the operations of the
  property's quantifier) as an executable predicate over the observed `IsAcknowledged()` values.
  Core Lean only.  Times: integers (seconds of the virtual clock).
-/
import IcingaModel.C01.Model

namespace Icinga.C02
open Icinga.C01

/-- `AcknowledgementType` (lib/icinga/checkable.hpp): None, Normal, Sticky. -/
inductive AckT | none | normal | sticky
  deriving DecidableEq, Repr

/-- `acknowledgement` (raw) and `acknowledgement_expiry` (0 = never), lib/icinga/checkable.ti. -/
structure AckSt where
  ty : AckT := .none
  expiry : Int := 0
  deriving DecidableEq, Repr

/-- `Checkable::ClearAcknowledgement`, checkable.cpp:177-193: type None, expiry 0. -/
def ackCleared : AckSt := {}

/-- `Checkable::AcknowledgeProblem`, checkable.cpp:160-164: both attributes are overwritten. -/
def ackSet (sticky : Bool) (expiry : Int) : AckSt := ⟨if sticky then .sticky else .normal, expiry⟩

/-- Has the stored acknowledgement run out?  checkable.cpp:145 (`expiry != 0 && expiry < now`). -/
def ackExpired (a : AckSt) (now : Int) : Bool := a.ty != .none && a.expiry != 0 && decide (a.expiry < now)

/-- `Checkable::GetAcknowledgement()`, checkable.cpp:138-152: the value, and the attributes after the
    lazy clearing of an acknowledgement that ran out. -/
def getAck (a : AckSt) (now : Int) : AckSt × AckT :=
  if ackExpired a now then (ackCleared, .none) else (a, a.ty)

/-- `Checkable::IsAcknowledged()`, checkable.cpp:155-158. -/
def isAcked (a : AckSt) (now : Int) : Bool := (getAck a now).2 != .none

/-- checkable-check.cpp:277-285: on a state change a normal acknowledgement is removed, a sticky one
    when the new state is OK/Up (two calls of `GetAcknowledgement()`). -/
def ackOnResult (a : AckSt) (now : Int) (stateChange okNew : Bool) : AckSt :=
  if stateChange then
    let g1 := getAck a now
    if g1.2 == .normal then ackCleared
    else
      let g2 := getAck g1.1 now
      if g2.2 == .sticky && okNew then ackCleared else g2.1
  else a

/-- The operations that touch or read the acknowledgement. -/
inductive AckOp
  | set (sticky : Bool) (expiry : Int)     -- AcknowledgeProblem (expiry: absolute time, 0 = never)
  | clear                                   -- ClearAcknowledgement
  | result (stateChange okNew : Bool)       -- an accepted check result (then IsAcknowledged() at :320)
  | query                                   -- IsAcknowledged(): a handler run, the API's test, …
  deriving DecidableEq, Repr

/-- One operation at virtual time `now`; every operation ends with a read of `IsAcknowledged()`. -/
def ackStep (a : AckSt) (now : Int) : AckOp → AckSt
  | .set st e => (getAck (ackSet st e) now).1
  | .clear => ackCleared
  | .result sc ok => (getAck (ackOnResult a now sc ok) now).1
  | .query => (getAck a now).1

/-- The value `IsAcknowledged()` returns at the end of the operation. -/
def ackObs (a : AckSt) (now : Int) (op : AckOp) : Bool :=
  match op with
  | .set st e => isAcked (ackSet st e) now
  | .clear => false
  | .result sc ok => isAcked (ackOnResult a now sc ok) now
  | .query => isAcked a now

/-! ## The property's reading -/

/-- The acknowledgement the operations performed so far put in place: sticky?, expiry (0 = never).
    Nothing is ever changed by looking at it. -/
structure SpecAck where
  cur : Option (Bool × Int) := none
  deriving DecidableEq, Repr

/-- "Acknowledged" at time `now`: an acknowledgement was set, not cleared since, did not end with a
    state change (normal) / the recovery (sticky), and its expiry time — if it has one — has not passed. -/
def SpecAck.inForce (sa : SpecAck) (now : Int) : Bool :=
  match sa.cur with
  | none => false
  | some (_, e) => e == 0 || decide (now ≤ e)

def specAckStep (sa : SpecAck) : AckOp → SpecAck
  | .set st e => ⟨some (st, e)⟩          -- the newest acknowledgement replaces the one in place
  | .clear => ⟨none⟩
  | .result sc ok =>
    match sa.cur with
    | none => sa
    | some (st, _) => if sc && (!st || ok) then ⟨none⟩ else sa
  | .query => sa

/-- Observed acknowledgement trace: (time, operation, `IsAcknowledged()` read at the end of it).
    Returns the index of the first operation after which the object's answer differs from the
    acknowledgement in force. -/
def specAckTrace : SpecAck → Nat → List (Int × AckOp × Bool) → Option Nat
  | _, _, [] => none
  | sa, i, (now, op, obs) :: rest =>
    let sa' := specAckStep sa op
    if obs == sa'.inForce now then specAckTrace sa' (i + 1) rest else some i

/-- The model's trace. -/
def ackTraceOf : AckSt → List (Int × AckOp) → List (Int × AckOp × Bool)
  | _, [] => []
  | a, (now, op) :: rest => (now, op, ackObs a now op) :: ackTraceOf (ackStep a now op) rest

/-- The virtual clock never runs backwards: timestamps are non-decreasing, starting at `t0`. -/
def monotoneFrom : Int → List (Int × AckOp) → Bool
  | _, [] => true
  | t0, (now, _) :: rest => decide (t0 ≤ now) && monotoneFrom now rest

end Icinga.C02

/-
  C02 — the property as an executable predicate over an observed trace.  The predicate keeps only
  property-level bookkeeping (the last observed state/state type, the hard state remembered when the
  first state notification was withheld, a withheld flapping notification) and never looks at the
  model's bit masks.
-/
import IcingaModel.C02.Model

namespace Icinga.C02
open Icinga.C01

structure SpecSt where
  state : SState := .unknown       -- last observed state (pending default)
  stype : SType := .soft           -- last observed state type
  pending : Option SState := none  -- hard state before suppression began, if state notifications are withheld
  flapPending : Option Bool := none  -- withheld FlappingStart (true) / FlappingEnd (false)
  deriving Repr, DecidableEq

def specInit : SpecSt := {}

inductive Clause
  | flapOnToggle | flapNoToggle | stateNone | stateWhileFlappingOrPaused | stateWhileSuppressed
  | stateImmediate | fireNoPending | fireSuppressed | fireRelease | fireNotReady | fireFlap | dropped | remembered | lostUpdate
  deriving Repr, DecidableEq

def Clause.name : Clause → String
  | .flapOnToggle => "flapping_notification_exactly_on_toggle"
  | .flapNoToggle => "no_flapping_notification_without_toggle_or_in_downtime"
  | .stateNone => "no_state_notification_without_hard_event"
  | .stateWhileFlappingOrPaused => "no_state_notification_while_flapping_or_paused"
  | .stateWhileSuppressed => "nothing_sent_while_suppressed_or_pending"
  | .stateImmediate => "exactly_one_state_notification_on_hard_event"
  | .fireNoPending => "no_state_notification_without_withheld_event"
  | .fireSuppressed => "never_while_a_suppression_reason_holds"
  | .fireRelease => "release_exactly_one_iff_state_differs_from_remembered"
  | .fireNotReady => "no_release_before_hard_and_settled"
  | .fireFlap => "withheld_flapping_notification_rule"
  | .dropped => "dropped_result_sends_nothing"
  | .remembered => "withheld_event_and_hard_state_before_suppression_remembered"
  | .lostUpdate => "handler_and_concurrent_result_as_if_one_after_the_other"

def isFlap (n : Notif) : Bool := n.ty == .flapStart || n.ty == .flapEnd
def flapPart (ns : List Notif) : List Notif := ns.filter isFlap
def statePart (ns : List Notif) : List Notif := ns.filter (fun n => !isFlap n)

/-- The hard event of a result, from the observed old/new (state, state type):
    entering a hard problem state, changing between hard problem states (volatile: every further
    non-OK result while hard), returning to OK/Up from a hard problem state. -/
def hardEvent (c : Cfg) (ostate : SState) (ostype : SType) (nstate : SState) (nstype : SType) : Option NType :=
  let okOld := isOK c.kind ostate
  let okNew := isOK c.kind nstate
  if okNew then
    if ostype == .hard && !okOld then some .recovery else none
  else if nstype == .hard then
    if ostype == .soft || okOld then some .problem                         -- enters a hard problem state
    else if proj c.kind ostate != proj c.kind nstate then some .problem    -- between hard problem states
    else if c.volatile then some .problem                                  -- volatile: every further non-OK
    else none
  else none

/-- Flapping notifications of a result: exactly on a toggle, withheld in a downtime, nothing when paused. -/
def specFlapR (pend : Option Bool) (e : REnv) (nstate : SState) (fl : List Notif) : Option Clause × Option Bool :=
  let toggled := e.wasFlapping != e.isFlapping
  let flapTy : NType := if e.isFlapping then .flapStart else .flapEnd
  let bad : Option Clause :=
    if toggled && !e.paused && !e.inDowntime then
      (if fl == [⟨flapTy, nstate⟩] then none else some .flapOnToggle)
    else (if fl == [] then none else some .flapNoToggle)
  let pend' : Option Bool :=
    if toggled && !e.paused && e.inDowntime then
      (match pend with
       | some b => if b != e.isFlapping then none else some b
       | none => some e.isFlapping)
    else pend
  (bad, pend')

/-- State notifications of a result, given its hard event `ev`. -/
def specStateR (ev : Option NType) (pend : Option SState) (hardBefore : SState) (e : REnv) (nstate : SState)
    (stn : List Notif) : Option Clause × Option SState :=
  let suppress := !e.notifReachable || e.inDowntime || e.acked
  match ev with
  | none => ((if stn == [] then none else some .stateNone), pend)
  | some t =>
    if e.isFlapping || e.paused then ((if stn == [] then none else some .stateWhileFlappingOrPaused), pend)
    else if suppress || pend.isSome then
      ((if stn == [] then none else some .stateWhileSuppressed),
       (match pend with | some p => some p | none => some hardBefore))
    else ((if stn == [⟨t, nstate⟩] then none else some .stateImmediate), pend)

/-- One accepted result.  Returns the violated clause (if any) and the next bookkeeping. -/
def specResult (c : Cfg) (sp : SpecSt) (nstate : SState) (nstype : SType) (e : REnv) (ns : List Notif) :
    Option Clause × SpecSt :=
  let f := specFlapR sp.flapPending e nstate (flapPart ns)
  let ev := hardEvent c sp.state sp.stype nstate nstype
  let hardBefore : SState := if sp.stype == .hard then sp.state else .ok
  let s := specStateR ev sp.pending hardBefore e nstate (statePart ns)
  (match f.1 with | some cl => some cl | none => s.1,
   { state := nstate, stype := nstype, pending := s.2, flapPending := f.2 })

/-- "Its next check is imminent": active checks are switched on and the next check is due within the
    next minute — for check intervals below 70 s within `interval − 10 s` (never a negative span), so
    that an object whose checks are always less than a minute apart is not waited for forever.
    Microseconds. -/
def imminent (e : FEnv) : Bool :=
  e.activeChecks && decide (e.nextIn ≤ min 60000000 (max 0 (e.interval - 10000000)))

/-- Withheld state notification when the handler runs. -/
def specFireState (c : Cfg) (sp : SpecSt) (e : FEnv) (stn : List Notif) : Option Clause × Option SState :=
  let off := e.paused || !e.enabled
  let settled := sp.stype == .hard && !imminent e && !e.parentRecent
  match sp.pending with
  | none => ((if stn == [] then none else some .fireNoPending), none)
  | some p =>
    if off then ((if stn == [] then none else some .fireNotReady), some p)
    else if e.stateSuppressed then ((if stn == [] then none else some .fireSuppressed), some p)
    else if settled then
      let ty : NType := if isOK c.kind sp.state then .recovery else .problem
      let want : List Notif := if proj c.kind sp.state != proj c.kind p then [⟨ty, sp.state⟩] else []
      ((if stn == want then none else some .fireRelease), none)
    else ((if stn == [] then none else some .fireNotReady), some p)

/-- Withheld flapping notification when the handler runs. -/
def specFireFlap (sp : SpecSt) (e : FEnv) (fl : List Notif) : Option Clause × Option Bool :=
  let off := e.paused || !e.enabled
  match sp.flapPending with
  | none => ((if fl == [] then none else some .fireFlap), none)
  | some isStart =>
    if off then ((if fl == [] then none else some .fireFlap), some isStart)
    else if isStart == e.isFlapping then
      if !e.inDowntime && !imminent e && !e.parentRecent then
        let t : NType := if isStart then .flapStart else .flapEnd
        ((if fl == [⟨t, sp.state⟩] then none else some .fireFlap), none)
      else ((if fl == [] then none else some .fireFlap), some isStart)
    else ((if fl == [] then none else some .fireFlap), none)

/-- One run of the suppressed-notification handler. -/
def specFire (c : Cfg) (sp : SpecSt) (e : FEnv) (ns : List Notif) : Option Clause × SpecSt :=
  let a := specFireState c sp e (statePart ns)
  let f := specFireFlap sp e (flapPart ns)
  (match a.1 with | some cl => some cl | none => f.1,
   { sp with pending := a.2, flapPending := f.2 })

/-- "The event is remembered together with the hard state before suppression began": the object's
    `suppressed_notifications` attribute carries a state bit (`supState`) exactly while the property
    regards state notifications as withheld, and `state_before_suppression` (`sbs`) then is the
    remembered hard state (hosts: as Up/Down). -/
def specRemembered (c : Cfg) (pend : Option SState) (supState : Bool) (sbs : SState) : Option Clause :=
  match pend with
  | none => if supState then some .remembered else none
  | some p => if supState && proj c.kind sbs == proj c.kind p then none else some .remembered

/-- Observed operations.  `supState`/`sbs`: the two attributes as read from the object after the operation. -/
inductive Obs
  | result (accepted : Bool) (nstate : SState) (nstype : SType) (e : REnv) (ns : List Notif) (supState : Bool) (sbs : SState)
  | fire (e : FEnv) (ns : List Notif) (supState : Bool) (sbs : SState)
  deriving Repr

/-- The clauses about what is requested. -/
def specStepCore (c : Cfg) (sp : SpecSt) : Obs → Option Clause × SpecSt
  | .result false _ _ _ ns _ _ => ((if ns == [] then none else some .dropped), sp)
  | .result true nstate nstype e ns _ _ => specResult c sp nstate nstype e ns
  | .fire e ns _ _ => specFire c sp e ns

def Obs.supState : Obs → Bool
  | .result _ _ _ _ _ b _ => b
  | .fire _ _ b _ => b

def Obs.sbs : Obs → SState
  | .result _ _ _ _ _ _ s => s
  | .fire _ _ _ s => s

/-- One observed operation: what is requested, then what is remembered. -/
def specStep (c : Cfg) (sp : SpecSt) (o : Obs) : Option Clause × SpecSt :=
  let r := specStepCore c sp o
  (match r.1 with | some cl => some cl | none => specRemembered c r.2.pending o.supState o.sbs, r.2)

/-- All ways to cut a list in two. -/
def splits (ns : List Notif) : List (List Notif × List Notif) :=
  (List.range (ns.length + 1)).map fun i => (ns.take i, ns.drop i)

/-- The handler runs while another thread processes a check result.  The property speaks about
    operations that happen one after the other ("for all interleavings of …"), so the pair must look
    like one of the two orders: handler then result (environment `ePre`), or result then handler
    (environment `ePost`, read after the result) — for some attribution of the observed requests
    `ns` to the two.  Attributes are observed after the pair only. -/
def specFireResult (c : Cfg) (sp : SpecSt) (ePre ePost : FEnv) (acc : Bool) (nstate : SState) (nstype : SType)
    (er : REnv) (ns : List Notif) (supState : Bool) (sbs : SState) : Option Clause × SpecSt :=
  let orderA (p : List Notif × List Notif) : Option SpecSt :=
    match specStepCore c sp (.fire ePre p.1 false .ok) with
    | (none, sp1) =>
      (match specStep c sp1 (.result acc nstate nstype er p.2 supState sbs) with
       | (none, sp2) => some sp2
       | _ => none)
    | _ => none
  let orderB (p : List Notif × List Notif) : Option SpecSt :=
    match specStepCore c sp (.result acc nstate nstype er p.1 false .ok) with
    | (none, sp1) =>
      (match specStep c sp1 (.fire ePost p.2 supState sbs) with
       | (none, sp2) => some sp2
       | _ => none)
    | _ => none
  match (splits ns).findSome? orderA with
  | some sp' => (none, sp')
  | none =>
    match (splits ns).findSome? orderB with
    | some sp' => (none, sp')
    | none => (some .lostUpdate,
        (specStepCore c (specStepCore c sp (.fire ePre [] false .ok)).2 (.result acc nstate nstype er [] false .ok)).2)

def specTrace (c : Cfg) : SpecSt → List Obs → Option Clause
  | _, [] => none
  | sp, o :: rest =>
    match specStep c sp o with
    | (some cl, _) => some cl
    | (none, sp') => specTrace c sp' rest

end Icinga.C02

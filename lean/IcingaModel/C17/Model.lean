/-
  C17 — runtime object creation: executable model of the configuration text the API writes for a
  new object (`ConfigWriter`, lib/base/configwriter.cpp; `ConfigObjectUtility::CreateObjectConfig`,
  lib/remote/configobjectutility.cpp:133-178) and of how the configuration compiler reads that text
  back (string literals: lib/config/config_lexer.ll:41-106; comments and blanks: 142-156; keywords,
  identifiers, numbers: 158-214; the statement/value grammar restricted to the fragment the writer can
  produce — everything else is rejected).  Core Lean only.

  Text is a list of bytes, each byte held in a `Char` (0..255); nothing below depends on the byte
  being ASCII.
-/
namespace Icinga.C17

abbrev Str := List Char

/-! ## Numbers

A number is an exact finite decimal `± mant / 10^scale` (every binary64 value is one).  The
harness prints the exact decimal expansion of each double, so no rounding happens on the way into
the model. -/

structure Dec where
  neg : Bool
  mant : Nat
  scale : Nat
deriving DecidableEq, Repr, Inhabited

def isDigit (c : Char) : Bool := decide (48 ≤ c.toNat) && decide (c.toNat ≤ 57)

def digitChar (k : Nat) : Char := Char.ofNat (48 + k)

/-- Decimal digits of `n`, least significant first.  Fuel `n + 1` is always enough. -/
def revDigitsF : Nat → Nat → Str
  | 0, _ => []
  | f + 1, n => if n < 10 then [digitChar n] else digitChar (n % 10) :: revDigitsF f (n / 10)

/-- `%d`-style decimal rendering. -/
def natToDec (n : Nat) : Str := (revDigitsF (n + 1) n).reverse

/-- Value of a digit string (most significant first). -/
def digitsVal (s : Str) : Nat := s.foldl (fun a c => a * 10 + (c.toNat - 48)) 0

/-- `|d| · 10^6` rounded to an integer, ties to even — what `printf("%.6f")` (glibc: exact, current
    rounding mode) prints for a double whose exact value is `d`.  `fp << std::fixed << val` with the
    stream's default precision 6: configwriter.cpp:17-20. -/
def micro (d : Dec) : Nat :=
  if d.scale ≤ 6 then d.mant * 10 ^ (6 - d.scale)
  else
    let p := 10 ^ (d.scale - 6)
    let q := d.mant / p
    let r := d.mant % p
    if 2 * r < p then q else if p < 2 * r then q + 1 else if q % 2 = 0 then q else q + 1

/-- Six digits, zero padded. -/
def pad6 (m : Nat) : Str :=
  [digitChar (m / 100000 % 10), digitChar (m / 10000 % 10), digitChar (m / 1000 % 10),
   digitChar (m / 100 % 10), digitChar (m / 10 % 10), digitChar (m % 10)]

/-- `ConfigWriter::EmitNumber` (configwriter.cpp:17-20). -/
def emitNumber (d : Dec) : Str :=
  (if d.neg then ['-'] else []) ++ (natToDec (micro d / 1000000) ++ '.' :: pad6 (micro d % 1000000))

/-- What the emitted literal denotes: the number rounded to six fractional digits. -/
def round6 (d : Dec) : Dec := { neg := d.neg, mant := micro d, scale := 6 }

/-! ## Strings: `ConfigWriter::EmitString` / `EscapeIcingaString` (configwriter.cpp:22-25, 190-201)

The seven `replace_all` passes (backslash first) amount to one per-character map: no pass creates
or destroys a character that a later pass looks for. -/

def chBS : Char := Char.ofNat 8
def chFF : Char := Char.ofNat 12
def chNUL : Char := Char.ofNat 0

def escChar (c : Char) : Str :=
  if c = '\\' then ['\\', '\\']
  else if c = '\n' then ['\\', 'n']
  else if c = '\t' then ['\\', 't']
  else if c = '\r' then ['\\', 'r']
  else if c = chBS then ['\\', 'b']
  else if c = chFF then ['\\', 'f']
  else if c = '"' then ['\\', '"']
  else [c]

def escapeIcingaString : Str → Str
  | [] => []
  | c :: cs => escChar c ++ escapeIcingaString cs

def emitString (s : Str) : Str := '"' :: (escapeIcingaString s ++ ['"'])

/-! ## Identifiers: `ConfigWriter::EmitIdentifier` (configwriter.cpp:130-154) -/

/-- `ConfigWriter::GetKeywords` (configwriter.cpp:203-249). -/
def writerKeywords : List Str :=
  [['o','b','j','e','c','t'],
   ['t','e','m','p','l','a','t','e'],
   ['i','n','c','l','u','d','e'],
   ['i','n','c','l','u','d','e','_','r','e','c','u','r','s','i','v','e'],
   ['i','n','c','l','u','d','e','_','z','o','n','e','s'],
   ['l','i','b','r','a','r','y'],
   ['n','u','l','l'],
   ['t','r','u','e'],
   ['f','a','l','s','e'],
   ['c','o','n','s','t'],
   ['v','a','r'],
   ['t','h','i','s'],
   ['g','l','o','b','a','l','s'],
   ['l','o','c','a','l','s'],
   ['u','s','e'],
   ['u','s','i','n','g'],
   ['n','a','m','e','s','p','a','c','e'],
   ['d','e','f','a','u','l','t'],
   ['i','g','n','o','r','e','_','o','n','_','e','r','r','o','r'],
   ['c','u','r','r','e','n','t','_','f','i','l','e','n','a','m','e'],
   ['c','u','r','r','e','n','t','_','l','i','n','e'],
   ['a','p','p','l','y'],
   ['t','o'],
   ['w','h','e','r','e'],
   ['i','m','p','o','r','t'],
   ['a','s','s','i','g','n'],
   ['i','g','n','o','r','e'],
   ['f','u','n','c','t','i','o','n'],
   ['r','e','t','u','r','n'],
   ['b','r','e','a','k'],
   ['c','o','n','t','i','n','u','e'],
   ['f','o','r'],
   ['i','f'],
   ['e','l','s','e'],
   ['w','h','i','l','e'],
   ['t','h','r','o','w'],
   ['t','r','y'],
   ['e','x','c','e','p','t'],
   -- after 3c83e1d: the two lexer keywords the list used to lack
   ['i','n'],
   ['d','e','b','u','g','g','e','r']]

def isIdStart (c : Char) : Bool :=
  (decide (65 ≤ c.toNat) && decide (c.toNat ≤ 90)) || (decide (97 ≤ c.toNat) && decide (c.toNat ≤ 122)) || c == '_'

def isIdChar (c : Char) : Bool := isIdStart c || isDigit c

/-- `[a-zA-Z_][a-zA-Z0-9_]*` against the whole string. -/
def isIdent : Str → Bool
  | [] => false
  | c :: cs => isIdStart c && cs.all isIdChar

/-- `boost::regex_match(identifier, "^[a-zA-Z_][a-zA-Z0-9\\_]*$")` (configwriter.cpp:146-150, after
    917b518): the WHOLE key must be an identifier (the pattern's character classes cannot consume a
    line break, so Boost's multi-line `^`/`$` make no difference to a whole-string match). -/
def bareMatch (s : Str) : Bool := isIdent s

/-- `EmitIdentifier(fp, id, inAssignment = true)`: never throws. -/
def emitKey (k : Str) : Str :=
  if k ∈ writerKeywords then '@' :: k
  else if bareMatch k then k
  else emitString k

/-- `EmitIdentifier`; `none` = `std::invalid_argument("Invalid identifier")`. -/
def emitIdentifier (k : Str) (inAssignment : Bool) : Option Str :=
  if k ∈ writerKeywords then some ('@' :: k)
  else if bareMatch k then some k
  else if inAssignment then some (emitString k)
  else none

/-! ## Values: `EmitValue`, `EmitArray`, `EmitScope` (configwriter.cpp:32-128) -/

inductive Value where
  | empty
  | bool (b : Bool)
  | num (d : Dec)
  | str (s : Str)
  | arr (xs : List Value)
  | dict (kvs : List (Str × Value))
deriving Repr, Inhabited

def tabs (n : Nat) : Str := List.replicate n '\t'

mutual
/-- `EmitValue(fp, indentLevel, val)`. -/
def emitValue (ind : Nat) : Value → Str
  | .empty => ['n', 'u', 'l', 'l']
  | .bool true => ['t', 'r', 'u', 'e']
  | .bool false => ['f', 'a', 'l', 's', 'e']
  | .num d => emitNumber d
  | .str s => emitString s
  | .arr [] => ['[', ' ', ']']
  | .arr (x :: xs) => '[' :: ' ' :: (emitValue ind x ++ emitRestElems ind xs)
  | .dict kvs => '{' :: '\n' :: membersTail ind kvs
/-- after the first array element: `, v` for each further one, then ` ]`. -/
def emitRestElems (ind : Nat) : List Value → Str
  | [] => [' ', ']']
  | x :: xs => ',' :: ' ' :: (emitValue ind x ++ emitRestElems ind xs)
/-- `EmitScope(fp, ind, val)` after the `{` and its line break (no imports, `splitDot = false`): one
    line per entry (`\n` + indent + key ` = ` value — written here with the `\n` at the END of the
    preceding piece), then the closing brace indented one level less. -/
def membersTail (ind : Nat) : List (Str × Value) → Str
  | [] => tabs (ind - 1) ++ ['}']
  | (k, v) :: kvs =>
    tabs ind ++ (emitKey k ++ (' ' :: '=' :: ' ' :: (emitValue (ind + 1) v ++ ('\n' :: membersTail ind kvs))))
end

/-! ## The object statement: `EmitConfigItem` (configwriter.cpp:156-174) with `EmitScope(fp, 1, attrs,
imports, splitDot = true)` (configwriter.cpp:58-104) -/

/-- `String::Split(".")` (boost `split`, no token compression): first token and the remaining ones. -/
def splitDots : Str → Str × List Str
  | [] => ([], [])
  | c :: cs =>
    let r := splitDots cs
    if c = '.' then ([], r.1 :: r.2) else (c :: r.1, r.2)

def emitIndexers : List Str → Str
  | [] => []
  | t :: ts => '[' :: (emitString t ++ (']' :: emitIndexers ts))

/-- `a["b"]["c"]` for the key `a.b.c`. -/
def emitLhs (k : Str) : Str := emitKey (splitDots k).1 ++ emitIndexers (splitDots k).2

/-- `import "<name>"` lines: `fp << "import "; EmitString(fp, import)` (configwriter.cpp:66-67, after
    d511a4f), then one `\n` if there were any. -/
def emitImportLines : List Str → Str
  | [] => []
  | t :: ts => '\n' :: '\t' :: 'i' :: 'm' :: 'p' :: 'o' :: 'r' :: 't' :: ' ' :: (emitString t ++ emitImportLines ts)

def emitImports (ts : List Str) : Str :=
  match ts with
  | [] => []
  | _ :: _ => emitImportLines ts ++ ['\n']

/-- the attribute lines of the object body, from just after a line break, and the closing brace -/
def topTail : List (Str × Value) → Str
  | [] => ['}']
  | (k, v) :: kvs =>
    '\t' :: (emitLhs k ++ (' ' :: '=' :: ' ' :: (emitValue 2 v ++ ('\n' :: topTail kvs))))

def emitTopMembers (attrs : List (Str × Value)) : Str := '\n' :: topTail attrs

def kwObject : Str := ['o', 'b', 'j', 'e', 'c', 't']
def kwIoe : Str := ['i', 'g', 'n', 'o', 'r', 'e', '_', 'o', 'n', '_', 'e', 'r', 'r', 'o', 'r']
def kwImport : Str := ['i', 'm', 'p', 'o', 'r', 't']

/-- What follows the type identifier. -/
def emitItemTail (name : Str) (ioe : Bool) (imports : List Str) (attrs : List (Str × Value)) : Str :=
  ' ' :: (emitString name ++ ((if ioe then ' ' :: kwIoe else []) ++
    (' ' :: '{' :: (emitImports imports ++ emitTopMembers attrs))))

/-- `EmitConfigItem(fp, type, name, false, ignoreOnError, imports, attrs)` followed by the
    `EmitRaw(config, "\n")` of `CreateObjectConfig`. -/
def emitConfigItem (ty name : Str) (ioe : Bool) (imports : List Str) (attrs : List (Str × Value)) : Option Str :=
  match emitIdentifier ty false with
  | none => none
  | some t => some (kwObject ++ (' ' :: (t ++ (emitItemTail name ioe imports attrs ++ ['\n']))))

/-! ## `CreateObjectConfig` (configobjectutility.cpp:133-178) -/

/-- byte-wise `std::string` order. -/
def strLt : Str → Str → Bool
  | [], [] => false
  | [], _ :: _ => true
  | _ :: _, [] => false
  | a :: as, b :: bs => if a.toNat < b.toNat then true else if b.toNat < a.toNat then false else strLt as bs

/-- `Dictionary::Set` on the ordered map. -/
def dictSet (k : Str) (v : Value) : List (Str × Value) → List (Str × Value)
  | [] => [(k, v)]
  | (k', v') :: r =>
    if k = k' then (k, v) :: r
    else if strLt k k' then (k, v) :: (k', v') :: r
    else (k', v') :: dictSet k v r

def dictRemove (k : Str) (d : List (Str × Value)) : List (Str × Value) := d.filter (fun kv => kv.1 ≠ k)

/-- Field tables of a type: `cfg` = names of fields with `FAConfig`, `other` = all other field names. -/
structure TypeInfo where
  name : Str
  cfg : List Str
  other : List Str

def kName : Str := ['n', 'a', 'm', 'e']
def kVersion : Str := ['v', 'e', 'r', 's', 'i', 'o', 'n']

/-- The whitelist loop (configobjectutility.cpp:152-163): every key's text before the first `.` must
    name a field, the field must be `FAConfig`, and the key must not be `name`. -/
def attrAllowed (ti : TypeInfo) (k : Str) : Bool :=
  ((splitDots k).1 ∈ ti.cfg) && k ≠ kName

def attrsAllowed (ti : TypeInfo) (attrs : List (Str × Value)) : Bool := attrs.all (fun kv => attrAllowed ti kv.1)

/-- name parts (oracle: `NameComposer::ParseName`) override the attributes, `name` is removed,
    `version` is set to the clock (configobjectutility.cpp:165-171). -/
def allAttrs (attrs : List (Str × Value)) (parts : Option (List (Str × Value))) (now : Dec) : List (Str × Value) :=
  let a := match parts with
    | none => attrs
    | some ps => ps.foldl (fun acc kv => dictSet kv.1 kv.2 acc) attrs
  dictSet kVersion (.num now) (dictRemove kName a)

def lookupStr (k : Str) : List (Str × Value) → Option Str
  | [] => none
  | (k', v) :: r => if k = k' then (match v with | .str s => some s | _ => none) else lookupStr k r

/-- the `name` the statement carries: the full name, or the `name` part of a composite one (138-145) -/
def shortName (fullName : Str) (parts : Option (List (Str × Value))) : Str :=
  match parts with
  | none => fullName
  | some ps => (lookupStr kName ps).getD []

/-- `CreateObjectConfig`; `none` = it throws. -/
def createObjectConfig (ti : TypeInfo) (fullName : Str) (ioe : Bool) (templates : List Str)
    (attrs : List (Str × Value)) (parts : Option (List (Str × Value))) (now : Dec) : Option Str :=
  if attrsAllowed ti attrs then
    emitConfigItem ti.name (shortName fullName parts) ioe templates (allAttrs attrs parts now)
  else none

/-! ## Where the text is written: `ConfigObjectUtility::ComputeNewObjectConfigPath` / `EscapeName`
(configobjectutility.cpp:35-66, 129-132; `Utility::EscapeString(name, "<>:\"/\\|?*", true)`, utility.cpp:1526-1568) -/

/-- `HexEncode`'s digit (utility.cpp:1526-1532) -/
def hexUpper (n : Nat) : Char := if n < 10 then Char.ofNat (48 + n) else Char.ofNat (55 + n)

/-- the characters `EscapeName` replaces: the list given by `EscapeName` and `%` itself -/
def nameSpecial (c : Char) : Bool :=
  c == '<' || c == '>' || c == ':' || c == '"' || c == '/' || c == '\\' || c == '|' || c == '?' || c == '*' || c == '%'

def escNameChar (c : Char) : Str :=
  if nameSpecial c then ['%', hexUpper (c.toNat / 16 % 16), hexUpper (c.toNat % 16)] else [c]

/-- `ConfigObjectUtility::EscapeName` -/
def escapeName : Str → Str
  | [] => []
  | c :: r => escNameChar c ++ escapeName r

def hexValUpper (c : Char) : Nat := if isDigit c then c.toNat - 48 else c.toNat - 55

/-- `Utility::UnescapeString` (utility.cpp:1570-1591) on what `EscapeName` writes -/
def unescapeName : Str → Str
  | [] => []
  | [c] => [c]
  | [c, d] => [c, d]
  | c :: x :: y :: r =>
    if c = '%' then Char.ofNat (hexValUpper x * 16 + hexValUpper y) :: unescapeName r
    else c :: unescapeName (x :: y :: r)

def confDirPrefix (plural : Str) : Str := ['c','o','n','f','.','d','/'] ++ plural ++ ['/']
def confSuffix : Str := ['.','c','o','n','f']

/-- `ComputeNewObjectConfigPath` relative to the active stage of the `_api` package, for names that are not
    truncated (every type but Comment and Downtime; those too while the escaped name is shorter than 123 bytes) -/
def confPath (plural name : Str) : Str := confDirPrefix plural ++ (escapeName name ++ confSuffix)

/-- `Utility::TruncateUsingHash<80+3+40>` (utility.hpp:173-192) with the SHA1 as an oracle: what the file's
    base name may be for the escaped name `e`. -/
def truncatedOk (e base : Str) : Bool :=
  if e.length < 123 then base == e
  else base.length == 123 && base.take 83 == e.take 80 ++ ['.','.','.'] &&
    (base.drop 83).all (fun c => isDigit c || (decide (97 ≤ c.toNat) && decide (c.toNat ≤ 102)))

/-- is `p` a path `ComputeNewObjectConfigPath` may prescribe: the escaped name in the type's directory, or (which
    types truncate is the implementation's business: today Comment and Downtime) its truncated form. -/
def pathExpected (plural name : Str) (p : Str) : Bool :=
  p == confPath plural name ||
    ((confDirPrefix plural).isPrefixOf p && confSuffix.isSuffixOf p &&
      truncatedOk (escapeName name) ((p.drop (confDirPrefix plural).length).take (p.length - (confDirPrefix plural).length - confSuffix.length)))

/-! ## Reading the text back: blanks and comments (config_lexer.ll:142-156) -/

inductive WsMode where
  | norm | slash | block | star | line
deriving DecidableEq

/-- Skip `[ \t]`, `/* … */`, `//…`, `#…` and, when `nl`, also `[\r\n]`.  `none` = end of file inside
    a block comment.  (`slash` = a `/` was read in `norm`; `star` = a `*` was read in `block`.) -/
def ws (nl : Bool) : WsMode → Str → Option Str
  | .norm, [] => some []
  | .norm, c :: r =>
    if c = ' ' then ws nl .norm r
    else if c = '\t' then ws nl .norm r
    else if nl && (c = '\n' || c = '\r') then ws nl .norm r
    else if c = '#' then ws nl .line r
    else if c = '/' then ws nl .slash r
    else some (c :: r)
  | .slash, [] => some ['/']
  | .slash, c :: r =>
    if c = '*' then ws nl .block r else if c = '/' then ws nl .line r else some ('/' :: c :: r)
  | .block, [] => none
  | .block, c :: r => if c = '*' then ws nl .star r else ws nl .block r
  | .star, [] => none
  | .star, c :: r => if c = '/' then ws nl .norm r else if c = '*' then ws nl .star r else ws nl .block r
  | .line, [] => some []
  | .line, c :: r =>
    if c = '\n' then (if nl then ws nl .norm r else some (c :: r))
    else ws nl .line r

/-! ## String literals (config_lexer.ll:41-106) -/

inductive StrMode where
  /-- inside `[^\\\n\"]+`; `drop` = a NUL was met in the current run: the copy loop
      `while (*yptr) buf += *yptr++` (config_lexer.ll:97-100) has stopped, the rest of the run is lost -/
  | plain (drop : Bool)
  | esc
  | oct (n : Nat) (v : Nat)
deriving DecidableEq

inductive StrAct where
  | fail
  | done (out : Str)
  | next (m : StrMode) (out : Str)
deriving DecidableEq

def isOct (c : Char) : Bool := decide (48 ≤ c.toNat) && decide (c.toNat ≤ 55)

def plainStep (drop : Bool) (c : Char) : StrAct :=
  if c = '"' then .done []
  else if c = '\n' then .fail                       -- "Unterminated string literal"
  else if c = '\\' then .next .esc []
  else if drop then .next (.plain true) []
  else if c = chNUL then .next (.plain true) []
  else .next (.plain false) [c]

/-- after a backslash: `\\[0-7]{1,3}` / `\\[0-9]+` (longest match, first rule on a tie), the seven
    named escapes, backslash-newline, anything else "Bad escape sequence". -/
def escStep (c : Char) : StrAct :=
  if isOct c then .next (.oct 1 (c.toNat - 48)) []
  else if isDigit c then .fail
  else if c = 'n' then .next (.plain false) ['\n']
  else if c = '\\' then .next (.plain false) ['\\']
  else if c = '"' then .next (.plain false) ['"']
  else if c = 't' then .next (.plain false) ['\t']
  else if c = 'r' then .next (.plain false) ['\r']
  else if c = 'b' then .next (.plain false) [chBS]
  else if c = 'f' then .next (.plain false) [chFF]
  else if c = '\n' then .next (.plain false) ['\n']
  else .fail

def prependOut (o : Str) : StrAct → StrAct
  | .fail => .fail
  | .done out => .done (o ++ out)
  | .next m out => .next m (o ++ out)

def octStep (n v : Nat) (c : Char) : StrAct :=
  if isDigit c then
    (if n < 3 && isOct c then .next (.oct (n + 1) (v * 8 + (c.toNat - 48))) [] else .fail)
  else if 255 < v then .fail                         -- "Constant is out of bounds"
  else prependOut [Char.ofNat v] (plainStep false c)

def strStep : StrMode → Char → StrAct
  | .plain d, c => plainStep d c
  | .esc, c => escStep c
  | .oct n v, c => octStep n v c

/-- The `<STRING>` start condition from just after the opening quote: the literal's value and the
    input after the closing quote.  `none` = a lexer error (incl. end of file in the literal). -/
def lexStr : StrMode → Str → Option (Str × Str)
  | _, [] => none
  | m, c :: r =>
    match strStep m c with
    | .fail => none
    | .done out => some (out, r)
    | .next m' out =>
      match lexStr m' r with
      | none => none
      | some (s, t) => some (out ++ s, t)

/-- A complete literal starting at its opening quote. -/
def lexString : Str → Option (Str × Str)
  | c :: r => if c = '"' then lexStr (.plain false) r else none
  | [] => none

/-! ## Identifiers, keywords, numbers (config_lexer.ll:158-214) -/

/-- keywords of the lexer, transcribed from its rules in their order (config_lexer.ll:154-203; `!in` and the
    operators cannot be confused with an identifier).  Since 3c83e1d (`in` and `debugger` added to
    `ConfigWriter::GetKeywords`) every one of them is in the writer's list: `lexer_keywords_known_to_writer`. -/
def lexerKeywords : List Str :=
  [['o','b','j','e','c','t'],
   ['t','e','m','p','l','a','t','e'],
   ['i','n','c','l','u','d','e'],
   ['i','n','c','l','u','d','e','_','r','e','c','u','r','s','i','v','e'],
   ['i','n','c','l','u','d','e','_','z','o','n','e','s'],
   ['l','i','b','r','a','r','y'],
   ['n','u','l','l'],
   ['t','r','u','e'],
   ['f','a','l','s','e'],
   ['c','o','n','s','t'],
   ['v','a','r'],
   ['t','h','i','s'],
   ['g','l','o','b','a','l','s'],
   ['l','o','c','a','l','s'],
   ['u','s','e'],
   ['u','s','i','n','g'],
   ['a','p','p','l','y'],
   ['d','e','f','a','u','l','t'],
   ['t','o'],
   ['w','h','e','r','e'],
   ['i','m','p','o','r','t'],
   ['a','s','s','i','g','n'],
   ['i','g','n','o','r','e'],
   ['f','u','n','c','t','i','o','n'],
   ['r','e','t','u','r','n'],
   ['b','r','e','a','k'],
   ['c','o','n','t','i','n','u','e'],
   ['f','o','r'],
   ['i','f'],
   ['e','l','s','e'],
   ['w','h','i','l','e'],
   ['t','h','r','o','w'],
   ['t','r','y'],
   ['e','x','c','e','p','t'],
   ['i','g','n','o','r','e','_','o','n','_','e','r','r','o','r'],
   ['c','u','r','r','e','n','t','_','f','i','l','e','n','a','m','e'],
   ['c','u','r','r','e','n','t','_','l','i','n','e'],
   ['d','e','b','u','g','g','e','r'],
   ['n','a','m','e','s','p','a','c','e'],
   ['i','n']]

/-- `[a-zA-Z_][a-zA-Z0-9_]*` at the head of the input (longest match). -/
def spanIdent (bs : Str) : Option (Str × Str) :=
  match bs with
  | c :: _ => if isIdStart c then some (bs.span isIdChar) else none
  | [] => none

/-- An identifier token: `@name`, or a bare name that is not a keyword. -/
def parseIdent (bs : Str) : Option (Str × Str) :=
  match bs with
  | c :: r =>
    if c = '@' then spanIdent r
    else
      match spanIdent bs with
      | some (id, t) => if id ∈ lexerKeywords then none else some (id, t)
      | none => none
  | [] => none

/-- A dictionary key: identifier token or string literal. -/
def parseKey (bs : Str) : Option (Str × Str) :=
  match bs with
  | c :: r => if c = '"' then lexStr (.plain false) r else parseIdent bs
  | [] => none

/-- what may follow a number literal without changing the token: not a letter/digit/`_` (duration
    suffixes, identifiers) and not a dot. -/
def numEnd : Str → Bool
  | [] => true
  | c :: _ => !isIdChar c && c != '.'

/-- `[0-9]+(\.[0-9]+)?` → exact decimal. -/
def parseNumber (bs : Str) : Option (Dec × Str) :=
  let ip := bs.span isDigit
  if ip.1 = [] then none
  else
    match ip.2 with
    | c :: r1 =>
      if c = '.' then
        let fp := r1.span isDigit
        if fp.1 = [] then none
        else if numEnd fp.2 then some ({ neg := false, mant := digitsVal (ip.1 ++ fp.1), scale := fp.1.length }, fp.2)
        else none
      else if numEnd ip.2 then some ({ neg := false, mant := digitsVal ip.1, scale := 0 }, ip.2)
      else none
    | [] => some ({ neg := false, mant := digitsVal ip.1, scale := 0 }, [])

def kwNull : Str := ['n', 'u', 'l', 'l']
def kwTrue : Str := ['t', 'r', 'u', 'e']
def kwFalse : Str := ['f', 'a', 'l', 's', 'e']

/-- `=` that is not the start of `==` or `=>`, blanks around it skipped. -/
def expectEq (bs : Str) : Option Str :=
  match ws false .norm bs with
  | some (c :: r) =>
    if c = '=' then
      match r with
      | c2 :: _ => if c2 = '=' || c2 = '>' then none else ws false .norm r
      | [] => none
    else none
  | _ => none

/-- `}` that is not the start of `}}`. -/
def closeBrace (bs : Str) : Option Str :=
  match bs with
  | c :: r =>
    if c = '}' then (match r with | c2 :: _ => if c2 = '}' then none else some r | [] => some r) else none
  | [] => none

def isNl (c : Char) : Bool := c == '\n' || c == '\r'

/-! ## Values (fragment of `rterm`, config_parser.yy): literals, `-` number, `[ … ]`, `{ key = value … }` -/

mutual
def parseValueF : Nat → Str → Option (Value × Str)
  | 0, _ => none
  | f + 1, bs =>
    match bs with
    | [] => none
    | c :: r =>
      if c = '"' then
        match lexStr (.plain false) r with
        | some (s, t) => some (.str s, t)
        | none => none
      else if c = '[' then
        match ws false .norm r with
        | some (c2 :: r2) =>
          if c2 = ']' then some (.arr [], r2)
          else
            match parseElemsF f (c2 :: r2) with
            | some (xs, t) => some (.arr xs, t)
            | none => none
        | _ => none
      else if c = '{' then
        match r with
        | c2 :: _ =>
          if c2 = '{' then none
          else
            match parseMembersF f r with
            | some (kvs, t) => some (.dict kvs, t)
            | none => none
        | [] => none
      else if c = '-' then
        match ws false .norm r with
        | some (c2 :: r2) =>
          if isDigit c2 then
            match parseNumber (c2 :: r2) with
            | some (d, t) => some (.num { d with neg := true }, t)
            | none => none
          else none
        | _ => none
      else if isDigit c then
        match parseNumber bs with
        | some (d, t) => some (.num d, t)
        | none => none
      else
        match spanIdent bs with
        | some (id, t) =>
          if id = kwNull then some (.empty, t)
          else if id = kwTrue then some (.bool true, t)
          else if id = kwFalse then some (.bool false, t)
          else none
        | none => none
/-- `v (, v)* ]` from the start of a value. -/
def parseElemsF : Nat → Str → Option (List Value × Str)
  | 0, _ => none
  | f + 1, bs =>
    match parseValueF f bs with
    | none => none
    | some (v, r) =>
      match ws false .norm r with
      | some (c :: t) =>
        if c = ']' then some ([v], t)
        else if c = ',' then
          match ws false .norm t with
          | some t1 =>
            match parseElemsF f t1 with
            | some (vs, r') => some (v :: vs, r')
            | none => none
          | none => none
        else none
      | _ => none
/-- the inside of `{ … }` from just after the brace or after a statement-separating newline:
    statements `key = value`, each followed by a line break or the closing brace. -/
def parseMembersF : Nat → Str → Option (List (Str × Value) × Str)
  | 0, _ => none
  | f + 1, bs =>
    match ws true .norm bs with
    | none => none
    | some bs1 =>
      match closeBrace bs1 with
      | some t => some ([], t)
      | none =>
        match parseKey bs1 with
        | none => none
        | some (k, r0) =>
          match expectEq r0 with
          | none => none
          | some r1 =>
            match parseValueF f r1 with
            | none => none
            | some (v, r2) =>
              match ws false .norm r2 with
              | some (c :: t) =>
                if c = '}' then
                  match closeBrace (c :: t) with
                  | some t' => some ([(k, v)], t')
                  | none => none
                else if isNl c then
                  match parseMembersF f t with
                  | some (kvs, r') => some ((k, v) :: kvs, r')
                  | none => none
                else none
              | _ => none
end

/-! ## The object statement -/

/-- `["s"]["t"]…` directly after the first token. -/
def parseIndexersF : Nat → Str → Option (List Str × Str)
  | 0, bs => some ([], bs)
  | f + 1, bs =>
    match bs with
    | c :: r =>
      if c = '[' then
        match lexString r with
        | some (s, c2 :: r2) =>
          if c2 = ']' then
            match parseIndexersF f r2 with
            | some (ss, t) => some (s :: ss, t)
            | none => none
          else none
        | _ => none
      else some ([], bs)
    | [] => some ([], bs)

inductive Stmt where
  | imp (tmpl : Str)
  | assign (head : Str) (idx : List Str) (v : Value)

/-- `lhs = value` -/
def parseAssign (bs : Str) : Option (Stmt × Str) :=
  match parseKey bs with
  | none => none
  | some (k, r0) =>
    match parseIndexersF r0.length r0 with
    | none => none
    | some (ix, r1) =>
      match expectEq r1 with
      | none => none
      | some r2 =>
        match parseValueF (r2.length + 1) r2 with
        | some (v, r3) => some (.assign k ix v, r3)
        | none => none

/-- one statement of the object body: `import "t"` or `lhs = value`. -/
def parseStmt (bs : Str) : Option (Stmt × Str) :=
  match spanIdent bs with
  | some (id, t) =>
    if id = kwImport then
      match ws false .norm t with
      | some t1 =>
        match lexString t1 with
        | some (s, t2) => some (.imp s, t2)
        | none => none
      | none => none
    else parseAssign bs
  | none => parseAssign bs

/-- the object body from just after `{`. -/
def parseStmtsF : Nat → Str → Option (List Stmt × Str)
  | 0, _ => none
  | f + 1, bs =>
    match ws true .norm bs with
    | none => none
    | some bs1 =>
      match closeBrace bs1 with
      | some t => some ([], t)
      | none =>
        match parseStmt bs1 with
        | none => none
        | some (s, r) =>
          match ws false .norm r with
          | some (c :: t) =>
            if c = '}' then
              match closeBrace (c :: t) with
              | some t' => some ([s], t')
              | none => none
            else if isNl c then
              match parseStmtsF f t with
              | some (ss, r') => some (s :: ss, r')
              | none => none
            else none
          | _ => none

/-- What an `object` statement says. -/
structure Item where
  ty : Str
  name : Str
  ioe : Bool
  imports : List Str
  assigns : List ((Str × List Str) × Value)

def stmtImports : List Stmt → List Str
  | [] => []
  | .imp t :: r => t :: stmtImports r
  | .assign _ _ _ :: r => stmtImports r

def stmtAssigns : List Stmt → List ((Str × List Str) × Value)
  | [] => []
  | .imp _ :: r => stmtAssigns r
  | .assign h ix v :: r => ((h, ix), v) :: stmtAssigns r

/-- optional `ignore_on_error`, then `{`. -/
def parseIoeBrace (bs : Str) : Option (Bool × Str) :=
  match ws false .norm bs with
  | some (c :: r) =>
    if c = '{' then (match r with | c2 :: _ => if c2 = '{' then none else some (false, r) | [] => some (false, r))
    else
      match spanIdent (c :: r) with
      | some (id, t) =>
        if id = kwIoe then
          match ws false .norm t with
          | some (c3 :: r3) =>
            if c3 = '{' then (match r3 with | c4 :: _ => if c4 = '{' then none else some (true, r3) | [] => some (true, r3))
            else none
          | _ => none
        else none
      | none => none
  | _ => none

/-- The WHOLE text must be exactly one statement `object <Type> "<name>" [ignore_on_error] { … }`
    (blank lines and comments around it allowed).  `none` for anything else: a second statement, an
    unknown token, a lexer error. -/
def parseItem (bs : Str) : Option Item :=
  match ws true .norm bs with
  | none => none
  | some b0 =>
    match spanIdent b0 with
    | none => none
    | some (kw, b1) =>
      if kw = kwObject then
        match ws false .norm b1 with
        | none => none
        | some b2 =>
          match parseIdent b2 with
          | none => none
          | some (ty, b3) =>
            match ws false .norm b3 with
            | none => none
            | some b4 =>
              match lexString b4 with
              | none => none
              | some (name, b5) =>
                match parseIoeBrace b5 with
                | none => none
                | some (ioe, b6) =>
                  match parseStmtsF (b6.length + 1) b6 with
                  | none => none
                  | some (ss, b7) =>
                    match ws true .norm b7 with
                    | some [] => some { ty := ty, name := name, ioe := ioe, imports := stmtImports ss, assigns := stmtAssigns ss }
                    | _ => none
      else none

mutual
/-- every number replaced by its six-fractional-digit rounding (what the emitted literal denotes) -/
def round6V : Value → Value
  | .num d => .num (round6 d)
  | .arr xs => .arr (round6Vs xs)
  | .dict kvs => .dict (round6Ms kvs)
  | .empty => .empty
  | .bool b => .bool b
  | .str s => .str s
def round6Vs : List Value → List Value
  | [] => []
  | x :: xs => round6V x :: round6Vs xs
def round6Ms : List (Str × Value) → List (Str × Value)
  | [] => []
  | (k, v) :: r => (k, round6V v) :: round6Ms r
end

/-! ## What the parsed body means: assignments applied in order to the (empty) attribute set -/

/-- `a[i₁]…[iₙ] = v` on a dictionary: missing/`null` intermediate values become dictionaries
    (`IndexerExpression::GetReference`/`SetValue`), indexing anything else is an error. -/
def setPath (d : List (Str × Value)) (k : Str) : List Str → Value → Option (List (Str × Value))
  | [], v => some (dictSet k v d)
  | i :: is, v =>
    let cur : Option (List (Str × Value)) :=
      match d.find? (fun kv => kv.1 = k) with
      | none => some []
      | some (_, .empty) => some []
      | some (_, .dict kvs) => some kvs
      | some _ => none
    match cur with
    | none => none
    | some sub =>
      match setPath sub i is v with
      | none => none
      | some sub' => some (dictSet k (.dict sub') d)

def evalAssigns : List ((Str × List Str) × Value) → List (Str × Value) → Option (List (Str × Value))
  | [], d => some d
  | ((h, ix), v) :: r, d =>
    match setPath d h ix v with
    | none => none
    | some d' => evalAssigns r d'

/-- The assignments a supplied attribute dictionary stands for. -/
def pathsOf (attrs : List (Str × Value)) : List ((Str × List Str) × Value) :=
  attrs.map (fun kv => (splitDots kv.1, kv.2))

end Icinga.C17

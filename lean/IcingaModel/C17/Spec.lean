/-
  C17 — the property as an executable predicate over what was observed on the implementation:
  supplied inputs, the configuration text it generated, the call's result, the created object's
  attributes, and the world (objects with a content hash, items, files, global namespace hash)
  before and after each call.  Returns the name of the first violated clause.

  The notions "structure of the generated configuration" (`parseItem`) and "what a dotted key
  assigns" (`evalAssigns`) are the ones defined in Model.lean; nothing else of the model is used.
-/
import IcingaModel.C17.Objects

namespace Icinga.C17

mutual
def Value.beq : Value → Value → Bool
  | .empty, .empty => true
  | .bool a, .bool b => a == b
  | .num a, .num b => a == b
  | .str a, .str b => a == b
  | .arr a, .arr b => Value.beqList a b
  | .dict a, .dict b => Value.beqMembers a b
  | _, _ => false
def Value.beqList : List Value → List Value → Bool
  | [], [] => true
  | a :: as, b :: bs => Value.beq a b && Value.beqList as bs
  | _, _ => false
def Value.beqMembers : List (Str × Value) → List (Str × Value) → Bool
  | [], [] => true
  | (k, a) :: as, (l, b) :: bs => k == l && Value.beq a b && Value.beqMembers as bs
  | _, _ => false
end

instance : BEq Value := ⟨Value.beq⟩

/-- An observed object (one entry of `ConfigType::GetObjects()`): identity, `_api` package?, active?, hash
    of its `FAConfig` serialisation, and `reg`: looking its name up (`ConfigType::GetObject(name)`, what
    every API call does to address an object) returns this very object. -/
structure OObj where
  key : Key
  api : Bool
  active : Bool
  hash : Str
  reg : Bool := true
deriving DecidableEq, Repr

structure World where
  objs : List OObj
  items : List Key
  files : List Str
  glob : Str
deriving DecidableEq, Repr, Inhabited

def World.has (w : World) (k : Key) : Bool := w.objs.any (fun o => o.key = k)
def World.find (w : World) (k : Key) : Option OObj := w.objs.find? (fun o => o.key = k)

def nodupKeys : List Key → Bool
  | [] => true
  | k :: r => !(r.contains k) && nodupKeys r

structure CreateIn where
  ty : Str
  /-- the type's directory below `conf.d` (`Type::GetPluralName().ToLower()`, type metadata) -/
  plural : Str := []
  name : Str
  ioe : Bool
  tmpl : List Str
  attrs : List (Str × Value)

structure CreateObs where
  /-- text returned by `CreateObjectConfig`; `none` = it threw -/
  cfg : Option Str
  /-- result of `CreateObject`; `none` = not called -/
  res : Option Res
  /-- `NameComposer::ParseName` of the full name (oracle) -/
  parts : Option (List (Str × Value))
  now : Dec
  /-- `DependencyGraph::GetParents` / `GetChildren` of the object, if it exists afterwards (children =
      what apply rules generated for it) -/
  parents : List Key := []
  children : List Key := []
  /-- path of the object's file, if it exists afterwards -/
  file : Option Str
  /-- `Serialize(obj, FAConfig)` projected on the first tokens of the supplied keys -/
  attrs : Option (List (Str × Value))
  after : World

/-- the object statement the supplied inputs stand for -/
def expectedItem (i : CreateIn) (o : CreateObs) : Item :=
  { ty := i.ty,
    name := shortName i.name o.parts,
    ioe := i.ioe, imports := i.tmpl,
    assigns := pathsOf (round6Ms (allAttrs i.attrs o.parts o.now)) }

def assignsBeq : List ((Str × List Str) × Value) → List ((Str × List Str) × Value) → Bool
  | [], [] => true
  | (p, a) :: as, (q, b) :: bs => p == q && Value.beq a b && assignsBeq as bs
  | _, _ => false

def itemBeq (a b : Item) : Bool :=
  a.ty == b.ty && a.name == b.name && a.ioe == b.ioe && a.imports == b.imports && assignsBeq a.assigns b.assigns

mutual
/-- dictionaries as the sets of entries they denote: entries sorted by key, of two entries with one
    key the later one wins (what evaluating the literal gives) -/
def canonV : Value → Value
  | .arr xs => .arr (canonVs xs)
  | .dict kvs => .dict (canonMs kvs)
  | .empty => .empty
  | .bool b => .bool b
  | .num d => .num d
  | .str s => .str s
def canonVs : List Value → List Value
  | [] => []
  | x :: xs => canonV x :: canonVs xs
def canonMs : List (Str × Value) → List (Str × Value)
  | [] => []
  | (k, v) :: r =>
    let rest := canonMs r
    if rest.any (fun kv => kv.1 = k) then rest else dictSet k (canonV v) rest
end

def pathsSubset (a b : List ((Str × List Str) × Value)) : Bool := a.all (fun x => b.any (fun y => y.1 = x.1))

def canonAssigns : List ((Str × List Str) × Value) → List ((Str × List Str) × Value)
  | [] => []
  | (p, v) :: r => (p, canonV v) :: canonAssigns r

/-- the assignments to ONE attribute (same first token) say the same: same set of paths, and they
    evaluate to the same tree; when they contradict each other (nothing can be evaluated: `vars.a = ""`
    and `vars.a.b = 1`) they must agree in order -/
def groupSame (la lb : List ((Str × List Str) × Value)) : Bool :=
  la.length == lb.length && pathsSubset la lb && pathsSubset lb la &&
  (match evalAssigns (canonAssigns la) [], evalAssigns (canonAssigns lb) [] with
   | some x, some y => Value.beqMembers (canonMs x) (canonMs y)
   | none, none => assignsBeq (canonAssigns la) (canonAssigns lb)
   | _, _ => false)

/-- Two object statements say the same: same type, name, `ignore_on_error`, imports (in order), and for
    every attribute (first token of the path) the same assignments in the sense of `groupSame`.  The
    order of assignments to DIFFERENT attributes and of dictionary entries, like all spacing, is the
    writer's business: the values are literals, the assignments are independent. -/
def itemSame (a b : Item) : Bool :=
  a.ty == b.ty && a.name == b.name && a.ioe == b.ioe && a.imports == b.imports &&
  a.assigns.length == b.assigns.length &&
  a.assigns.all (fun x => groupSame (a.assigns.filter (fun y => y.1.1 = x.1.1)) (b.assigns.filter (fun y => y.1.1 = x.1.1))) &&
  b.assigns.all (fun x => a.assigns.any (fun y => y.1.1 = x.1.1))

/-- "no name, key or value changed the structure or added statements": the generated text is exactly
    one object statement with exactly the supplied paths and values (numbers as six-digit literals). -/
def structurePreserved (i : CreateIn) (o : CreateObs) (cfg : Str) : Bool :=
  match parseItem cfg with
  | none => false
  | some it => itemSame it (expectedItem i o)

def lookupV (k : Str) : List (Str × Value) → Option Value
  | [] => none
  | (k', v) :: r => if k = k' then some v else lookupV k r

/-- "attributes equal the supplied values exactly": every observed attribute equals what the supplied
    dictionary (dotted keys expanded) says.  No verdict (true) when the supplied paths contradict each
    other (`vars.a = 1` and `vars.a.b = 2`). -/
def faithful (i : CreateIn) (o : CreateObs) (seen : List (Str × Value)) : Bool :=
  match evalAssigns (pathsOf (allAttrs i.attrs o.parts o.now)) [] with
  | none => true
  | some want => seen.all (fun kv => match lookupV kv.1 want with
      | some w => Value.beq w kv.2
      | none => true)

def subsetKeys (a b : List Key) : Bool := a.all (fun k => b.contains k)

/-- every object that exists can be addressed by its name: an object nobody can look up can neither be
    deleted nor does it stop a second object of the same name from being created -/
def allRegistered (w : World) : Bool := w.objs.all (·.reg)

/-- objects that appeared as a side effect of creating `k` (apply rules) were not "created at runtime
    through the API": they must not carry the `_api` package, which is what `DeleteObject` takes for
    "created at runtime" and whose file it removes -/
def sideEffectsNotRuntime (before after : World) (k : Key) : Bool :=
  after.objs.all (fun x => x.key = k || before.has x.key || !x.api)

def specCreate (before : World) (i : CreateIn) (o : CreateObs) : Option String :=
  let k : Key := ⟨i.ty, i.name⟩
  let after := o.after
  if !nodupKeys (after.objs.map (·.key)) then some "unique_names"
  else if !allRegistered after then some "registered_by_name"
  else
    match o.cfg with
    | none => if after = before then none else some "rejected_leaves_nothing"
    | some cfg =>
      if before.has k then
        (if o.res = some .ok || after ≠ before then some "duplicate_refused" else none)
      else if o.res ≠ some .ok then
        (if after ≠ before then some "fail_leaves_nothing"
         -- the generated text is the one object statement also when the creation then fails for another
         -- reason: a text the compiler cannot read (or reads differently) is the writer's doing
         else if !structurePreserved i o cfg then some "structure_preserved" else none)
      else
        match after.find k with
        | none =>
          if !i.ioe then some "success_without_object"
          else if after ≠ before then some "ignored_leaves_nothing"
          else if !structurePreserved i o cfg then some "structure_preserved" else none
        | some ob =>
          if !ob.active then some "active_object"
          -- what the new object hangs on must exist: an object that was deleted, or whose creation failed,
          -- must not be reachable any more
          else if o.parents.any (fun p => after.objs.any (fun x => x.key.ty = p.ty) && !after.has p) then
            some "dangling_parent"
          else if !sideEffectsNotRuntime before after k then some "generated_not_runtime"
          -- apart from the object and the children apply rules generated for it (all new) nothing changed
          else if o.children.any (fun c => before.has c) ||
              after.objs.filter (fun x => x.key ≠ k && !o.children.contains x.key) ≠ before.objs ||
              after.glob ≠ before.glob then
            some "others_untouched"
          else if !(subsetKeys before.items after.items &&
              after.items.all (fun x => x = k || o.children.contains x || before.items.contains x)) then
            some "item_registered"
          else
            match o.file with
            | none => some "file_written"
            | some p =>
              if !(after.files.contains p && !before.files.contains p && after.files.filter (· ≠ p) = before.files) then
                some "file_written"
              -- "one .conf file per runtime-created object": the file is the one the object's type and name
              -- prescribe (`conf.d/<type directory>/<escaped name>.conf`, distinct for distinct objects and
              -- inside the type's directory whatever the name contains: `confPath_injective`, `confPath_in_type_dir`)
              else if !pathExpected i.plural i.name p then
                some "file_where_expected"
              else if !structurePreserved i o cfg then some "structure_preserved"
              else
                match o.attrs with
                | none => some "faithful_attributes"
                | some seen => if faithful i o seen then none else some "faithful_attributes"

/-- transitive dependents of `ks` along (child, parent) edges -/
def dependentsF : Nat → List (Key × Key) → List Key → List Key
  | 0, _, acc => acc
  | f + 1, deps, acc =>
    let more := (deps.filter (fun e => acc.contains e.2 && !acc.contains e.1)).map (·.1)
    if more.isEmpty then acc else dependentsF f deps (acc ++ more.eraseDups)

def fileOfKey (fileOf : List (Key × Str)) (k : Key) : Option Str := (fileOf.find? (·.1 = k)).map (·.2)

/-- an object as it is after its deactivation was aborted by an exception: still there, no longer active -/
def deactivated (o : OObj) : OObj := { o with active := false }

/-- `created` = the objects of `before` that a create CALL of this history produced (the history's notion of
    "created at runtime"; everything else was loaded from the static configuration or generated by an apply
    rule); `fileOf` = the file each of them was written to.
    `thr` = fault injected by the environment: the object whose deactivation signal was answered by an exception
    during this call (`none`: nothing went wrong).  The fault excuses exactly this: the call may report failure
    although it was asked for something it must otherwise do, dependents that were deleted before the fault struck
    may be gone, and the object named by the fault may be left deactivated.  A cascade that reports SUCCESS gets no
    excuse at all, fault or not (F-C17j, fixed by 0ce9ca7).  It excuses nothing else: a call that reports
    SUCCESS has removed the object, its item and its file and (cascading) every dependent; whatever object went, its
    item and file went with it; whatever object stayed kept its item and its file; nothing else changed. -/
def specDelete (before : World) (k : Key) (cascade found : Bool) (res : Option Res) (created : List Key)
    (fileOf : List (Key × Str)) (deps : List (Key × Key)) (after : World) (thr : Option Key := none) : Option String :=
  let file := fileOfKey fileOf k
  if !nodupKeys (after.objs.map (·.key)) then some "unique_names"
  else if !allRegistered after then some "registered_by_name"
  else if !found then (if after = before then none else some "absent_noop")
  else
    match before.find k with
    | none => some "absent_noop"
    | some ob =>
      if !ob.api || !created.contains k then
        (if res ≠ some .ok && after = before then none else some "refuse_non_api")
      else
        let kids := (deps.filter (fun e => e.2 = k && before.has e.1)).map (·.1)
        let allowed := if cascade then dependentsF (before.objs.length + 1) deps [k] else [k]
        if !cascade && !kids.isEmpty then
          (if res ≠ some .ok && after = before then none else some "cascade_only_when_asked")
        else if res ≠ some .ok && !(match thr with | some f => allowed.contains f | none => false) then
          (if after = before then none else some "fail_leaves_nothing")
        else
          let gone := (before.objs.filter (fun x => !after.has x.key)).map (·.key)
          let stays (x : OObj) : Bool := before.objs.contains x ||
            (match thr with | some f => x.key = f && before.objs.any (fun y => deactivated y = x) | none => false)
          if res = some .ok && (after.has k || after.items.contains k ||
              (match file with | some p => after.files.contains p | none => false)) then
            some "delete_removes_object_and_file"
          else if !subsetKeys gone allowed then some "cascade_only_dependents"
          -- a cascade is complete: every (transitive) dependent is gone; and whatever object went, its
          -- configuration item and its file went with it
          else if (res = some .ok && allowed.any (fun d => after.has d)) ||
              gone.any (fun g => after.items.contains g ||
                (match fileOfKey fileOf g with | some p => after.files.contains p | none => false)) then
            some "cascade_complete"
          -- an object whose deletion did not happen (the call failed, or stopped before it) is still whole:
          -- its configuration item and its file are still there
          else if before.objs.any (fun x => after.has x.key && created.contains x.key &&
              ((before.items.contains x.key && !after.items.contains x.key) ||
               (match fileOfKey fileOf x.key with | some p => before.files.contains p && !after.files.contains p | none => false))) then
            some "kept_object_keeps_item_and_file"
          else if !(after.objs.all stays) || after.glob ≠ before.glob then
            some "others_untouched"
          else none

end Icinga.C17

/-
  C17 — runtime object creation/deletion: executable model of `ConfigObjectUtility::CreateObject`
  (lib/remote/configobjectutility.cpp:180-301), `DeleteObject`/`DeleteObjectHelper` (303-388) and of
  the parts of `ConfigItem::Register/Unregister/CommitItems` they rely on (lib/config/configitem.cpp:
  316-368, 595-611) over the abstract state {objects, items, files, dependency edges}, with a fault
  injected at each stage of `CreateObject`.  Core Lean only.
-/
import IcingaModel.C17.Model

namespace Icinga.C17

structure Key where
  ty : Str
  name : Str
deriving DecidableEq, Repr, Inhabited

structure Obj where
  key : Key
  /-- `GetPackage() == "_api"` -/
  api : Bool
  active : Bool
  /-- `GetDebugInfo().Path` -/
  file : Str
deriving DecidableEq, Repr, Inhabited

structure St where
  objs : List Obj
  /-- registered `ConfigItem`s -/
  items : List Key
  /-- files below the `_api` package -/
  files : List Str
  /-- `DependencyGraph`: (child, parent) -/
  deps : List (Key × Key)
  /-- services their host resolves (`Host::m_Services`, read by `Service::GetByNamePair`): entered by
      `Service::OnAllConfigLoaded`, removed by `Service::Stop(runtimeRemoved)` → `Host::RemoveService`
      (after edf9289; before it the entry was never removed, F-C17f) -/
  hostServices : List Key
deriving DecidableEq, Repr, Inhabited

def St.find (st : St) (k : Key) : Option Obj := st.objs.find? (fun o => o.key = k)
def St.has (st : St) (k : Key) : Bool := st.objs.any (fun o => o.key = k)
def St.keys (st : St) : List Key := st.objs.map (·.key)

/-- Where `CreateObject` stops (the environment's choice; `none` = nothing goes wrong). -/
inductive Fault where
  | none
  /-- `ComputeNewObjectConfigPath` throws ("Config package broken"), 193-200 -/
  | pathBroken
  /-- `AtomicFile::Write` throws (e.g. file name too long), 205 -/
  | writeThrows
  /-- `CompileFile` throws, 213 -/
  | compileThrows
  /-- `expr->Evaluate` throws before the item is registered (syntax/duplicate item), 218-219 -/
  | evalThrows
  /-- `CommitItems` returns false: validation failed, all new items unregistered, 232-246 -/
  | commitFails
  /-- the committed object carries another name than the requested one (composite name such as `h!!n`
      re-composed to `h!n`, or a supplied `__name`): all new items are unregistered and `false` is
      returned (the name check between `CommitItems` and `ActivateItems`, after 86ebd6a) -/
  | nameMismatch
  /-- the same for a Service: the committed object (registered under the name `committed`, e.g. `h!n` for the
      requested `h!n!x`: the surplus part is cut off when the name is taken apart) has been entered into its host's
      service map by `Service::OnAllConfigLoaded` (service.cpp:60-75) before the name check; the rollback
      (`item->Unregister()`) never calls `Host::RemoveService` (only `Service::Stop(runtimeRemoved)` does, edf9289):
      the rolled-back service stays resolvable through its host (F-C17k) -/
  | nameMismatchSvc (committed : Key)
  /-- `ignore_on_error`: the item was dropped silently during commit; no object, `true` returned -/
  | ignored
  /-- `ActivateItems` throws after the object was committed (an object's `Start()` throws: F-C17i, reproduced
      on the real code with a `FileLogger` whose log file cannot be opened); the catch block at the end of
      `CreateObject` reports failure, the deferred removal deletes the file, nothing is unregistered -/
  | activateThrows
deriving DecidableEq, Repr

/-- what a failed create leaves in a host's service map -/
def Fault.leftInHostMap : Fault → List Key
  | .nameMismatchSvc c => [c]
  | _ => []

inductive Res where
  | ok | fail | threw
deriving DecidableEq, Repr

def rmFile (p : Str) (fs : List Str) : List Str := fs.filter (· ≠ p)

def tyService : Str := ['S', 'e', 'r', 'v', 'i', 'c', 'e']

/-- `CreateObject(type, fullName, config, …)`.  `path` = `ComputeNewObjectConfigPath` (oracle),
    `parents` = what the new object turns out to depend on (oracle), `api` = whether its package is
    `_api` (the default of `CompileFile(path, String(), "_api")` unless the supplied attributes set `package`),
    `generated` = the children that apply rules generate for the new object (oracle; committed by the
    recursive `CommitNewItems`, configitem.cpp:587-589, and rolled back with it: 595-611). -/
def nodupK : List Key → Bool
  | [] => true
  | k :: r => !(r.contains k) && nodupK r

/-- the apply-generated children can be committed: new, distinct names -/
def genOk (st : St) (k : Key) (generated : List Key) : Bool :=
  generated.all (fun g => !st.has g && g != k) && nodupK generated

def createObject (st : St) (k : Key) (path : Str) (parents : List Key) (fault : Fault) (api : Bool := true)
    (generated : List Key := []) : St × Res :=
  -- 184-191: "Object already exists"
  if st.has k then (st, .fail)
  else if fault = .pathBroken then (st, .fail)
  else if fault = .writeThrows then (st, .threw)
  else
    -- 205: the file is written; 209: Defer removeConfigPath armed
    let st1 := { st with files := path :: rmFile path st.files }
    let dropFile (s : St) : St := { s with files := rmFile path s.files }
    if fault = .compileThrows then (dropFile st1, .threw)
    else if fault = .evalThrows then (dropFile st1, .fail)
    else
      -- Evaluate: the ObjectExpression registers the item
      let st2 := { st1 with items := k :: st1.items }
      if fault = .commitFails || !genOk st k generated then (dropFile { st2 with items := st2.items.filter (· ≠ k) }, .fail)
      else if fault = .nameMismatch then (dropFile { st2 with items := st2.items.filter (· ≠ k) }, .fail)
      else if !fault.leftInHostMap.isEmpty then
        (dropFile { st2 with items := st2.items.filter (· ≠ k), hostServices := fault.leftInHostMap ++ st2.hostServices }, .fail)
      else if fault = .ignored then (dropFile { st2 with items := st2.items.filter (· ≠ k) }, .ok)
      else
        -- commit: the object (and what apply rules generated for it) is instantiated and registered;
        -- `ActivateItems` first marks every new object active (`PreActivate`, configitem.cpp:664-679), then
        -- starts them one by one: if a `Start()` throws they all stay behind, registered and marked active
        let st3 := { st2 with objs := { key := k, api := api, active := true, file := path } ::
                                (generated.map (fun g => { key := g, api := false, active := true, file := [] }) ++ st2.objs),
                              items := k :: (generated ++ st1.items) }
        if fault = .activateThrows then (dropFile st3, .fail)
        else
          -- activate; the object is found; the deferred removal is cancelled (277-279)
          -- the generated children are committed and activated with it (they belong to the rule's package)
          ({ st3 with objs := { key := k, api := api, active := true, file := path } ::
                        (generated.map (fun g => { key := g, api := false, active := true, file := [] }) ++ st2.objs),
                      items := k :: (generated ++ st1.items),
                      deps := parents.map (fun p => (k, p)) ++ (generated.map (fun g => (g, k)) ++ st3.deps),
                      hostServices := (k :: generated).filter (fun x => x.ty = tyService) ++ st3.hostServices }, .ok)

/-- `DependencyGraph::GetChildren(object)` restricted to live objects. -/
def children (st : St) (k : Key) : List Key :=
  ((st.deps.filter (fun e => e.2 = k)).map (·.1)).filter (fun c => st.has c)

/-- the tail of `DeleteObjectHelper` (325-373): deactivate, unregister item/object, remove the file of
    an `_api` object (the path is read from the object itself: `GetExistingObjectConfigPath(object)`). -/
def removeObj (st : St) (o : Obj) : St :=
  { objs := st.objs.filter (fun x => x.key ≠ o.key),
    items := st.items.filter (· ≠ o.key),
    files := if o.api then rmFile o.file st.files else st.files,
    deps := st.deps.filter (fun e => e.1 ≠ o.key ∧ e.2 ≠ o.key),
    -- `Service::Stop(true)` → `m_Host->RemoveService(this)`
    hostServices := st.hostServices.filter (· ≠ o.key) }

/-- the catch block of `DeleteObjectHelper` (configobjectutility.cpp:374-382) after `object->Deactivate()` threw out of
    `NotifyActive` (an `OnActiveChanged` subscriber failed): the object has been marked inactive and stopped
    (`ConfigObject::Deactivate`, configobject.cpp:392-412: `SetActive(false)`, `Stop(runtimeRemoved)` — the generated
    `Stop` untracks its references in the `DependencyGraph`, `Service::Stop(true)` leaves the host's service map),
    nothing was unregistered, no file removed. -/
def deactivateObj (st : St) (o : Obj) : St :=
  { st with objs := st.objs.map (fun x => if x.key = o.key then { x with active := false } else x),
            deps := st.deps.filter (fun e => e.1 ≠ o.key),
            hostServices := st.hostServices.filter (· ≠ o.key) }

/-- the tail of `DeleteObjectHelper` for one object.  `thr` = the object whose deactivation signal is answered by
    an exception (the environment's choice; `none` = nothing goes wrong).  `Deactivate` returns early for an
    object that is not active (configobject.cpp:399-400): no signal, no exception. -/
def finishDelete (st : St) (o : Obj) (thr : Option Key) : St × Bool :=
  if thr = some o.key && o.active then (deactivateObj st o, false) else (removeObj st o, true)

/-- `Service::GetByNamePair`: what a new Comment/Downtime/Notification/Dependency for that service finds. -/
def St.resolvesService (st : St) (k : Key) : Bool := st.hostServices.contains k

/-- the loop over the dependents (configobjectutility.cpp:351-357, after 0ce9ca7): the helper is called for one
    dependent after the other; the first call that FAILS ends the loop and the failure is passed on (before
    0ce9ca7 the result was ignored: F-C17j).  A dependent that an earlier sibling's cascade already removed is a
    no-op. -/
def deleteChildren (rec : St → Obj → St × Bool) : List Key → St → St × Bool
  | [], s => (s, true)
  | c :: cs, s =>
    match s.find c with
    | some co => if (rec s co).2 then deleteChildren rec cs (rec s co).1 else ((rec s co).1, false)
    | none => deleteChildren rec cs s

/-- `DeleteObjectHelper`.  `busy` = `l_DeletionInProgress` (after 6a109cb): the objects whose deletion is
    under way further up the call stack; an object met again (it depends on itself, directly or
    through others) is not visited a second time.  The guard sits AFTER the refusal of a
    non-cascading delete with dependents.  A dependent that could not be deleted (its deactivation threw) still
    refers to the object: the object is left alone and failure is reported (0ce9ca7).  Fuel bounds the recursion
    depth (every level adds a new object to `busy`, so the number of objects plus one is enough). -/
def deleteHelper : Nat → St → Obj → Bool → List Key → Option Key → St × Bool
  | 0, st, o, _, busy, thr => if busy.contains o.key then (st, true) else finishDelete st o thr
  | f + 1, st, o, cascade, busy, thr =>
    let ch := children st o.key
    if !ch.isEmpty && !cascade then (st, false)
    else if busy.contains o.key then (st, true)
    else
      let r := deleteChildren (fun s co => deleteHelper f s co cascade (o.key :: busy) thr) ch st
      if r.2 then finishDelete r.1 o thr else (r.1, false)

/-- `DeleteObject` for an existing object.  `thr`: see `finishDelete`. -/
def deleteObject (st : St) (k : Key) (cascade : Bool) (thr : Option Key := none) : St × Res :=
  match st.find k with
  | none => (st, .fail)
  | some o =>
    if !o.api then (st, .fail)
    else
      let r := deleteHelper (st.objs.length + 1) st o cascade [] thr
      (r.1, if r.2 then .ok else .fail)

inductive Op where
  | create (k : Key) (path : Str) (parents : List Key) (fault : Fault) (api : Bool) (generated : List Key)
  | delete (k : Key) (cascade : Bool) (thr : Option Key := none)

def step (st : St) : Op → St
  | .create k p ps f a g => (createObject st k p ps f a g).1
  | .delete k c t => (deleteObject st k c t).1

def run (st : St) (ops : List Op) : St := ops.foldl step st

end Icinga.C17

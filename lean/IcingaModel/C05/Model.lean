/-
  C05 — downtimes.  Executable transcription of lib/icinga/downtime.cpp, checkable-downtime.cpp,
  checkable.cpp:235-268 and the downtime-relevant lines of Checkable::ProcessCheckResult
  (checkable-check.cpp:175-198, 255-271, 303-304).  Core Lean only.

  Times are `Int` seconds.  The harness only uses whole seconds, so the cleanup timer's delay of 0.1 s
  (downtime.cpp:481) is modelled as "due at the first instant strictly after the cleanup point".
-/
namespace Icinga.C05

inductive Kind | host | service
  deriving DecidableEq, Repr, Inhabited

/-- `IsStateOK` (service.cpp: `state == ServiceOK`; host.cpp:198-201: OK/WARNING ⇒ Up). -/
def isOK (k : Kind) (s : Nat) : Bool :=
  match k with
  | .service => s == 0
  | .host => s == 0 || s == 1

/-- checkable-check.cpp:258-264. -/
def stateChange (k : Kind) (o n : Nat) : Bool :=
  match k with
  | .service => o != n
  | .host => isOK .host o != isOK .host n

/-- One `Downtime` object (downtime.ti) plus ghost counters.  A removed downtime stays in the list
    with `removed = true` so that its counters remain readable; every function below ignores it. -/
structure Dt where
  id : Nat
  fixed : Bool
  start : Int            -- start_time
  fin : Int              -- end_time
  duration : Int
  entry : Int            -- entry_time
  trigger : Int          -- trigger_time, 0 = not yet (downtime.ti:57)
  triggers : List Nat    -- downtime.ti:62
  owner : Bool           -- config_owner non-empty
  trigBy : Nat           -- triggered_by (0 = empty)
  quiet : Bool           -- mirror of `GetCheckable()->IsPaused()`: notification requests are skipped
  removed : Bool
  cleanup : Option Int   -- cleanup point of m_CleanupTimer (fires strictly after it); none = not armed
  starts : Nat           -- ghost: DowntimeStart notification requests
  ends : Nat             -- ghost: DowntimeEnd notification requests
  trigEv : Nat           -- ghost: OnDowntimeTriggered signals
  remEv : Nat            -- ghost: OnDowntimeRemoved signals
  deriving Repr, DecidableEq, Inhabited

/-- downtime.cpp:190-206. -/
def isInEffect (now : Int) (d : Dt) : Bool :=
  if d.fixed then decide (d.start ≤ now) && decide (now < d.fin)
  else if d.trigger == 0 then false
  else decide (now < d.trigger + d.duration)

/-- downtime.cpp:208-215. -/
def isTriggered (now : Int) (d : Dt) : Bool :=
  decide (0 < d.trigger) && decide (d.trigger ≤ now)

/-- downtime.cpp:217-233. -/
def isExpired (now : Int) (d : Dt) : Bool :=
  if d.fixed then decide (d.fin < now)
  else if isTriggered now d && !isInEffect now d then true
  else if !isTriggered now d && decide (d.fin < now) then true
  else false

/-- downtime.cpp:447-462 (the three early returns as one guard; fixed downtimes can be triggered during
    `[start, end)`, flexible ones during `[start, end]`). -/
def canBeTriggered (now : Int) (d : Dt) : Bool :=
  !(isInEffect now d && isTriggered now d) &&    -- :449
  !isExpired now d &&                             -- :452
  !(decide (now < d.start) || (if d.fixed then decide (now ≥ d.fin) else decide (now > d.fin)))  -- :458

/-- downtime.cpp:481: where the cleanup timer is put (it fires 0.1 s later). -/
def cleanupPoint (d : Dt) : Int :=
  if d.fixed || d.trigger ≤ 0 then d.fin else d.trigger + d.duration

def live (id : Nat) (d : Dt) : Bool := d.id == id && !d.removed

/-- `Downtime::GetByName`. -/
def findDt (dts : List Dt) (id : Nat) : Option Dt := dts.find? (live id)

def updateDt (dts : List Dt) (id : Nat) (f : Dt → Dt) : List Dt :=
  dts.map (fun d => if live id d then f d else d)

/-- downtime.cpp:496-504: write-once trigger_time, clamped to the downtime's own start_time
    (`SetTriggerTime(std::fmax(triggerTime, GetStartTime()))`, fix 2efb740 for F-C05e; the recursion into
    `triggers` passes the unclamped `triggerTime`, every chained downtime clamps to its own start), then
    SetupCleanupTimer. -/
def markTriggered (t : Int) (d : Dt) : Dt :=
  let d1 := { d with trigger := if d.trigger == 0 then max t d.start else d.trigger }
  { d1 with cleanup := some (cleanupPoint d1) }

/-- downtime.cpp:518 `OnDowntimeTriggered` → checkable.cpp:243-249 (flexible only) → DowntimeStart. -/
def noteTriggered (d : Dt) : Dt :=
  { d with trigEv := d.trigEv + 1, starts := if d.fixed || d.quiet then d.starts else d.starts + 1 }

/-- `OnDowntimeStarted` → checkable.cpp:235-241 (fixed only) → DowntimeStart. -/
def noteStarted (d : Dt) : Dt :=
  { d with starts := if d.fixed && !d.quiet then d.starts + 1 else d.starts }

/-- What `TriggerDowntime` does to the object itself once its guard is passed: trigger time, cleanup
    timer, and the `OnDowntimeTriggered` signal.  The signal is emitted after the cascade
    (downtime.cpp:518); the ghost counters are bumped here, when the guard is passed — the number of
    signals is the number of passes either way, and only per-operation counts are observed. -/
def trigSelf (t : Int) (d : Dt) : Dt := noteTriggered (markTriggered t d)

/-- … under the guard the code evaluates on the object itself (`if (!CanBeTriggered()) return;`). -/
def trigSelfG (now t : Int) (d : Dt) : Dt :=
  if canBeTriggered now d then trigSelf t d else d

/-- `if (GetFixed() && CanBeTriggered()) { OnDowntimeStarted(this); TriggerDowntime(max(start, entry)); }`
    (downtime.cpp:140-146, 549-557) on the object itself.  `TriggerDowntime` re-evaluates
    `CanBeTriggered`; nothing it reads has changed in between, so the call is inlined. -/
def startSelf (d : Dt) : Dt := trigSelf (max d.start d.entry) (noteStarted d)

def startSelfG (now : Int) (d : Dt) : Dt :=
  if d.fixed && canBeTriggered now d then startSelf d else d

/-- `Downtime::TriggerDowntime` (downtime.cpp:485-519).  The recursion follows `triggers`; an edge is
    only ever added from an existing downtime to a newly created one (downtime.cpp:340-346), so the
    depth is bounded by the number of downtimes, which is the fuel every caller passes. -/
def triggerDt : Nat → Int → Int → Nat → List Dt → List Dt
  | 0, _, _, _, dts => dts
  | fuel + 1, now, t, id, dts =>
    match findDt dts id with
    | none => dts                                         -- :509-512 GetByName failed
    | some d =>
      if !canBeTriggered now d then dts                   -- :487
      else
        d.triggers.foldl (fun acc c => triggerDt fuel now t c acc) (updateDt dts id (trigSelfG now t))

/-- A fixed downtime that can be triggered notifies and triggers now (`Downtime::Start`,
    downtime.cpp:140-146, and one iteration of `DowntimesStartTimerHandler`, downtime.cpp:545-559). -/
def startAt (now : Int) (fuel : Nat) (dts : List Dt) (id : Nat) : List Dt :=
  match findDt dts id with
  | none => dts
  | some d =>
    if d.fixed && canBeTriggered now d then
      d.triggers.foldl (fun acc c => triggerDt fuel now (max d.start d.entry) c acc) (updateDt dts id (startSelfG now))
    else dts

def liveIds (dts : List Dt) : List Nat := (dts.filter (fun d => !d.removed)).map (·.id)

/-- `Checkable::TriggerDowntimes` (checkable-downtime.cpp:12-17). -/
def triggerAll (now t : Int) (dts : List Dt) : List Dt :=
  (liveIds dts).foldl (fun acc i => triggerDt (dts.length + 1) now t i acc) dts

/-- `Downtime::Stop(runtimeRemoved = true)` → `OnDowntimeRemoved` → checkable.cpp:259-269. -/
def removeDt (now : Int) (d : Dt) : Dt :=
  { d with removed := true, cleanup := none, remEv := d.remEv + 1,
           ends := if isTriggered now d && !d.quiet then d.ends + 1 else d.ends }

structure St where
  kind : Kind
  state : Nat                -- state_raw (3 = UNKNOWN, the pending default, checkable.ti)
  lastStateChange : Int      -- default Application::GetStartTime()
  lastExec : Option Int      -- execution_start of last_check_result
  dts : List Dt              -- in creation order (= order of ConfigType::GetObjectsByType)
  paused : Bool              -- the checkable is paused (no authority): checkable.cpp:255,267
  deriving Repr, DecidableEq

/-- A never-checked checkable at the beginning of a case. -/
def initSt (k : Kind) : St :=
  { kind := k, state := 3, lastStateChange := 990, lastExec := none, dts := [],
    paused := false }

structure AddP where
  id : Nat
  fixed : Bool
  start : Int
  fin : Int
  duration : Int
  trigBy : Nat      -- 0 = none
  owner : Bool
  deriving Repr, DecidableEq

inductive Op
  | add (p : AddP) (now : Int)
  | result (state : Nat) (te : Int) (now : Int)
  | pump (now : Int) (fire : Bool)   -- time passes to `now`; `fire`: the start timer is among the due timers
  | remove (id : Nat) (byUser : Bool) (now : Int)
  | setPaused (b : Bool) (now : Int)      -- the checkable loses / regains authority
  deriving Repr, DecidableEq

def Op.now : Op → Int
  | .add _ n => n | .result _ _ n => n | .pump n _ => n | .remove _ _ n => n | .setPaused _ n => n

/-- The object `AddDowntime` creates: `triggered_by` is set only when the named downtime exists
    (downtime.cpp:266-268). -/
def newDt (st : St) (p : AddP) (now : Int) : Dt :=
  { id := p.id, fixed := p.fixed, start := p.start, fin := p.fin, duration := p.duration, entry := now,
    trigger := 0, triggers := [], owner := p.owner,
    trigBy := if p.trigBy != 0 && (findDt st.dts p.trigBy).isSome then p.trigBy else 0,
    quiet := st.paused, removed := false, cleanup := none, starts := 0, ends := 0, trigEv := 0, remEv := 0 }

/-- `Checkable::GetProblem` (checkable.cpp:206-211): there is a check result and its state is not OK. -/
def St.problem (st : St) : Bool := st.lastExec.isSome && !isOK st.kind st.state

/-- downtime.cpp:132-138: a flexible downtime on a checkable that has a problem triggers now. -/
def startFlexible (st : St) (now : Int) (d : Dt) (dts : List Dt) : List Dt :=
  if !d.fixed && st.problem then
    triggerDt (dts.length + 1) now (max (max d.start d.entry) st.lastStateChange) d.id dts
  else dts

/-- `Downtime::Resume` → `SetupCleanupTimer` (downtime.cpp:179-183, 463-483). -/
def setupCleanup (d : Dt) : Dt := { d with cleanup := some (cleanupPoint d) }

/-- downtime.cpp:340-346. -/
def addTrigger (c : Nat) (d : Dt) : Dt :=
  if d.triggers.contains c then d else { d with triggers := d.triggers ++ [c] }

/-- `Downtime::AddDowntime` / direct creation: `Start`, `Resume`, then the parent's `triggers`. -/
def addOp (st : St) (p : AddP) (now : Int) : St × Nat :=
  if st.dts.any (fun d => d.id == p.id) then (st, 0)
  else
    let d := newDt st p now
    let hasParent := p.trigBy != 0 && (findDt st.dts p.trigBy).isSome
    let dts := st.dts ++ [d]
    let dts := startFlexible st now d dts
    let dts := startAt now dts.length dts p.id
    let dts := updateDt dts p.id setupCleanup
    let dts := if hasParent then updateDt dts p.trigBy (addTrigger p.id) else dts
    ({ st with dts := dts }, 1)

/-- checkable-check.cpp:175-198. -/
def stale (st : St) (te now : Int) : Bool :=
  match st.lastExec with
  | none => false
  | some cur => if cur > now then false else decide (te < cur)

/-- The downtime-relevant part of `ProcessCheckResult`. -/
def resultOp (st : St) (state : Nat) (te now : Int) : St × Nat :=
  if stale st te now then (st, 0)
  else
    let sc := stateChange st.kind st.state state
    let dts := if !isOK st.kind state then triggerAll now te st.dts else st.dts   -- :303-304
    ({ st with state := state, lastExec := some te,
               lastStateChange := if sc then te else st.lastStateChange,           -- :269-270
               dts := dts }, 1)

def cleanupDue (now : Int) (d : Dt) : Bool :=
  !d.removed && (match d.cleanup with | some p => decide (p < now) | none => false)

/-- The cleanup timer's handler (downtime.cpp:470-476); the timer is one-shot. -/
def fireCleanup (now : Int) (d : Dt) : Dt :=
  if cleanupDue now d then
    (if isExpired now d then removeDt now d else { d with cleanup := none })
  else d

/-- `DowntimesStartTimerHandler` (downtime.cpp:545-559). -/
def startTimer (now : Int) (dts : List Dt) : List Dt :=
  (liveIds dts).foldl (startAt now dts.length) dts

/-- `Timer::VerifFireDue(now)`: cleanup timers that are due, the start timer if it is among the due
    timers (`fire` — when the periodic start timer of downtime.cpp:97-100 is due is not part of the
    property; the harness reports it as an oracle input), and the cleanup timers that became due
    through it. -/
def pumpOp (st : St) (now : Int) (fire : Bool) : St :=
  let dts := st.dts.map (fireCleanup now)
  if fire then
    { st with dts := (startTimer now dts).map (fireCleanup now) }
  else { st with dts := dts }

/-- `Downtime::RemoveDowntime` (downtime.cpp:362-396), `includeChildren = false`.
    rc: 0 no such downtime, 1 removed, 2 refused (owned by a ScheduledDowntime, removal by a user). -/
def removeOp (st : St) (id : Nat) (byUser : Bool) (now : Int) : St × Nat :=
  match findDt st.dts id with
  | none => (st, 0)
  | some d =>
    if d.owner && byUser then (st, 2)                                     -- :372-375
    else ({ st with dts := updateDt st.dts id (removeDt now) }, 1)

/-- The mirror of the pause flag on one existing downtime. -/
def setQuiet (b : Bool) (d : Dt) : Dt := if d.removed then d else { d with quiet := b }

/-- `ConfigObject::SetAuthority` on the checkable. -/
def setPausedOp (st : St) (b : Bool) : St := { st with paused := b, dts := st.dts.map (setQuiet b) }

def step (st : St) : Op → St × Nat
  | .add p now => addOp st p now
  | .result s te now => resultOp st s te now
  | .pump now f => (pumpOp st now f, 0)
  | .remove id u now => removeOp st id u now
  | .setPaused b _ => (setPausedOp st b, 0)

/-- `Checkable::GetDowntimeDepth` (checkable-downtime.cpp:29-39). -/
def depth (now : Int) (dts : List Dt) : Nat :=
  (dts.filter (fun d => !d.removed && isInEffect now d)).length

/-- `Checkable::IsInDowntime` (checkable-downtime.cpp:19-27). -/
def inDowntime (now : Int) (dts : List Dt) : Bool :=
  dts.any (fun d => !d.removed && isInEffect now d)

/-! ### Observation -/

/-- Insertion into a list sorted by `lt`. -/
def insertBy {α : Type} (lt : α → α → Bool) (a : α) : List α → List α
  | [] => [a]
  | b :: bs => if lt a b then a :: b :: bs else b :: insertBy lt a bs

def sortBy {α : Type} (lt : α → α → Bool) (l : List α) : List α :=
  l.foldr (insertBy lt) []

structure Obs where
  rc : Nat
  depth : Nat
  inDt : Bool
  dts : List (Nat × Int)            -- existing downtimes (id, trigger_time)
  evs : List (Nat × Nat × Nat)      -- (event kind, id, count) during the operation
  deriving Repr, DecidableEq

def evLt (a b : Nat × Nat × Nat) : Bool :=
  a.1 < b.1 || (a.1 == b.1 && a.2.1 < b.2.1)

/-- Counter differences of one downtime between two states, as events (1 DowntimeStart requested,
    2 DowntimeEnd requested, 3 OnDowntimeTriggered, 4 OnDowntimeRemoved). -/
def evsOf (old : List Dt) (d : Dt) : List (Nat × Nat × Nat) :=
  let o : Dt := match old.find? (fun x => x.id == d.id) with
    | some x => x
    | none => { d with starts := 0, ends := 0, trigEv := 0, remEv := 0 }
  ([(1, d.id, d.starts - o.starts), (2, d.id, d.ends - o.ends), (3, d.id, d.trigEv - o.trigEv),
    (4, d.id, d.remEv - o.remEv)]).filter (fun e => e.2.2 != 0)

def obsOf (old : St) (new : St) (rc : Nat) (now : Int) : Obs :=
  { rc := rc, depth := depth now new.dts, inDt := inDowntime now new.dts,
    dts := (new.dts.filter (fun d => !d.removed)).map (fun d => (d.id, d.trigger)),
    evs := (new.dts.map (evsOf old.dts)).flatten }

/-- Canonical order for comparing observations (the specification does not depend on the order). -/
def Obs.canon (o : Obs) : Obs :=
  { o with dts := sortBy (fun a b => a.1 < b.1) o.dts, evs := sortBy evLt o.evs }

def stepObs (st : St) (op : Op) : St × Obs :=
  let p := step st op
  (p.1, obsOf st p.1 p.2 op.now)

/-- Run an operation sequence, collecting (operation, observation) pairs. -/
def trace : St → List Op → List (Op × Obs)
  | _, [] => []
  | st, op :: ops => let p := stepObs st op; (op, p.2) :: trace p.1 ops

def run (st : St) (ops : List Op) : St := ops.foldl (fun s o => (step s o).1) st

end Icinga.C05

/-
  C05 — the property as an executable predicate over an *observed* trace (operation, observation),
  written at the level of properties.jsonl.  It never looks at the model's state: its bookkeeping is
  what a reader of the history knows (the parameters each downtime was created with, the last observed
  trigger time, whether it still exists, how many DowntimeStart/End requests it has caused so far, the
  results the checkable has received, and whether the start timer was among the timers fired by a pump).
-/
import IcingaModel.C05.Model

namespace Icinga.C05

/-- What the reader knows about one downtime. -/
structure SDt where
  id : Nat
  fixed : Bool
  start : Int
  fin : Int
  duration : Int
  trigBy : Nat          -- parent that existed at creation (0 = none): this one is in `triggers` of it
  owner : Bool
  trig : Int            -- last observed trigger_time
  alive : Bool
  starts : Nat          -- DowntimeStart requests so far
  ends : Nat            -- DowntimeEnd requests so far
  excused : Bool        -- it took effect while the checkable was paused: no DowntimeStart is due
  deriving Repr, DecidableEq

structure SpecSt where
  kind : Kind
  checked : Bool            -- a result has been accepted
  state : Nat               -- state of the last accepted result
  since : Int               -- when the state last changed (start of the monitoring process if never)
  dts : List SDt
  paused : Bool             -- the checkable is paused: notification requests are skipped
  deriving Repr, DecidableEq

def specInit (k : Kind) : SpecSt :=
  { kind := k, checked := false, state := 0, since := 990, dts := [], paused := false }

/-- The checkable has a problem the reader knows of. -/
def SpecSt.problem (sp : SpecSt) : Bool := sp.checked && !isOK sp.kind sp.state

inductive Clause
  | existence | inDowntimeIff | depthEqCount | triggerWriteOnce | triggerOnlyInWindow
  | flexibleTrigger | triggerCascade | startOnce | startedWhenTriggered | fixedStartedInWindow
  | endOnce | endHasStart | removedEvent | expiredRemoved | ownerProtected | droppedResult
  | fixedStartedWhenTriggered | fixedEndHasStart | triggerNotBeforeStart | startOnlyOnEffect
  deriving Repr, DecidableEq

def Clause.name : Clause → String
  | .existence => "existence"
  | .inDowntimeIff => "in_downtime_iff"
  | .depthEqCount => "depth_eq_count"
  | .triggerWriteOnce => "trigger_write_once"
  | .triggerOnlyInWindow => "trigger_only_in_window"
  | .flexibleTrigger => "flexible_trigger"
  | .triggerCascade => "trigger_cascade"
  | .startOnce => "start_once"
  | .startedWhenTriggered => "started_when_triggered"
  | .fixedStartedInWindow => "fixed_started_in_window"
  | .endOnce => "end_once"
  | .endHasStart => "end_has_start"
  | .removedEvent => "removed_event"
  | .expiredRemoved => "expired_removed"
  | .ownerProtected => "owner_protected"
  | .droppedResult => "dropped_result_changes_nothing"
  | .fixedStartedWhenTriggered => "fixed_started_when_triggered"
  | .fixedEndHasStart => "fixed_end_has_start"
  | .triggerNotBeforeStart => "trigger_not_before_start"
  | .startOnlyOnEffect => "start_only_on_effect"

def evCount (o : Obs) (ev id : Nat) : Nat :=
  ((o.evs.filter (fun e => e.1 == ev && e.2.1 == id)).map (·.2.2)).sum

def obsTrig (o : Obs) (id : Nat) : Option Int := (o.dts.find? (fun p => p.1 == id)).map (·.2)

/-- In effect by the window the property names. -/
def SDt.inEffect (now : Int) (d : SDt) : Bool :=
  if d.fixed then decide (d.start ≤ now) && decide (now < d.fin)
  else d.trig != 0 && decide (now < d.trig + d.duration)

def SDt.inWindow (now : Int) (d : SDt) : Bool := decide (d.start ≤ now) && decide (now ≤ d.fin)

/-- The instants at which a downtime may take effect: a fixed one during `[start, end)`, a flexible one
    during `[start, end]`. -/
def SDt.trigWindow (now : Int) (d : SDt) : Bool :=
  decide (d.start ≤ now) && (if d.fixed then decide (now < d.fin) else decide (now ≤ d.fin))

/-- Over: a fixed or never-triggered downtime after its end, a triggered flexible one after
    `duration` seconds. -/
def SDt.over (now : Int) (d : SDt) : Bool :=
  if d.fixed || d.trig == 0 then decide (d.fin < now) else decide (d.trig + d.duration < now)

/-- The downtime as the reader sees it after the operation (`q`: the checkable was paused). -/
def SDt.after (q : Bool) (o : Obs) (d : SDt) : SDt :=
  let t := obsTrig o d.id
  let trig' := (match t with | some x => if d.alive then x else d.trig | none => d.trig)
  { d with alive := d.alive && t.isSome, trig := trig',
           starts := d.starts + evCount o 1 d.id, ends := d.ends + evCount o 2 d.id,
           excused := d.excused || (q && ((d.trig == 0 && trig' != 0) || evCount o 3 d.id > 0)) }

def newSDt (p : AddP) (parentAlive : Bool) : SDt :=
  { id := p.id, fixed := p.fixed, start := p.start, fin := p.fin, duration := p.duration,
    trigBy := if parentAlive then p.trigBy else 0, owner := p.owner, trig := 0, alive := true, starts := 0, ends := 0,
    excused := false }

def SpecSt.find (sp : SpecSt) (id : Nat) : Option SDt := sp.dts.find? (fun d => d.id == id)

/-- The named trigger downtime is known and still exists. -/
def parentAliveS (l : List SDt) (i : Nat) : Bool :=
  match l.find? (fun d => d.id == i) with
  | some q => q.alive
  | none => false

/-- Downtimes known before the operation, extended by the one an accepted `add` creates. -/
def preDts (sp : SpecSt) (op : Op) (o : Obs) : List SDt :=
  match op with
  | .add p _ =>
    if o.rc == 1 then
      sp.dts ++ [newSDt p (p.trigBy != 0 && parentAliveS sp.dts p.trigBy)]
    else sp.dts
  | _ => sp.dts

def stateChangeSpec (sp : SpecSt) (s : Nat) : Bool :=
  if sp.checked then stateChange sp.kind sp.state s else stateChange sp.kind 3 s

/-- Bookkeeping after an operation. -/
def specNext (sp : SpecSt) (op : Op) (o : Obs) : SpecSt :=
  let dts := (preDts sp op o).map (SDt.after sp.paused o)
  match op with
  | .result s te _ =>
    if o.rc == 1 then
      { sp with checked := true, state := s, since := if stateChangeSpec sp s then te else sp.since, dts := dts }
    else { sp with dts := dts }
  | .setPaused b _ => { sp with dts := dts, paused := b }
  | _ => { sp with dts := dts }

/-- First enabled element of a list of checks that fails. -/
def firstFailM (m : Clause → Bool) : List (Bool × Clause) → Option Clause
  | [] => none
  | (ok, c) :: rest => if m c then (if ok then firstFailM m rest else some c) else firstFailM m rest

/-- The existing set changes exactly as the operation says (`old`: known before the operation,
    `pre`: the same plus a downtime just created). -/
def existenceOK (op : Op) (o : Obs) (old pre : List SDt) : Bool :=
  let ids := o.dts.map (·.1)
  -- everything observed is known and was alive (or has just been added)
  ids.all (fun i => pre.any (fun d => d.id == i && d.alive)) &&
  (match op with
   | .add p _ =>
     old.all (fun d => !d.alive || ids.contains d.id) &&
     (o.rc == 1) == !(old.any (fun d => d.id == p.id)) && (o.rc == 1 || o.rc == 0) &&
     (o.rc == 0 || ids.contains p.id)
   | .result _ _ _ => old.all (fun d => !d.alive || ids.contains d.id)
   | .setPaused _ _ => old.all (fun d => !d.alive || ids.contains d.id)
   | .pump _ _ => true
   | .remove id _ _ =>
     old.all (fun d => !d.alive || (ids.contains d.id == !(o.rc == 1 && d.id == id))) &&
     (o.rc == 0) == !(old.any (fun d => d.id == id && d.alive)))

/-- Did the flexible, unchained downtime `d` have to trigger in this operation, and with which time? -/
def flexDue (sp : SpecSt) (op : Op) (o : Obs) (d : SDt) : Option Int :=
  match op with
  | .result s te now =>
    if o.rc == 1 && !isOK sp.kind s && d.inWindow now then some (max te d.start) else none
  | .add p now =>
    if o.rc == 1 && p.id == d.id && sp.problem && d.inWindow now then some (max (max d.start now) sp.since) else none
  | _ => none

def postDts (sp : SpecSt) (op : Op) (o : Obs) : List SDt := (preDts sp op o).map (SDt.after sp.paused o)

def gone (o : Obs) (d : SDt) : Bool := d.alive && (obsTrig o d.id).isNone

def isPump : Op → Bool | .pump _ _ => true | _ => false

/-- The start timer was among the timers that fired (an oracle input on the operation). -/
def timerFired (op : Op) : Bool := match op with | .pump _ f => f | _ => false

def isAddOf (op : Op) (o : Obs) (i : Nat) : Bool :=
  match op with | .add p _ => o.rc == 1 && p.id == i | _ => false

def dropped (op : Op) (o : Obs) : Bool := match op with | .result _ _ _ => o.rc == 0 | _ => false

def chkDropped (sp : SpecSt) (op : Op) (o : Obs) : Bool :=
  !dropped op o || (o.evs.isEmpty && (preDts sp op o).all (fun d => !d.alive || obsTrig o d.id == some d.trig))

/-- In downtime exactly when some attached downtime is in effect … -/
def chkInDt (sp : SpecSt) (op : Op) (o : Obs) : Bool :=
  o.inDt == (postDts sp op o).any (fun d => d.alive && d.inEffect op.now)

/-- … and the depth is their number. -/
def chkDepth (sp : SpecSt) (op : Op) (o : Obs) : Bool :=
  o.depth == ((postDts sp op o).filter (fun d => d.alive && d.inEffect op.now)).length

/-- A trigger time once set never changes. -/
def chkWriteOnce (sp : SpecSt) (op : Op) (o : Obs) : Bool :=
  ((preDts sp op o).zip (postDts sp op o)).all (fun (a, b) => !(b.alive && a.trig != 0) || b.trig == a.trig)

/-- Never triggered outside the window (an untriggered downtime is expired exactly after its end). -/
def chkWindow (sp : SpecSt) (op : Op) (o : Obs) : Bool :=
  ((preDts sp op o).zip (postDts sp op o)).all (fun (a, b) => !(b.alive && a.trig == 0 && b.trig != 0) || b.inWindow op.now)

/-- … and the time it records as the moment it took effect does not lie before its window (F-C05e,
    repaired by 2efb740: a result executed before `start_time` but processed inside the window, or a
    trigger time inherited through a chain, is clamped to the downtime's own `start_time`). -/
def chkTrigStart (sp : SpecSt) (op : Op) (o : Obs) : Bool :=
  ((preDts sp op o).zip (postDts sp op o)).all (fun (a, b) =>
    !(b.alive && a.trig == 0 && b.trig != 0) || decide (a.start ≤ b.trig))

def chkWindowGone (sp : SpecSt) (op : Op) (o : Obs) : Bool :=
  ((preDts sp op o).zip (postDts sp op o)).all
    (fun (a, _) => !(gone o a && a.trig == 0 && evCount o 3 a.id > 0) || a.inWindow op.now)

/-- Flexible, not chained: takes effect at the first non-OK result (or existing problem) in the window. -/
def chkFlexible (sp : SpecSt) (op : Op) (o : Obs) : Bool :=
  ((preDts sp op o).zip (postDts sp op o)).all (fun (a, b) =>
    !(b.alive && !a.fixed && a.trigBy == 0 && a.trig == 0) ||
    (match flexDue sp op o a with
     | some t => b.trig == t
     | none => b.trig == 0))

/-- Triggering a downtime triggers the downtimes chained to it. -/
def chkCascade (sp : SpecSt) (op : Op) (o : Obs) : Bool :=
  (postDts sp op o).all (fun c =>
    !(c.alive && c.trigBy != 0 && evCount o 3 c.trigBy > 0 && !isAddOf op o c.id && c.trigWindow op.now && !c.over op.now) ||
    c.trig != 0)

/-- One DowntimeStart per downtime … -/
def chkStartOnce (sp : SpecSt) (op : Op) (o : Obs) : Bool := (postDts sp op o).all (fun d => d.starts ≤ 1)

/-- … present once it has taken effect: a flexible downtime … -/
def chkStarted (sp : SpecSt) (op : Op) (o : Obs) : Bool :=
  (postDts sp op o).all (fun d => !(d.alive && !d.fixed && d.trig != 0 && !d.excused) || d.starts ≥ 1)

/-- … and a fixed one (false of the code when the fixed downtime is reached by `TriggerDowntime`: F-C05c). -/
def chkStartedFixed (sp : SpecSt) (op : Op) (o : Obs) : Bool :=
  (postDts sp op o).all (fun d => !(d.alive && d.fixed && d.trig != 0 && !d.excused) || d.starts ≥ 1)

/-- A fixed downtime inside its window has taken effect once the start timer has fired or it has just
    been created (that it then has requested DowntimeStart is the previous clause). -/
def chkFixedStarted (sp : SpecSt) (op : Op) (o : Obs) : Bool :=
  (postDts sp op o).all (fun d =>
    !(d.alive && d.fixed && (timerFired op || isAddOf op o d.id) && d.inEffect op.now) || d.trig != 0)

/-- One DowntimeEnd, exactly for a downtime that took effect and now ends or is removed. -/
def chkEndOnce (sp : SpecSt) (op : Op) (o : Obs) : Bool :=
  ((preDts sp op o).zip (postDts sp op o)).all (fun (a, b) =>
    b.ends ≤ 1 &&
    (evCount o 2 a.id == 0 || gone o a) &&
    (!(gone o a && decide (0 < a.trig) && decide (a.trig ≤ op.now)) || evCount o 2 a.id == (if sp.paused then 0 else 1)) &&
    (!(gone o a && a.trig == 0 && evCount o 3 a.id == 0) || evCount o 2 a.id == 0))

/-- … requested only when it takes effect: a DowntimeStart request is made in the very operation in which
    the downtime takes effect — it had not taken effect before (no trigger time, or one the clock has not
    reached yet), the operation triggers it (`OnDowntimeTriggered`), and afterwards its trigger time is set
    (or the downtime has ended within the same operation).  No DowntimeStart for a downtime outside its
    window, for one that is already in effect, or for one that is merely created. -/
def chkStartEffect (sp : SpecSt) (op : Op) (o : Obs) : Bool :=
  ((preDts sp op o).zip (postDts sp op o)).all (fun (a, b) =>
    evCount o 1 a.id == 0 ||
    (decide (evCount o 3 a.id > 0) && !(decide (0 < a.trig) && decide (a.trig ≤ op.now)) &&
      (gone o a || b.trig != 0)))

/-- No DowntimeEnd without the DowntimeStart before it: flexible downtimes … -/
def chkEndHasStart (sp : SpecSt) (op : Op) (o : Obs) : Bool :=
  (postDts sp op o).all (fun d => !(evCount o 2 d.id > 0 && !d.fixed && !d.excused) || d.starts ≥ 1)

/-- … and fixed ones (F-C05c). -/
def chkEndHasStartFixed (sp : SpecSt) (op : Op) (o : Obs) : Bool :=
  (postDts sp op o).all (fun d => !(evCount o 2 d.id > 0 && d.fixed && !d.excused) || d.starts ≥ 1)

def chkRemovedEvent (sp : SpecSt) (op : Op) (o : Obs) : Bool :=
  (preDts sp op o).all (fun a => evCount o 4 a.id == (if gone o a then 1 else 0))

/-- Expired downtimes are removed by the timers. -/
def chkExpired (sp : SpecSt) (op : Op) (o : Obs) : Bool :=
  !isPump op || (postDts sp op o).all (fun d => !d.alive || !d.over op.now)

/-- Downtimes owned by a schedule cannot be removed by users. -/
def chkOwner (sp : SpecSt) (op : Op) (o : Obs) : Bool :=
  match op with
  | .remove id byUser _ =>
    (match (preDts sp op o).find? (fun d => d.id == id && d.alive) with
     | some d => (o.rc == 2) == (d.owner && byUser) && (o.rc != 2 || (obsTrig o id).isSome)
     | none => o.rc == 0)
  | _ => true

/-- All clause checks of one operation, in reporting order. -/
def specChecks (sp : SpecSt) (op : Op) (o : Obs) : List (Bool × Clause) :=
  [ (existenceOK op o sp.dts (preDts sp op o), .existence),
    (chkDropped sp op o, .droppedResult),
    (chkInDt sp op o, .inDowntimeIff),
    (chkDepth sp op o, .depthEqCount),
    (chkWriteOnce sp op o, .triggerWriteOnce),
    (chkWindow sp op o, .triggerOnlyInWindow),
    (chkWindowGone sp op o, .triggerOnlyInWindow),
    (chkFlexible sp op o, .flexibleTrigger),
    (chkCascade sp op o, .triggerCascade),
    (chkStartOnce sp op o, .startOnce),
    (chkStarted sp op o, .startedWhenTriggered),
    (chkStartedFixed sp op o, .fixedStartedWhenTriggered),
    (chkFixedStarted sp op o, .fixedStartedInWindow),
    (chkEndOnce sp op o, .endOnce),
    (chkEndHasStart sp op o, .endHasStart),
    (chkEndHasStartFixed sp op o, .fixedEndHasStart),
    (chkRemovedEvent sp op o, .removedEvent),
    (chkExpired sp op o, .expiredRemoved),
    (chkOwner sp op o, .ownerProtected),
    (chkTrigStart sp op o, .triggerNotBeforeStart),
    (chkStartEffect sp op o, .startOnlyOnEffect) ]

/-- Check one operation with its observation against the clauses enabled by `m`; `sp` is the
    bookkeeping before. -/
def specStepM (m : Clause → Bool) (sp : SpecSt) (op : Op) (o : Obs) : Option Clause :=
  firstFailM m (specChecks sp op o)

/-- … against the whole property. -/
def specStep (sp : SpecSt) (op : Op) (o : Obs) : Option Clause := specStepM (fun _ => true) sp op o

/-- Check a whole trace against the clauses enabled by `m`. -/
def specTraceM (m : Clause → Bool) : SpecSt → List (Op × Obs) → Option Clause
  | _, [] => none
  | sp, (op, o) :: rest =>
    match specStepM m sp op o with
    | some cl => some cl
    | none => specTraceM m (specNext sp op o) rest

/-- Check a whole trace against the whole property. -/
def specTrace (sp : SpecSt) (tr : List (Op × Obs)) : Option Clause := specTraceM (fun _ => true) sp tr

end Icinga.C05

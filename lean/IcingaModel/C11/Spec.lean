/-
  C11 — the property as properties.jsonl states it.

  Two levels:
  * `specCase` — the sentences about ONE relaying node as an executable predicate over what was OBSERVED of one
    `SyncRelayMessage` call (which endpoints got the message, was it persisted, which `originZone` field it
    carries).  It looks at the topology and the inputs of the call, never at `relay`.
  * `specNet` — the sentences about the whole cluster as an executable predicate over the ghost history of one
    event's propagation (who processed it, what was discarded, what is still in flight).
  The Prop-level notions the theorems are stated with (`Anc`, `Entitled`, `WF`) are here too.
-/
import IcingaModel.C11.Model

namespace Icinga.C11

/-- `z` is `a` or one of its ancestors (reflexive-transitive closure of `parent`, no fuel, no bound). -/
inductive Anc (T : Topo) : Zone → Zone → Prop
  | refl (a : Zone) : Anc T a a
  | step {a p z : Zone} : T.parent a = some p → Anc T p z → Anc T a z

/-- "zones entitled to know about it — the object's own zone and the zones above it (for objects in a global
    zone: the local zone and its direct children)" -/
def Entitled (T : Topo) (self : Ep) (objZone : Option Zone) (z : Zone) : Prop :=
  if T.isGlobal (targetZone T self objZone) then z = T.zoneOf self ∨ T.parent z = some (T.zoneOf self)
  else Anc T (targetZone T self objZone) z

/-- executable `Entitled` (walks at most `fuel` parents) -/
def entitledB (fuel : Nat) (T : Topo) (self : Ep) (objZone : Option Zone) (z : Zone) : Bool :=
  if T.isGlobal (targetZone T self objZone) then z == T.zoneOf self || T.parent z == some (T.zoneOf self)
  else isChildOfFuel T (fuel + 1) (targetZone T self objZone) z

/-- own zone, parent zone or a direct child zone of the node -/
def directlyRelated (T : Topo) (self : Ep) (z : Zone) : Bool :=
  z == T.zoneOf self || T.parent (T.zoneOf self) == some z || T.parent z == some (T.zoneOf self)

/-- the inputs of one `SyncRelayMessage` call -/
structure Case where
  self : Ep
  origin : Origin
  objZone : Option Zone
  log : Bool
  deriving Repr, DecidableEq, Inhabited

/-- what was observed of it -/
structure Obs where
  /-- endpoints the message was queued for (on the newest connection), with multiplicity -/
  sent : List Ep
  persist : Bool
  originZone : Option Zone
  /-- copies of the message found on other connections than the newest one of their endpoint -/
  extraCopies : Nat := 0
  /-- what `GetMaster()` answers on the node in this scenario (`none`: not observed) -/
  master : Option Ep := none
  deriving Repr, DecidableEq, Inhabited

inductive Clause
  | reachable_only | only_entitled | no_echo | no_duplicate | one_copy_per_endpoint | single_entry | only_master_crosses
  | logged_not_dropped | origin_zone_copied | master_by_names_and_connectedness | forwarded_when_reachable | same_master
  | replay_only_entitled | replay_global_own_zone_and_children | replay_no_object_own_zone_and_above
  | replay_one_copy | replay_not_to_served | replay_reaches_missed | pair_one_copy
  deriving Repr, DecidableEq, Inhabited

def Clause.name : Clause → String
  | .reachable_only => "reachable_only" | .only_entitled => "only_entitled" | .no_echo => "no_echo"
  | .no_duplicate => "no_duplicate" | .single_entry => "single_entry" | .only_master_crosses => "only_master_crosses"
  | .logged_not_dropped => "logged_not_dropped" | .origin_zone_copied => "origin_zone_copied"
  | .one_copy_per_endpoint => "one_copy_per_endpoint"
  | .master_by_names_and_connectedness => "master_by_names_and_connectedness"
  | .forwarded_when_reachable => "forwarded_when_reachable" | .same_master => "same_master"
  | .replay_only_entitled => "replay_only_entitled"
  | .replay_global_own_zone_and_children => "replay_global_own_zone_and_children"
  | .replay_no_object_own_zone_and_above => "replay_no_object_own_zone_and_above"
  | .replay_one_copy => "replay_one_copy" | .replay_not_to_served => "replay_not_to_served"
  | .replay_reaches_missed => "replay_reaches_missed" | .pair_one_copy => "pair_one_copy"

def nodupB : List Ep → Bool
  | [] => true
  | e :: es => !es.contains e && nodupB es

/-- some connected member of the node's zone has a smaller name: the node is not the zone master -/
def notMasterB (T : Topo) (self : Ep) : Bool :=
  (T.eps self (T.zoneOf self)).any (fun e => T.conn self e && e < self)

/-- `e` is a member of the node's zone, is reachable, and no reachable member (nor the node) has a smaller name -/
def isZoneMasterB (T : Topo) (self : Ep) (e : Ep) : Bool :=
  T.zoneOf e == T.zoneOf self && T.conn self e &&
  (T.eps self (T.zoneOf self)).all (fun x => !(T.conn self x || x == self) || e ≤ x)

/-- `x` is the zone master as node `self` has to see it: a member of the node's zone that is reachable (or the node
    itself) such that no reachable member (nor the node) has a smaller name - names and connectedness, nothing else -/
def masterIsB (T : Topo) (self : Ep) (x : Ep) : Bool :=
  (T.eps self (T.zoneOf self)).contains x && (T.conn self x || x == self) &&
  (T.eps self (T.zoneOf self)).all (fun y => !(T.conn self y || y == self) || x ≤ y)

/-- the zone peer `p` must get the event: it is reachable, not busy with a log replay, the origin does not forbid it,
    and the node or `p` is the zone master -/
def peerDueB (T : Topo) (c : Case) (p : Ep) : Bool :=
  p != c.self && T.conn c.self p && !T.syncing c.self p && c.origin.client != some p &&
  c.origin.fromZone != some (T.zoneOf c.self) && (masterIsB T c.self c.self || masterIsB T c.self p)

/-- the foreign zone `z` must get the event through one of its endpoints: the node is the zone master, reaches a member
    of `z`, none of them is busy with a log replay, and the origin does not forbid the zone or one of its members -/
def zoneDueB (T : Topo) (c : Case) (z : Zone) : Bool :=
  z != T.zoneOf c.self && masterIsB T c.self c.self && c.origin.fromZone != some z &&
  (T.eps c.self z).all (fun x => c.origin.client != some x && !T.syncing c.self x) &&
  (T.eps c.self z).any (fun x => x != c.self && T.conn c.self x)

/-- the node has somebody to send to in `z` but reaches none of them -/
def unreachableB (T : Topo) (self : Ep) (z : Zone) : Bool :=
  (T.eps self z).any (fun e => e != self) && (T.eps self z).all (fun e => e == self || !T.conn self e)

/-- zones the clause `logged_not_dropped` looks at: the node's zone, the registered zones and - unless the object is
    in a global zone, which concerns the node's zone and its registered children only - the parent zone -/
def candidateZones (T : Topo) (self : Ep) (objZone : Option Zone) : List Zone :=
  if T.isGlobal (targetZone T self objZone) then T.zoneOf self :: T.zones
  else T.zoneOf self :: (match T.parent (T.zoneOf self) with | some p => [p] | none => []) ++ T.zones

/-- The property's sentences about one relaying node, on one observed call.  `none` = all hold. -/
def specCase (fuel : Nat) (T : Topo) (c : Case) (o : Obs) : Option Clause :=
  let lz := T.zoneOf c.self
  -- a message can only be handed to a connection, and nobody sends to himself
  if !o.sent.all (fun e => e != c.self && T.conn c.self e) then some .reachable_only
  -- "only ever sent to endpoints of zones entitled to know about it"
  else if !o.sent.all (fun e => entitledB fuel T c.self c.objZone (T.zoneOf e)) then some .only_entitled
  -- "never back to the endpoint or zone it came from"
  else if !o.sent.all (fun e => c.origin.client != some e && c.origin.fromZone != some (T.zoneOf e)) then some .no_echo
  else if !nodupB o.sent then some .no_duplicate
  -- "no endpoint processes the same event twice": one copy per target endpoint, on one connection
  else if o.extraCopies != 0 then some .one_copy_per_endpoint
  -- "a foreign zone is entered through a single endpoint"
  else if !o.sent.all (fun a => o.sent.all (fun b => !(T.zoneOf a == T.zoneOf b && T.zoneOf a != lz) || a == b)) then some .single_entry
  -- "only the current zone master forwards across zone borders" (a non-master talks to the master and nobody else)
  else if notMasterB T c.self && !o.sent.all (fun e => isZoneMasterB T c.self e) then some .only_master_crosses
  -- "when the node … cannot reach an entitled directly related zone or peer it records the event in its replay log"
  else if c.log && !o.persist && (candidateZones T c.self c.objZone).any (fun z =>
      directlyRelated T c.self z && entitledB fuel T c.self c.objZone z && unreachableB T c.self z) then some .logged_not_dropped
  -- the origin zone travels with the message (what the second hop's no-echo test reads)
  else if o.originZone != c.origin.fromZone then some .origin_zone_copied
  -- "the current zone master": the choice depends on names and connectedness only
  else if (match o.master with | some m => !masterIsB T c.self m | none => false) then some .master_by_names_and_connectedness
  -- "every endpoint of every entitled zone processes the event": what is due at this hop is sent
  else if entitledB fuel T c.self c.objZone lz && !(T.eps c.self lz).all (fun p => !peerDueB T c p || o.sent.contains p)
    then some .forwarded_when_reachable
  else if !(candidateZones T c.self c.objZone).all (fun z =>
      !(directlyRelated T c.self z && entitledB fuel T c.self c.objZone z && zoneDueB T c z) ||
      o.sent.any (fun e => (T.eps c.self z).contains e)) then some .forwarded_when_reachable
  else none

/-- Two nodes asked for their zone master in the same scenario: each answer obeys names and connectedness, and two nodes
    of one zone that have the same view (in particular two peers that see each other) name the same master. -/
def specMasterPair (T : Topo) (a b : Ep) (ma mb : Option Ep) : Option Clause :=
  let ok := fun (s : Ep) (m : Option Ep) => match m with | some x => masterIsB T s x | none => false
  let sameView := T.zoneOf a == T.zoneOf b &&
    (T.eps a (T.zoneOf a)).all (fun x => (T.eps b (T.zoneOf b)).contains x && (T.conn a x || x == a) == (T.conn b x || x == b)) &&
    (T.eps b (T.zoneOf b)).all (fun x => (T.eps a (T.zoneOf a)).contains x)
  if !ok a ma || !ok b mb then some .master_by_names_and_connectedness
  else if sameView && ma != mb then some .same_master
  else none

/-- The first sentence of the property on the REPLAY path: the node relayed a local event about an object whose zone
    attribute was `objZone` at that time (`hasObject = false`: an event relayed without security object, which concerns the
    node's zone and the zones above it), wrote it to its replay log, and later endpoint `target` connected.  If the event was
    replayed to `target`, `target`'s zone must be entitled to it - whatever has happened to the object meanwhile.  The three
    clause names separate the classes of objects (ordinary or no zone / global zone / no object). -/
def specReplay (fuel : Nat) (T : Topo) (self : Ep) (hasObject : Bool) (objZone : Option Zone) (target : Ep) (replayed : Bool) :
    Option Clause :=
  if !replayed || entitledB fuel T self objZone (T.zoneOf target) then none
  else if !hasObject then some .replay_no_object_own_zone_and_above
  else if T.isGlobal (targetZone T self objZone) then some .replay_global_own_zone_and_children
  else some .replay_only_entitled

/-- what is observable of the model's relay step on node `self` -/
def Result.obs (T : Topo) (self : Ep) (r : Result) : Obs :=
  { sent := queued T self r, persist := r.persist, originZone := r.originZone, extraCopies := 0, master := getMaster T self }

/-! ### "no endpoint processes the same event twice" / "records the event … instead of dropping it" across a reconnect -/

/-- what was observed of one scenario "relay an event, then endpoint `target` reconnects and the log is replayed for it" -/
structure LogObs where
  /-- endpoints the event was queued for when it was relayed -/
  sent : List Ep
  persist : Bool
  /-- copies of the event that the replay handed to `target` -/
  copies : Nat
  deriving Repr, DecidableEq, Inhabited

/-- `target` is an endpoint this node's relay step is responsible for: a member of an entitled zone that is the node's own
    zone, its parent or a (registered) direct child -/
def concernedB (fuel : Nat) (T : Topo) (c : Case) (target : Ep) : Bool :=
  target != c.self && (T.eps c.self (T.zoneOf target)).contains target &&
  (candidateZones T c.self c.objZone).contains (T.zoneOf target) &&
  directlyRelated T c.self (T.zoneOf target) && entitledB fuel T c.self c.objZone (T.zoneOf target)

/-- The property's sentences about ONE event on the path "live routing, then replay after a reconnect".  The node relayed the
    event at time `ts`; `reports` are ALL the log positions `target` ever reported to the node (before or after the event, in
    any order); then `target`'s connection dropped, it connected again and the node replayed its log for it.
    * the replay hands over one copy at most;
    * "no endpoint processes the same event twice": if `target` was reachable (and not busy with a replay) when the event was
      routed, it was served then - either by this node, or, when this node deliberately sent it nothing, on the path the
      property prescribes (only the zone master forwards, a foreign zone is entered through a single endpoint, never back to
      where the event came from).  In the second case the node has nothing in hand that shows `target` got the event from IT
      (`target` never received anything newer from this node, so the positions it reports stay old), and replaying hands
      `target` the event a second time - whatever positions `target` reported;
    * "records the event in its replay log instead of dropping it": if the whole zone of `target` (or the zone peer
      `target`) was unreachable when the event was routed, the event did not come from there, and `target` has not
      confirmed a position at or beyond the event, the replay hands it over. -/
def specLog (fuel : Nat) (T : Topo) (c : Case) (target : Ep) (reports : List Int) (ts : Int) (o : LogObs) : Option Clause :=
  let tz := T.zoneOf target
  if o.copies > 1 then some .replay_one_copy
  else if concernedB fuel T c target && T.conn c.self target && !T.syncing c.self target && !o.sent.contains target && o.copies != 0
    then some .replay_not_to_served
  else if concernedB fuel T c target && c.log && unreachableB T c.self tz && c.origin.client != some target &&
      c.origin.fromZone != some tz && reports.all (fun p => decide (p < ts)) && o.copies == 0 then some .replay_reaches_missed
  else none

/-- what is observable of the model's scenario -/
def LogRun.obs (T : Topo) (self : Ep) (l : LogRun) : LogObs :=
  { sent := queued T self l.result, persist := l.result.persist, copies := l.copies }

/-- what was observed of the two members `a`, `b` of one zone handling one event: whom each queued it for when it was routed
    and how many copies each replayed to `target` when it reconnected (`b` all empty when the event never reached it) -/
structure PairObs where
  sentA : List Ep
  replayA : Nat
  sentB : List Ep
  replayB : Nat
  deriving Repr, DecidableEq, Inhabited

/-- copies of the event that `target` is handed by the two nodes together -/
def PairObs.copies (o : PairObs) (target : Ep) : Nat := o.sentA.count target + o.replayA + o.sentB.count target + o.replayB

/-- "No endpoint processes the same event twice: a foreign zone is entered through a single endpoint and only the current zone
    master forwards across zone borders" - for the two members of a zone TOGETHER and across a reconnect: an endpoint of an
    entitled parent / child zone is handed the event at most once by the two of them, live or replayed (the receiver keeps one
    log position per sender, so a second copy from the other member is processed again). -/
def specPair (fuel : Nat) (T : Topo) (a b : Ep) (oz : Zone) (target : Ep) (o : PairObs) : Option Clause :=
  if T.zoneOf a == T.zoneOf b && a != b && T.zoneOf target != T.zoneOf a &&
      concernedB fuel T ⟨a, Origin.loc, some oz, true⟩ target && decide (o.copies target > 1) then some .pair_one_copy
  else none

def PairRun.obs (T : Topo) (a b : Ep) (p : PairRun) : PairObs :=
  { sentA := queued T a p.a.result, replayA := p.a.copies,
    sentB := match p.b with | some l => queued T b l.result | none => [],
    replayB := match p.b with | some l => l.copies | none => 0 }

/-- Global zones stand beside the zone tree: a global zone is nobody's parent (`Zone::OnAllConfigLoaded` refuses
    that, zone.cpp:19-20) and has no parent itself (nothing refuses that; it is what "zone trees plus global zones"
    in the property's quantifier means - a global zone with a parent would additionally be relayed along that
    parent chain). -/
structure Detached (T : Topo) : Prop where
  global_no_parent : ∀ g, T.isGlobal g = true → T.parent g = none
  parent_not_global : ∀ z p, T.parent z = some p → T.isGlobal p = false

/-- What the no-duplicate clause of `specCase` needs of the configuration as node `node` sees it: an endpoint listed
    in a zone has that zone cached (`Zone::OnAllConfigLoaded` → `SetCachedZone`; an endpoint in two zones is
    refused, endpoint.cpp:30-37), the endpoint sets and the zone registry hold distinct objects, and the zone graph
    is a forest (a cyclic one is refused, zone.cpp:44). -/
structure WF (T : Topo) (node : Ep) : Prop extends Detached T where
  zone_of_mem : ∀ z e, e ∈ T.eps node z → T.zoneOf e = z
  eps_nodup : ∀ z, (T.eps node z).Nodup
  zones_nodup : T.zones.Nodup
  acyclic : ∃ rank : Zone → Nat, ∀ z p, T.parent z = some p → rank p < rank z

/-! ### the cluster-wide sentences -/

inductive NetClause
  | processed_twice | processed_not_entitled | discarded_message | too_many_deliveries
  deriving Repr, DecidableEq, Inhabited

def NetClause.name : NetClause → String
  | .processed_twice => "processed_twice" | .processed_not_entitled => "processed_not_entitled"
  | .discarded_message => "discarded_message" | .too_many_deliveries => "too_many_deliveries"

/-- executable entitlement of a zone w.r.t. the originating zone `origZone` and the object zone `oz` for the
    network: non-global object: `oz` or an ancestor; global object: the originating zone or below it (every hop
    passes the event on to its own zone and its direct children). -/
def netEntitledB (T : Topo) (origZone oz z : Zone) : Bool :=
  if T.isGlobal oz then isChildOf T z origZone else isChildOf T oz z

/-- The cluster-wide sentences on the history of one event: nobody processes it twice; apart from the originator
    only endpoints of entitled zones process it; when the originator's own zone is entitled no message is sent to
    somebody who has to discard it; and the number of messages ever put on the wire (delivered, discarded or still
    in flight) stays below the number of endpoints `allEps`. -/
def specNet (T : Topo) (allEps : List Ep) (orig : Ep) (oz : Zone) (n : Net) : Option NetClause :=
  let ent := fun z => netEntitledB T (T.zoneOf orig) oz z
  if !nodupB n.processed then some .processed_twice
  else if !(n.processed.drop 1).all (fun e => ent (T.zoneOf e)) then some .processed_not_entitled
  else if ent (T.zoneOf orig) && !n.discarded.isEmpty then some .discarded_message
  else if n.processed.length + n.discarded.length + n.inflight.length > allEps.length then some .too_many_deliveries
  else none

/-- "the zone masters are connected to their zone peers and to one endpoint of each directly related zone": for every
    zone the member with the smallest name reaches every other member and, for every parent or child zone that has
    members, at least one of them -/
def mastersConnectedB (T : Topo) (allEps : List Ep) (zones : List Zone) : Bool :=
  zones.all fun z =>
    match minEp (allEps.filter (fun e => T.zoneOf e == z)) with
    | none => true
    | some m =>
      (allEps.filter (fun e => T.zoneOf e == z)).all (fun p => p == m || T.conn m p) &&
      zones.all (fun z' => !(T.parent z' == some z || T.parent z == some z') ||
        (allEps.filter (fun e => T.zoneOf e == z')).isEmpty || (allEps.filter (fun e => T.zoneOf e == z')).any (fun e' => T.conn m e'))

/-- "every endpoint of every entitled zone processes the event" -/
def completeB (T : Topo) (allEps : List Ep) (orig : Ep) (oz : Zone) (n : Net) : Bool :=
  (allEps.filter (fun e => netEntitledB T (T.zoneOf orig) oz (T.zoneOf e))).all (fun e => n.processed.contains e)

/-- the completeness sentence on a quiescent state: under its connectivity hypothesis, and when the originator's own
    zone is entitled, everybody entitled has processed the event -/
def specComplete (T : Topo) (allEps : List Ep) (zones : List Zone) (orig : Ep) (oz : Zone) (n : Net) : Bool :=
  !(n.inflight.isEmpty && mastersConnectedB T allEps zones && netEntitledB T (T.zoneOf orig) oz (T.zoneOf orig))
  || completeB T allEps orig oz n

/-- Prop-level entitlement of a zone in the cluster-wide statements: for an object of an ordinary zone `oz` the zone
    itself and its ancestors (as `Zone::IsChildOf` walks them); for an object of a global zone the originator's zone
    and everything below it (each hop passes the event to its own zone and its direct children). -/
def NetEntitled (T : Topo) (origZone oz z : Zone) : Prop :=
  if T.isGlobal oz = true then Anc T z origZone else isChildOf T oz z = true

/-- what the cluster-wide statements need of the configuration: global zones detached, and on every node an
    endpoint listed in a zone has that zone cached -/
structure NetWF (T : Topo) : Prop extends Detached T where
  zone_of_mem : ∀ s z e, e ∈ T.eps s z → T.zoneOf e = z

/-- The property's quantifier as a hypothesis on the configuration: a zone forest with detached global zones, every
    node sees the same members in every zone (in an order of its own), at most two endpoints per zone, connectivity
    is symmetric (and static: `conn` does not change during a run). -/
structure Cluster (T : Topo) : Prop extends NetWF T where
  mem_indep : ∀ s s' z e, e ∈ T.eps s z → e ∈ T.eps s' z
  eps_nodup : ∀ s z, (T.eps s z).Nodup
  two : ∀ s z, (T.eps s z).length ≤ 2
  zones_nodup : T.zones.Nodup
  conn_symm : ∀ a b, T.conn a b = T.conn b a
  acyclic : ∃ rank : Zone → Nat, ∀ z p, T.parent z = some p → rank p < rank z

/-- the endpoint is listed, on every node, as a member of the zone it belongs to -/
def Member (T : Topo) (e : Ep) : Prop := ∀ x, e ∈ T.eps x (T.zoneOf e)

/-- "the zone masters are connected to their zone peers and to one endpoint of each directly related zone": two
    different members of one zone see each other (with at most two members per zone that is master and peer), and the
    member with the smallest name of a zone reaches at least one member of every parent / child zone that has members
    (symmetry of `conn` is part of `Cluster`). -/
structure MastersConnected (T : Topo) : Prop where
  peers : ∀ a b, Member T a → Member T b → T.zoneOf a = T.zoneOf b → a ≠ b → T.conn a b = true
  cross : ∀ m Z', Member T m → (∀ x, Member T x → T.zoneOf x = T.zoneOf m → m ≤ x) →
    (T.parent Z' = some (T.zoneOf m) ∨ T.parent (T.zoneOf m) = some Z') →
    (∃ x, Member T x ∧ T.zoneOf x = Z') → ∃ e', Member T e' ∧ T.zoneOf e' = Z' ∧ T.conn m e' = true

end Icinga.C11

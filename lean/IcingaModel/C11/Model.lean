/-
  C11 — cluster routing.  Executable transcription of
    * `ApiListener::GetMaster` / `IsMaster`                         lib/remote/apilistener.cpp:390-416
    * `ApiListener::RelayMessageOne`                                 lib/remote/apilistener.cpp:1216-1326
    * `ApiListener::SyncRelayMessage`                                lib/remote/apilistener.cpp:1328-1363
    * origin construction in `JsonRpcConnection::MessageHandler`     lib/remote/jsonrpcconnection.cpp:316-326
    * `Zone::IsChildOf` / `Zone::CanAccessObject` (acceptance)       lib/remote/zone.cpp:91-121
    * `Zone::OnAllConfigLoaded` (`m_AllParents`)                     lib/remote/zone.cpp:14-47
    * the handlers re-relaying with the received origin              lib/icinga/clusterevents.cpp:97-105 (and siblings)
  and, on top of the per-node function, the network of nodes exchanging one event (`Net`, `deliver`, `run`).
  Core Lean only.
-/
namespace Icinga.C11

/-- A zone is identified by its index in the zone table. -/
abbrev Zone := Nat

/-- An endpoint is identified by the rank of its name among all endpoint names: `GetMaster` sorts the
    *names* (apilistener.cpp:403), so `≤` on `Ep` is the order of the names. -/
abbrev Ep := Nat

/-- What the nodes of a cluster are configured with and what they see of each other.

    `eps self z` is `z->GetEndpoints()` (zone.cpp:54-76) *in the order node `self` iterates it*: the code
    builds a `std::set<Endpoint::Ptr>`, i.e. ordered by the addresses of the objects in that process.  The order
    decides which endpoint of a foreign zone is the single one a message is sent to (the `pick` of DESIGN.md) and
    it may differ from node to node; every theorem quantifies over all of them.

    `conn self e` is `e->GetConnected()` as seen on node `self` (endpoint.cpp:88-92). -/
structure Topo where
  parent : Zone → Option Zone
  isGlobal : Zone → Bool
  /-- `ConfigType::GetObjectsByType<Zone>()` -/
  zones : List Zone
  /-- `Endpoint::GetZone()` -/
  zoneOf : Ep → Zone
  eps : Ep → Zone → List Ep
  conn : Ep → Ep → Bool
  /-- `syncing self e` is `e->GetSyncing()` on node `self`: set while `self` replays its log to `e`
      (apilistener.cpp:884-938).  Relaying reads it in ONE place only: `SyncSendMessage` queues nothing for such an
      endpoint (apilistener.cpp:1180).  `GetMaster` and `RelayMessageOne` do not look at it. -/
  syncing : Ep → Ep → Bool := fun _ _ => false

/-- `MessageOrigin` (messageorigin.hpp) as far as relaying reads it: the endpoint of `FromClient` (`none`: no
    client, or an anonymous one without `Endpoint` object) and `FromZone`.  A null `origin` pointer behaves exactly
    like an origin with both fields empty (every test is `origin && origin->X && …`). -/
structure Origin where
  client : Option Ep
  fromZone : Option Zone
  deriving Repr, DecidableEq, Inhabited

/-- a locally generated event (`origin == nullptr`) -/
def Origin.loc : Origin := ⟨none, none⟩

/-- `Zone::OnAllConfigLoaded` refuses a zone with more than 32 levels of parents (zone.cpp:39-45), so 33 steps
    reach every parent in a configuration that loaded.  Every theorem is stated for an arbitrary fuel. -/
def maxDepth : Nat := 33

/-- `m_AllParents` (zone.cpp:24, 39-42): the chain of parents, nearest first. -/
def allParents (T : Topo) : Nat → Zone → List Zone
  | 0, _ => []
  | n + 1, z =>
    match T.parent z with
    | none => []
    | some p => p :: allParents T n p

/-- smallest element (`*names.begin()` after `std::sort`, apilistener.cpp:403-405) -/
def minEp : List Ep → Option Ep
  | [] => none
  | e :: es =>
    match minEp es with
    | none => some e
    | some m => some (if e ≤ m then e else m)

/-- `ApiListener::GetMaster` (apilistener.cpp:390-406) on node `self`: the smallest name among the members of the
    local zone that are connected or are the node itself.  `none` stands for the undefined `*names.begin()` of an
    empty vector, which needs a local endpoint that is not a member of its own zone. -/
def getMaster (T : Topo) (self : Ep) : Option Ep :=
  minEp ((T.eps self (T.zoneOf self)).filter (fun e => T.conn self e || e == self))

/-- `ApiListener::IsMaster` (apilistener.cpp:408-416) -/
def isMaster (T : Topo) (self : Ep) : Bool := getMaster T self == some self

/-- The `continue` guards of the inner loop that apply to a *connected* endpoint other than the node itself
    (apilistener.cpp:1273-1306), as one predicate.  `m` is `currentZoneMaster`. -/
def blocked (T : Topo) (self : Ep) (o : Origin) (m : Option Ep) (cz : Zone) (relayed : Bool) (e : Ep) : Bool :=
  (relayed && cz != T.zoneOf self)          -- :1273  a foreign zone is entered through one endpoint only
  || o.client == some e                     -- :1279  not back to the endpoint the message came from
  || o.fromZone == some cz                  -- :1285  not back to the zone the message came from
  || (m != some self && m != some e)        -- :1301-1303  a non-master only talks to the master

/-- The message is handed to `SyncSendMessage` for endpoint `e` (apilistener.cpp:1255-1310). -/
def eligible (T : Topo) (self : Ep) (o : Origin) (m : Option Ep) (cz : Zone) (relayed : Bool) (e : Ep) : Bool :=
  e != self && T.conn self e && !blocked T self o m cz relayed e

/-- local variables of one pass of the outer loop (apilistener.cpp:1251) plus what it has done so far -/
structure ZState where
  relayed : Bool := false
  logNeeded : Bool := false
  logDone : Bool := false
  sent : List Ep := []
  skipped : List Ep := []
  deriving Repr, DecidableEq, Inhabited

/-- one iteration of the inner loop (apilistener.cpp:1253-1311) -/
def relayStep (T : Topo) (self : Ep) (o : Origin) (m : Option Ep) (cz : Zone) (st : ZState) (e : Ep) : ZState :=
  if e == self then st                                                            -- :1255
  else if !T.conn self e then                                                     -- :1261-1266
    { st with logNeeded := true, logDone := if cz == T.zoneOf self then false else st.logDone }
  else if blocked T self o m cz st.relayed e then                                 -- :1273-1306
    { st with logNeeded := true, logDone := true, skipped := st.skipped ++ [e] }
  else                                                                            -- :1308-1310
    { st with logNeeded := true, logDone := true, relayed := true, sent := st.sent ++ [e] }

/-- the inner loop over the endpoints of one target zone -/
def relayZone (T : Topo) (self : Ep) (o : Origin) (m : Option Ep) (cz : Zone) : ZState :=
  (T.eps self cz).foldl (relayStep T self o m cz) {}

/-- negation of the early return (apilistener.cpp:1223-1228): global zone, own zone, parent, or a direct child -/
def related (T : Topo) (self : Ep) (tz : Zone) : Bool :=
  T.isGlobal tz || tz == T.zoneOf self || T.parent (T.zoneOf self) == some tz || T.parent tz == some (T.zoneOf self)

/-- `allTargetZones` (apilistener.cpp:1234-1246).  The code uses a `std::set`; the zone registry holds distinct
    objects and no loadable zone is its own parent, so the list has no duplicates for such configurations. -/
def targetZones (T : Topo) (self : Ep) (tz : Zone) : List Zone :=
  if T.isGlobal tz then T.zoneOf self :: T.zones.filter (fun z => T.parent z == some (T.zoneOf self))
  else [tz]

/-- result of one `RelayMessageOne` -/
structure Out where
  sent : List Ep
  /-- endpoints whose `local_log_position` is advanced to the message's `ts` (apilistener.cpp:1318-1323) -/
  skipped : List Ep
  /-- the return value: `false` = must be persisted in the replay log -/
  ok : Bool
  deriving Repr, DecidableEq, Inhabited

/-- `ApiListener::RelayMessageOne` (apilistener.cpp:1216-1326) -/
def relayOne (T : Topo) (self : Ep) (o : Origin) (m : Option Ep) (tz : Zone) : Out :=
  if !related T self tz then ⟨[], [], true⟩
  else
    let rs := (targetZones T self tz).map (relayZone T self o m)
    ⟨rs.flatMap (·.sent), rs.flatMap (·.skipped), !rs.any (fun r => r.logNeeded && !r.logDone)⟩

/-- what one `SyncRelayMessage` does -/
structure Result where
  /-- endpoints the message was handed to `SyncSendMessage` for, in order -/
  sent : List Ep
  skipped : List Ep
  /-- `PersistMessage` was called -/
  persist : Bool
  /-- the message's `originZone` field (`none`: not set) -/
  originZone : Option Zone
  deriving Repr, DecidableEq, Inhabited

/-- `target_zone` (apilistener.cpp:1340-1350): the zone of `secobj`, the local zone when there is no object or it
    has no zone attribute -/
def targetZone (T : Topo) (self : Ep) (objZone : Option Zone) : Zone :=
  match objZone with | some z => z | none => T.zoneOf self

/-- `ApiListener::SyncRelayMessage` (apilistener.cpp:1328-1363).  `objZone` is the zone of `secobj` (`none`: no
    object or no zone attribute); `log` the caller's flag. -/
def relayFuel (fuel : Nat) (T : Topo) (self : Ep) (o : Origin) (objZone : Option Zone) (log : Bool) : Result :=
  let tz := targetZone T self objZone
  let m := getMaster T self
  let outs := (tz :: allParents T fuel tz).map (relayOne T self o m)
  ⟨outs.flatMap (·.sent), outs.flatMap (·.skipped), log && outs.any (fun r => !r.ok), o.fromZone⟩

def relay (T : Topo) (self : Ep) (o : Origin) (objZone : Option Zone) (log : Bool) : Result :=
  relayFuel maxDepth T self o objZone log

/-- `ApiListener::SyncSendMessage` (apilistener.cpp:1176-1203): of the endpoints the message was handed over for, those
    that are not `syncing` get it queued - on exactly one connection, the newest. -/
def queued (T : Topo) (self : Ep) (r : Result) : List Ep := r.sent.filter (fun e => !T.syncing self e)

/-! ### The network: one event travelling through the cluster -/

/-- `Zone::IsChildOf` (zone.cpp:109-121): `a` is `z` or has `z` among its parents. -/
def isChildOfFuel (T : Topo) : Nat → Zone → Zone → Bool
  | 0, _, _ => false
  | n + 1, a, z =>
    if a = z then true
    else match T.parent a with
      | none => false
      | some p => isChildOfFuel T n p z

def isChildOf (T : Topo) (a z : Zone) : Bool := isChildOfFuel T (maxDepth + 1) a z

/-- `from->CanAccessObject(obj)` (zone.cpp:91-107) for an object of zone `oz` -/
def canAccess (T : Topo) (frm oz : Zone) : Bool := T.isGlobal oz || isChildOf T oz frm

/-- a message on the wire: recipient, sender, and the `originZone` field -/
structure Msg where
  to : Ep
  frm : Ep
  originZone : Option Zone
  deriving Repr, DecidableEq, Inhabited

/-- `JsonRpcConnection::MessageHandler` (jsonrpcconnection.cpp:316-326): `FromClient` is the connection,
    `FromZone` the sender's zone if that is not the local zone, otherwise whatever `originZone` names. -/
def originOf (T : Topo) (msg : Msg) : Origin :=
  ⟨some msg.frm, if T.zoneOf msg.frm != T.zoneOf msg.to then some (T.zoneOf msg.frm) else msg.originZone⟩

/-- the handlers' guard `origin->FromZone && !origin->FromZone->CanAccessObject(obj)` ⇒ discard
    (clusterevents.cpp:167 and siblings), negated -/
def accept (T : Topo) (oz : Zone) (o : Origin) : Bool :=
  match o.fromZone with
  | none => true
  | some z => canAccess T z oz

/-- the messages a node puts on the wire when it relays the event with origin `o` -/
def emit (T : Topo) (self : Ep) (o : Origin) (oz : Zone) : List Msg :=
  (relay T self o (some oz) true).sent.map (fun e => ⟨e, self, o.fromZone⟩)
-- (the network model is about a cluster in which nobody is `syncing`: see "not modelled")

/-- global state while one event about an object of zone `oz` propagates -/
structure Net where
  inflight : List Msg
  /-- endpoints that processed the event, in order (ghost history) -/
  processed : List Ep
  /-- the messages whose recipient processed the event, in order (ghost history) -/
  accepted : List Msg
  /-- endpoints that wrote the event to their replay log -/
  persisted : List Ep
  /-- messages whose recipient discarded them -/
  discarded : List Msg
  deriving Repr, DecidableEq, Inhabited

/-- the originating endpoint processes the event locally and relays it without origin -/
def start (T : Topo) (orig : Ep) (oz : Zone) : Net :=
  { inflight := emit T orig Origin.loc oz, processed := [orig], accepted := [],
    persisted := if (relay T orig Origin.loc (some oz) true).persist then [orig] else [],
    discarded := [] }

/-- deliver the `i`-th in-flight message: the recipient builds the origin, discards the message or processes the
    event, and re-relays it with that origin (clusterevents.cpp:97-105) -/
def deliver (T : Topo) (oz : Zone) (n : Net) (i : Nat) : Net :=
  match n.inflight[i]? with
  | none => n
  | some msg =>
    let rest := n.inflight.eraseIdx i
    let o := originOf T msg
    if accept T oz o then
      { inflight := rest ++ emit T msg.to o oz, processed := n.processed ++ [msg.to],
        accepted := n.accepted ++ [msg],
        persisted := if (relay T msg.to o (some oz) true).persist then n.persisted ++ [msg.to] else n.persisted,
        discarded := n.discarded }
    else { n with inflight := rest, discarded := n.discarded ++ [msg] }

/-- an execution: any sequence of choices of the next message to deliver -/
def run (T : Topo) (oz : Zone) (n : Net) (sched : List Nat) : Net := sched.foldl (deliver T oz) n

/-- deliver always the oldest message until none is left (or the fuel runs out) -/
def runFifo (T : Topo) (oz : Zone) : Nat → Net → Net
  | 0, n => n
  | k + 1, n => if n.inflight.isEmpty then n else runFifo T oz k (deliver T oz n 0)

/-! ### The real cluster event handlers (lib/icinga/clusterevents.cpp)

    Every `event::X` that a node re-relays after processing it goes through two functions: the API handler
    (`XAPIHandler(origin, params)`) applies the event through a setter / signal to which it hands `origin`, and the signal
    handler (`XHandler(…, origin)`) calls `RelayMessage(origin, secobj, message, true)`.  What routing reads of that is
    (a) whether the received `origin` arrives at `RelayMessage` and (b) which security object is named. -/

/-- what the signal handler passes to `RelayMessage` as security object -/
inductive SecObj
  /-- the object the event is about (checkable, notification, comment, downtime): its zone decides -/
  | object
  /-- `nullptr`: the node's own zone and its parents -/
  | none
  deriving Repr, DecidableEq, Inhabited

structure Handler where
  /-- the method is `event::<method>` -/
  method : String
  /-- the API handler hands the received origin on and the signal handler relays with it -/
  passesOrigin : Bool
  sec : SecObj
  /-- processing the event reaches the relaying signal handler at all -/
  relays : Bool := true
  deriving Repr, DecidableEq, Inhabited

/-- the re-relaying handlers, in the order of clusterevents.cpp (API handler line → relaying line) -/
def handlers : List Handler :=
  [ ⟨"CheckResult", true, .object, true⟩,                     -- :181 ProcessCheckResult(cr, origin)        → :105
    ⟨"SetNextCheck", true, .object, true⟩,                    -- :248 SetNextCheck(…, false, origin)        → :208
    ⟨"SetLastCheckStarted", true, .object, true⟩,             -- :310                                       → :275
    ⟨"SetStateBeforeSuppression", true, .none, true⟩,         -- :372                                       → :337
    ⟨"SetSuppressedNotifications", true, .none, true⟩,        -- :434                                       → :399
    ⟨"SetSuppressedNotificationTypes", true, .none, true⟩,    -- :480                                       → :455
    -- :531 → :501 is dead: ClusterEvents connects to the hand-declared `Notification::OnNextNotificationChanged`
    -- (notification.hpp:96), the setter emits the generated `ObjectImpl<Notification>::OnNextNotificationChanged`,
    -- nothing emits the former: the event is applied and not passed on (F-C11c)
    ⟨"SetNextNotification", true, .object, false⟩,
    ⟨"UpdateLastNotifiedStatePerUser", true, .object, true⟩,  -- :589                                       → :554
    ⟨"ClearLastNotifiedStatePerUser", true, .object, true⟩,   -- :640                                       → :610
    ⟨"SetForceNextCheck", true, .object, true⟩,               -- :702                                       → :667
    ⟨"SetForceNextNotification", true, .object, true⟩,        -- :764                                       → :729
    ⟨"SetAcknowledgement", true, .object, true⟩,              -- :845 AcknowledgeProblem(…, origin)         → :799
    ⟨"ClearAcknowledgement", true, .object, true⟩,            -- :908                                       → :873
    ⟨"SendNotifications", true, .none, true⟩,                 -- :1142 OnNotificationsRequested(…, origin)  → :1086
    ⟨"NotificationSentUser", true, .none, true⟩,              -- :1245                                      → :1177
    ⟨"NotificationSentToAllUsers", true, .none, true⟩,        -- :1388                                      → :1291
    ⟨"UpdateExecutions", true, .object, true⟩,                -- :1566 RelayMessage(origin, checkable, …) in the API handler itself
    ⟨"SetRemovalInfo", true, .object, true⟩ ]                 -- :1620 comment, :1633 downtime              → :1590

def findHandler (m : String) : Option Handler := handlers.find? (fun h => h.method == m)

/-- the zone argument of the re-relay: the object's zone, or nothing when the handler names no security object -/
def Handler.objZone (h : Handler) (objZone : Option Zone) : Option Zone :=
  match h.sec with
  | .object => objZone
  | .none => none

/-- the origin the re-relay runs with -/
def Handler.origin (h : Handler) (T : Topo) (msg : Msg) : Origin :=
  if h.passesOrigin then originOf T msg else Origin.loc

/-- a node that processed the event `msg` (about an object whose zone attribute is `objZone`) relays it again -/
def reRelay (T : Topo) (h : Handler) (msg : Msg) (objZone : Option Zone) : Result :=
  if h.relays then relay T msg.to (h.origin T msg) (h.objZone objZone) true
  else ⟨[], [], false, (h.origin T msg).fromZone⟩

/-! ### The replay path: what `ApiListener::ReplayLog` puts on the wire (apilistener.cpp:1529-1549) -/

/-- the `secobj` entry of a replay-log record at the time of the replay -/
inductive RecObj
  /-- the record names no security object (`PersistMessage` was called with `nullptr`, apilistener.cpp:1154) -/
  | absent
  /-- it names an object that no longer exists (`ConfigObject::GetObject` returns null, :1541-1544) -/
  | deleted
  /-- it names an object whose zone attribute is `objZone` -/
  | present (objZone : Option Zone)
  deriving Repr, DecidableEq, Inhabited

/-- the record is sent to the connecting endpoint `target`: `target_zone->CanAccessObject(secobj)` (:1546) -/
def replaySends (T : Topo) (self : Ep) (ro : RecObj) (target : Ep) : Bool :=
  match ro with
  | .absent => true
  | .deleted => false
  | .present oz => canAccess T (T.zoneOf target) (targetZone T self oz)

/-! ### Log positions: which endpoints a later replay may hand the event to

    `Endpoint::local_log_position` of endpoint `e` on a node is "how far `e` has confirmed our replay log".  Two sites write it:
    `SetLogPositionHandler` (the position `e` reports every 5 s, `ApiListener::ApiTimerHandler`) and the last block of
    `RelayMessageOne`: an endpoint that is connected and deliberately NOT given the event (it gets it on another path: from the
    zone master, through the endpoint its zone was entered by, or it is where the event came from) has its position advanced to
    the event's `ts`, so that a later `ReplayLog` does not hand it the event a second time.  Times are integers (the harness'
    virtual clock), `0` = never. -/

/-- `SetLogPositionHandler` (jsonrpcconnection.cpp:374-388): a reported position only ever moves the stored one forward. -/
def reportPos (lpos p : Int) : Int := if p > lpos then p else lpos

/-- the last block of `RelayMessageOne` (apilistener.cpp:1318-1323) for endpoint `e` -/
def skipPos (r : Result) (ts : Int) (e : Ep) (lpos : Int) : Int := if r.skipped.contains e then ts else lpos

/-- `ApiListener::ReplayLog` (apilistener.cpp:1529-1549) for the one record of the event: it is in the log iff it was persisted
    (`PersistMessage` stores `timestamp = ts`, :1141-1145), it is skipped when `timestamp <= peer_ts` (:1535) and when the
    connecting endpoint's zone may not access the object (:1538-1547); a record that was sent moves `peer_ts` to its timestamp
    (:1562), so the second pass of the loop does not send it again. -/
def replayCopies (T : Topo) (self : Ep) (persisted : Bool) (ts lpos : Int) (ro : RecObj) (target : Ep) : Nat :=
  if persisted && decide (lpos < ts) && replaySends T self ro target then 1 else 0

/-- one scenario: `target` reports the positions `pre`, the node relays an event at time `ts`, `target` reports the positions
    `post`, its connection drops, it connects again and the node replays its log for it -/
structure LogRun where
  result : Result
  /-- `target`'s `local_log_position` when the replay starts -/
  lpos : Int
  /-- copies of the event the replay hands to `target` -/
  copies : Nat
  deriving Repr, DecidableEq, Inhabited

def logRun (T : Topo) (self : Ep) (o : Origin) (objZone : Option Zone) (log : Bool) (target : Ep) (pre post : List Int) (ts : Int)
    (ro : RecObj) : LogRun :=
  let r := relay T self o objZone log
  let l := post.foldl reportPos (skipPos r ts target (pre.foldl reportPos 0))
  ⟨r, l, replayCopies T self r.persist ts l ro target⟩

/-! ### Two members of one zone, one event, one endpoint that reconnects to both -/

/-- what `target` tells the node before it reconnects: an endpoint that received the event confirms it (its periodic
    `log::SetLogPosition` carries the `ts` of the last message it got, apilistener.cpp `ApiTimerHandler`) -/
def confirm (T : Topo) (self : Ep) (r : Result) (target : Ep) (ts : Int) : List Int :=
  if (queued T self r).contains target then [ts] else []

structure PairRun where
  a : LogRun
  /-- `none`: the event never reached the second node -/
  b : Option LogRun
  deriving Repr, DecidableEq, Inhabited

/-- node `a` relays a local event about an object of zone `oz`; if it hands it to its zone peer `b`, `b` builds the origin,
    accepts or discards, and relays again (one `deliver` step); on both nodes `target` then confirms what it got, reconnects
    and the log is replayed for it -/
def pairRun (T : Topo) (a b : Ep) (oz : Zone) (target : Ep) (ts : Int) : PairRun :=
  let ra := relay T a Origin.loc (some oz) true
  let la := logRun T a Origin.loc (some oz) true target [] (confirm T a ra target ts) ts (.present (some oz))
  let ob := originOf T ⟨b, a, none⟩
  if (queued T a ra).contains b && accept T oz ob then
    ⟨la, some (logRun T b ob (some oz) true target [] (confirm T b (relay T b ob (some oz) true) target ts) ts (.present (some oz)))⟩
  else ⟨la, none⟩

/-! ### `SyncSendMessage`: which connections of an endpoint get the message (apilistener.cpp:1176-1203) -/

/-- `maxTs` (apilistener.cpp:1183-1188): the largest creation timestamp among the endpoint's connections, starting from 0 -/
def maxStamp (stamps : List Nat) : Nat := stamps.foldl max 0

/-- the connections (identified by their creation timestamps, in the order of `GetClients()`) the message is queued on: none
    while the endpoint is `syncing` (:1180), else every connection whose timestamp EQUALS the maximum (:1190-1193) -/
def syncSend (syncing : Bool) (stamps : List Nat) : List Nat :=
  if syncing then [] else stamps.filter (fun t => t == maxStamp stamps)

end Icinga.C11

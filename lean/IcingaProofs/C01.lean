/-
  C01 — property theorems.  Every `theorem` in this file is a proof obligation of the check:
  `./check C01` lists them, runs `#print axioms` on each and fails if a required one is missing.
  Helper lemmas live in IcingaProofs/C01/Lemmas.lean.
-/
import IcingaProofs.C01.Lemmas

namespace Icinga.C01

/-- **streak_characterisation** (first sentence of the property).  From *any* start state, after a
    history `pre ++ [o] ++ tail` in which `o` is OK/Up and `tail` consists of `n` non-OK results
    (none of them dropped as stale): hard with attempt 1 iff `n = 0 ∨ n ≥ max`, otherwise soft with
    attempt `n`. -/
theorem streak_characterisation (c : Cfg) (hmax : 1 ≤ c.max) (s0 : St) (pre tail : List Res) (o : Res)
    (ho : isOK c.kind o.state = true) (ht : ∀ r ∈ tail, isOK c.kind r.state = false) :
    let s := runCore c s0 (pre ++ [o] ++ tail)
    let n := tail.length
    ((n = 0 ∨ c.max ≤ n) → s.stype = .hard ∧ s.attempt = 1) ∧
    ((0 < n ∧ n < c.max) → s.stype = .soft ∧ s.attempt = n) := by
  intro s n
  have hinv : Inv c s (0 + tail.length) := by
    have h1 : Inv c (runCore c s0 (pre ++ [o])) 0 := by
      rw [runCore_append]; simp only [runCore, List.foldl]; exact step_ok c _ o ho
    have := run_nonok c hmax tail _ 0 h1 ht
    simpa [s, runCore_append] using this
  simp only [Nat.zero_add] at hinv
  obtain ⟨h0, h1, h2⟩ := hinv
  constructor
  · rintro (hz | hge)
    · exact (h0 hz).2
    · rcases Nat.eq_zero_or_pos tail.length with hz | hp
      · exact (h0 hz).2
      · exact (h2 hp hge).2
  · rintro ⟨hp, hlt⟩
    exact (h1 hp hlt).2

/-- **event_spec.**  In a state that represents a streak of `n` non-OK results, the event emitted for
    the next result is the one the property prescribes from `(n, n', projected old/new state,
    volatile)` alone — or the property leaves it open (volatile object in or entering a soft state). -/
theorem event_spec (c : Cfg) (hmax : 1 ≤ c.max) (s : St) (n : Nat) (hi : Inv c s n) (r : Res) :
    specEvent c n (if isOK c.kind r.state then 0 else n + 1) s.state r.state = none ∨
    specEvent c n (if isOK c.kind r.state then 0 else n + 1) s.state r.state = some (stepCore c s r).2 :=
  event_under_inv c hmax s n hi r

/-- **model_trace_meets_spec** (the whole property as one statement).  For every configuration with
    `max_check_attempts ≥ 1`, every start state with `attempt ≥ 1` — in particular the pending state —
    and every finite sequence of results with arbitrary timestamps (stale ones are dropped), the
    accepted part of the model's trace satisfies the executable specification `specTrace`:
    universal invariants from the first result on, the exact streak characterisation and the
    event rule from the first OK/Up result on. -/
theorem model_trace_meets_spec (c : Cfg) (hmax : 1 ≤ c.max) (s0 : St) (h0 : 1 ≤ s0.attempt)
    (rs : List Res) :
    specTrace c specInit (acceptedOf (trace c s0 rs)) = none :=
  spec_trace_rel c hmax rs specInit s0 (rel_init c s0 h0)

/-- **pending_invariants.**  A never-checked checkable satisfies the specification from its very first
    result. -/
theorem pending_invariants (c : Cfg) (hmax : 1 ≤ c.max) (rs : List Res) :
    specTrace c specInit (acceptedOf (trace c pending rs)) = none :=
  model_trace_meets_spec c hmax pending (by decide) rs

/-- **stale_result_ignored.**  A result whose execution start is older than the stored one (which is
    not in the future) leaves the state unchanged and emits nothing. -/
theorem stale_result_ignored (c : Cfg) (s : St) (r : Res) (cur : Int)
    (h1 : s.lastExec = some cur) (h2 : cur ≤ r.now) (h3 : r.execStart < cur) :
    step c s r = (s, .none, false) := by
  have : ¬ (cur > r.now) := by omega
  simp [step, stale, h1, this, h3]

/-- With non-decreasing execution-start timestamps no result is dropped. -/
theorem nondecreasing_never_stale (c : Cfg) (s : St) (r : Res)
    (h : ∀ cur, s.lastExec = some cur → cur ≤ r.execStart) :
    (step c s r).2.2 = true ∧ (step c s r).1.lastExec = some r.execStart := by
  have hs : stale s r = false := by
    unfold stale
    cases hl : s.lastExec with
    | none => rfl
    | some cur =>
      have := h cur hl
      by_cases hc : cur > r.now
      · simp [hc]
      · have : ¬ (r.execStart < cur) := by omega
        simp [hc, this]
  simp [step, hs, stepCore]

/-- The model drops a result only when the specification allows it (`mayDrop`): it is strictly older
    than the latest accepted one. -/
theorem dropped_only_if_older (c : Cfg) (s : St) (r : Res) (h : (step c s r).2.2 = false) :
    mayDrop s.lastExec r.execStart = true := by
  unfold step at h
  cases hs : stale s r
  · simp [hs] at h
  · unfold stale at hs
    cases hl : s.lastExec with
    | none => simp [hl] at hs
    | some cur =>
      simp only [hl] at hs
      by_cases hc : cur > r.now
      · simp [hc] at hs
      · simp [hc] at hs
        simp [mayDrop, hs]

/-- **host_projection.**  For hosts the state type, attempt and event depend on the results only
    through Up/Down: two start states and two results that agree after projection step to states
    that agree after projection, with the same event. -/
theorem host_projection (c : Cfg) (hk : c.kind = .host) (s1 s2 : St) (r1 r2 : Res)
    (hs : hostUp s1.state = hostUp s2.state) (ht : s1.stype = s2.stype) (ha : s1.attempt = s2.attempt)
    (hr : hostUp r1.state = hostUp r2.state) :
    hostUp (stepCore c s1 r1).1.state = hostUp (stepCore c s2 r2).1.state ∧
    (stepCore c s1 r1).1.stype = (stepCore c s2 r2).1.stype ∧
    (stepCore c s1 r1).1.attempt = (stepCore c s2 r2).1.attempt ∧
    (stepCore c s1 r1).2 = (stepCore c s2 r2).2 := by
  simp only [stepCore, nextTypeAttempt, eventOf, hardChangeOf, stateChange, isOK, hk, hs, ht, ha, hr]
  simp

/-- **soft_implies_last_hard_ok** (used by C02).  Along any history that starts in a state whose last
    hard state is OK/Up whenever it is soft, every soft state still has an OK/Up last hard state —
    for non-volatile objects. -/
theorem soft_implies_last_hard_ok (c : Cfg) (hv : c.volatile = false) (s : St) (r : Res) (n : Nat)
    (hi : Inv c s n) (hl : s.stype = .soft ∨ isOK c.kind s.state = true → isOK c.kind s.lastHard = true) :
    let s' := (stepCore c s r).1
    (s'.stype = .soft ∨ isOK c.kind s'.state = true → isOK c.kind s'.lastHard = true) := by
  intro s'
  obtain ⟨h0, h1, h2⟩ := hi
  cases hok : isOK c.kind r.state
  · rcases Nat.eq_zero_or_pos n with hn | hn
    · obtain ⟨a, b, d⟩ := h0 hn
      have hl' := hl (Or.inr a)
      by_cases hm : 1 ≥ c.max <;>
        simp [s', stepCore, nextTypeAttempt, hardChangeOf, hv, hok, a, b, d, hm, hl']
    · by_cases hlt : n < c.max
      · obtain ⟨a, b, d⟩ := h1 hn hlt
        have hl' := hl (Or.inl b)
        by_cases hm : n + 1 ≥ c.max <;>
          simp [s', stepCore, nextTypeAttempt, hardChangeOf, hv, hok, a, b, d, hm, hl']
      · obtain ⟨a, b, d⟩ := h2 hn (by omega)
        by_cases hm : 1 ≥ c.max <;>
          simp [s', stepCore, nextTypeAttempt, hardChangeOf, hv, hok, a, b, d, hm]
  · rcases Nat.eq_zero_or_pos n with hn | hn
    · obtain ⟨a, b, d⟩ := h0 hn
      have hl' := hl (Or.inr a)
      have hp := proj_eq_of_ok c.kind s.state r.state a hok
      simp [s', stepCore, nextTypeAttempt, hardChangeOf, stateChange_eq_proj, hv, hok, a, b, d, hl', hp]
    · by_cases hlt : n < c.max
      · obtain ⟨a, b, d⟩ := h1 hn hlt
        simp [s', stepCore, nextTypeAttempt, hardChangeOf, hv, hok, a, b, d]
      · obtain ⟨a, b, d⟩ := h2 hn (by omega)
        have hp := proj_ne_of_ok' c.kind s.state r.state a hok
        simp [s', stepCore, nextTypeAttempt, hardChangeOf, stateChange_eq_proj, hv, hok, a, b, d, hp]

/-! ## Non-vacuity: concrete, non-trivial instances of the hypotheses and of the specification -/

/-- A service with max 3: OK, CRIT, CRIT, CRIT, WARN, OK from the pending state. -/
def exampleHistory : List Res :=
  [⟨.ok, 1, 1⟩, ⟨.critical, 2, 2⟩, ⟨.critical, 3, 3⟩, ⟨.critical, 4, 4⟩, ⟨.warning, 5, 5⟩, ⟨.ok, 6, 6⟩]

def exampleCfg : Cfg := { kind := .service, max := 3, volatile := false }

example : (acceptedOf (trace exampleCfg pending exampleHistory)).map (fun p => (p.2.stype, p.2.attempt, p.2.ev)) =
    [(.hard, 1, .hard), (.soft, 1, .soft), (.soft, 2, .soft), (.hard, 1, .hard), (.hard, 1, .hard), (.hard, 1, .hard)] := by
  decide

/-- The specification is not trivially true: an observation with the wrong attempt is rejected. -/
example : specTrace exampleCfg specInit
    [(.ok, ⟨true, .ok, .hard, 1, .ok, .hard⟩), (.critical, ⟨true, .critical, .soft, 2, .ok, .soft⟩)]
    = some .streakSoft := by decide

/-- … and so is a missing hard event at the last retry. -/
example : specTrace { kind := .host, max := 2, volatile := false } specInit
    [(.ok, ⟨true, .ok, .hard, 1, .ok, .hard⟩), (.critical, ⟨true, .critical, .soft, 1, .ok, .soft⟩),
     (.unknown, ⟨true, .unknown, .hard, 1, .unknown, .soft⟩)]
    = some .event := by decide

/-- `Inv` is satisfiable at every streak length (premise of `event_spec`). -/
example : Inv exampleCfg ⟨.critical, .soft, 2, .ok, none⟩ 2 := by
  simp [Inv, exampleCfg, isOK]

end Icinga.C01

/-
  C01 — property theorems.  Every `theorem` in this file is a proof obligation of the check:
  `./check C01` lists them, runs `#print axioms` on each and fails if a required one is missing.
  Helper lemmas live in IcingaProofs/C01/Lemmas.lean.
-/
import IcingaProofs.C01.Lemmas
import IcingaProofs.C01.Hist
import IcingaProofs.C01.Pair

namespace Icinga.C01

/-- **streak_characterisation** (first sentence of the property).  From *any* start state, after a
    history `pre ++ [o] ++ tail` in which `o` is OK/Up and `tail` consists of `n` non-OK results
    (none of them dropped as stale): hard with attempt 1 iff `n = 0 ∨ n ≥ max`, otherwise soft with
    attempt `n`. -/
theorem streak_characterisation (c : Cfg) (hmax : 1 ≤ c.max) (s0 : St) (pre tail : List Res) (o : Res)
    (ho : isOK c.kind o.state = true) (ht : ∀ r ∈ tail, isOK c.kind r.state = false) :
    let s := runCore c s0 (pre ++ [o] ++ tail)
    let n := tail.length
    ((n = 0 ∨ c.max ≤ n) → s.stype = .hard ∧ s.attempt = 1) ∧
    ((0 < n ∧ n < c.max) → s.stype = .soft ∧ s.attempt = n) := by
  intro s n
  have hinv : Inv c s (0 + tail.length) := by
    have h1 : Inv c (runCore c s0 (pre ++ [o])) 0 := by
      rw [runCore_append]; simp only [runCore, List.foldl]; exact step_ok c _ o ho
    have := run_nonok c hmax tail _ 0 h1 ht
    simpa [s, runCore_append] using this
  simp only [Nat.zero_add] at hinv
  obtain ⟨h0, h1, h2⟩ := hinv
  constructor
  · rintro (hz | hge)
    · exact (h0 hz).2
    · rcases Nat.eq_zero_or_pos tail.length with hz | hp
      · exact (h0 hz).2
      · exact (h2 hp hge).2
  · rintro ⟨hp, hlt⟩
    exact (h1 hp hlt).2

/-- **event_spec.**  In a state that represents a streak of `n` non-OK results, the event emitted for
    the next result is the one the property prescribes from `(n, n', projected old/new state,
    volatile)` alone — or the property leaves it open (volatile object in or entering a soft state). -/
theorem event_spec (c : Cfg) (hmax : 1 ≤ c.max) (s : St) (n : Nat) (hi : Inv c s n) (r : Res) :
    specEvent c n (if isOK c.kind r.state then 0 else n + 1) s.state r.state = none ∨
    specEvent c n (if isOK c.kind r.state then 0 else n + 1) s.state r.state = some (stepCore c s r).2 :=
  event_under_inv c hmax s n hi r

/-- **model_trace_meets_spec** (the whole property as one statement).  For every configuration with
    `max_check_attempts ≥ 1`, every start state with `attempt ≥ 1` (and a two-slot history word below
    10000, as every word the code writes is) — the never-checked state, any state the machine produces,
    any other state a state file may hold — and every finite sequence of results with arbitrary
    timestamps, the model's *whole* trace (accepted and dropped results) satisfies the executable
    specification `specFull`: universal invariants from the first result on; the exact streak
    characterisation and the event rule from the start state on when it has the shape of a reachable
    state (`specStart`), else from the first OK/Up result on; `last_hard_state` is the state of the
    result at the latest hard event and changes with hard events only; `previous_hard_state` is the hard
    state before that; `last_state` is the state of the previous result; the API-visible states are the
    projections; `vars_after` is the state after the result; a dropped result is strictly older than the
    latest accepted one, reports nothing and changes nothing. -/
theorem model_trace_meets_spec (c : Cfg) (hmax : 1 ≤ c.max) (s0 : St) (h0 : 1 ≤ s0.attempt)
    (hh : s0.hist < 10000) (rs : List Res) :
    specFull c (specStart c s0) (histStart c s0) (trace c s0 rs) = none :=
  full_rel c hmax rs _ _ s0 (rel_start c hmax s0 h0) (hrel_start c s0 hh)

/-- **pending_invariants.**  A never-checked checkable satisfies the specification from its very first
    result, with nothing assumed about its start (`specInit`, `histInit`: only the universal invariants
    until the first OK/Up result, the bookkeeping clauses from the second observation on). -/
theorem pending_invariants (c : Cfg) (hmax : 1 ≤ c.max) (rs : List Res) :
    specFull c specInit histInit (trace c pending rs) = none :=
  full_rel c hmax rs _ _ pending (rel_init c pending (by decide)) (hrel_init c pending (by decide) rfl)

/-- **hard_state_bookkeeping** (one step, every state).  A hard event records the result's state as
    `last_hard_state` and moves the old current slot of the two-slot history to the previous slot;
    without a hard event a non-volatile object keeps both. -/
theorem hard_state_bookkeeping (c : Cfg) (s : St) (r : Res) (hh : s.hist < 10000) :
    ((stepCore c s r).2 = .hard →
        (stepCore c s r).1.lastHard = r.state ∧ (stepCore c s r).1.hist / 100 = r.state.toNat ∧
        (stepCore c s r).1.hist % 100 = s.hist / 100) ∧
    ((stepCore c s r).2 ≠ .hard → c.volatile = false →
        (stepCore c s r).1.lastHard = s.lastHard ∧ (stepCore c s r).1.hist = s.hist) := by
  obtain ⟨_, _, _, f4⟩ := stepCore_facts c s r
  have ht := toNat_le r.state
  rcases f4 with ⟨fe, fl, fh⟩ | ⟨fe, fv, fl, fh⟩ | ⟨fe, fv, _, _, _, _⟩
  · exact ⟨fun _ => ⟨fl, by rw [fh]; omega, by rw [fh]; omega⟩, fun hne => absurd fe hne⟩
  · exact ⟨fun he => absurd he fe, fun _ _ => ⟨fl, fh⟩⟩
  · exact ⟨fun he => absurd he fe, fun _ hv => by simp [fv] at hv⟩

/-- **stale_result_ignored.**  A result whose execution start is older than the stored one (which is
    not in the future) leaves the state unchanged and emits nothing. -/
theorem stale_result_ignored (c : Cfg) (s : St) (r : Res) (cur : Int)
    (h1 : s.lastExec = some cur) (h2 : cur ≤ r.now) (h3 : r.execStart < cur) :
    step c s r = (s, .none, false) := by
  have : ¬ (cur > r.now) := by omega
  simp [step, stale, h1, this, h3]

/-- With non-decreasing execution-start timestamps no result is dropped. -/
theorem nondecreasing_never_stale (c : Cfg) (s : St) (r : Res)
    (h : ∀ cur, s.lastExec = some cur → cur ≤ r.execStart) :
    (step c s r).2.2 = true ∧ (step c s r).1.lastExec = some r.execStart := by
  have hs : stale s r = false := by
    unfold stale
    cases hl : s.lastExec with
    | none => rfl
    | some cur =>
      have := h cur hl
      by_cases hc : cur > r.now
      · simp [hc]
      · have : ¬ (r.execStart < cur) := by omega
        simp [hc, this]
  simp [step, hs, stepCore]

/-- Non-decreasing execution-start timestamps along a history (the quantifier's input class), relative
    to the timestamp of the stored result. -/
def NonDecr : Option Int → List Res → Prop
  | _, [] => True
  | last, r :: rs => (∀ cur, last = some cur → cur ≤ r.execStart) ∧ NonDecr (some r.execStart) rs

/-- With non-decreasing timestamps the stale-result filter never fires: the production step function
    `run` (with the filter) and the filter-free `runCore` agree. -/
theorem run_eq_runCore (c : Cfg) (rs : List Res) :
    ∀ s : St, NonDecr s.lastExec rs → run c s rs = runCore c s rs := by
  induction rs with
  | nil => intro s _; rfl
  | cons r rs ih =>
    intro s h
    obtain ⟨h1, h2⟩ := h
    obtain ⟨ha, hl⟩ := nondecreasing_never_stale c s r h1
    have hs : (step c s r).1 = (stepCore c s r).1 := by
      unfold step at ha ⊢
      cases hst : stale s r
      · simp
      · simp [hst] at ha
    have := ih (stepCore c s r).1 (by rw [← hs, hl]; exact h2)
    simpa [run, runCore, List.foldl, hs] using this

/-- **streak_characterisation_run** — the first sentence of the property for the production step
    function including the stale-result filter: for every history with non-decreasing timestamps that
    consists of anything, then an OK/Up result, then `n` non-OK results, from any start state. -/
theorem streak_characterisation_run (c : Cfg) (hmax : 1 ≤ c.max) (s0 : St) (pre tail : List Res) (o : Res)
    (ho : isOK c.kind o.state = true) (ht : ∀ r ∈ tail, isOK c.kind r.state = false)
    (hts : NonDecr s0.lastExec (pre ++ [o] ++ tail)) :
    let s := run c s0 (pre ++ [o] ++ tail)
    let n := tail.length
    ((n = 0 ∨ c.max ≤ n) → s.stype = .hard ∧ s.attempt = 1) ∧
    ((0 < n ∧ n < c.max) → s.stype = .soft ∧ s.attempt = n) := by
  intro s n
  have := streak_characterisation c hmax s0 pre tail o ho ht
  simp only [s, run_eq_runCore c _ s0 hts]
  exact this

/-- The model drops a result only when the specification allows it (`mayDrop`): it is strictly older
    than the latest accepted one. -/
theorem dropped_only_if_older (c : Cfg) (s : St) (r : Res) (h : (step c s r).2.2 = false) :
    mayDrop s.lastExec r.execStart = true := by
  unfold step at h
  cases hs : stale s r
  · simp [hs] at h
  · unfold stale at hs
    cases hl : s.lastExec with
    | none => simp [hl] at hs
    | some cur =>
      simp only [hl] at hs
      by_cases hc : cur > r.now
      · simp [hc] at hs
      · simp [hc] at hs
        simp [mayDrop, hs]

/-- **dropped_changes_nothing.**  A result the model does not process leaves the state as it was,
    reports no event, and the specification's clause for dropped results accepts the observation. -/
theorem dropped_changes_nothing (c : Cfg) (s : St) (r : Res) (h : (step c s r).2.2 = false) :
    (step c s r).1 = s ∧ (step c s r).2.1 = .none ∧
    dropStep { last := some (stObs c s), hardAt := none, lastExec := s.lastExec } r (obsOf c (step c s r)) = none := by
  have hm := dropped_only_if_older c s r h
  have hst : stale s r = true := by
    unfold step at h
    cases hs : stale s r
    · simp [hs] at h
    · rfl
  simp [step, hst, dropStep, hm, obsOf, stObs, sameState]

/-- **host_projection.**  For hosts the state type, attempt, event and the recorded hard state depend on
    the results only through Up/Down: two start states and two results that agree after projection step
    to states that agree after projection, with the same event. -/
theorem host_projection (c : Cfg) (hk : c.kind = .host) (s1 s2 : St) (r1 r2 : Res)
    (hs : hostUp s1.state = hostUp s2.state) (ht : s1.stype = s2.stype) (ha : s1.attempt = s2.attempt)
    (hl : hostUp s1.lastHard = hostUp s2.lastHard)
    (hr : hostUp r1.state = hostUp r2.state) :
    hostUp (stepCore c s1 r1).1.state = hostUp (stepCore c s2 r2).1.state ∧
    (stepCore c s1 r1).1.stype = (stepCore c s2 r2).1.stype ∧
    (stepCore c s1 r1).1.attempt = (stepCore c s2 r2).1.attempt ∧
    hostUp (stepCore c s1 r1).1.lastHard = hostUp (stepCore c s2 r2).1.lastHard ∧
    (stepCore c s1 r1).2 = (stepCore c s2 r2).2 := by
  simp only [stepCore, nextTypeAttempt, eventOf, hardChangeOf, stateChange, isOK, hk, hs, ht, ha, hr,
    apply_ite hostUp, hl]
  simp

/-- What the property sees of a host's observation: everything through Up/Down. -/
def hostView (o : Obs) : Bool × Bool × SType × Nat × Bool × Ev :=
  (o.accepted, hostUp o.state, o.stype, o.attempt, hostUp o.lastHard, o.ev)

/-- Two host states the property cannot tell apart. -/
def HostSim (s1 s2 : St) : Prop :=
  hostUp s1.state = hostUp s2.state ∧ s1.stype = s2.stype ∧ s1.attempt = s2.attempt ∧
  hostUp s1.lastHard = hostUp s2.lastHard ∧ s1.lastExec = s2.lastExec

/-- **host_projection_trace** ("Hosts treat OK/WARNING as Up and CRITICAL/UNKNOWN as Down
    *throughout*").  Two histories of a host whose results agree pairwise after the Up/Down mapping
    (same timestamps), from start states that agree after the mapping, produce traces that agree after
    the mapping at every position: accepted/dropped, state type, attempt, event, Up/Down of the state
    and of the recorded hard state. -/
theorem host_projection_trace (c : Cfg) (hk : c.kind = .host) (rs : List (Res × Res))
    (hr : ∀ p ∈ rs, hostUp p.1.state = hostUp p.2.state ∧ p.1.execStart = p.2.execStart ∧ p.1.now = p.2.now) :
    ∀ s1 s2, HostSim s1 s2 →
      (trace c s1 (rs.map Prod.fst)).map (fun q => hostView q.2) =
      (trace c s2 (rs.map Prod.snd)).map (fun q => hostView q.2) := by
  induction rs with
  | nil => intro _ _ _; rfl
  | cons p rs ih =>
    intro s1 s2 hsim
    obtain ⟨hs, ht, ha, hl, he⟩ := hsim
    obtain ⟨h1, h2, h3⟩ := hr p (by simp)
    have ih' := ih (fun q hq => hr q (by simp [hq]))
    have hst : stale s1 p.1 = stale s2 p.2 := by simp [stale, he, h2, h3]
    simp only [List.map_cons, trace]
    cases hq : stale s2 p.2
    · rw [hq] at hst
      obtain ⟨g1, g2, g3, g4, g5⟩ := host_projection c hk s1 s2 p.1 p.2 hs ht ha hl h1
      simp only [step, hst, hq, Bool.false_eq_true, if_false, List.map_cons]
      congr 1
      · simp [hostView, obsOf, g1, g2, g3, g4, g5]
      · exact ih' _ _ ⟨g1, g2, g3, g4, by simp [stepCore, h2]⟩
    · rw [hq] at hst
      simp only [step, hst, hq, if_true, List.map_cons]
      congr 1
      · simp [hostView, obsOf, hs, ht, ha, hl]
      · exact ih' _ _ ⟨hs, ht, ha, hl, he⟩

/-- **soft_implies_last_hard_ok** (used by C02).  Along any history that starts in a state whose last
    hard state is OK/Up whenever it is soft, every soft state still has an OK/Up last hard state —
    for non-volatile objects. -/
theorem soft_implies_last_hard_ok (c : Cfg) (hv : c.volatile = false) (s : St) (r : Res) (n : Nat)
    (hi : Inv c s n) (hl : s.stype = .soft ∨ isOK c.kind s.state = true → isOK c.kind s.lastHard = true) :
    let s' := (stepCore c s r).1
    (s'.stype = .soft ∨ isOK c.kind s'.state = true → isOK c.kind s'.lastHard = true) := by
  intro s'
  obtain ⟨h0, h1, h2⟩ := hi
  cases hok : isOK c.kind r.state
  · rcases Nat.eq_zero_or_pos n with hn | hn
    · obtain ⟨a, b, d⟩ := h0 hn
      have hl' := hl (Or.inr a)
      by_cases hm : 1 ≥ c.max <;>
        simp [s', stepCore, nextTypeAttempt, hardChangeOf, hv, hok, a, b, d, hm, hl']
    · by_cases hlt : n < c.max
      · obtain ⟨a, b, d⟩ := h1 hn hlt
        have hl' := hl (Or.inl b)
        by_cases hm : n + 1 ≥ c.max <;>
          simp [s', stepCore, nextTypeAttempt, hardChangeOf, hv, hok, a, b, d, hm, hl']
      · obtain ⟨a, b, d⟩ := h2 hn (by omega)
        by_cases hm : 1 ≥ c.max <;>
          simp [s', stepCore, nextTypeAttempt, hardChangeOf, hv, hok, a, b, d, hm]
  · rcases Nat.eq_zero_or_pos n with hn | hn
    · obtain ⟨a, b, d⟩ := h0 hn
      have hl' := hl (Or.inr a)
      have hp := proj_eq_of_ok c.kind s.state r.state a hok
      simp [s', stepCore, nextTypeAttempt, hardChangeOf, stateChange_eq_proj, hv, hok, a, b, d, hl', hp]
    · by_cases hlt : n < c.max
      · obtain ⟨a, b, d⟩ := h1 hn hlt
        simp [s', stepCore, nextTypeAttempt, hardChangeOf, hv, hok, a, b, d]
      · obtain ⟨a, b, d⟩ := h2 hn (by omega)
        have hp := proj_ne_of_ok' c.kind s.state r.state a hok
        simp [s', stepCore, nextTypeAttempt, hardChangeOf, stateChange_eq_proj, hv, hok, a, b, d, hp]

/-- Service, max 3, not volatile (used by the F-C01a counterexample). -/
def exampleCfgO : Cfg := { kind := .service, max := 3, volatile := false }

/-- **concurrent_pair_meets_spec** ("after ANY sequence of check results": results processed at the same
    time still count as a sequence).  After every history from every start state, two further results
    processed one after the other — what an implementation shows that takes the object lock before it
    reads the state it computes from — satisfy the clause for concurrent pairs: the final state, type and
    attempt are those of the streak after both results, and each result carries a hard event exactly when
    the rule demands one at its place. -/
theorem concurrent_pair_meets_spec (c : Cfg) (hmax : 1 ≤ c.max) (s0 : St) (h0 : 1 ≤ s0.attempt)
    (rs : List Res) (a b : Res) :
    specPair c (specAfter c (specStart c s0) (trace c s0 rs)) a.state b.state
      (pairObsOf c (run c s0 rs) a b) = none := by
  have hr := rel_after c hmax rs _ _ (rel_start c hmax s0 h0)
  have := pairOrder_model c hmax _ _ a b hr
  simp [specPair, this]

/-- **concurrent_pair_step_meets_spec.**  The same for the production step with the stale-result filter, as the
    driver runs it: two results with one execution start, from any state related to the reader's bookkeeping —
    either the first is strictly older than the stored result (then dropping is allowed), or both are
    processed and the pair clause holds. -/
theorem concurrent_pair_step_meets_spec (c : Cfg) (hmax : 1 ≤ c.max) (sp : SpecSt) (s : St) (a b : Res)
    (hr : Rel c sp s) (he : b.execStart = a.execStart) :
    pairStep c sp s.lastExec a.state b.state a.execStart (pairObsStep c s a b) = none := by
  cases hst : stale s a
  · have hb : stale (stepCore c s a).1 b = false := by
      simp [stale, stepCore, he]
    have hobs : pairObsStep c s a b = pairObsOf c s a b := by
      simp [pairObsStep, pairObsOf, step, hst, hb]
    have := pairOrder_model c hmax sp s a b hr
    rw [hobs]
    simp [pairStep, pairObsOf, specPair]
    simp [pairObsOf] at this
    simp [this]
  · have hm : mayDrop s.lastExec a.execStart = true :=
      dropped_only_if_older c s a (by simp [step, hst])
    simp [pairStep, pairObsStep, step, hst, hm]

/-- Two states that represent the same streak agree in state type and attempt. -/
theorem inv_determines (c : Cfg) (s1 s2 : St) (n : Nat) (h1 : Inv c s1 n) (h2 : Inv c s2 n) :
    s1.stype = s2.stype ∧ s1.attempt = s2.attempt := by
  obtain ⟨a0, a1, a2⟩ := h1
  obtain ⟨b0, b1, b2⟩ := h2
  rcases Nat.eq_zero_or_pos n with hz | hp
  · obtain ⟨_, x, y⟩ := a0 hz; obtain ⟨_, x', y'⟩ := b0 hz; exact ⟨x.trans x'.symm, y.trans y'.symm⟩
  · by_cases hlt : n < c.max
    · obtain ⟨_, x, y⟩ := a1 hp hlt; obtain ⟨_, x', y'⟩ := b1 hp hlt; exact ⟨x.trans x'.symm, y.trans y'.symm⟩
    · obtain ⟨_, x, y⟩ := a2 hp (by omega); obtain ⟨_, x', y'⟩ := b2 hp (by omega)
      exact ⟨x.trans x'.symm, y.trans y'.symm⟩

/-- **concurrent_nonok_order_irrelevant.**  For two non-OK results the order in which concurrent calls get
    the object lock does not matter for the soft/hard state: both orders count two more results. -/
theorem concurrent_nonok_order_irrelevant (c : Cfg) (hmax : 1 ≤ c.max) (s : St) (n : Nat) (hi : Inv c s n)
    (a b : Res) (ha : isOK c.kind a.state = false) (hb : isOK c.kind b.state = false) :
    (stepCore c (stepCore c s a).1 b).1.stype = (stepCore c (stepCore c s b).1 a).1.stype ∧
    (stepCore c (stepCore c s a).1 b).1.attempt = (stepCore c (stepCore c s b).1 a).1.attempt :=
  inv_determines c _ _ (n + 1 + 1)
    (step_nonok c _ b (n + 1) hmax (step_nonok c s a n hmax hi ha) hb)
    (step_nonok c _ a (n + 1) hmax (step_nonok c s b n hmax hi hb) ha)

/-! ## A result whose state-change report is overtaken by the next result (F-C01a, repaired by b75b8e7)

The emission site used to re-read `GetStateType()` after the locked sections and after `OnNewCheckResult`; a
result held there reported according to what the NEXT result had written (witness kept in
corpus/C01/witnesses.ops).  The repaired code reports from the state type it computed itself, and the full
statement holds. -/

/-- **overtaken_event.**  A result reports the event the rule gives it at its place in the sequence, whatever is
    processed before it gets to report; and the overtaking result is an ordinary next step. -/
theorem overtaken_event (c : Cfg) (s : St) (a b : Res) :
    (stepOvertaken c s a b).1 = stepCore c s a ∧
    (stepOvertaken c s a b).2 = stepCore c (stepCore c s a).1 b := ⟨rfl, rfl⟩

/-- **overtaken_meets_spec.**  Both halves of an overtaken pair satisfy the whole specification for their line
    of the trace (state, attempt, event, hard-state bookkeeping), from every state related to the reader's
    bookkeeping — the first under the clause name of F-C01a — and the relations are kept. -/
theorem overtaken_meets_spec (c : Cfg) (hmax : 1 ≤ c.max) (sp : SpecSt) (h : HistSt) (s : St) (a b : Res)
    (hr : Rel c sp s) (hh : HRel c h s) :
    let oa := obsOf c ((stepOvertaken c s a b).1.1, (stepOvertaken c s a b).1.2, true)
    let ob := obsOf c ((stepOvertaken c s a b).2.1, (stepOvertaken c s a b).2.2, true)
    (overtakenStep c sp h a oa).1 = none ∧
    (fullStep c (overtakenStep c sp h a oa).2.1 (overtakenStep c sp h a oa).2.2 b ob).1 = none := by
  intro oa ob
  obtain ⟨e1, r1⟩ := spec_step c hmax sp s a hr
  obtain ⟨e2, h1⟩ := hist_step c h s a hh
  obtain ⟨f1, _⟩ := spec_step c hmax _ _ b r1
  obtain ⟨f2, _⟩ := hist_step c _ _ b h1
  have hacc : oa.accepted = true := rfl
  have hacc' : ob.accepted = true := rfl
  have hfa : fullStep c sp h a oa = (none, specNext c sp a.state, histNext h a oa) := by
    unfold fullStep; simp only [hacc, if_true]
    show ((specStep c sp a.state (obsOf c ((stepCore c s a).1, (stepCore c s a).2, true))).or
      (histStep c h a.state (obsOf c ((stepCore c s a).1, (stepCore c s a).2, true))), _, _) = _
    rw [e1, e2]; rfl
  have hoa : overtakenStep c sp h a oa = (none, specNext c sp a.state, histNext h a oa) := by
    unfold overtakenStep; rw [hfa]
  rw [hoa]
  refine ⟨rfl, ?_⟩
  unfold fullStep; simp only [hacc', if_true]
  show ((specStep c (specNext c sp a.state) b.state
      (obsOf c ((stepCore c (stepCore c s a).1 b).1, (stepCore c (stepCore c s a).1 b).2, true))).or
    (histStep c (histNext h a (obsOf c ((stepCore c s a).1, (stepCore c s a).2, true))) b.state
      (obsOf c ((stepCore c (stepCore c s a).1 b).1, (stepCore c (stepCore c s a).1 b).2, true)))) = none
  rw [f1, f2]; rfl

/-! ## Non-vacuity: concrete, non-trivial instances of the hypotheses and of the specification -/

/-- A service with max 3: OK, CRIT, CRIT, CRIT, WARN, OK from the pending state. -/
def exampleHistory : List Res :=
  [⟨.ok, 1, 1⟩, ⟨.critical, 2, 2⟩, ⟨.critical, 3, 3⟩, ⟨.critical, 4, 4⟩, ⟨.warning, 5, 5⟩, ⟨.ok, 6, 6⟩]

def exampleCfg : Cfg := { kind := .service, max := 3, volatile := false }

example : (trace exampleCfg pending exampleHistory).map (fun p => (p.2.stype, p.2.attempt, p.2.ev, p.2.lastHard, p.2.prevHard)) =
    [(.hard, 1, .hard, .ok, 99), (.soft, 1, .soft, .ok, 99), (.soft, 2, .soft, .ok, 99),
     (.hard, 1, .hard, .critical, 0), (.hard, 1, .hard, .warning, 2), (.hard, 1, .hard, .ok, 1)] := by
  decide

/-- A consistent observation of a service: state, type, attempt, last hard state, event, previous hard
    state, previous state. -/
def svcObs (acc : Bool) (st : SState) (ty : SType) (at_ : Nat) (lh : SState) (e : Ev) (ph : Nat) (ls : SState) : Obs :=
  { accepted := acc, state := st, stype := ty, attempt := at_, lastHard := lh, ev := e, prevHard := ph,
    vaState := st.toNat, vaType := ty.toNat, vaAttempt := at_,
    apiState := st.toNat, apiLastState := ls.toNat, apiLastHard := lh.toNat }

/-- The specification is not trivially true: an observation with the wrong attempt is rejected. -/
example : specFull exampleCfg specInit histInit
    [(⟨.ok, 1, 1⟩, svcObs true .ok .hard 1 .ok .hard 99 .unknown),
     (⟨.critical, 2, 2⟩, svcObs true .critical .soft 2 .ok .soft 99 .ok)]
    = some .streakSoft := by decide

/-- … and so is a missing hard event at the last retry. -/
example : specFull { exampleCfg with max := 2 } specInit histInit
    [(⟨.ok, 1, 1⟩, svcObs true .ok .hard 1 .ok .hard 99 .unknown),
     (⟨.critical, 2, 2⟩, svcObs true .critical .soft 1 .ok .soft 99 .ok),
     (⟨.unknown, 3, 3⟩, svcObs true .unknown .hard 1 .unknown .soft 99 .critical)]
    = some .event := by decide

/-- The volatile exemption is narrow: a volatile object that reports a *soft* event at the last retry is
    rejected (it is hard after that result) … -/
example : specFull { exampleCfg with volatile := true } specInit histInit
    [(⟨.ok, 1, 1⟩, svcObs true .ok .hard 1 .ok .hard 99 .unknown),
     (⟨.critical, 2, 2⟩, svcObs true .critical .soft 1 .critical .hard 0 .ok),
     (⟨.critical, 3, 3⟩, svcObs true .critical .soft 2 .critical .hard 2 .critical),
     (⟨.critical, 4, 4⟩, svcObs true .critical .hard 1 .critical .soft 2 .critical)]
    = some .event := by decide

/-- … and so is one that reports nothing when it returns from a soft state to OK. -/
example : specFull { exampleCfg with volatile := true } specInit histInit
    [(⟨.ok, 1, 1⟩, svcObs true .ok .hard 1 .ok .hard 99 .unknown),
     (⟨.critical, 2, 2⟩, svcObs true .critical .soft 1 .critical .hard 0 .ok),
     (⟨.ok, 3, 3⟩, svcObs true .ok .hard 1 .critical .none 0 .critical)]
    = some .event := by decide

/-- A hard event that does not record the new hard state is rejected … -/
example : specFull { exampleCfg with max := 1 } specInit histInit
    [(⟨.ok, 1, 1⟩, svcObs true .ok .hard 1 .ok .hard 99 .unknown),
     (⟨.critical, 2, 2⟩, svcObs true .critical .hard 1 .ok .hard 99 .ok)]
    = some .lastHardAtHardEvent := by decide

/-- … so is a hard state that moves without a hard event … -/
example : specFull exampleCfg specInit histInit
    [(⟨.ok, 1, 1⟩, svcObs true .ok .hard 1 .ok .hard 99 .unknown),
     (⟨.critical, 2, 2⟩, svcObs true .critical .soft 1 .critical .soft 99 .ok)]
    = some .lastHardUnchanged := by decide

/-- … a `previous_hard_state` that shows the current instead of the previous hard state (the two slots
    swapped) … -/
example : specFull { exampleCfg with max := 1 } specInit histInit
    [(⟨.ok, 1, 1⟩, svcObs true .ok .hard 1 .ok .hard 99 .unknown),
     (⟨.critical, 2, 2⟩, svcObs true .critical .hard 1 .critical .hard 2 .ok)]
    = some .previousHardState := by decide

/-- … and a dropped result that is not older, or that changes something. -/
example : specFull exampleCfg specInit histInit
    [(⟨.ok, 5, 5⟩, svcObs true .ok .hard 1 .ok .hard 99 .unknown),
     (⟨.critical, 5, 6⟩, svcObs false .ok .hard 1 .ok .none 99 .unknown)]
    = some .droppedAlthoughNotOlder := by decide

example : specFull exampleCfg specInit histInit
    [(⟨.ok, 5, 5⟩, svcObs true .ok .hard 1 .ok .hard 99 .unknown),
     (⟨.critical, 4, 6⟩, svcObs false .critical .hard 1 .ok .none 99 .unknown)]
    = some .droppedChangesSomething := by decide

/-- A lost update is rejected: after OK, CRITICAL (max 3) two concurrent CRITICAL results must leave the
    service hard — soft with attempt 2 (both computed from the same old state) is no sequence … -/
example : specPair exampleCfg { everOk := true, streak := 1, prev := .critical } .critical .critical
    { accA := true, accB := true, state := .critical, stype := .soft, attempt := 2, lastHard := .ok, hardA := 0, hardB := 0 }
    = some .concurrentSerial := by decide

/-- … the serialised outcome is accepted, in either order of the hard event … -/
example : specPair exampleCfg { everOk := true, streak := 1, prev := .critical } .critical .warning
    { accA := true, accB := true, state := .critical, stype := .hard, attempt := 1, lastHard := .critical, hardA := 1, hardB := 0 }
    = none := by decide

/-- … and a pair none of which may be dropped is rejected when one is. -/
example : pairStep exampleCfg specInit (some 5) .ok .critical 5
    { accA := true, accB := false, state := .ok, stype := .hard, attempt := 1, lastHard := .ok, hardA := 1, hardB := 0 }
    = some .droppedAlthoughNotOlder := by decide

/-- The specification is not vacuous there: the report the unrepaired code gave in the witness of F-C01a (service,
    max 3, OK, CRITICAL, then CRITICAL overtaken by CRITICAL: no event for the soft re-check) is rejected under
    the clause's own name. -/
example : (overtakenStep exampleCfgO { everOk := true, streak := 1, prev := .critical }
      { last := none, hardAt := none, lastExec := some 2 } ⟨.critical, 3, 3⟩
      (svcObs true .critical .soft 2 .ok .none 99 .critical)).1 = some .eventOvertaken := by decide

/-- `NonDecr` holds of the example history from the pending state (premise of
    `streak_characterisation_run`). -/
example : NonDecr pending.lastExec exampleHistory := by
  simp [NonDecr, exampleHistory, pending]

/-- `Inv` is satisfiable at every streak length (premise of `event_spec`). -/
example : Inv exampleCfg { pending with state := .critical, attempt := 2, lastHard := .ok } 2 := by
  simp [Inv, exampleCfg, isOK, pending]

/-- A restored start state in the middle of a retry series is held to the whole property at once:
    `specStart` reads streak 2 from (CRITICAL, soft, 2). -/
example : specStart exampleCfg { pending with state := .critical, attempt := 2, lastHard := .ok, hist := 99 } =
    { everOk := true, streak := 2, prev := .critical } := by decide

/-- Premises of `host_projection_trace` on a non-trivial pair: OK/CRITICAL/UNKNOWN against
    WARNING/UNKNOWN/CRITICAL. -/
example : HostSim pending pending ∧
    ∀ p ∈ [((⟨.ok, 1, 1⟩ : Res), (⟨.warning, 1, 1⟩ : Res)), (⟨.critical, 2, 2⟩, ⟨.unknown, 2, 2⟩)],
      hostUp p.1.state = hostUp p.2.state ∧ p.1.execStart = p.2.execStart ∧ p.1.now = p.2.now := by
  refine ⟨⟨rfl, rfl, rfl, rfl, rfl⟩, ?_⟩
  intro p hp
  simp at hp
  rcases hp with rfl | rfl <;> decide

end Icinga.C01

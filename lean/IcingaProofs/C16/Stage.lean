/-
  C16 — helper lemmas for the two-stage commit (`indexedStaged`) and for API queries of a user whose permission
  carries a filter (`apiTargetsP` / `apiSlowP`).
-/
import IcingaProofs.C16.Lemmas

namespace Icinga.C16

/-! ### two-stage commit -/

theorem mem_indexedOutcomes {w : World} {rules : Rules} {inv : Inventory} {o : Outcome} :
    o ∈ indexedOutcomes w rules inv ↔ ∃ t ∈ allTargets inv, o ∈ indexedOn w rules t := by
  simp only [indexedOutcomes, List.mem_flatMap]

/-- every target is committed in exactly one of the two stages -/
theorem mem_allTargets_split (inv : Inventory) (l : Late) (t : Val) :
    t ∈ allTargets inv ↔ (t ∈ allTargets (earlyInv inv l) ∨ t ∈ allTargets (lateInv inv l)) := by
  simp only [allTargets, targets, earlyInv, lateInv, List.mem_append, List.mem_map, List.mem_filter]
  constructor
  · rintro (⟨h, hh, rfl⟩ | ⟨p, hp, rfl⟩)
    · cases hl : l.host h
      · exact Or.inl (Or.inl ⟨h, ⟨hh, by simp [hl]⟩, rfl⟩)
      · exact Or.inr (Or.inl ⟨h, ⟨hh, hl⟩, rfl⟩)
    · cases hl : l.service p
      · exact Or.inl (Or.inr ⟨p, ⟨hp, by simp [hl]⟩, rfl⟩)
      · exact Or.inr (Or.inr ⟨p, ⟨hp, hl⟩, rfl⟩)
  · rintro ((⟨h, ⟨hh, _⟩, rfl⟩ | ⟨p, ⟨hp, _⟩, rfl⟩) | (⟨h, ⟨hh, _⟩, rfl⟩ | ⟨p, ⟨hp, _⟩, rfl⟩))
    · exact Or.inl ⟨h, hh, rfl⟩
    · exact Or.inr ⟨p, hp, rfl⟩
    · exact Or.inl ⟨h, hh, rfl⟩
    · exact Or.inr ⟨p, hp, rfl⟩

theorem mem_allTargets_extend {inv : Inventory} {os : List Outcome} {t : Val} :
    t ∈ allTargets (extend inv os) ↔ (t ∈ allTargets inv ∨ ∃ p ∈ createdServices os, t = .service p.1 p.2) := by
  simp only [allTargets, targets, extend, List.mem_append, List.mem_map]
  constructor
  · rintro (h | ⟨p, hp | hp, rfl⟩)
    · exact Or.inl (Or.inl h)
    · exact Or.inl (Or.inr ⟨p, hp, rfl⟩)
    · exact Or.inr ⟨p, hp, rfl⟩
  · rintro ((h | ⟨p, hp, rfl⟩) | ⟨p, hp, rfl⟩)
    · exact Or.inl h
    · exact Or.inr ⟨p, Or.inl hp, rfl⟩
    · exact Or.inr ⟨p, Or.inr hp, rfl⟩

/-- the first round of the two stages together is the first round of the one commit -/
theorem indexedOutcomes_split (w : World) (rules : Rules) (inv : Inventory) (l : Late) (o : Outcome) :
    o ∈ indexedOutcomes w rules inv ↔
      (o ∈ indexedOutcomes w rules (earlyInv inv l) ∨ o ∈ indexedOutcomes w rules (lateInv inv l)) := by
  simp only [mem_indexedOutcomes]
  constructor
  · rintro ⟨t, ht, ho⟩
    rcases (mem_allTargets_split inv l t).mp ht with h | h
    · exact Or.inl ⟨t, h, ho⟩
    · exact Or.inr ⟨t, h, ho⟩
  · rintro (⟨t, ht, ho⟩ | ⟨t, ht, ho⟩)
    · exact ⟨t, (mem_allTargets_split inv l t).mpr (Or.inl ht), ho⟩
    · exact ⟨t, (mem_allTargets_split inv l t).mpr (Or.inr ht), ho⟩

theorem createdServices_split (w : World) (rules : Rules) (inv : Inventory) (l : Late) (p : String × String) :
    p ∈ createdServices (indexedOutcomes w rules inv) ↔
      (p ∈ createdServices (indexedOutcomes w rules (earlyInv inv l)) ∨
       p ∈ createdServices (indexedOutcomes w rules (lateInv inv l))) := by
  simp only [mem_createdServices]
  constructor
  · rintro ⟨c, hc, hx⟩
    rcases (indexedOutcomes_split w rules inv l _).mp hc with h | h
    · exact Or.inl ⟨c, h, hx⟩
    · exact Or.inr ⟨c, h, hx⟩
  · rintro (⟨c, hc, hx⟩ | ⟨c, hc, hx⟩)
    · exact ⟨c, (indexedOutcomes_split w rules inv l _).mpr (Or.inl hc), hx⟩
    · exact ⟨c, (indexedOutcomes_split w rules inv l _).mpr (Or.inr hc), hx⟩

/-- the targets of the second round (declared and created services) split the same way -/
theorem allTargets_extend_split (w : World) (rules : Rules) (inv : Inventory) (l : Late) (t : Val) :
    t ∈ allTargets (extend inv (indexedOutcomes w rules inv)) ↔
      (t ∈ allTargets (extend (earlyInv inv l) (indexedOutcomes w rules (earlyInv inv l))) ∨
       t ∈ allTargets (extend (lateInv inv l) (indexedOutcomes w rules (lateInv inv l)))) := by
  simp only [mem_allTargets_extend]
  constructor
  · rintro (h | ⟨p, hp, rfl⟩)
    · rcases (mem_allTargets_split inv l t).mp h with h | h
      · exact Or.inl (Or.inl h)
      · exact Or.inr (Or.inl h)
    · rcases (createdServices_split w rules inv l p).mp hp with h | h
      · exact Or.inl (Or.inr ⟨p, h, rfl⟩)
      · exact Or.inr (Or.inr ⟨p, h, rfl⟩)
  · rintro ((h | ⟨p, hp, rfl⟩) | (h | ⟨p, hp, rfl⟩))
    · exact Or.inl ((mem_allTargets_split inv l t).mpr (Or.inl h))
    · exact Or.inr ⟨p, (createdServices_split w rules inv l p).mpr (Or.inl hp), rfl⟩
    · exact Or.inl ((mem_allTargets_split inv l t).mpr (Or.inr h))
    · exact Or.inr ⟨p, (createdServices_split w rules inv l p).mpr (Or.inr hp), rfl⟩

/-- the two stages together evaluate exactly what the one commit evaluates -/
theorem stagedOutcomes_iff (w : World) (rules : Rules) (inv : Inventory) (l : Late) (o : Outcome) :
    o ∈ indexedFullOutcomes w rules (earlyInv inv l) ++ indexedFullOutcomes w rules (lateInv inv l) ↔
      o ∈ indexedFullOutcomes w rules inv := by
  simp only [indexedFullOutcomes, List.mem_append, mem_indexedOutcomes]
  constructor
  · rintro (⟨t, ht, ho⟩ | ⟨t, ht, ho⟩)
    · exact ⟨t, (allTargets_extend_split w rules inv l t).mpr (Or.inl ht), ho⟩
    · exact ⟨t, (allTargets_extend_split w rules inv l t).mpr (Or.inr ht), ho⟩
  · rintro ⟨t, ht, ho⟩
    rcases (allTargets_extend_split w rules inv l t).mp ht with h | h
    · exact Or.inl ⟨t, h, ho⟩
    · exact Or.inr ⟨t, h, ho⟩

theorem indexedStaged_equiv (w : World) (rules : Rules) (inv : Inventory) (l : Late) :
    (indexedStaged w rules inv l).Equiv (indexedFull w rules inv) := by
  unfold indexedStaged indexedFull indexed
  exact loadResult_equiv fun o _ => stagedOutcomes_iff w rules inv l o

/-! ### permission filters -/

theorem targets_restrict (inv : Inventory) (perm : Val → Bool) (ty : TgtType) :
    targets (restrictInv inv perm) ty = (targets inv ty).filter perm := by
  cases ty <;> simp only [targets, restrictInv, List.filter_map] <;> rfl

theorem apiSlowP_eq (w : World) (fvars : Option (List (String × Val))) (ty : TgtType) (e : Expr) (inv : Inventory)
    (perm : Val → Bool) : apiSlowP w fvars ty e inv (totalPerm perm) = apiSlow w fvars ty e (restrictInv inv perm) := by
  unfold apiSlowP apiSlow
  rw [targets_restrict]
  generalize targets inv ty = ts
  induction ts with
  | nil => rfl
  | cons t ts ih =>
    simp only [List.foldr_cons, List.filter_cons, totalPerm]
    cases hp : perm t
    · simpa [totalPerm] using ih
    · simp only [if_true, List.foldr_cons]
      rw [← ih]
      rfl

theorem permFilter_total (perm : Val → Bool) (l : List Val) : permFilter (totalPerm perm) l = some (l.filter perm) := by
  induction l with
  | nil => rfl
  | cons t ts ih =>
    simp only [permFilter, ih, totalPerm, List.filter_cons]
    cases perm t <;> simp

theorem contains_filter (ts : List Val) (perm : Val → Bool) (t : Val) :
    (ts.filter perm).contains t = (perm t && ts.contains t) := by
  rw [Bool.eq_iff_iff]
  simp only [List.contains_iff_mem, List.mem_filter, Bool.and_eq_true, and_comm]

theorem apiTargetsP_eq (w : World) (fvars : Option (List (String × Val))) (ty : TgtType) (e : Expr) (inv : Inventory)
    (perm : Val → Bool) : apiTargetsP w fvars ty e inv (totalPerm perm) = apiTargets w fvars ty e (restrictInv inv perm) := by
  unfold apiTargetsP apiTargets
  simp only [apiSlowP_eq, permFilter_total]
  split
  · rfl
  · cases ty with
    | host =>
      simp only
      split
      · simp only [targets_restrict, List.filter_filter, contains_filter]
      · rfl
    | service =>
      simp only
      split
      · simp only [targets_restrict, List.filter_filter, contains_filter]
      · rfl

theorem permFilter_mem {perm : Val → Option Bool} {l l' : List Val} (h : permFilter perm l = some l') :
    ∀ t ∈ l', perm t = some true := by
  induction l generalizing l' with
  | nil => simp only [permFilter, Option.some.injEq] at h; subst h; simp
  | cons a ts ih =>
    simp only [permFilter] at h
    split at h
    · next l'' hp hl =>
      simp only [Option.some.injEq] at h; subst h
      intro t ht
      rcases List.mem_cons.mp ht with rfl | ht
      · exact hp
      · exact ih hl t ht
    · next l'' hp hl =>
      simp only [Option.some.injEq] at h; subst h
      exact ih hl
    · cases h

theorem apiSlowP_mem {w : World} {fvars : Option (List (String × Val))} {ty : TgtType} {e : Expr} {inv : Inventory}
    {perm : Val → Option Bool} {l : List Val} (h : apiSlowP w fvars ty e inv perm = some l) :
    ∀ t ∈ l, perm t = some true := by
  unfold apiSlowP at h
  generalize targets inv ty = ts at h
  induction ts generalizing l with
  | nil => simp only [List.foldr_nil, Option.some.injEq] at h; subst h; simp
  | cons a ts ih =>
    simp only [List.foldr_cons] at h
    split at h
    · cases h
    · exact ih h
    · next hp =>
      split at h
      · next l'' hacc =>
        simp only [Option.some.injEq] at h; subst h
        intro t ht
        rcases List.mem_cons.mp ht with rfl | ht
        · exact hp
        · exact ih hacc t ht
      · next l'' hacc =>
        simp only [Option.some.injEq] at h; subst h
        exact ih hacc
      · cases h

end Icinga.C16

/-
  C16 — helper lemmas for IcingaProofs/C16.lean.
-/
import IcingaModel.C16.Spec

namespace Icinga.C16

/-- the recogniser's constants are what the evaluation sees under the same names -/
def ConstsAgree (consts : Consts) (env : Env) : Prop :=
  ∀ c, consts = some c → ∀ x v, c x = some v → env.vars x = some v

theorem constsAgree_none (env : Env) : ConstsAgree none env := by
  intro c h; cases h

theorem getConst_sound {consts : Consts} {env : Env} (hc : ConstsAgree consts env) {e : Expr} {v : Val}
    (h : getConst consts e = some v) : eval env e = some v := by
  cases e <;> simp [getConst] at h
  case lit v' => simp [eval, h]
  case var x =>
    cases hcs : consts with
    | none => simp [hcs] at h
    | some c => simp [hcs] at h; simp [eval, hc c hcs x v h]

theorem getConstString_sound {consts : Consts} {env : Env} (hc : ConstsAgree consts env) {e : Expr} {s : String}
    (h : getConstString consts e = some s) : eval env e = some (.str s) := by
  unfold getConstString at h
  split at h
  · next s' hs => cases h; exact getConst_sound hc hs
  · cases h

/-- `o` is a host or service object whose `name` field is `n` -/
def HasName : Val → String → Prop
  | .host a, n => a = n
  | .service _ s, n => s = n
  | _, _ => False

theorem getField_name {env : Env} {o : Val} {n : String} (h : HasName o n) :
    getField env o (.str "name") = some (.str n) := by
  cases o <;> simp [HasName] at h <;> simp [getField, h]

theorem isNameIndexer_sound {consts : Consts} {env : Env} (hc : ConstsAgree consts env) {lc : String} {e : Expr}
    {o : Val} {n : String} (hv : env.vars lc = some o) (ho : HasName o n)
    (h : isNameIndexer consts lc e = true) : eval env e = some (.str n) := by
  unfold isNameIndexer at h
  split at h
  · next x f =>
    simp at h
    obtain ⟨hx, hf⟩ := h
    subst hx
    simp [eval, hv, getConstString_sound hc hf, getField_name ho]
  · cases h

theorem getComparedName_sound {consts : Consts} {env : Env} (hc : ConstsAgree consts env) {lc : String} {e : Expr}
    {o : Val} {n s : String} (hv : env.vars lc = some o) (ho : HasName o n)
    (h : getComparedName consts lc e = some s) : eval env e = some (.bool (decide (n = s))) := by
  unfold getComparedName at h
  split at h
  · next a b =>
    split at h
    · next ha =>
      simp [eval, isNameIndexer_sound hc hv ho ha, getConstString_sound hc h, valEq]
      by_cases hns : n = s <;> simp [hns]
    · split at h
      · next hb =>
        simp [eval, isNameIndexer_sound hc hv ho hb, getConstString_sound hc h, valEq]
        by_cases hns : n = s
        · simp [hns]
        · have : ¬ s = n := fun h' => hns h'.symm
          simp [hns, this]
      · cases h
  · cases h


/-! ### GetTargetHosts / GetTargetServices decide exactly membership in the extracted name list -/

theorem getTargetHosts_sound {consts : Consts} {env : Env} (hc : ConstsAgree consts env) {h : String}
    (hv : env.vars "host" = some (.host h)) :
    ∀ {e : Expr} {names : List String}, getTargetHosts consts e = some names →
      eval env e = some (.bool (decide (h ∈ names))) := by
  intro e
  induction e with
  | or a b iha ihb =>
    intro names hn
    simp only [getTargetHosts] at hn
    split at hn
    · next l₁ l₂ h₁ h₂ =>
      cases hn
      simp only [eval, iha h₁, ihb h₂, Option.bind_some, Val.truthy]
      by_cases hm : h ∈ l₁ <;> simp [hm]
    · cases hn
  | lit _ | var _ | idx _ _ | eq _ _ | ne _ _ | and _ _ | not _ | other _ =>
    intro names hn
    simp only [getTargetHosts, Option.map_eq_some_iff] at hn
    obtain ⟨n, hcn, rfl⟩ := hn
    have := getComparedName_sound hc hv (show HasName (.host h) h from rfl) hcn
    simp [this]

theorem getTargetService_sound {consts : Consts} {env : Env} (hc : ConstsAgree consts env) {h s : String}
    (hvh : env.vars "host" = some (.host h)) (hvs : env.vars "service" = some (.service h s))
    {e : Expr} {p : String × String} (hp : getTargetService consts e = some p) :
    eval env e = some (.bool (decide ((h, s) = p))) := by
  unfold getTargetService at hp
  split at hp
  · next a b =>
    split at hp
    · next hn hh =>
      simp only [Option.map_eq_some_iff] at hp
      obtain ⟨sn, hs, rfl⟩ := hp
      have e1 := getComparedName_sound hc hvh (show HasName (.host h) h from rfl) hh
      have e2 := getComparedName_sound hc hvs (show HasName (.service h s) s from rfl) hs
      simp only [eval, e1, e2, Option.bind_some, Val.truthy]
      by_cases h1 : h = hn <;> by_cases h2 : s = sn <;> simp [h1, h2]
    · split at hp
      · next hn hh =>
        simp only [Option.map_eq_some_iff] at hp
        obtain ⟨sn, hs, rfl⟩ := hp
        have e1 := getComparedName_sound hc hvh (show HasName (.host h) h from rfl) hh
        have e2 := getComparedName_sound hc hvs (show HasName (.service h s) s from rfl) hs
        simp only [eval, e1, e2, Option.bind_some, Val.truthy]
        by_cases h1 : h = hn <;> by_cases h2 : s = sn <;> simp [h1, h2]
      · cases hp
  · cases hp

theorem getTargetServices_sound {consts : Consts} {env : Env} (hc : ConstsAgree consts env) {h s : String}
    (hvh : env.vars "host" = some (.host h)) (hvs : env.vars "service" = some (.service h s)) :
    ∀ {e : Expr} {names : List (String × String)}, getTargetServices consts e = some names →
      eval env e = some (.bool (decide ((h, s) ∈ names))) := by
  intro e
  induction e with
  | or a b iha ihb =>
    intro names hn
    simp only [getTargetServices] at hn
    split at hn
    · next l₁ l₂ h₁ h₂ =>
      cases hn
      simp only [eval, iha h₁, ihb h₂, Option.bind_some, Val.truthy]
      by_cases hm : (h, s) ∈ l₁ <;> simp [hm]
    · cases hn
  | lit _ | var _ | idx _ _ | eq _ _ | ne _ _ | and _ _ | not _ | other _ =>
    intro names hn
    simp only [getTargetServices, Option.map_eq_some_iff] at hn
    obtain ⟨n, hcn, rfl⟩ := hn
    have := getTargetService_sound hc hvh hvs hcn
    simp [this]

/-! ### frames -/

theorem bindAll_of_not_mem {l : List (String × Val)} {f : String → Option Val} {x : String}
    (h : ∀ p ∈ l, p.1 ≠ x) : bindAll l f x = f x := by
  unfold bindAll
  induction l generalizing f with
  | nil => rfl
  | cons p l ih =>
    simp only [List.foldl_cons]
    rw [ih (fun q hq => h q (List.mem_cons_of_mem _ hq))]
    have : p.1 ≠ x := h p List.mem_cons_self
    have h2 : ¬ x = p.1 := fun h' => this h'.symm
    simp [bind, h2]

/-- the names a rule binds on top of `host`/`service` -/
theorem instancesOf_binds {r : Rule} {fv : ForVal} {is : List Inst} (h : instancesOf r fv = some is) :
    ∀ i ∈ is, ∀ p ∈ i.binds, p.1 = r.fkvar ∨ p.1 = r.fvvar := by
  intro i hi p hp
  cases fv with
  | err => simp [instancesOf] at h; subst h; cases hi
  | other => simp [instancesOf] at h; subst h; cases hi
  | arr l =>
    simp only [instancesOf] at h
    split at h
    · cases h
    · cases h
      simp only [List.mem_map] at hi
      obtain ⟨v, _, rfl⟩ := hi
      split at hp
      · simp at hp; left; rw [hp]
      · cases hp
  | dict l =>
    simp only [instancesOf] at h
    split at h
    · cases h
    · cases h
      simp only [List.mem_map] at hi
      obtain ⟨kv, _, rfl⟩ := hi
      simp at hp
      rcases hp with rfl | rfl
      · left; rfl
      · right; rfl

theorem instances_binds {r : Rule} {t : Val} {is : List Inst} (h : instances r t = some is) :
    ∀ i ∈ is, ∀ p ∈ i.binds, p.1 = r.fkvar ∨ p.1 = r.fvvar := instancesOf_binds h

def boundNames : TgtType → List String
  | .host => ["host"]
  | .service => ["host", "service"]

/-- the loop variables do not shadow the target variables -/
def NoShadow (r : Rule) : Prop := r.fkvar ∉ boundNames r.tgt ∧ r.fvvar ∉ boundNames r.tgt

theorem mem_targets_host {inv : Inventory} {t : Val} (h : t ∈ targets inv .host) : ∃ n, t = .host n := by
  simp [targets] at h; obtain ⟨n, _, rfl⟩ := h; exact ⟨n, rfl⟩

theorem mem_targets_service {inv : Inventory} {t : Val} (h : t ∈ targets inv .service) :
    ∃ a b, t = .service a b := by
  simp [targets] at h; obtain ⟨a, b, _, rfl⟩ := h; exact ⟨a, b, rfl⟩

/-- With the target variables unshadowed, a recognised filter evaluates — without raising — to "the target
    is one of the indexed names". -/
theorem targeted_filter_eval (w : World) {inv : Inventory} {r : Rule} {ns : List Val} {t : Val} {is : List Inst}
    {i : Inst} (hns : targetedNames r = some ns) (hsh : NoShadow r) (ht : t ∈ targets inv r.tgt)
    (his : instances r t = some is) (hi : i ∈ is) :
    evalFilter (instEnv w r t i) r.filter = some (ns.contains t) := by
  have hb := instances_binds his i hi
  unfold targetedNames at hns
  split at hns
  · cases hns
  rename_i hnofor
  cases htg : r.tgt with
  | host =>
    rw [htg] at ht hns
    obtain ⟨h, rfl⟩ := mem_targets_host ht
    simp only [Option.map_eq_some_iff] at hns
    obtain ⟨names, hn, rfl⟩ := hns
    have hv : (instEnv w r (.host h) i).vars "host" = some (.host h) := by
      simp only [instEnv]
      rw [bindAll_of_not_mem]
      · simp [baseVars, bind, hostOf]
      · intro p hp hpe
        have hs := hsh
        simp only [NoShadow, htg, boundNames, List.mem_singleton] at hs
        rcases hb p hp with h1 | h1
        · exact hs.1 (h1 ▸ hpe)
        · exact hs.2 (h1 ▸ hpe)
    have := getTargetHosts_sound (constsAgree_none _) hv hn
    simp only [evalFilter, this, Option.map_some, Val.truthy]
    congr 1
    by_cases hm : h ∈ names
    · simp [hm]
    · simp [hm]
  | service =>
    rw [htg] at ht hns
    obtain ⟨h, s, rfl⟩ := mem_targets_service ht
    simp only [Option.map_eq_some_iff] at hns
    obtain ⟨names, hn, rfl⟩ := hns
    have hs := hsh
    simp only [NoShadow, htg, boundNames, List.mem_cons, List.not_mem_nil, or_false, not_or] at hs
    have hvh : (instEnv w r (.service h s) i).vars "host" = some (.host h) := by
      simp only [instEnv]
      rw [bindAll_of_not_mem]
      · simp [baseVars, bind, hostOf]
      · intro p hp hpe
        rcases hb p hp with h1 | h1
        · exact hs.1.1 (h1 ▸ hpe)
        · exact hs.2.1 (h1 ▸ hpe)
    have hvs : (instEnv w r (.service h s) i).vars "service" = some (.service h s) := by
      simp only [instEnv]
      rw [bindAll_of_not_mem]
      · simp [baseVars, bind]
      · intro p hp hpe
        rcases hb p hp with h1 | h1
        · exact hs.1.2 (h1 ▸ hpe)
        · exact hs.2.2 (h1 ▸ hpe)
    have := getTargetServices_sound (constsAgree_none _) hvh hvs hn
    simp only [evalFilter, this, Option.map_some, Val.truthy]
    congr 1
    by_cases hm : (h, s) ∈ names
    · simp [hm]
    · simp [hm]

/-! ### load results as sets -/

/-- both rejected, or both accepted with the same *set* of created objects -/
def LoadResult.Equiv : LoadResult → LoadResult → Prop
  | .rejected, .rejected => True
  | .accepted a, .accepted b => ∀ c, c ∈ a ↔ c ∈ b
  | _, _ => False

theorem any_isError {os : List Outcome} : os.any Outcome.isError = true ↔ Outcome.error ∈ os := by
  simp only [List.any_eq_true]
  constructor
  · rintro ⟨o, ho, he⟩
    cases o <;> simp [Outcome.isError] at he
    exact ho
  · intro h; exact ⟨_, h, rfl⟩

theorem mem_created {os : List Outcome} {c : Created} :
    c ∈ os.filterMap Outcome.created? ↔ Outcome.create c ∈ os := by
  simp only [List.mem_filterMap]
  constructor
  · rintro ⟨o, ho, hc⟩
    cases o <;> simp [Outcome.created?] at hc
    subst hc; exact ho
  · intro h; exact ⟨_, h, rfl⟩

/-- outcome lists that agree on errors and creations (skips do not count) give equivalent load results -/
theorem loadResult_equiv {os₁ os₂ : List Outcome}
    (h : ∀ o, o ≠ Outcome.skip → (o ∈ os₁ ↔ o ∈ os₂)) : (loadResult os₁).Equiv (loadResult os₂) := by
  have he : (os₁.any Outcome.isError = true) ↔ (os₂.any Outcome.isError = true) := by
    rw [any_isError, any_isError]; exact h _ (by simp)
  unfold loadResult
  by_cases h1 : os₁.any Outcome.isError = true
  · have h2 := he.mp h1
    simp [h1, h2, LoadResult.Equiv]
  · have h2 : ¬ os₂.any Outcome.isError = true := fun h' => h1 (he.mpr h')
    simp only [h1, h2, LoadResult.Equiv]
    intro c
    rw [mem_created, mem_created]
    exact h _ (by simp)

theorem LoadResult.Equiv.refl (a : LoadResult) : a.Equiv a := by
  cases a <;> simp [LoadResult.Equiv]

/-! ### indexed vs plain on one rule and one target -/

/-- For a recognised rule whose loop variables do not shadow `host`/`service` and whose `for` value has the
    right kind on `t`: evaluating with the filter produces (errors and creations) exactly what the index
    produces — everything if `t` is one of the names, nothing otherwise. -/
theorem evalRule_targeted (w : World) {inv : Inventory} {id : Nat} {r : Rule} {ns : List Val} {t : Val}
    (hns : targetedNames r = some ns) (hsh : NoShadow r) (ht : t ∈ targets inv r.tgt)
    (hok : (instances r t).isSome) (o : Outcome) (ho : o ≠ .skip) :
    o ∈ evalRule w false id r t ↔ (ns.contains t = true ∧ o ∈ evalRule w true id r t) := by
  obtain ⟨is, his⟩ := Option.isSome_iff_exists.mp hok
  simp only [evalRule, his, List.mem_map]
  cases hcb : ns.contains t with
  | false =>
    constructor
    · rintro ⟨i, hi, rfl⟩
      have hf := targeted_filter_eval w hns hsh ht his hi
      rw [hcb] at hf
      exact absurd (by simp only [evalInstance, hf]; rfl) ho
    · rintro ⟨hc, _⟩; cases hc
  | true =>
    constructor
    · rintro ⟨i, hi, rfl⟩
      exact ⟨rfl, i, hi, by
        have hf := targeted_filter_eval w hns hsh ht his hi
        rw [hcb] at hf
        simp only [evalInstance, hf]; rfl⟩
    · rintro ⟨_, i, hi, rfl⟩
      refine ⟨i, hi, ?_⟩
      have hf := targeted_filter_eval w hns hsh ht his hi
      rw [hcb] at hf
      simp only [evalInstance, hf]; rfl

theorem mem_allTargets_tgt {inv : Inventory} {t : Val} {ty : TgtType} (h : t ∈ allTargets inv)
    (hty : tgtOf t = some ty) : t ∈ targets inv ty := by
  simp only [allTargets, List.mem_append] at h
  rcases h with h | h
  · obtain ⟨n, rfl⟩ := mem_targets_host h
    simp [tgtOf] at hty; subst hty; exact h
  · obtain ⟨a, b, rfl⟩ := mem_targets_service h
    simp [tgtOf] at hty; subst hty; exact h

/-- The hypothesis the proof forces (both parts have kernel-checked counterexamples, F-C16a/F-C16b):
    a rule that the recogniser accepts must not name a loop variable `host`/`service`, and its `for` value
    must have the kind its loop header expects on every target of its type. -/
def IndexSafe (inv : Inventory) (r : Rule) : Prop :=
  (targetedNames r).isSome → NoShadow r ∧ ∀ t ∈ targets inv r.tgt, (instances r t).isSome

theorem indexedOn_iff_plainOn (w : World) {rules : Rules} {inv : Inventory} {t : Val}
    (hsafe : ∀ p ∈ rules, IndexSafe inv p.2) (ht : t ∈ allTargets inv) (o : Outcome) (ho : o ≠ .skip) :
    o ∈ indexedOn w rules t ↔ o ∈ plainOn w rules t := by
  simp only [indexedOn, plainOn, List.mem_append, List.mem_flatMap, List.mem_filter, Bool.and_eq_true,
    beq_iff_eq, Option.isNone_iff_eq_none]
  constructor
  · rintro (⟨p, ⟨hp, hty, hn⟩, hm⟩ | ⟨p, ⟨hp, hty, hn⟩, hm⟩)
    · exact ⟨p, ⟨hp, hty⟩, hm⟩
    · refine ⟨p, ⟨hp, hty⟩, ?_⟩
      cases hns : targetedNames p.2 with
      | none => simp [hns] at hn
      | some ns =>
        simp only [hns] at hn
        obtain ⟨hsh, hok⟩ := hsafe p hp (by simp [hns])
        have htt := mem_allTargets_tgt ht hty
        exact (evalRule_targeted w hns hsh htt (hok t htt) o ho).mpr ⟨hn, hm⟩
  · rintro ⟨p, ⟨hp, hty⟩, hm⟩
    cases hns : targetedNames p.2 with
    | none => exact Or.inl ⟨p, ⟨hp, hty, hns⟩, hm⟩
    | some ns =>
      obtain ⟨hsh, hok⟩ := hsafe p hp (by simp [hns])
      have htt := mem_allTargets_tgt ht hty
      obtain ⟨hc, hm'⟩ := (evalRule_targeted w hns hsh htt (hok t htt) o ho).mp hm
      exact Or.inr ⟨p, ⟨hp, hty, by simp only [hns, hc]⟩, hm'⟩

/-! ### API -/

theorem bindAll_mono {l : List (String × Val)} {f g : String → Option Val}
    (h : ∀ x v, f x = some v → g x = some v) : ∀ x v, bindAll l f x = some v → bindAll l g x = some v := by
  unfold bindAll
  induction l generalizing f g with
  | nil => exact h
  | cons p l ih =>
    simp only [List.foldl_cons]
    apply ih
    intro x v
    simp only [bind]
    split
    · exact id
    · exact h x v

/-- no `filter_vars` key is one of the names the evaluator binds itself -/
def FvarsDisjoint (w : World) (ty : TgtType) (fvars : Option (List (String × Val))) : Prop :=
  ∀ l, fvars = some l → ∀ p ∈ l, p.1 ∉ apiBound w ty

/-- What the property relies on about the type system (host.ti, service.ti:44): `host`/`service` are the
    target variables — no navigation field of Host is called `host`, a Service has the navigation field `host`
    and none called `service`.  The driver checks it on the implementation's reflection. -/
def NavOk (w : World) : TgtType → Prop
  | .host => "host" ∉ w.navNames .host
  | .service => "host" ∈ w.navNames .service ∧ "service" ∉ w.navNames .service

/-- the last binding of a name wins; when all bindings of `x` agree on `g x` that is its value -/
theorem bindAll_map {g : String → Val} {x : String} : ∀ (l : List String) (f : String → Option Val),
    bindAll (l.map fun n => (n, g n)) f x = if x ∈ l then some (g x) else f x := by
  intro l
  unfold bindAll
  induction l with
  | nil => intro f; simp
  | cons n l ih =>
    intro f
    simp only [List.map_cons, List.foldl_cons, ih, List.mem_cons]
    by_cases hl : x ∈ l
    · simp [hl]
    · by_cases hn : x = n
      · subst hn; simp [bind]
      · simp [hl, hn, bind]


theorem tgtOfD_of_tgtOf {t : Val} {ty : TgtType} (h : tgtOf t = some ty) : tgtOfD t = ty := by
  cases t <;> simp [tgtOf] at h <;> subst h <;> rfl

theorem apiVars_unbound (w : World) (l : List (String × Val)) {t : Val} {ty : TgtType} (hty : tgtOf t = some ty)
    {x : String} (hx : x ∉ apiBound w ty) : apiVars w l t x = bindAll l w.globals x := by
  simp only [apiBound, List.cons_append, List.nil_append, List.mem_cons, not_or] at hx
  obtain ⟨h1, h2, h3⟩ := hx
  simp only [apiVars, tgtOfD_of_tgtOf hty, bindAll_map, h3, if_false, bind, h1, h2]

theorem bindAll_some_mem {l : List (String × Val)} {x : String} {v : Val}
    (h : bindAll l (fun _ => none) x = some v) : ∃ p ∈ l, p.1 = x := by
  apply Classical.byContradiction
  intro hne
  have : ∀ p ∈ l, p.1 ≠ x := fun p hp he => hne ⟨p, hp, he⟩
  rw [bindAll_of_not_mem this] at h
  cases h

theorem apiConsts_agree (w : World) {ty : TgtType} {fvars : Option (List (String × Val))}
    (hd : FvarsDisjoint w ty fvars) {t : Val} (hty : tgtOf t = some ty) :
    ConstsAgree (apiConsts fvars) (apiEnv w (fvars.getD []) t) := by
  intro c hc x v hcx
  cases fvars with
  | none => cases hc
  | some l =>
    simp only [apiConsts, Option.some.injEq] at hc
    subst hc
    obtain ⟨p, hp, rfl⟩ := bindAll_some_mem hcx
    have hx := hd l rfl p hp
    simp only [apiEnv, Option.getD_some]
    rw [apiVars_unbound w l hty hx]
    exact bindAll_mono (fun _ _ h => by cases h) _ _ hcx

theorem apiVars_host_host (w : World) (hn : NavOk w .host) (l : List (String × Val)) (h : String) :
    apiVars w l (.host h) "host" = some (.host h) := by
  have : "host" ∉ w.navNames .host := hn
  simp [apiVars, tgtOfD, bindAll_map, this, lcName, bind]

theorem apiVars_service_host (w : World) (hn : NavOk w .service) (l : List (String × Val)) (h s : String) :
    apiVars w l (.service h s) "host" = some (.host h) := by
  have : "host" ∈ w.navNames .service := hn.1
  simp [apiVars, tgtOfD, bindAll_map, this, navVal, hostOf]

theorem apiVars_service_service (w : World) (hn : NavOk w .service) (l : List (String × Val)) (h s : String) :
    apiVars w l (.service h s) "service" = some (.service h s) := by
  have : "service" ∉ w.navNames .service := hn.2
  simp [apiVars, tgtOfD, bindAll_map, this, lcName, bind]

theorem foldr_slow {ev : Val → Option Bool} {f : Val → Bool} :
    ∀ ts : List Val, (∀ t ∈ ts, ev t = some (f t)) →
      ts.foldr (fun t acc =>
        match ev t, acc with
        | some true, some l => some (t :: l)
        | some false, some l => some l
        | _, _ => none) (some []) = some (ts.filter f) := by
  intro ts
  induction ts with
  | nil => intro _; rfl
  | cons t ts ih =>
    intro h
    simp only [List.foldr_cons]
    rw [ih (fun t' ht' => h t' (List.mem_cons_of_mem _ ht')), h t List.mem_cons_self]
    cases hf : f t <;> simp [List.filter, hf]

/-- both raised, or both returned the same *set* of objects -/
def ApiEquiv : Option (List Val) → Option (List Val) → Prop
  | none, none => True
  | some a, some b => ∀ t, t ∈ a ↔ t ∈ b
  | _, _ => False

theorem ApiEquiv.refl (a : Option (List Val)) : ApiEquiv a a := by
  cases a <;> simp [ApiEquiv]

theorem api_host_case (w : World) (fvars : Option (List (String × Val))) (e : Expr) (inv : Inventory)
    (hnav : NavOk w .host) (hd : FvarsDisjoint w .host fvars) {names : List String}
    (hn : getTargetHosts (apiConsts fvars) e = some names) :
    apiSlow w fvars .host e inv = some ((targets inv .host).filter fun t => (names.map Val.host).contains t) := by
  unfold apiSlow
  apply foldr_slow
  intro t ht
  obtain ⟨h, rfl⟩ := mem_targets_host ht
  have hc := apiConsts_agree w hd (t := .host h) rfl
  have := getTargetHosts_sound hc (by simp only [apiEnv]; exact apiVars_host_host w hnav _ h) hn
  simp only [evalFilter, this, Option.map_some, Val.truthy]
  congr 1
  by_cases hm : h ∈ names <;> simp [hm]

theorem api_service_case (w : World) (fvars : Option (List (String × Val))) (e : Expr) (inv : Inventory)
    (hnav : NavOk w .service) (hd : FvarsDisjoint w .service fvars) {names : List (String × String)}
    (hn : getTargetServices (apiConsts fvars) e = some names) :
    apiSlow w fvars .service e inv = some ((targets inv .service).filter fun t =>
      (names.map fun p => Val.service p.1 p.2).contains t) := by
  unfold apiSlow
  apply foldr_slow
  intro t ht
  obtain ⟨h, s, rfl⟩ := mem_targets_service ht
  have hc := apiConsts_agree w hd (t := .service h s) rfl
  have := getTargetServices_sound hc (by simp only [apiEnv]; exact apiVars_service_host w hnav _ h s)
    (by simp only [apiEnv]; exact apiVars_service_service w hnav _ h s) hn
  simp only [evalFilter, this, Option.map_some, Val.truthy]
  congr 1
  by_cases hm : (h, s) ∈ names <;> simp [hm]

/-! ### what the combined filter means -/

/-- `e` evaluates (without raising) to a true value -/
def Truthy (env : Env) (e : Expr) : Prop := ∃ v, eval env e = some v ∧ v.truthy = true

/-- "the assign expression is true and the ignore expression is not" -/
def Matches (env : Env) (r : Rule) : Prop :=
  (r.assign = [] ∨ ∃ a ∈ r.assign, Truthy env a) ∧ ∀ g ∈ r.ignore, ¬ Truthy env g

theorem foldl_or_head {env : Env} : ∀ (es : List Expr) (e : Expr) {v : Val},
    eval env (es.foldl Expr.or e) = some v → ∃ u, eval env e = some u := by
  intro es
  induction es with
  | nil => intro e v h; exact ⟨v, h⟩
  | cons y es ih =>
    intro e v h
    simp only [List.foldl_cons] at h
    obtain ⟨u, hu⟩ := ih (Expr.or e y) h
    simp only [eval] at hu
    cases he : eval env e with
    | none => simp [he] at hu
    | some ve => exact ⟨ve, rfl⟩

theorem foldl_or_truth {env : Env} : ∀ (es : List Expr) (e : Expr) {v : Val},
    eval env (es.foldl Expr.or e) = some v →
      (v.truthy = true ↔ (Truthy env e ∨ ∃ a ∈ es, Truthy env a)) := by
  intro es
  induction es with
  | nil =>
    intro e v h
    simp only [List.foldl_nil] at h
    simp [Truthy, h]
  | cons x es ih =>
    intro e v h
    simp only [List.foldl_cons] at h
    rw [ih (Expr.or e x) h]
    have key : Truthy env (Expr.or e x) → (Truthy env e ∨ Truthy env x) := by
      rintro ⟨u, hu, hut⟩
      simp only [eval] at hu
      cases he : eval env e with
      | none => simp [he] at hu
      | some ve =>
        simp only [he, Option.bind_some] at hu
        by_cases hv : ve.truthy = true
        · exact Or.inl ⟨ve, he, hv⟩
        · simp only [hv] at hu
          exact Or.inr ⟨u, hu, hut⟩
    -- the converse needs that the chain evaluates at all, which `h` gives
    have hev : ∃ u, eval env (Expr.or e x) = some u := foldl_or_head es _ h
    obtain ⟨u, hu⟩ := hev
    have back : (Truthy env e ∨ Truthy env x) → Truthy env (Expr.or e x) := by
      intro hor
      refine ⟨u, hu, ?_⟩
      simp only [eval] at hu
      cases he : eval env e with
      | none => simp [he] at hu
      | some ve =>
        simp only [he, Option.bind_some] at hu
        by_cases hv : ve.truthy = true
        · simp only [hv, if_true, Option.some.injEq] at hu; subst hu; exact hv
        · simp [hv] at hu
          rcases hor with ⟨v1, h1, h1t⟩ | ⟨v2, h2, h2t⟩
          · rw [he] at h1; cases h1; exact absurd h1t hv
          · rw [hu] at h2; cases h2; exact h2t
    constructor
    · rintro (h1 | ⟨a, ha, hat⟩)
      · rcases key h1 with h2 | h2
        · exact Or.inl h2
        · exact Or.inr ⟨x, List.mem_cons_self, h2⟩
      · exact Or.inr ⟨a, List.mem_cons_of_mem _ ha, hat⟩
    · rintro (h1 | ⟨a, ha, hat⟩)
      · exact Or.inl (back (Or.inl h1))
      · rcases List.mem_cons.mp ha with rfl | ha'
        · exact Or.inl (back (Or.inr hat))
        · exact Or.inr ⟨a, ha', hat⟩

theorem orAll_truth {env : Env} {es : List Expr} {e : Expr} (h : orAll es = some e) {v : Val}
    (hv : eval env e = some v) : v.truthy = true ↔ ∃ a ∈ es, Truthy env a := by
  cases es with
  | nil => cases h
  | cons x xs =>
    simp only [orAll, Option.some.injEq] at h
    subst h
    rw [foldl_or_truth xs x hv]
    constructor
    · rintro (h1 | ⟨a, ha, hat⟩)
      · exact ⟨x, List.mem_cons_self, h1⟩
      · exact ⟨a, List.mem_cons_of_mem _ ha, hat⟩
    · rintro ⟨a, ha, hat⟩
      rcases List.mem_cons.mp ha with rfl | ha'
      · exact Or.inl hat
      · exact Or.inr ⟨a, ha', hat⟩

theorem orAll_none {es : List Expr} (h : orAll es = none) : es = [] := by
  cases es with
  | nil => rfl
  | cons x xs => simp [orAll] at h

/-- Whenever the combined filter evaluates at all, it is true exactly when some `assign where` is true
    (or there is none: `for` rules) and no `ignore where` is. -/
theorem filter_truth {env : Env} {r : Rule} {b : Bool} (h : evalFilter env r.filter = some b) :
    b = true ↔ Matches env r := by
  unfold evalFilter Rule.filter at h
  have assignPart : ∀ {va : Val}, eval env ((orAll r.assign).getD (.lit (.bool true))) = some va →
      (va.truthy = true ↔ (r.assign = [] ∨ ∃ a ∈ r.assign, Truthy env a)) := by
    intro va hva
    cases ha : orAll r.assign with
    | none =>
      simp only [ha, Option.getD_none, eval, Option.some.injEq] at hva
      subst hva
      simp [Val.truthy, orAll_none ha]
    | some ea =>
      simp only [ha, Option.getD_some] at hva
      rw [orAll_truth ha hva]
      constructor
      · exact Or.inr
      · rintro (h0 | h1)
        · rw [h0] at ha; cases ha
        · exact h1
  cases hi : orAll r.ignore with
  | none =>
    simp only [hi, Option.map_eq_some_iff] at h
    obtain ⟨va, hva, rfl⟩ := h
    rw [assignPart hva]
    simp [Matches, orAll_none hi]
  | some ig =>
    simp only [hi, Option.map_eq_some_iff, eval] at h
    obtain ⟨v, hv, rfl⟩ := h
    cases hva : eval env ((orAll r.assign).getD (.lit (.bool true))) with
    | none => simp [hva] at hv
    | some va =>
      simp only [hva, Option.bind_some] at hv
      have hA := assignPart hva
      by_cases hvt : va.truthy = true
      · simp only [hvt, if_true] at hv
        cases hig : eval env ig with
        | none => simp [hig] at hv
        | some vi =>
          simp only [hig, Option.bind_some, Option.some.injEq] at hv
          subst hv
          have hI := orAll_truth hi hig
          change (!vi.truthy) = true ↔ Matches env r
          simp only [Matches]
          constructor
          · intro hb
            refine ⟨hA.mp hvt, ?_⟩
            intro g hg hgt
            have : vi.truthy = true := hI.mpr ⟨g, hg, hgt⟩
            simp [this] at hb
          · rintro ⟨_, hno⟩
            cases hvi : vi.truthy with
            | false => rfl
            | true =>
              obtain ⟨g, hg, hgt⟩ := hI.mp hvi
              exact absurd hgt (hno g hg)
      · simp only [hvt] at hv
        cases hv
        simp only [Matches]
        constructor
        · intro hb; exact absurd hb hvt
        · rintro ⟨ha, _⟩; exact absurd (hA.mpr ha) hvt

/-! ### membership in the outcome lists -/

theorem mem_plainOutcomes {w : World} {rules : Rules} {inv : Inventory} {o : Outcome} :
    o ∈ plainOutcomes w rules inv ↔
      ∃ t ∈ allTargets inv, ∃ p ∈ rules, tgtOf t = some p.2.tgt ∧ o ∈ evalRule w false p.1 p.2 t := by
  simp only [plainOutcomes, plainOn, List.mem_flatMap, List.mem_filter, beq_iff_eq]
  constructor
  · rintro ⟨t, ht, p, ⟨hp, hty⟩, ho⟩; exact ⟨t, ht, p, hp, hty, ho⟩
  · rintro ⟨t, ht, p, hp, hty, ho⟩; exact ⟨t, ht, p, ⟨hp, hty⟩, ho⟩

theorem mem_allTargets_perm {i₁ i₂ : Inventory} (hh : i₁.hosts.Perm i₂.hosts) (hs : i₁.services.Perm i₂.services)
    (t : Val) : t ∈ allTargets i₁ ↔ t ∈ allTargets i₂ := by
  simp only [allTargets, targets, List.mem_append, List.mem_map, hh.mem_iff, hs.mem_iff]

theorem plainOutcomes_perm (w : World) {r₁ r₂ : Rules} {i₁ i₂ : Inventory} (hr : r₁.Perm r₂)
    (hh : i₁.hosts.Perm i₂.hosts) (hs : i₁.services.Perm i₂.services) (o : Outcome) :
    o ∈ plainOutcomes w r₁ i₁ ↔ o ∈ plainOutcomes w r₂ i₂ := by
  simp only [mem_plainOutcomes, mem_allTargets_perm hh hs, hr.mem_iff]

theorem indexedOutcomes_perm (w : World) {r₁ r₂ : Rules} {i₁ i₂ : Inventory} (hr : r₁.Perm r₂)
    (hh : i₁.hosts.Perm i₂.hosts) (hs : i₁.services.Perm i₂.services) (o : Outcome) :
    o ∈ indexedOutcomes w r₁ i₁ ↔ o ∈ indexedOutcomes w r₂ i₂ := by
  simp only [indexedOutcomes, indexedOn, List.mem_flatMap, List.mem_append, List.mem_filter,
    mem_allTargets_perm hh hs, hr.mem_iff]

/-! ### inventories with the same members -/

/-- same hosts and same services, as sets -/
def InvEquiv (i₁ i₂ : Inventory) : Prop :=
  (∀ h, h ∈ i₁.hosts ↔ h ∈ i₂.hosts) ∧ (∀ s, s ∈ i₁.services ↔ s ∈ i₂.services)

theorem InvEquiv.refl (i : Inventory) : InvEquiv i i := ⟨fun _ => Iff.rfl, fun _ => Iff.rfl⟩

theorem mem_targets_equiv {i₁ i₂ : Inventory} (h : InvEquiv i₁ i₂) (ty : TgtType) (t : Val) :
    t ∈ targets i₁ ty ↔ t ∈ targets i₂ ty := by
  cases ty <;> simp only [targets, List.mem_map, h.1, h.2]

theorem mem_allTargets_equiv {i₁ i₂ : Inventory} (h : InvEquiv i₁ i₂) (t : Val) :
    t ∈ allTargets i₁ ↔ t ∈ allTargets i₂ := by
  simp only [allTargets, List.mem_append, mem_targets_equiv h]

theorem plainOutcomes_equiv (w : World) {r₁ r₂ : Rules} {i₁ i₂ : Inventory} (hr : ∀ p, p ∈ r₁ ↔ p ∈ r₂)
    (hi : InvEquiv i₁ i₂) (o : Outcome) : o ∈ plainOutcomes w r₁ i₁ ↔ o ∈ plainOutcomes w r₂ i₂ := by
  simp only [mem_plainOutcomes, mem_allTargets_equiv hi, hr]

theorem indexedOutcomes_equiv (w : World) {r₁ r₂ : Rules} {i₁ i₂ : Inventory} (hr : ∀ p, p ∈ r₁ ↔ p ∈ r₂)
    (hi : InvEquiv i₁ i₂) (o : Outcome) : o ∈ indexedOutcomes w r₁ i₁ ↔ o ∈ indexedOutcomes w r₂ i₂ := by
  simp only [indexedOutcomes, indexedOn, List.mem_flatMap, List.mem_append, List.mem_filter,
    mem_allTargets_equiv hi, hr]

theorem LoadResult.Equiv.symm {a b : LoadResult} (h : a.Equiv b) : b.Equiv a := by
  cases a <;> cases b <;> simp_all [LoadResult.Equiv]

theorem LoadResult.Equiv.trans {a b c : LoadResult} (h₁ : a.Equiv b) (h₂ : b.Equiv c) : a.Equiv c := by
  cases a <;> cases b <;> cases c <;> simp_all [LoadResult.Equiv]

/-! ### the cascade -/

theorem mem_createdServices {os : List Outcome} {p : String × String} :
    p ∈ createdServices os ↔ ∃ c, Outcome.create c ∈ os ∧ c.src = .service ∧ p = (targetHostName c.target, c.name) := by
  simp only [createdServices, List.mem_filterMap]
  constructor
  · rintro ⟨o, ho, hm⟩
    cases o with
    | create c =>
      simp only at hm
      split at hm
      · next hs => cases hm; exact ⟨c, ho, hs, rfl⟩
      · cases hm
    | error => cases hm
    | skip => cases hm
  · rintro ⟨c, hc, hs, rfl⟩
    exact ⟨_, hc, by simp [hs]⟩

theorem extend_equiv {inv : Inventory} {os₁ os₂ : List Outcome}
    (h : ∀ o, o ≠ Outcome.skip → (o ∈ os₁ ↔ o ∈ os₂)) : InvEquiv (extend inv os₁) (extend inv os₂) := by
  refine ⟨fun _ => Iff.rfl, fun s => ?_⟩
  simp only [extend, List.mem_append, mem_createdServices]
  constructor
  · rintro (h1 | ⟨c, hc, hr⟩)
    · exact Or.inl h1
    · exact Or.inr ⟨c, (h _ (by simp)).mp hc, hr⟩
  · rintro (h1 | ⟨c, hc, hr⟩)
    · exact Or.inl h1
    · exact Or.inr ⟨c, (h _ (by simp)).mpr hc, hr⟩

theorem targets_subset_extend {inv : Inventory} {os : List Outcome} {ty : TgtType} {t : Val}
    (h : t ∈ targets inv ty) : t ∈ targets (extend inv os) ty := by
  cases ty with
  | host => exact h
  | service =>
    simp only [targets, extend, List.mem_map, List.mem_append] at h ⊢
    obtain ⟨p, hp, rfl⟩ := h
    exact ⟨p, Or.inl hp, rfl⟩

theorem IndexSafe.of_extend {inv : Inventory} {os : List Outcome} {r : Rule} (h : IndexSafe (extend inv os) r) :
    IndexSafe inv r := fun ht => ⟨(h ht).1, fun t hm => (h ht).2 t (targets_subset_extend hm)⟩

theorem IndexSafe.of_equiv {i₁ i₂ : Inventory} (hi : InvEquiv i₁ i₂) {r : Rule} (h : IndexSafe i₁ r) :
    IndexSafe i₂ r := fun ht => ⟨(h ht).1, fun t hm => (h ht).2 t ((mem_targets_equiv hi _ t).mpr hm)⟩

theorem indexedOutcomes_iff_plainOutcomes (w : World) {rules : Rules} {inv : Inventory}
    (hsafe : ∀ p ∈ rules, IndexSafe inv p.2) (o : Outcome) (ho : o ≠ .skip) :
    o ∈ indexedOutcomes w rules inv ↔ o ∈ plainOutcomes w rules inv := by
  simp only [indexedOutcomes, plainOutcomes, List.mem_flatMap]
  constructor
  · rintro ⟨t, ht, hm⟩; exact ⟨t, ht, (indexedOn_iff_plainOn w hsafe ht o ho).mp hm⟩
  · rintro ⟨t, ht, hm⟩; exact ⟨t, ht, (indexedOn_iff_plainOn w hsafe ht o ho).mpr hm⟩

/-! ### the declarative reading agrees with plain evaluation wherever it is defined -/

def Evaluates (env : Env) (e : Expr) : Prop := ∃ v, eval env e = some v

theorem foldl_or_evaluates {env : Env} : ∀ (es : List Expr) (e : Expr),
    Evaluates env e → (∀ a ∈ es, Evaluates env a) → Evaluates env (es.foldl Expr.or e) := by
  intro es
  induction es with
  | nil => intro e he _; exact he
  | cons x es ih =>
    intro e he hall
    simp only [List.foldl_cons]
    apply ih
    · obtain ⟨v, hv⟩ := he
      obtain ⟨u, hu⟩ := hall x List.mem_cons_self
      by_cases ht : v.truthy = true
      · exact ⟨v, by simp [eval, hv, ht]⟩
      · exact ⟨u, by simp [eval, hv, ht, hu]⟩
    · exact fun a ha => hall a (List.mem_cons_of_mem _ ha)

theorem orAll_evaluates {env : Env} {es : List Expr} {e : Expr} (h : orAll es = some e)
    (hall : ∀ a ∈ es, Evaluates env a) : Evaluates env e := by
  cases es with
  | nil => cases h
  | cons x xs =>
    simp only [orAll, Option.some.injEq] at h
    subst h
    exact foldl_or_evaluates xs x (hall x List.mem_cons_self) fun a ha => hall a (List.mem_cons_of_mem _ ha)

theorem filter_evaluates {env : Env} {r : Rule} (ha : ∀ a ∈ r.assign, Evaluates env a)
    (hi : ∀ g ∈ r.ignore, Evaluates env g) : ∃ b, evalFilter env r.filter = some b := by
  have hA : Evaluates env ((orAll r.assign).getD (.lit (.bool true))) := by
    cases h : orAll r.assign with
    | none => exact ⟨.bool true, by simp [eval]⟩
    | some e => simpa using orAll_evaluates h ha
  obtain ⟨va, hva⟩ := hA
  unfold evalFilter Rule.filter
  cases h : orAll r.ignore with
  | none => exact ⟨va.truthy, by simp [hva]⟩
  | some ig =>
    obtain ⟨vi, hvi⟩ := orAll_evaluates h hi
    by_cases ht : va.truthy = true
    · refine ⟨!vi.truthy, ?_⟩
      simp only [eval, hva, Option.bind_some, ht, if_true, hvi, Option.map_some]
      rfl
    · exact ⟨va.truthy, by simp [eval, hva, ht]⟩

theorem evalFilter_ne_none_iff {env : Env} {e : Expr} : evalFilter env e ≠ none ↔ Evaluates env e := by
  unfold evalFilter Evaluates
  cases eval env e <;> simp

theorem evalFilter_some_true_iff {env : Env} {e : Expr} : evalFilter env e = some true ↔ Truthy env e := by
  unfold evalFilter Truthy
  cases eval env e <;> simp

theorem matchDecl_spec {env : Env} {r : Rule} {b : Bool} (h : matchDecl env r = some b) :
    (∀ a ∈ r.assign, Evaluates env a) ∧ (∀ g ∈ r.ignore, Evaluates env g) ∧ (b = true ↔ Matches env r) := by
  unfold matchDecl at h
  simp only at h
  split at h
  · cases h
  · next hne =>
    simp only [Bool.or_eq_true, List.any_eq_true, List.mem_map, beq_iff_eq, not_or, not_exists, not_and] at hne
    have hA : ∀ a ∈ r.assign, Evaluates env a := fun a ha =>
      evalFilter_ne_none_iff.mp fun hn => hne.1 none ⟨a, ha, hn⟩ rfl
    have hI : ∀ g ∈ r.ignore, Evaluates env g := fun g hg =>
      evalFilter_ne_none_iff.mp fun hn => hne.2 none ⟨g, hg, hn⟩ rfl
    refine ⟨hA, hI, ?_⟩
    simp only [Option.some.injEq] at h
    subst h
    simp only [Bool.and_eq_true, Bool.or_eq_true, List.isEmpty_iff, List.any_eq_true, List.mem_map, beq_iff_eq,
      Bool.not_eq_true', Matches]
    constructor
    · rintro ⟨hass, hig⟩
      refine ⟨?_, ?_⟩
      · rcases hass with h0 | ⟨x, ⟨a, ha, rfl⟩, hx⟩
        · exact Or.inl h0
        · exact Or.inr ⟨a, ha, evalFilter_some_true_iff.mp hx⟩
      · intro g hg hgt
        have : (r.ignore.any fun x => evalFilter env x == some true) = true := by
          simp only [List.any_eq_true, beq_iff_eq]
          exact ⟨g, hg, evalFilter_some_true_iff.mpr hgt⟩
        simp only [List.any_map] at hig
        rw [Bool.eq_false_iff] at hig
        exact hig (by simpa [Function.comp] using this)
    · rintro ⟨hass, hig⟩
      refine ⟨?_, ?_⟩
      · rcases hass with h0 | ⟨a, ha, hat⟩
        · exact Or.inl h0
        · exact Or.inr ⟨_, ⟨a, ha, rfl⟩, evalFilter_some_true_iff.mpr hat⟩
      · rw [Bool.eq_false_iff]
        intro hany
        simp only [List.any_eq_true, List.mem_map, beq_iff_eq] at hany
        obtain ⟨x, ⟨g, hg, rfl⟩, hx⟩ := hany
        exact hig g hg (evalFilter_some_true_iff.mp hx)

/-- where the declarative reading is defined, evaluating the combined filter gives the same answer -/
theorem declInst_eq {w : World} {id : Nat} {r : Rule} {t : Val} {i : Inst} {o : Outcome}
    (h : declInst w id r t i = some o) : evalInstance w false id r t i = o := by
  unfold declInst at h
  simp only [Option.map_eq_some_iff] at h
  obtain ⟨b, hb, rfl⟩ := h
  obtain ⟨hA, hI, hm⟩ := matchDecl_spec hb
  obtain ⟨b', hb'⟩ := filter_evaluates hA hI
  have : b' = b := by
    have h1 := filter_truth hb'
    cases b <;> cases b' <;> simp_all
  subst this
  simp only [evalInstance, Bool.false_eq_true, if_false, hb']
  cases b' <;> rfl

theorem declRule_eq {w : World} {id : Nat} {r : Rule} {t : Val} (h : (declRule w id r t).all Option.isSome = true) :
    declRule w id r t = (evalRule w false id r t).map some := by
  unfold declRule evalRule at *
  cases his : instances r t with
  | none => simp [his] at h
  | some is =>
    simp only [his, List.map_map] at h ⊢
    apply List.map_congr_left
    intro i hi
    simp only [List.all_eq_true, List.mem_map] at h
    have := h _ ⟨i, hi, rfl⟩
    obtain ⟨o, ho⟩ := Option.isSome_iff_exists.mp this
    simp [Function.comp, ho, declInst_eq ho]

theorem mem_targets_iff {inv : Inventory} {t : Val} {ty : TgtType} :
    t ∈ targets inv ty ↔ (t ∈ allTargets inv ∧ tgtOf t = some ty) := by
  constructor
  · intro ht
    cases ty with
    | host =>
      obtain ⟨n, rfl⟩ := mem_targets_host ht
      exact ⟨by simp only [allTargets, List.mem_append]; exact Or.inl ht, rfl⟩
    | service =>
      obtain ⟨a, b, rfl⟩ := mem_targets_service ht
      exact ⟨by simp only [allTargets, List.mem_append]; exact Or.inr ht, rfl⟩
  · rintro ⟨h1, h2⟩; exact mem_allTargets_tgt h1 h2

theorem mem_unwrap {d : List (Option Outcome)} {o : Outcome} : o ∈ unwrap d ↔ some o ∈ d := by
  simp [unwrap, List.mem_filterMap]

theorem mem_declAll {w : World} {rules : Rules} {inv : Inventory} {x : Option Outcome} :
    x ∈ declAll w rules inv ↔ ∃ p ∈ rules, ∃ t ∈ targets inv p.2.tgt, x ∈ declRule w p.1 p.2 t := by
  simp only [declAll, List.mem_flatMap]

theorem declAll_defined_rule {w : World} {rules : Rules} {inv : Inventory}
    (h : (declAll w rules inv).all Option.isSome = true) {p : Nat × Rule} (hp : p ∈ rules) {t : Val}
    (ht : t ∈ targets inv p.2.tgt) : (declRule w p.1 p.2 t).all Option.isSome = true := by
  simp only [List.all_eq_true] at h ⊢
  exact fun x hx => h x (mem_declAll.mpr ⟨p, hp, t, ht, hx⟩)

/-- Where the declarative reading is defined everywhere, it lists exactly the outcomes of plain evaluation. -/
theorem unwrap_declAll_iff {w : World} {rules : Rules} {inv : Inventory}
    (h : (declAll w rules inv).all Option.isSome = true) (o : Outcome) :
    o ∈ unwrap (declAll w rules inv) ↔ o ∈ plainOutcomes w rules inv := by
  rw [mem_unwrap, mem_declAll, mem_plainOutcomes]
  constructor
  · rintro ⟨p, hp, t, ht, hx⟩
    rw [declRule_eq (declAll_defined_rule h hp ht)] at hx
    simp only [List.mem_map, Option.some.injEq, exists_eq_right] at hx
    obtain ⟨h1, h2⟩ := mem_targets_iff.mp ht
    exact ⟨t, h1, p, hp, h2, hx⟩
  · rintro ⟨t, h1, p, hp, h2, hx⟩
    have ht := mem_targets_iff.mpr ⟨h1, h2⟩
    refine ⟨p, hp, t, ht, ?_⟩
    rw [declRule_eq (declAll_defined_rule h hp ht)]
    exact List.mem_map.mpr ⟨o, hx, rfl⟩

theorem declInst_ne_error {w : World} {id : Nat} {r : Rule} {t : Val} {i : Inst} :
    declInst w id r t i ≠ some .error := by
  unfold declInst
  cases matchDecl (instEnv w r t i) r with
  | none => simp
  | some b => cases b <;> simp

theorem declAll_no_error {w : World} {rules : Rules} {inv : Inventory} :
    some Outcome.error ∉ declAll w rules inv := by
  rw [mem_declAll]
  rintro ⟨p, _, t, _, hx⟩
  unfold declRule at hx
  cases his : instances p.2 t with
  | none => simp [his] at hx
  | some is =>
    simp only [his, List.mem_map] at hx
    obtain ⟨i, _, hi⟩ := hx
    exact declInst_ne_error hi

set_option linter.unusedSimpArgs false in
/-- **the declarative expectation is what plain evaluation creates**: where the property's reading is defined
    (nothing raises in either round), the full plain load is accepted and creates exactly the expected set. -/
theorem expectedCreated_spec {w : World} {rules : Rules} {inv : Inventory} {exp : List Created}
    (h : expectedCreated w rules inv = some exp) :
    ∃ l, plainFull w rules inv = .accepted l ∧ ∀ c, c ∈ exp ↔ c ∈ l := by
  unfold expectedCreated at h
  simp only at h
  split at h
  · cases h
  · next h1 =>
    split at h
    · cases h
    · next h2 =>
      simp only [Bool.not_eq_true, Bool.not_eq_false] at h1 h2
      simp only [Bool.not_eq_eq_eq_not, Bool.not_true, Bool.not_eq_false] at h1 h2
      cases h
      have e1 := unwrap_declAll_iff h1
      have hinv : InvEquiv (extend inv (unwrap (declAll w rules inv))) (extend inv (plainOutcomes w rules inv)) :=
        extend_equiv fun o _ => e1 o
      have e2 := unwrap_declAll_iff h2
      have e3 : ∀ o, o ∈ unwrap (declAll w rules (extend inv (unwrap (declAll w rules inv)))) ↔
          o ∈ plainOutcomes w rules (extend inv (plainOutcomes w rules inv)) := fun o =>
        (e2 o).trans (plainOutcomes_equiv w (fun _ => Iff.rfl) hinv o)
      have hne : ¬ (plainOutcomes w rules (extend inv (plainOutcomes w rules inv))).any Outcome.isError = true := by
        rw [any_isError, ← e3, mem_unwrap]
        exact declAll_no_error
      refine ⟨_, by simp only [plainFull, plain, loadResult, hne, if_false]; rfl, fun c => ?_⟩
      rw [mem_created, mem_created, e3]

/-! ### the model's trace -/

def obsOf : LoadResult → Obs
  | .rejected => none
  | .accepted l => some (l.map render)

theorem sameSet_of_mem_iff {α : Type} [BEq α] [LawfulBEq α] {a b : List α} (h : ∀ x, x ∈ a ↔ x ∈ b) :
    sameSet a b = true := by
  simp only [sameSet, Bool.and_eq_true, List.all_eq_true, List.contains_iff_mem]
  exact ⟨fun x hx => (h x).mp hx, fun x hx => (h x).mpr hx⟩

theorem sameObs_refl {α : Type} [BEq α] [LawfulBEq α] (o : Option (List α)) : sameObs o o = true := by
  cases o with
  | none => rfl
  | some l => exact sameSet_of_mem_iff fun _ => Iff.rfl

theorem sameObs_of_equiv {a b : LoadResult} (h : a.Equiv b) : sameObs (obsOf a) (obsOf b) = true := by
  cases a <;> cases b <;> simp only [LoadResult.Equiv] at h
  · rfl
  · next l₁ l₂ =>
    apply sameSet_of_mem_iff
    intro x
    simp only [List.mem_map]
    constructor
    · rintro ⟨c, hc, rfl⟩; exact ⟨c, (h c).mp hc, rfl⟩
    · rintro ⟨c, hc, rfl⟩; exact ⟨c, (h c).mpr hc, rfl⟩

theorem coreEq_refl (o : ObjObs) : coreEq o o = true := by simp [coreEq]
theorem scopeEq_refl (o : ObjObs) : scopeEq o o = true := by simp [scopeEq]

theorem checkExact_of_mem_iff {exp l : List Created} (h : ∀ c, c ∈ exp ↔ c ∈ l) :
    checkExact (exp.map render) (some (l.map render)) = none := by
  have h1 : ((exp.map render).all fun e => (l.map render).any (coreEq e)) = true := by
    simp only [List.all_eq_true, List.any_eq_true, List.mem_map]
    rintro _ ⟨c, hc, rfl⟩
    exact ⟨_, ⟨c, (h c).mp hc, rfl⟩, coreEq_refl _⟩
  have h2 : ((l.map render).all fun o => (exp.map render).any fun e => coreEq e o) = true := by
    simp only [List.all_eq_true, List.any_eq_true, List.mem_map]
    rintro _ ⟨c, hc, rfl⟩
    exact ⟨_, ⟨c, (h c).mpr hc, rfl⟩, coreEq_refl _⟩
  have h3 : ((l.map render).all fun o => (exp.map render).any fun e => coreEq e o && scopeEq e o) = true := by
    simp only [List.all_eq_true, List.any_eq_true, List.mem_map, Bool.and_eq_true]
    rintro _ ⟨c, hc, rfl⟩
    exact ⟨_, ⟨c, (h c).mpr hc, rfl⟩, coreEq_refl _, scopeEq_refl _⟩
  simp only [checkExact, h1, h2, h3, Bool.not_true, Bool.false_eq_true, if_false]

theorem indexedFull_equiv_plainFull (w : World) (rules : Rules) (inv : Inventory)
    (hsafe : ∀ p ∈ rules, IndexSafe (extend inv (plainOutcomes w rules inv)) p.2) :
    (indexedFull w rules inv).Equiv (plainFull w rules inv) := by
  have hs0 : ∀ p ∈ rules, IndexSafe inv p.2 := fun p hp => (hsafe p hp).of_extend
  have hinv : InvEquiv (extend inv (indexedOutcomes w rules inv)) (extend inv (plainOutcomes w rules inv)) :=
    extend_equiv (indexedOutcomes_iff_plainOutcomes w hs0)
  unfold indexedFull plainFull indexed plain
  apply loadResult_equiv
  intro o ho
  rw [indexedOutcomes_equiv w (fun _ => Iff.rfl) hinv o]
  exact indexedOutcomes_iff_plainOutcomes w hsafe o ho

/-! ### since commits b11cb6d / 77a9c63 the side conditions always hold -/

/-- A rule that the recogniser accepts has no `for` (applyrule-targeted.cpp:65-70), hence no loop variables and
    exactly the instance `""` on every target. -/
theorem indexSafe_all (inv : Inventory) (r : Rule) : IndexSafe inv r := by
  intro ht
  have hl : r.loop = none := by
    unfold targetedNames at ht
    split at ht
    · simp at ht
    · next h =>
      cases hlo : r.loop with
      | none => rfl
      | some l => simp [Rule.fterm, hlo] at h
  refine ⟨?_, ?_⟩
  · cases htg : r.tgt <;> simp [NoShadow, boundNames, Rule.fkvar, Rule.fvvar, hl, htg]
  · intro t _
    simp [instances, forVal, Rule.fterm, Rule.fvvar, hl, instancesOf]

theorem fvarsDisjoint_of_not_collide {w : World} {ty : TgtType} {fvars : Option (List (String × Val))}
    (h : fvarsCollide w ty fvars = false) : FvarsDisjoint w ty fvars := by
  intro l hl p hp hmem
  subst hl
  simp only [fvarsCollide, List.any_eq_false] at h
  exact h p hp (by simpa using hmem)

/-! ### the API model meets `specApi` -/

theorem sameObs_of_apiEquiv {a b : Option (List Val)} (h : ApiEquiv a b) : sameObs a b = true := by
  cases a <;> cases b <;> simp only [ApiEquiv] at h
  · rfl
  · exact sameSet_of_mem_iff h

theorem apiExpected_spec {w : World} {fvars : Option (List (String × Val))} {ty : TgtType} {e : Expr}
    {inv : Inventory} {exp : List Val} (h : apiExpected w fvars ty e inv = some exp) :
    ∃ l, apiSlow w fvars ty e inv = some l ∧ ∀ t, t ∈ exp ↔ t ∈ l := by
  unfold apiExpected at h
  simp only at h
  split at h
  · cases h
  · next hdef =>
    cases h
    simp only [List.any_eq_true, List.mem_map, beq_iff_eq, not_exists, not_and] at hdef
    let f : Val → Bool := fun t => evalFilter (apiEnv w (fvars.getD []) t) e == some true
    have hev : ∀ t ∈ targets inv ty, evalFilter (apiEnv w (fvars.getD []) t) e = some (f t) := by
      intro t ht
      cases hv : evalFilter (apiEnv w (fvars.getD []) t) e with
      | none => exact absurd rfl (hdef none ⟨t, ht, by simp [hv]⟩)
      | some b => cases b <;> simp [f, hv]
    refine ⟨(targets inv ty).filter f, foldr_slow _ hev, fun t => ?_⟩
    simp only [List.mem_filterMap, List.mem_map, List.mem_filter]
    constructor
    · rintro ⟨x, ⟨t', ht', rfl⟩, hx⟩
      rw [hev t' ht'] at hx
      cases hf : f t' <;> simp [hf] at hx
      subst hx
      exact ⟨ht', hf⟩
    · rintro ⟨ht, hf⟩
      exact ⟨_, ⟨t, ht, rfl⟩, by rw [hev t ht, hf]; rfl⟩

theorem model_api_meets_spec_aux (w : World) (fvars : Option (List (String × Val))) (ty : TgtType) (e : Expr)
    (inv : Inventory) (c : Option ApiCounts) (heq : ApiEquiv (apiTargets w fvars ty e inv) (apiSlow w fvars ty e inv)) :
    specApiSets w fvars ty e inv { fast := apiTargets w fvars ty e inv, slow := apiSlow w fvars ty e inv, counts := c } = none := by
  unfold specApiSets
  simp only [sameObs_of_apiEquiv heq, Bool.not_true, Bool.false_eq_true, if_false]
  cases hexp : apiExpected w fvars ty e inv with
  | none => rfl
  | some exp =>
    obtain ⟨l, hl, hmem⟩ := apiExpected_spec hexp
    simp only [hl]
    have h1 : exp.all l.contains = true := by
      simp only [List.all_eq_true, List.contains_iff_mem]; exact fun t ht => (hmem t).mp ht
    have h2 : l.all exp.contains = true := by
      simp only [List.all_eq_true, List.contains_iff_mem]; exact fun t ht => (hmem t).mpr ht
    simp [h1, h2]

end Icinga.C16

/-
  C16 — helper lemmas: the same configuration written in another order (rules, statements inside a rule, objects),
  the model's observable trace, and how often the API fast path returns an object.
-/
import IcingaProofs.C16.Lemmas
import IcingaProofs.C16.Stage

namespace Icinga.C16

/-! ### lists with the same members -/

theorem any_congr_mem {α : Type} {l l' : List α} (h : ∀ x, x ∈ l' ↔ x ∈ l) (p : α → Bool) : l'.any p = l.any p := by
  rw [Bool.eq_iff_iff]
  simp only [List.any_eq_true]
  constructor
  · rintro ⟨x, hx, hp⟩; exact ⟨x, (h x).mp hx, hp⟩
  · rintro ⟨x, hx, hp⟩; exact ⟨x, (h x).mpr hx, hp⟩

theorem all_congr_mem {α : Type} {l l' : List α} (h : ∀ x, x ∈ l' ↔ x ∈ l) (p : α → Bool) : l'.all p = l.all p := by
  rw [Bool.eq_iff_iff]
  simp only [List.all_eq_true]
  constructor
  · intro ha x hx; exact ha x ((h x).mpr hx)
  · intro ha x hx; exact ha x ((h x).mp hx)

theorem isEmpty_congr_mem {α : Type} {l l' : List α} (h : ∀ x, x ∈ l' ↔ x ∈ l) : l'.isEmpty = l.isEmpty := by
  cases l with
  | nil =>
    cases l' with
    | nil => rfl
    | cons a as => exact absurd ((h a).mp List.mem_cons_self) (by simp)
  | cons b bs =>
    cases l' with
    | nil => exact absurd ((h b).mpr List.mem_cons_self) (by simp)
    | cons a as => rfl

/-! ### the same rule up to the order of its statements -/

/-- `r'` is `r` with its `assign where` / `ignore where` statements written in another order (or repeated) -/
def RuleStmtEquiv (r r' : Rule) : Prop :=
  r'.src = r.src ∧ r'.tgt = r.tgt ∧ r'.name = r.name ∧ r'.loop = r.loop ∧ r'.scope = r.scope ∧
  (∀ e, e ∈ r'.assign ↔ e ∈ r.assign) ∧ (∀ e, e ∈ r'.ignore ↔ e ∈ r.ignore)

theorem RuleStmtEquiv.refl (r : Rule) : RuleStmtEquiv r r :=
  ⟨rfl, rfl, rfl, rfl, rfl, fun _ => Iff.rfl, fun _ => Iff.rfl⟩

theorem RuleStmtEquiv.symm {r r' : Rule} (h : RuleStmtEquiv r r') : RuleStmtEquiv r' r :=
  ⟨h.1.symm, h.2.1.symm, h.2.2.1.symm, h.2.2.2.1.symm, h.2.2.2.2.1.symm, fun e => (h.2.2.2.2.2.1 e).symm,
   fun e => (h.2.2.2.2.2.2 e).symm⟩

theorem ruleStmtEquiv_rev (r : Rule) : RuleStmtEquiv r r.revStmts :=
  ⟨rfl, rfl, rfl, rfl, rfl, fun _ => by simp [Rule.revStmts], fun _ => by simp [Rule.revStmts]⟩

/-- permuting the statements of a rule body permutes the parser's two lists -/
theorem collectStmts_perm {ss ss' : List Stmt} (h : ss.Perm ss') :
    (collectStmts ss).1.Perm (collectStmts ss').1 ∧ (collectStmts ss).2.Perm (collectStmts ss').2 :=
  ⟨h.filterMap _, h.filterMap _⟩

theorem ruleStmtEquiv_withStmts (r : Rule) {ss ss' : List Stmt} (h : ss.Perm ss') :
    RuleStmtEquiv (r.withStmts ss) (r.withStmts ss') :=
  ⟨rfl, rfl, rfl, rfl, rfl, fun _ => ((collectStmts_perm h).1.mem_iff).symm, fun _ => ((collectStmts_perm h).2.mem_iff).symm⟩

theorem matchDecl_stmtEquiv {r r' : Rule} (h : RuleStmtEquiv r r') (env : Env) : matchDecl env r' = matchDecl env r := by
  obtain ⟨_, _, _, _, _, ha, hi⟩ := h
  unfold matchDecl
  simp only [List.any_map]
  rw [any_congr_mem ha, any_congr_mem hi, any_congr_mem ha, any_congr_mem hi, isEmpty_congr_mem ha]

theorem instances_stmtEquiv {r r' : Rule} (h : RuleStmtEquiv r r') (t : Val) : instances r' t = instances r t := by
  obtain ⟨_, _, _, hl, _, _, _⟩ := h
  cases r; cases r'
  simp only at hl
  subst hl
  rfl

theorem instEnv_stmtEquiv {r r' : Rule} (h : RuleStmtEquiv r r') (w : World) (t : Val) (i : Inst) :
    instEnv w r' t i = instEnv w r t i := by
  obtain ⟨_, _, _, _, hs, _, _⟩ := h
  cases r; cases r'
  simp only at hs
  subst hs
  rfl

theorem mkCreated_stmtEquiv {r r' : Rule} (h : RuleStmtEquiv r r') (id : Nat) (t : Val) (i : Inst) :
    mkCreated id r' t i = mkCreated id r t i := by
  obtain ⟨h1, _, h3, hl, _, _, _⟩ := h
  cases r; cases r'
  simp only at h1 h3 hl
  subst h1 h3 hl
  rfl

theorem declRule_stmtEquiv {r r' : Rule} (h : RuleStmtEquiv r r') (w : World) (id : Nat) (t : Val) :
    declRule w id r' t = declRule w id r t := by
  unfold declRule
  rw [instances_stmtEquiv h]
  cases instances r t with
  | none => rfl
  | some is =>
    simp only
    apply List.map_congr_left
    intro i _
    unfold declInst
    rw [instEnv_stmtEquiv h, matchDecl_stmtEquiv h, mkCreated_stmtEquiv h]

/-- the same labelled rules, each up to the order of its statements, in any order -/
def RulesStmtEquiv (rs rs' : Rules) : Prop :=
  (∀ p ∈ rs, ∃ p' ∈ rs', p'.1 = p.1 ∧ RuleStmtEquiv p.2 p'.2) ∧
  (∀ p' ∈ rs', ∃ p ∈ rs, p'.1 = p.1 ∧ RuleStmtEquiv p.2 p'.2)

theorem rulesStmtEquiv_perm (rules : Rules) : RulesStmtEquiv rules (permRules rules) := by
  constructor
  · intro p hp
    refine ⟨(p.1, p.2.revStmts), ?_, rfl, ruleStmtEquiv_rev p.2⟩
    simp only [permRules, List.mem_reverse, List.mem_map]
    exact ⟨p, hp, rfl⟩
  · intro p' hp'
    simp only [permRules, List.mem_reverse, List.mem_map] at hp'
    obtain ⟨p, hp, rfl⟩ := hp'
    exact ⟨p, hp, rfl, ruleStmtEquiv_rev p.2⟩

/-- a permutation of the rules, each with its statements permuted -/
theorem rulesStmtEquiv_of_perm {rs rs' : Rules} (h : rs.Perm rs') : RulesStmtEquiv rs rs' :=
  ⟨fun p hp => ⟨p, h.mem_iff.mp hp, rfl, RuleStmtEquiv.refl _⟩, fun p hp => ⟨p, h.mem_iff.mpr hp, rfl, RuleStmtEquiv.refl _⟩⟩

theorem invEquiv_perm (inv : Inventory) : InvEquiv inv (permInv inv) :=
  ⟨fun _ => by simp [permInv], fun _ => by simp [permInv]⟩

theorem mem_declAll_equiv {w : World} {rs rs' : Rules} {inv inv' : Inventory} (hr : RulesStmtEquiv rs rs')
    (hi : InvEquiv inv inv') (x : Option Outcome) : x ∈ declAll w rs inv ↔ x ∈ declAll w rs' inv' := by
  rw [mem_declAll, mem_declAll]
  constructor
  · rintro ⟨p, hp, t, ht, hx⟩
    obtain ⟨p', hp', hid, he⟩ := hr.1 p hp
    refine ⟨p', hp', t, ?_, ?_⟩
    · rw [he.2.1]; exact (mem_targets_equiv hi _ t).mp ht
    · rw [hid, declRule_stmtEquiv he]; exact hx
  · rintro ⟨p', hp', t, ht, hx⟩
    obtain ⟨p, hp, hid, he⟩ := hr.2 p' hp'
    refine ⟨p, hp, t, ?_, ?_⟩
    · rw [he.2.1] at ht; exact (mem_targets_equiv hi _ t).mpr ht
    · rw [hid, declRule_stmtEquiv he] at hx; exact hx

theorem extend_equiv2 {inv inv' : Inventory} {os os' : List Outcome} (hi : InvEquiv inv inv')
    (h : ∀ o, o ≠ Outcome.skip → (o ∈ os ↔ o ∈ os')) : InvEquiv (extend inv os) (extend inv' os') := by
  refine ⟨fun x => hi.1 x, fun s => ?_⟩
  simp only [extend, List.mem_append, mem_createdServices, hi.2 s]
  constructor
  · rintro (h1 | ⟨c, hc, hr⟩)
    · exact Or.inl h1
    · exact Or.inr ⟨c, (h _ (by simp)).mp hc, hr⟩
  · rintro (h1 | ⟨c, hc, hr⟩)
    · exact Or.inl h1
    · exact Or.inr ⟨c, (h _ (by simp)).mpr hc, hr⟩

/-- **the declarative expectation does not depend on how the configuration is written**: another order of the rules,
    of the statements inside the rules and of the objects expects the same set — and is defined alike. -/
theorem expectedCreated_equiv {w : World} {rs rs' : Rules} {inv inv' : Inventory} (hr : RulesStmtEquiv rs rs')
    (hi : InvEquiv inv inv') {exp : List Created} (h : expectedCreated w rs inv = some exp) :
    ∃ exp', expectedCreated w rs' inv' = some exp' ∧ ∀ c, c ∈ exp ↔ c ∈ exp' := by
  unfold expectedCreated at h ⊢
  simp only at h ⊢
  have e1 := mem_declAll_equiv (w := w) hr hi
  have a1 : (declAll w rs' inv').all Option.isSome = (declAll w rs inv).all Option.isSome :=
    all_congr_mem (fun x => (e1 x).symm) _
  have hi2 : InvEquiv (extend inv (unwrap (declAll w rs inv))) (extend inv' (unwrap (declAll w rs' inv'))) :=
    extend_equiv2 hi fun o _ => by rw [mem_unwrap, mem_unwrap]; exact e1 _
  have e2 := mem_declAll_equiv (w := w) hr hi2
  have a2 : (declAll w rs' (extend inv' (unwrap (declAll w rs' inv')))).all Option.isSome =
      (declAll w rs (extend inv (unwrap (declAll w rs inv)))).all Option.isSome :=
    all_congr_mem (fun x => (e2 x).symm) _
  rw [a1, a2]
  split at h
  · cases h
  · next h1 =>
    split at h
    · cases h
    · next h2 =>
      cases h
      simp only [h1, h2]
      refine ⟨_, rfl, fun c => ?_⟩
      rw [mem_created, mem_created, mem_unwrap, mem_unwrap]
      exact e2 _

theorem indexedFull_equiv_plainFull' (w : World) (rules : Rules) (inv : Inventory) :
    (indexedFull w rules inv).Equiv (plainFull w rules inv) :=
  indexedFull_equiv_plainFull w rules inv fun p _ => indexSafe_all _ p.2

/-- Where the property's reading is defined, plain evaluation of the same configuration written in another order
    creates the same set. -/
theorem plainFull_stmtEquiv {w : World} {rs rs' : Rules} {inv inv' : Inventory} (hr : RulesStmtEquiv rs rs')
    (hi : InvEquiv inv inv') (hdef : (expectedCreated w rs inv).isSome = true) :
    (plainFull w rs inv).Equiv (plainFull w rs' inv') := by
  obtain ⟨exp, hexp⟩ := Option.isSome_iff_exists.mp hdef
  obtain ⟨exp', hexp', hmem⟩ := expectedCreated_equiv hr hi hexp
  obtain ⟨l, hl, h1⟩ := expectedCreated_spec hexp
  obtain ⟨l', hl', h2⟩ := expectedCreated_spec hexp'
  rw [hl, hl']
  intro c
  exact ((h1 c).symm.trans (hmem c)).trans (h2 c)

theorem indexedFull_stmtEquiv {w : World} {rs rs' : Rules} {inv inv' : Inventory} (hr : RulesStmtEquiv rs rs')
    (hi : InvEquiv inv inv') (hdef : (expectedCreated w rs inv).isSome = true) :
    (indexedFull w rs inv).Equiv (indexedFull w rs' inv') :=
  ((indexedFull_equiv_plainFull' w rs inv).trans (plainFull_stmtEquiv hr hi hdef)).trans
    (indexedFull_equiv_plainFull' w rs' inv').symm

/-! ### the model's trace -/

/-- what the model says the harness observes: as written = with the index, wrapped = plain evaluation;
    the thread count does not enter the model; the permuted text = the same two loads of `permRules` / `permInv` -/
def modelObs (w : World) (rules : Rules) (inv : Inventory) (l : Late := ⟨[], []⟩) : LoadObs :=
  { late1 := some (obsOf (indexedStaged w rules inv l))
    plain1 := obsOf (indexedFull w rules inv), wrap1 := obsOf (plainFull w rules inv)
    plain16 := some (obsOf (indexedFull w rules inv)), wrap16 := some (obsOf (plainFull w rules inv))
    perm1 := some (obsOf (indexedFull w (permRules rules) (permInv inv)))
    permWrap1 := some (obsOf (plainFull w (permRules rules) (permInv inv))) }

theorem model_load_meets_spec_aux (w : World) (rules : Rules) (inv : Inventory) (silentIf : List ObjObs → Bool)
    (l : Late) : specLoad w rules inv silentIf (modelObs w rules inv l) = none := by
  have heq := indexedFull_equiv_plainFull' w rules inv
  have hst := sameObs_of_equiv (indexedStaged_equiv w rules inv l).symm
  unfold specLoad modelObs
  simp only [sameObs_of_equiv heq, hst, Option.map_some, sameObs_refl, Option.getD_some, Bool.and_self, Bool.not_true,
    Bool.false_eq_true, if_false]
  cases hexp : expectedCreated w rules inv with
  | none => simp [expectedObjs, hexp]
  | some exp =>
    have hdef : (expectedCreated w rules inv).isSome = true := by simp [hexp]
    have hp := sameObs_of_equiv (indexedFull_stmtEquiv (rulesStmtEquiv_perm rules) (invEquiv_perm inv) hdef)
    have hq := sameObs_of_equiv (plainFull_stmtEquiv (rulesStmtEquiv_perm rules) (invEquiv_perm inv) hdef)
    simp only [expectedObjs, hexp, Option.map_some, hp, hq, Bool.and_self, Bool.not_true, Bool.false_eq_true, if_false]
    split
    · rfl
    · obtain ⟨l, hl, hmem⟩ := expectedCreated_spec hexp
      rw [hl] at heq ⊢
      cases hi : indexedFull w rules inv with
      | rejected => rw [hi] at heq; exact absurd heq (by simp [LoadResult.Equiv])
      | accepted l' =>
        rw [hi] at heq
        simp only [LoadResult.Equiv] at heq
        simp only [obsOf]
        rw [checkExact_of_mem_iff fun c => (hmem c).trans (heq c).symm, checkExact_of_mem_iff hmem]

/-! ### how often the API fast path returns an object -/

theorem apiSlow_sublist {w : World} {fvars : Option (List (String × Val))} {ty : TgtType} {e : Expr} {inv : Inventory}
    {l : List Val} (h : apiSlow w fvars ty e inv = some l) : l.Sublist (targets inv ty) := by
  unfold apiSlow at h
  generalize targets inv ty = ts at h
  induction ts generalizing l with
  | nil => simp only [List.foldr_nil, Option.some.injEq] at h; subst h; exact List.Sublist.refl _
  | cons t ts ih =>
    simp only [List.foldr_cons] at h
    split at h
    · next l' hacc =>
      simp only [Option.some.injEq] at h; subst h
      exact (ih hacc).cons_cons t
    · next l' hacc =>
      simp only [Option.some.injEq] at h; subst h
      exact (ih hacc).cons t
    · cases h

/-- what the model says is observed of one API query -/
def modelApiObs (w : World) (fvars : Option (List (String × Val))) (ty : TgtType) (e : Expr) (inv : Inventory) : ApiObs :=
  { fast := apiTargets w fvars ty e inv, slow := apiSlow w fvars ty e inv
    counts := some
      { nf := (apiTargets w fvars ty e inv).map List.length, ns := (apiSlow w fvars ty e inv).map List.length
        qf := queryResults (apiTargets w fvars ty e inv), qs := queryResults (apiSlow w fvars ty e inv)
        af := actionResults (apiTargets w fvars ty e inv), asl := actionResults (apiSlow w fvars ty e inv) } }

/-- the names the fast path would look up, if it is taken: `none` when the filter is evaluated instead -/
def fastPathNames (w : World) (fvars : Option (List (String × Val))) (ty : TgtType) (e : Expr) : Option (List Val) :=
  if fvarsCollide w ty fvars then none else
  match ty with
  | .host => (getTargetHosts (apiConsts fvars) e).map fun l => l.map Val.host
  | .service => (getTargetServices (apiConsts fvars) e).map fun l => l.map fun p => Val.service p.1 p.2

theorem apiTargets_eq_of_names {w : World} {fvars : Option (List (String × Val))} {ty : TgtType} {e : Expr}
    {inv : Inventory} {names : List Val} (h : fastPathNames w fvars ty e = some names) :
    apiTargets w fvars ty e inv = some (names.filter fun t => (targets inv ty).contains t) := by
  unfold fastPathNames at h
  unfold apiTargets
  split at h
  · cases h
  · next hc =>
    simp only [hc]
    cases ty with
    | host =>
      simp only at h ⊢
      cases hn : getTargetHosts (apiConsts fvars) e with
      | none => simp [hn] at h
      | some l => simp only [hn, Option.map_some, Option.some.injEq] at h; subst h; rfl
    | service =>
      simp only at h ⊢
      cases hn : getTargetServices (apiConsts fvars) e with
      | none => simp [hn] at h
      | some l => simp only [hn, Option.map_some, Option.some.injEq] at h; subst h; rfl

theorem apiTargets_eq_slow_of_no_names {w : World} {fvars : Option (List (String × Val))} {ty : TgtType} {e : Expr}
    {inv : Inventory} (h : fastPathNames w fvars ty e = none) :
    apiTargets w fvars ty e inv = apiSlow w fvars ty e inv := by
  unfold fastPathNames at h
  unfold apiTargets
  split at h
  · next hc => simp [hc]
  · next hc =>
    simp only [hc]
    cases ty with
    | host =>
      simp only at h ⊢
      cases hn : getTargetHosts (apiConsts fvars) e with
      | none => rfl
      | some l => simp [hn] at h
    | service =>
      simp only at h ⊢
      cases hn : getTargetServices (apiConsts fvars) e with
      | none => rfl
      | some l => simp [hn] at h

theorem actionResults_eq_of_length {a b : Option (List Val)} (h : a.map List.length = b.map List.length) :
    actionResults a = actionResults b := by
  cases a with
  | none => cases b with
    | none => rfl
    | some lb => simp at h
  | some la => cases b with
    | none => simp at h
    | some lb =>
      simp only [Option.map_some, Option.some.injEq] at h
      cases la with
      | nil => cases lb with
        | nil => rfl
        | cons y ys => simp at h
      | cons x xs => cases lb with
        | nil => simp at h
        | cons y ys => simp only [actionResults, h]

end Icinga.C16

/-
  C03 — helper lemmas for IcingaProofs/C03.lean.
-/
import IcingaModel.C03.Model
import IcingaModel.C03.Spec

set_option linter.unusedSimpArgs false

namespace Icinga.C03

/-! ## Generic: checkers over events, composition of model steps -/

theorem evFold_append {G : Type} (f : G → Event → Option Clause × G) (g : G) (a b : List Event) :
    evFold f g (a ++ b) =
      (match evFold f g a with
       | (some cl, g') => (some cl, g')
       | (none, g') => evFold f g' b) := by
  induction a generalizing g with
  | nil => simp [evFold]
  | cons ev rest ih =>
    simp only [List.cons_append, evFold]
    rcases h : f g ev with ⟨_ | cl, g'⟩
    · simp only; exact ih g'
    · simp

theorem evFold_opt {G : Type} (f : G → Event → Option Clause × G) (g : G) (o : Option Event) :
    evFold f g o.toList = (match o with | none => (none, g) | some ev => f g ev) := by
  cases o with
  | none => rfl
  | some ev =>
    simp only [Option.toList, evFold]
    rcases h : f g ev with ⟨_ | cl, g'⟩ <;> simp [evFold]

/-- From every state related to the bookkeeping `g`, `step` produces events the checker accepts (as long as
    they satisfy the side condition `P`) and re-establishes the relation. -/
def Pres {G : Type} (f : G → Event → Option Clause × G) (Inv : G → St → Prop) (P : Event → Prop)
    (step : St → St × List Event) : Prop :=
  ∀ g s, Inv g s → (∀ ev ∈ (step s).2, P ev) →
    (evFold f g (step s).2).1 = none ∧ Inv (evFold f g (step s).2).2 (step s).1

theorem Pres_seq {G : Type} {f : G → Event → Option Clause × G} {Inv : G → St → Prop} {P : Event → Prop}
    {a b : St → St × List Event} (ha : Pres f Inv P a) (hb : Pres f Inv P b) : Pres f Inv P (seq a b) := by
  intro g s hi hp
  simp only [seq] at hp ⊢
  obtain ⟨a1, a2⟩ := ha g s hi (fun ev h => hp ev (List.mem_append_left _ h))
  rw [evFold_append]
  generalize hq : evFold f g (a s).2 = q at a1 a2
  obtain ⟨q1, q2⟩ := q
  simp only at a1 a2
  subst a1
  simp only
  exact hb q2 (a s).1 a2 (fun ev h => hp ev (List.mem_append_right _ h))

theorem Pres_silent {G : Type} {f : G → Event → Option Clause × G} {Inv : G → St → Prop} {P : Event → Prop}
    (h : St → St) (hh : ∀ g s, Inv g s → Inv g (h s)) : Pres f Inv P (fun s => (h s, [])) := by
  intro g s hi _
  exact ⟨rfl, hh g s hi⟩

/-- `Pres` for a single call, in terms of the checker's event function. -/
theorem Pres_begin {G : Type} {f : G → Event → Option Clause × G} {Inv : G → St → Prop} {P : Event → Prop}
    (c : Cfg) (ty : NType) (force reminder : Bool) (e : Env)
    (h : ∀ g s, Inv g s →
      (match (beginExec c s ty force reminder e).2 with
       | none => Inv g (beginExec c s ty force reminder e).1
       | some ev => P ev → (f g ev).1 = none ∧ Inv (f g ev).2 (beginExec c s ty force reminder e).1)) :
    Pres f Inv P (beginStep c ty force reminder e) := by
  intro g s hi hp
  have := h g s hi
  simp only [beginStep] at hp ⊢
  rw [evFold_opt]
  rcases hq : (beginExec c s ty force reminder e).2 with _ | ev
  · rw [hq] at this; exact ⟨rfl, this⟩
  · rw [hq] at this hp
    exact this (hp ev (by simp))

/-! ## The model's operations as compositions of `beginStep` -/

theorem fireOne_eq (c : Cfg) (fire : Bool) (ty : NType) (e : Env) :
    fireOne c fire ty e = fun s =>
      if fire then beginStep c ty false false e { s with sup := s.sup.clear ty } else (s, []) := by
  funext s; simp only [fireOne, beginStep]

/-- A checker whose relation ignores `sup` is preserved by the suppressed-notification handler. -/
theorem Pres_fireOne {G : Type} {f : G → Event → Option Clause × G} {Inv : G → St → Prop} {P : Event → Prop}
    (c : Cfg) (fire : Bool) (ty : NType) (e : Env)
    (hsup : ∀ g s sup, Inv g s → Inv g { s with sup := sup })
    (hb : Pres f Inv P (beginStep c ty false false e)) : Pres f Inv P (fireOne c fire ty e) := by
  rw [fireOne_eq]
  intro g s hi hp
  cases fire
  · exact ⟨rfl, hi⟩
  · simp only [if_true] at hp ⊢
    exact hb g _ (hsup g s _ hi) hp

theorem Pres_fireSup {G : Type} {f : G → Event → Option Clause × G} {Inv : G → St → Prop} {P : Event → Prop}
    (c : Cfg) (e : Env)
    (hsup : ∀ g s sup, Inv g s → Inv g { s with sup := sup })
    (hb : ∀ ty, Pres f Inv P (beginStep c ty false false e)) : Pres f Inv P (fireSup c e) := by
  intro g s hi hp
  simp only [fireSup] at hp ⊢
  exact Pres_seq (Pres_fireOne c _ .problem e hsup (hb _))
    (Pres_seq (Pres_fireOne c _ .recovery e hsup (hb _))
      (Pres_seq (Pres_fireOne c _ .flapStart e hsup (hb _)) (Pres_fireOne c _ .flapEnd e hsup (hb _))))
    g _ (hsup g s _ hi) hp

/-- Replaying stashed requests: each is one call with its own force flag. -/
theorem Pres_unstashList {G : Type} {f : G → Event → Option Clause × G} {Inv : G → St → Prop} {P : Event → Prop}
    (c : Cfg) (e : Env) (hb : ∀ ty force, Pres f Inv P (beginStep c ty force false e)) :
    ∀ l : List (NType × Bool), Pres f Inv P (unstashList c e l) := by
  intro l
  induction l with
  | nil => intro g s hi _; exact ⟨rfl, hi⟩
  | cons a rest ih =>
    obtain ⟨ty, force⟩ := a
    intro g s hi hp
    simp only [unstashList] at hp ⊢
    exact Pres_seq (hb ty force) ih g s hi hp

theorem Pres_unstash {G : Type} {f : G → Event → Option Clause × G} {Inv : G → St → Prop} {P : Event → Prop}
    (c : Cfg) (e : Env) (hstash : ∀ g s l, Inv g s → Inv g { s with stash := l })
    (hb : ∀ ty force, Pres f Inv P (beginStep c ty force false e)) : Pres f Inv P (unstash c e) := by
  intro g s hi hp
  simp only [unstash] at hp ⊢
  exact Pres_unstashList c e hb s.stash g _ (hstash g s [] hi) hp

theorem Pres_supStep {G : Type} {f : G → Event → Option Clause × G} {Inv : G → St → Prop} {P : Event → Prop}
    (c : Cfg) (e : Env)
    (hsup : ∀ g s sup, Inv g s → Inv g { s with sup := sup })
    (hstash : ∀ g s l, Inv g s → Inv g { s with stash := l })
    (hb : ∀ ty force, Pres f Inv P (beginStep c ty force false e)) : Pres f Inv P (supStep c e) := by
  intro g s hi hp
  simp only [supStep] at hp ⊢
  cases hr : e.reachable
  · simp only [Bool.false_eq_true, if_false]; exact ⟨rfl, hi⟩
  · simp only [hr, if_true] at hp ⊢
    exact Pres_seq (Pres_unstash c e hstash hb) (Pres_fireSup c e hsup (fun ty => hb ty false)) g s hi hp

/-! ## Generic: a checker over the model's whole trace -/

theorem runTrace_ok {G : Type} (step : G → Obs → Option Clause × G) (Inv : G → St → Prop) (P : Obs → Prop) (c : Cfg)
    (hstep : ∀ g s op, Inv g s → P (applyOp c s op).2 →
      (step g (applyOp c s op).2).1 = none ∧ Inv (step g (applyOp c s op).2).2 (applyOp c s op).1) :
    ∀ (ops : List Op) (g : G) (s : St), Inv g s → (∀ o ∈ traceOf c s ops, P o) →
      runTrace step g (traceOf c s ops) = none := by
  intro ops
  induction ops with
  | nil => intro g s _ _; rfl
  | cons op rest ih =>
    intro g s hi hp
    simp only [traceOf, runTrace]
    obtain ⟨h1, h2⟩ := hstep g s op hi (hp _ (by simp [traceOf]))
    generalize hq : step g (applyOp c s op).2 = q at h1 h2
    obtain ⟨q1, q2⟩ := q
    simp only at h1 h2
    subst h1
    simp only
    exact ih q2 _ h2 (fun o ho => hp o (by simp [traceOf, ho]))

/-! ## BeginExecuteNotification: the six ways a call can end -/

/-- The state after the unconditional first step of `BeginExecuteNotification` (236-241). -/
def pre (s : St) (ty : NType) : St := if ty == .recovery then { s with lns := fun _ => none } else s

/-- The result of a call that passes the notification-level filters. -/
def passedResult (c : Cfg) (s : St) (ty : NType) (force rem : Bool) (e : Env) : St × Option Event :=
  let b := book c (pre s ty) ty e
  let r := userLoop c ty force rem e b.npu b.lns e.users
  ({ b with npu := if ty == .recovery then [] else r.1, lns := r.2.1 }, some ⟨ty, rem, true, force, r.2.2⟩)

theorem beginExec_cases (c : Cfg) (s : St) (ty : NType) (force rem : Bool) (e : Env) :
    (gPeriod force e = true ∧ beginExec c s ty force rem e =
        ({ pre s ty with sup := stashSup (pre s ty).sup ty rem }, filteredEv ty rem force)) ∨
    (gPeriod force e = false ∧ gBegin c ty force e = true ∧ beginExec c s ty force rem e =
        ({ pre s ty with next := e.lhsc + c.tbegin.getD 0 + 1, noMore := false }, filteredEv ty rem force)) ∨
    (gPeriod force e = false ∧ gBegin c ty force e = false ∧ gEnd c ty force e = true ∧
        beginExec c s ty force rem e = (pre s ty, filteredEv ty rem force)) ∨
    (gPeriod force e = false ∧ gBegin c ty force e = false ∧ gEnd c ty force e = false ∧ gType c ty force = true ∧
        beginExec c s ty force rem e =
          ({ pre s ty with noMore := if ty == .recovery && decide (c.interval ≤ 0) then false else (pre s ty).noMore,
                           npu := if ty == .recovery then [] else (pre s ty).npu },
           filteredEv ty rem force)) ∨
    (gPeriod force e = false ∧ gBegin c ty force e = false ∧ gEnd c ty force e = false ∧ gType c ty force = false ∧
        gState c ty force e = true ∧ beginExec c s ty force rem e = (pre s ty, filteredEv ty rem force)) ∨
    (gPeriod force e = false ∧ gBegin c ty force e = false ∧ gEnd c ty force e = false ∧ gType c ty force = false ∧
        gState c ty force e = false ∧ beginExec c s ty force rem e = passedResult c s ty force rem e) := by
  unfold beginExec passedResult pre
  cases h1 : gPeriod force e <;> cases h2 : gBegin c ty force e <;> cases h3 : gEnd c ty force e <;>
    cases h4 : gType c ty force <;> cases h5 : gState c ty force e <;> simp

/-! ## The per-user loop -/

theorem userStep_flag (c : Cfg) (ty : NType) (force rem : Bool) (e : Env) (npu : List Nat) (lns : Nat → Option Nat) (u : UEnv) :
    (userStep c ty force rem e npu lns u).2.2 = (userOk c ty force e u && wasNotified npu ty u && !isDup lns ty rem e u) := by
  unfold userStep
  cases h : (userOk c ty force e u && wasNotified npu ty u && !isDup lns ty rem e u)
  · simp
  · cases h2 : (ty == NType.problem) <;> simp

theorem userStep_other (c : Cfg) (ty : NType) (force rem : Bool) (e : Env) (npu : List Nat) (lns : Nat → Option Nat) (u : UEnv)
    (h : ty ≠ .problem) :
    (userStep c ty force rem e npu lns u).1 = npu ∧ (userStep c ty force rem e npu lns u).2.1 = lns := by
  unfold userStep
  have : (ty == NType.problem) = false := by simpa using h
  cases h : (userOk c ty force e u && wasNotified npu ty u && !isDup lns ty rem e u) <;> simp [this]

theorem userLoop_delivered_ok (c : Cfg) (ty : NType) (force rem : Bool) (e : Env) :
    ∀ (us : List UEnv) (npu : List Nat) (lns : Nat → Option Nat) (uid : Nat),
      uid ∈ (userLoop c ty force rem e npu lns us).2.2 → ∃ u ∈ us, u.id = uid ∧ userOk c ty force e u = true := by
  intro us
  induction us with
  | nil => intro npu lns uid h; simp [userLoop] at h
  | cons u rest ih =>
    intro npu lns uid h
    simp only [userLoop] at h
    cases hf : (userStep c ty force rem e npu lns u).2.2
    · simp only [hf, Bool.false_eq_true, if_false] at h
      obtain ⟨v, hv, h1, h2⟩ := ih _ _ _ h
      exact ⟨v, List.mem_cons_of_mem _ hv, h1, h2⟩
    · simp only [hf, if_true, List.mem_cons] at h
      rcases h with h | h
      · refine ⟨u, by simp, h.symm, ?_⟩
        rw [userStep_flag] at hf
        simp only [Bool.and_eq_true] at hf
        exact hf.1.1
      · obtain ⟨v, hv, h1, h2⟩ := ih _ _ _ h
        exact ⟨v, List.mem_cons_of_mem _ hv, h1, h2⟩

theorem userLoop_other (c : Cfg) (ty : NType) (force rem : Bool) (e : Env) (h : ty ≠ .problem) :
    ∀ (us : List UEnv) (npu : List Nat) (lns : Nat → Option Nat),
      (userLoop c ty force rem e npu lns us).1 = npu ∧ (userLoop c ty force rem e npu lns us).2.1 = lns := by
  intro us
  induction us with
  | nil => intro npu lns; simp [userLoop]
  | cons u rest ih =>
    intro npu lns
    simp only [userLoop]
    obtain ⟨a, b⟩ := userStep_other c ty force rem e npu lns u h
    rw [a, b]
    exact ih npu lns

theorem userLoop_recipients (c : Cfg) (ty : NType) (force rem : Bool) (e : Env) (h : ty = .recovery ∨ ty = .ack) :
    ∀ (us : List UEnv) (npu : List Nat) (lns : Nat → Option Nat) (uid : Nat),
      uid ∈ (userLoop c ty force rem e npu lns us).2.2 →
      npu.contains uid = true ∨ ∃ u ∈ us, u.id = uid ∧ admits u.typeFilter NType.problem.bit = false := by
  have hne : ty ≠ .problem := by rcases h with h | h <;> simp [h]
  intro us
  induction us with
  | nil => intro npu lns uid h; simp [userLoop] at h
  | cons u rest ih =>
    intro npu lns uid hm
    simp only [userLoop] at hm
    obtain ⟨a, b⟩ := userStep_other c ty force rem e npu lns u hne
    rw [a, b] at hm
    cases hf : (userStep c ty force rem e npu lns u).2.2
    · simp only [hf, Bool.false_eq_true, if_false] at hm
      rcases ih _ _ _ hm with h1 | ⟨v, hv, h1, h2⟩
      · exact Or.inl h1
      · exact Or.inr ⟨v, List.mem_cons_of_mem _ hv, h1, h2⟩
    · simp only [hf, if_true, List.mem_cons] at hm
      rcases hm with hm | hm
      · rw [userStep_flag] at hf
        simp only [Bool.and_eq_true] at hf
        have hw := hf.1.2
        unfold wasNotified at hw
        have : (ty == NType.recovery || ty == NType.ack) = true := by rcases h with h | h <;> simp [h]
        simp only [this, Bool.not_true, Bool.false_or, Bool.or_eq_true, Bool.not_eq_true'] at hw
        subst hm
        rcases hw with hw | hw
        · exact Or.inl hw
        · exact Or.inr ⟨u, by simp, rfl, hw⟩
      · rcases ih _ _ _ hm with h1 | ⟨v, hv, h1, h2⟩
        · exact Or.inl h1
        · exact Or.inr ⟨v, List.mem_cons_of_mem _ hv, h1, h2⟩

theorem userStep_npu (c : Cfg) (ty : NType) (force rem : Bool) (e : Env) (npu : List Nat) (lns : Nat → Option Nat) (u : UEnv) :
    ∀ x ∈ (userStep c ty force rem e npu lns u).1, x ∈ npu ∨ (x = u.id ∧ (userStep c ty force rem e npu lns u).2.2 = true) := by
  intro x hx
  unfold userStep at hx ⊢
  cases h : (userOk c ty force e u && wasNotified npu ty u && !isDup lns ty rem e u)
  · simp only [h, Bool.false_eq_true, if_false] at hx ⊢; exact Or.inl hx
  · simp only [h, if_true] at hx ⊢
    cases h2 : (ty == NType.problem)
    · simp only [h2, Bool.false_eq_true, if_false] at hx ⊢; exact Or.inl hx
    · simp only [h2, if_true] at hx ⊢
      cases h3 : npu.contains u.id
      · simp only [h3, Bool.false_eq_true, if_false, List.mem_append, List.mem_singleton] at hx
        rcases hx with hx | hx
        · exact Or.inl hx
        · exact Or.inr ⟨hx, trivial⟩
      · simp only [h3, if_true] at hx; exact Or.inl hx

theorem userLoop_npu (c : Cfg) (ty : NType) (force rem : Bool) (e : Env) :
    ∀ (us : List UEnv) (npu : List Nat) (lns : Nat → Option Nat),
      ∀ x ∈ (userLoop c ty force rem e npu lns us).1, x ∈ npu ∨ x ∈ (userLoop c ty force rem e npu lns us).2.2 := by
  intro us
  induction us with
  | nil => intro npu lns x hx; simp only [userLoop] at hx; exact Or.inl hx
  | cons u rest ih =>
    intro npu lns x hx
    simp only [userLoop] at hx ⊢
    rcases ih _ _ x hx with h | h
    · rcases userStep_npu c ty force rem e npu lns u x h with h | ⟨h1, h2⟩
      · exact Or.inl h
      · right; simp [h2, h1]
    · right
      cases (userStep c ty force rem e npu lns u).2.2 <;> simp [h]

/-! ## delivery -/

theorem timesOpen_eq (c : Cfg) (e : Env) : timesOpen c e = (!beforeBegin c e && !afterEnd c e) := by
  unfold timesOpen beforeBegin afterEnd
  cases c.tbegin <;> cases c.tend <;> simp

theorem filteredEv_cases (ty : NType) (rem force : Bool) :
    (ty ≠ .recovery ∧ filteredEv ty rem force = none) ∨ (ty = .recovery ∧ filteredEv ty rem force = some ⟨.recovery, rem, false, force, []⟩) := by
  unfold filteredEv
  cases ty <;> simp

/-- The event of a call, and the state it leaves, in the two shapes the checkers care about.  A call that
    stops at a notification-level guard keeps `notified_problem_users`, except a Recovery discarded by the
    type filter (i.e. not withheld by the period), which clears it. -/
theorem beginExec_split (c : Cfg) (s : St) (ty : NType) (force rem : Bool) (e : Env) :
    ((beginExec c s ty force rem e).2 = filteredEv ty rem force ∧
      (beginExec c s ty force rem e).1.npu = (if ty == .recovery && !gPeriod force e then [] else s.npu) ∧
      (beginExec c s ty force rem e).1.lns = (pre s ty).lns) ∨
    (gPeriod force e = false ∧ gBegin c ty force e = false ∧ gEnd c ty force e = false ∧ gType c ty force = false ∧
      gState c ty force e = false ∧ beginExec c s ty force rem e = passedResult c s ty force rem e) := by
  have hn : (pre s ty).npu = s.npu := by unfold pre; cases (ty == NType.recovery) <;> simp
  have hprob : ∀ {b : Bool}, (!force && ty == NType.problem && b) = true → (ty == NType.recovery) = false := by
    intro b hb
    simp only [Bool.and_eq_true, beq_iff_eq] at hb
    rw [hb.1.2]; rfl
  rcases beginExec_cases c s ty force rem e with h | h | h | h | h | h
  · left; rw [h.2]; exact ⟨rfl, by simp [h.1, hn], rfl⟩
  · left; rw [h.2.2]; exact ⟨rfl, by simp [hprob h.2.1, hn], rfl⟩
  · left; rw [h.2.2.2]; exact ⟨rfl, by simp [hprob h.2.2.1, hn], rfl⟩
  · left; rw [h.2.2.2.2]; exact ⟨rfl, by simp [h.1, hn], rfl⟩
  · left; rw [h.2.2.2.2.2]; exact ⟨rfl, by simp [hprob h.2.2.2.2.1, hn], rfl⟩
  · right; exact h

theorem delivery_begin (c : Cfg) (k : OpKind) (e : Env) (ty : NType) (force rem : Bool)
    (hclaim : (force && k == .send && !e.force) = false)
    (hflags : ((!force || k == .tick) && !(e.globalEnabled && e.ckEnabled)) = false)
    (hpaused : pausedFor k e = false) :
    Pres (deliveryEv c k e) (fun _ _ => True) (fun _ => True) (beginStep c ty force rem e) := by
  apply Pres_begin
  intro g s _
  rcases beginExec_split c s ty force rem e with ⟨h, _, _⟩ | ⟨h1, h2, h3, h4, h5, h⟩
  · rw [h]
    rcases filteredEv_cases ty rem force with ⟨_, h'⟩ | ⟨_, h'⟩
    · rw [h']; trivial
    · rw [h']; intro _; simp [deliveryEv]
  · rw [h]
    simp only [passedResult]
    intro _
    refine ⟨?_, trivial⟩
    have hu : ((userLoop c ty force rem e (book c (pre s ty) ty e).npu (book c (pre s ty) ty e).lns e.users).2.2).all
        (userAdmits c e ty force) = true := by
      rw [List.all_eq_true]
      intro uid hm
      obtain ⟨u, hu, h6, h7⟩ := userLoop_delivered_ok c ty force rem e _ _ _ _ hm
      unfold userAdmits
      rw [List.any_eq_true]
      refine ⟨u, hu, ?_⟩
      unfold userOk at h7
      simp only [Bool.and_eq_true] at h7 ⊢
      refine ⟨⟨by simp [h6], h7.1⟩, h7.2⟩
    have ht := timesOpen_eq c e
    simp only [gPeriod, gBegin, gEnd, gType, gState] at h1 h2 h3 h4 h5
    simp only [deliveryEv, hclaim, hflags, hpaused, hu]
    cases hf : force
    · subst hf
      cases hp : (ty == NType.problem) <;> cases hb : beforeBegin c e <;> cases ha : afterEnd c e <;>
        simp_all
    · simp

/-! ## recipients -/

/-- Every user on `notified_problem_users` was sent a Problem since the last Recovery. -/
def RecInv (ps : List Nat) (s : St) : Prop := ∀ x ∈ s.npu, x ∈ ps

theorem pre_npu (s : St) (ty : NType) : (pre s ty).npu = s.npu := by
  unfold pre; cases (ty == NType.recovery) <;> simp

theorem recipients_begin (c : Cfg) (e : Env) (ty : NType) (force rem : Bool) :
    Pres (recipientsEv e) RecInv (fun _ => True) (beginStep c ty force rem e) := by
  apply Pres_begin
  intro ps s hi
  rcases beginExec_split c s ty force rem e with ⟨h, hn, _⟩ | ⟨_, _, _, _, _, h⟩
  · rw [h]
    rcases filteredEv_cases ty rem force with ⟨hne, h'⟩ | ⟨hre, h'⟩
    · rw [h']; simp only
      have : (ty == NType.recovery) = false := by simpa using hne
      intro x hx; rw [hn] at hx; simp only [this, Bool.false_and, Bool.false_eq_true, if_false] at hx; exact hi x hx
    · rw [h']; simp only; intro _
      subst hre
      refine ⟨by simp [recipientsEv], ?_⟩
      intro x hx
      rw [hn] at hx
      simp only [recipientsEv, recoveryWithheld, beq_self_eq_true, if_true, Bool.not_false, Bool.true_and]
      simp only [gPeriod, beq_self_eq_true, Bool.true_and] at hx
      cases hg : (!force && !e.periodOpen)
      · simp [hg] at hx
      · simp only [hg, Bool.not_true, Bool.false_eq_true, if_false, if_true] at hx ⊢; exact hi x hx
  · rw [h]
    simp only [passedResult]
    intro _
    have hb : (book c (pre s ty) ty e).npu = s.npu := by simp [book, pre_npu]
    rw [hb]
    generalize hl : (book c (pre s ty) ty e).lns = lns
    have hchk : (ty = .recovery ∨ ty = .ack) →
        (userLoop c ty force rem e s.npu lns e.users).2.2.all (fun uid => ps.contains uid || notSubscribed e uid) = true := by
      intro hra
      rw [List.all_eq_true]
      intro uid hm
      rcases userLoop_recipients c ty force rem e hra _ _ _ _ hm with h1 | ⟨u, hu, h1, h2⟩
      · have : uid ∈ ps := hi uid (by simpa using h1)
        simp [this]
      · have : notSubscribed e uid = true := by
          unfold notSubscribed; rw [List.any_eq_true]; exact ⟨u, hu, by simp [h1, h2]⟩
        simp [this]
    by_cases hrec : ty = .recovery
    · subst hrec
      have := hchk (Or.inl rfl)
      refine ⟨by simp only [recipientsEv]; rw [this]; simp, ?_⟩
      intro x hx; simp at hx
    · by_cases hack : ty = .ack
      · subst hack
        have := hchk (Or.inr rfl)
        refine ⟨by simp only [recipientsEv]; rw [this]; simp, ?_⟩
        intro x hx
        simp only [recipientsEv] at hx ⊢
        have ho := (userLoop_other c .ack force rem e (by simp) e.users s.npu lns).1
        simp at hx ⊢
        rw [ho] at hx
        exact hi x hx
      · by_cases hprob : ty = .problem
        · subst hprob
          refine ⟨by simp [recipientsEv], ?_⟩
          intro x hx
          simp [recipientsEv] at hx ⊢
          rcases userLoop_npu c .problem force rem e e.users s.npu lns x hx with h1 | h1
          · exact Or.inr (hi x h1)
          · exact Or.inl h1
        · have h1 : (ty == NType.recovery) = false := by simpa using hrec
          have h2 : (ty == NType.ack) = false := by simpa using hack
          have h3 : (ty == NType.problem) = false := by simpa using hprob
          refine ⟨by simp [recipientsEv, h1, h2], ?_⟩
          intro x hx
          simp only [recipientsEv, h1, h3, Bool.false_and, Bool.false_eq_true, if_false] at hx ⊢
          rw [(userLoop_other c ty force rem e hprob e.users s.npu lns).1] at hx
          exact hi x hx

/-! ## noDup -/

/-- What the bookkeeping knows about a user's last Problem state is what the code's dictionary reads. -/
def DupRel (ls lns : Nat → Option Nat) : Prop := ∀ u st, ls u = some st → lnsGet lns u = st
def DupInv (ls : Nat → Option Nat) (s : St) : Prop := DupRel ls s.lns

theorem pre_lns_of_ne (s : St) (ty : NType) (h : ty ≠ .recovery) : pre s ty = s := by
  unfold pre; have : (ty == NType.recovery) = false := by simpa using h
  simp [this]

theorem noDup_loop (c : Cfg) (force rem : Bool) (e : Env) :
    ∀ (us : List UEnv) (npu : List Nat) (lns ls : Nat → Option Nat), DupRel ls lns →
      (noDupUsers (!rem && !e.volatile) e.state ls (userLoop c .problem force rem e npu lns us).2.2).1 = none ∧
      DupRel (noDupUsers (!rem && !e.volatile) e.state ls (userLoop c .problem force rem e npu lns us).2.2).2
        (userLoop c .problem force rem e npu lns us).2.1 := by
  intro us
  induction us with
  | nil => intro npu lns ls h; simp only [userLoop, noDupUsers]; exact ⟨trivial, h⟩
  | cons u rest ih =>
    intro npu lns ls h
    simp only [userLoop]
    cases hf : (userStep c .problem force rem e npu lns u).2.2
    · simp only [Bool.false_eq_true, if_false]
      have hs : (userStep c .problem force rem e npu lns u).2.1 = lns := by
        rw [userStep_flag] at hf
        unfold userStep; simp [hf]
      rw [hs]
      exact ih _ lns ls h
    · simp only [if_true, noDupUsers]
      have hf' := hf
      rw [userStep_flag] at hf'
      simp only [Bool.and_eq_true, Bool.not_eq_true'] at hf'
      obtain ⟨⟨_, _⟩, hd⟩ := hf'
      have hchk : ((!rem && !e.volatile) && ls u.id == some e.state) = false := by
        cases hc : (!rem && !e.volatile)
        · simp
        · cases hl : (ls u.id == some e.state)
          · simp
          · have := h u.id e.state (by simpa using hl)
            unfold isDup at hd
            simp only [Bool.and_eq_true, Bool.not_eq_true'] at hc
            simp [hc.1, hc.2, this] at hd
      rw [hchk]
      simp only [Bool.false_eq_true, if_false]
      have hs : (userStep c .problem force rem e npu lns u).2.1 =
          (if e.state != lnsGet lns u.id then lnsSet lns u.id e.state else lns) := by
        rw [userStep_flag] at hf
        unfold userStep; simp [hf]
      rw [hs]
      apply ih
      intro v st hv
      unfold lnsSet at hv
      by_cases hvu : v = u.id
      · subst hvu
        simp at hv
        subst hv
        cases hne : (e.state != lnsGet lns u.id)
        · simp at hne; simp [hne]
        · simp [lnsSet, lnsGet]
      · have : (v == u.id) = false := by simpa using hvu
        simp only [this, Bool.false_eq_true, if_false] at hv
        have := h v st hv
        cases hne : (e.state != lnsGet lns u.id)
        · simpa using this
        · simp only [if_true]
          unfold lnsGet lnsSet at *
          simp [hvu, this]

theorem noDup_begin (c : Cfg) (e : Env) (ty : NType) (force rem : Bool) :
    Pres (noDupEv e) DupInv (fun _ => True) (beginStep c ty force rem e) := by
  apply Pres_begin
  intro ls s hi
  rcases beginExec_split c s ty force rem e with ⟨h, _, hl⟩ | ⟨_, _, _, _, _, h⟩
  · rw [h]
    rcases filteredEv_cases ty rem force with ⟨hne, h'⟩ | ⟨_, h'⟩
    · rw [h']; simp only; unfold DupInv; rw [hl, pre_lns_of_ne s ty hne]; exact hi
    · rw [h']; simp only; intro _
      refine ⟨by simp [noDupEv], ?_⟩
      intro u st hu; simp [noDupEv] at hu
  · rw [h]
    simp only [passedResult]
    intro _
    by_cases hrec : ty = .recovery
    · subst hrec
      refine ⟨by simp [noDupEv], ?_⟩
      intro u st hu; simp [noDupEv] at hu
    · have h1 : (ty == NType.recovery) = false := by simpa using hrec
      have hb : (book c (pre s ty) ty e).lns = s.lns := by simp [book, pre_lns_of_ne s ty hrec]
      rw [hb]
      by_cases hprob : ty = .problem
      · subst hprob
        obtain ⟨a, b⟩ := noDup_loop c force rem e e.users (book c (pre s .problem) .problem e).npu s.lns ls hi
        simp only [noDupEv]
        exact ⟨by simpa using a, by simpa [DupInv] using b⟩
      · have h3 : (ty == NType.problem) = false := by simpa using hprob
        simp only [noDupEv, h1, h3, Bool.false_and, Bool.false_eq_true, if_false]
        refine ⟨trivial, ?_⟩
        unfold DupInv
        simp only
        rw [(userLoop_other c ty force rem e hprob e.users _ s.lns).2]
        exact hi

/-! ## reminder -/

/-- Relation between the reminder bookkeeping and the scheduling attributes, inside an operation with
    environment `e`: the remembered Problem was sent under the current `last_hard_state_change`, not in the
    future, not before `times.begin`; `next_notification` lies at least `interval` after it; and while
    nothing re-armed the object (`quiet`) `no_more_notifications` is set if `interval ≤ 0`. -/
def RemInvE (c : Cfg) (e : Env) (g : RemSt) (s : St) : Prop :=
  ∀ t1 l, g.lastProb = some (t1, l) →
    l = e.lhsc ∧ t1 ≤ e.now ∧ (∀ b, c.tbegin = some b → 0 ≤ b → l + b ≤ t1) ∧
    (0 < c.interval → t1 + c.interval ≤ s.next) ∧ (g.quiet = true → c.interval ≤ 0 → s.noMore = true)

theorem RemInvE_mono {c : Cfg} {e : Env} {g g' : RemSt} {s s' : St} (hi : RemInvE c e g s)
    (hl : g'.lastProb = g.lastProb) (hq : g'.quiet = true → g.quiet = true)
    (hn : 0 < c.interval → s.next ≤ s'.next) (hm : g'.quiet = true → c.interval ≤ 0 → s.noMore = true → s'.noMore = true) :
    RemInvE c e g' s' := by
  intro t1 l h
  rw [hl] at h
  obtain ⟨a, b, c', d, f⟩ := hi t1 l h
  refine ⟨a, b, c', ?_, ?_⟩
  · intro hpos; have := d hpos; have := hn hpos; omega
  · intro hq' hint; exact hm hq' hint (f (hq hq') hint)

theorem pre_next (s : St) (ty : NType) : (pre s ty).next = s.next ∧ (pre s ty).noMore = s.noMore := by
  unfold pre; cases (ty == NType.recovery) <;> simp

/-- The side condition of the strict checker: no event re-arms the reminder of an `interval ≤ 0` object (F-C03c). -/
def NoRearm (strict : Bool) (c : Cfg) (ev : Event) : Prop := strict = true → rearms c ev = false

theorem reminder_begin_core (strict : Bool) (c : Cfg) (k : OpKind) (e : Env) (ty : NType) (force rem : Bool)
    (g : RemSt) (s : St) (hi : RemInvE c e g s)
    (hrem : rem = true → k = .tick ∧ ty = .problem ∧ remCondOk e = true ∧ remSpacingOk c e g = true ∧
      remInterval0Ok c g = true ∧ e.ckProblemPending = false) :
    (match (beginExec c s ty force rem e).2 with
     | none => RemInvE c e g (beginExec c s ty force rem e).1
     | some ev => NoRearm strict c ev →
        (reminderEv strict c k e g ev).1 = none ∧ RemInvE c e (reminderEv strict c k e g ev).2 (beginExec c s ty force rem e).1) := by
  obtain ⟨pn, pm⟩ := pre_next s ty
  -- a filtered Recovery is never a reminder
  have hfilt : ∀ s' : St, (0 < c.interval → s.next ≤ s'.next) → (ty ≠ .recovery → s.noMore = true → s'.noMore = true) →
      (match filteredEv ty rem force with
       | none => RemInvE c e g s'
       | some ev => NoRearm strict c ev →
          (reminderEv strict c k e g ev).1 = none ∧ RemInvE c e (reminderEv strict c k e g ev).2 s') := by
    intro s' hn hm
    rcases filteredEv_cases ty rem force with ⟨hne, h'⟩ | ⟨hre, h'⟩
    · rw [h']; exact RemInvE_mono hi rfl id hn (fun _ _ => hm hne)
    · rw [h']
      intro _
      have hr : rem = false := by
        cases rem
        · rfl
        · have := (hrem rfl).2.1; rw [hre] at this; cases this
      subst hr
      refine ⟨by simp [reminderEv], ?_⟩
      exact RemInvE_mono hi (by simp [reminderEv]) (by simp [reminderEv]) hn (by simp [reminderEv])
  rcases beginExec_cases c s ty force rem e with h | h | h | h | h | h
  · rw [h.2]; exact hfilt _ (by simp [pn]) (by simp [pm])
  · -- before times.begin: impossible while a Problem sent under this hard state is remembered
    obtain ⟨_, hb, h⟩ := h
    rw [h]
    simp only [gBegin, Bool.and_eq_true, Bool.not_eq_true', beq_iff_eq] at hb
    obtain ⟨⟨_, hty⟩, hbb⟩ := hb
    subst hty
    have hnone : g.lastProb = none := by
      rcases hl : g.lastProb with _ | ⟨t1, l⟩
      · rfl
      · obtain ⟨a, b, c', _, _⟩ := hi t1 l hl
        unfold beforeBegin at hbb
        rcases hc : c.tbegin with _ | bb
        · simp [hc] at hbb
        · simp only [hc, Bool.and_eq_true, decide_eq_true_eq] at hbb
          have := c' bb hc hbb.1
          omega
    simp only [filteredEv]
    intro t1 l hl; rw [hnone] at hl; cases hl
  · rw [h.2.2.2]; exact hfilt _ (by simp [pn]) (by simp [pm])
  · rw [h.2.2.2.2]
    apply hfilt _ (by simp [pn])
    intro hne
    have : (ty == NType.recovery) = false := by simpa using hne
    simp [this, pm]
  · rw [h.2.2.2.2.2]; exact hfilt _ (by simp [pn]) (by simp [pm])
  · obtain ⟨_, hb, _, _, _, h⟩ := h
    rw [h]
    simp only [passedResult]
    intro hP
    have hchk : (reminderEv strict c k e g ⟨ty, rem, true, force, (userLoop c ty force rem e (book c (pre s ty) ty e).npu
        (book c (pre s ty) ty e).lns e.users).2.2⟩).1 = none := by
      cases hr : rem
      · simp [reminderEv]
      · obtain ⟨a1, a2, a3, a4, a5, a6⟩ := hrem hr
        subst a1; subst a2
        simp [reminderEv, a3, a4, a5, a6]
    refine ⟨hchk, ?_⟩
    by_cases hprob : ty = .problem
    · subst hprob
      cases hf : force
      · -- unforced Problem: becomes the remembered one
        subst hf
        intro t1 l hl
        simp only [reminderEv, Bool.not_true, Bool.false_eq_true, if_false, beq_self_eq_true, if_true,
          Option.some.injEq, Prod.mk.injEq] at hl
        obtain ⟨h1, h2⟩ := hl
        subst h1; subst h2
        refine ⟨rfl, Int.le_refl _, ?_, ?_, ?_⟩
        · intro b hbs hb0
          simp only [gBegin, Bool.not_false, beq_self_eq_true, Bool.true_and] at hb
          unfold beforeBegin at hb
          simp only [hbs, Bool.and_eq_false_iff, decide_eq_false_iff_not] at hb
          rcases hb with hb | hb <;> omega
        · intro hpos
          simp [book, hpos]
        · intro _ hint
          simp [book, hint]
      · subst hf
        have hg : (reminderEv strict c k e g ⟨.problem, rem, true, true, (userLoop c .problem true rem e (book c (pre s .problem) .problem e).npu
            (book c (pre s .problem) .problem e).lns e.users).2.2⟩).2 = g := by
          simp [reminderEv]
        rw [hg]
        intro t1 l hl
        obtain ⟨a, b, c', d, f⟩ := hi t1 l hl
        refine ⟨a, b, c', ?_, ?_⟩
        · intro hpos; simp [book, hpos]; omega
        · intro _ hint; simp [book, hint]
    · have h3 : (ty == NType.problem) = false := by simpa using hprob
      by_cases hcus : ty = .custom
      · subst hcus
        apply RemInvE_mono hi
        · simp [reminderEv]
        · simp [reminderEv]
        · simp [book, pn]
        · simp [book, pm]
      · have h4 : (ty == NType.custom) = false := by simpa using hcus
        by_cases hloose : (ty == NType.recovery || !strict) = true
        · apply RemInvE_mono hi
          · simp [reminderEv, h3, h4, hloose]
          · simp [reminderEv, h3, h4, hloose]
          · simp [book, pn, h3]
          · simp [reminderEv, h3, h4, hloose]
        · -- strict, and neither Problem, Custom nor Recovery: the event re-arms unless `interval > 0`
          have hl : (ty == NType.recovery || !strict) = false := by simpa using hloose
          simp only [Bool.or_eq_false_iff, Bool.not_eq_false'] at hl
          have hpos : ¬ c.interval ≤ 0 := by
            have := hP hl.2
            simpa [rearms, h3, h4, hl.1] using this
          apply RemInvE_mono hi
          · simp [reminderEv, h3, h4, hl.1, hl.2]
          · simp [reminderEv, h3, h4, hl.1, hl.2]
          · simp [book, pn, h3]
          · intro _ hint; exact absurd hint hpos

/-! ## Operations -/

theorem Pres_send {G : Type} {f : G → Event → Option Clause × G} {Inv : G → St → Prop} {P : Event → Prop}
    (c : Cfg) (ty : NType) (e : Env)
    (hstash : ∀ g s l, Inv g s → Inv g { s with stash := l })
    (hb : sendBlocked e = false → e.paused = false → Pres f Inv P (beginStep c ty e.force false e)) :
    Pres f Inv P (fun s => sendStep c s ty e) := by
  intro g s hi hp
  simp only [sendStep] at hp ⊢
  cases hbl : sendBlocked e
  · simp only [hbl, Bool.false_eq_true, if_false] at hp ⊢
    cases hau : e.authUpdated
    · simp only [Bool.not_false, if_true]; exact ⟨rfl, hstash g s _ hi⟩
    · simp only [hau, Bool.not_true, Bool.false_eq_true, if_false] at hp ⊢
      cases hpa : e.paused
      · simp only [hpa, Bool.false_eq_true, if_false] at hp ⊢
        cases hst : s.stash.isEmpty
        · simp only [Bool.not_false, if_true]; exact ⟨rfl, hstash g s _ hi⟩
        · simp only [hst, Bool.not_true, Bool.false_eq_true, if_false] at hp ⊢
          exact hb hbl hpa g s hi hp
      · simp only [if_true]; exact ⟨rfl, hi⟩
  · simp only [if_true]; exact ⟨rfl, hi⟩

theorem Pres_reminderStep {G : Type} {f : G → Event → Option Clause × G} {Inv : G → St → Prop} {P : Event → Prop}
    (c : Cfg) (e : Env) (hnext : ∀ g s n, Inv g s → Inv g { s with next := n })
    (hb : Pres f Inv P (beginStep c .problem false true e)) : Pres f Inv P (reminderStep c e) := by
  intro g s hi hp
  simp only [reminderStep] at hp ⊢
  cases hd : reminderDue c s e
  · simp only [Bool.false_eq_true, if_false]; exact ⟨rfl, hi⟩
  · simp only [hd, if_true] at hp ⊢
    cases ha : reminderAllowed { s with next := e.now + c.interval } e
    · simp only [Bool.false_eq_true, if_false]; exact ⟨rfl, hnext g s _ hi⟩
    · simp only [ha, if_true] at hp ⊢
      exact hb g _ (hnext g s _ hi) hp

theorem Pres_tick {G : Type} {f : G → Event → Option Clause × G} {Inv : G → St → Prop} {P : Event → Prop}
    (c : Cfg) (e : Env)
    (hsup : ∀ g s sup, Inv g s → Inv g { s with sup := sup })
    (hstash : ∀ g s l, Inv g s → Inv g { s with stash := l })
    (hb : tickSkipped e = false → ∀ ty force, Pres f Inv P (beginStep c ty force false e))
    (hr : tickSkipped e = false → Pres f Inv P (reminderStep c e)) :
    Pres f Inv P (fun s => tickStep c s e) := by
  intro g s hi hp
  have hd : Inv g (dropStash s e) := by
    unfold dropStash
    cases (e.paused && e.authUpdated)
    · exact hi
    · exact hstash g s [] hi
  simp only [tickStep] at hp ⊢
  cases hs : tickSkipped e
  · simp only [hs, Bool.false_eq_true, if_false] at hp ⊢
    exact Pres_seq (Pres_supStep c e hsup hstash (hb hs)) (hr hs) g _ hd hp
  · simp only [if_true]; exact ⟨rfl, hd⟩

/-- Side condition on a whole observed operation. -/
def allEv (P : Event → Prop) (o : Obs) : Prop := ∀ ev ∈ o.events, P ev

/-! ### the four checkers, one operation -/

theorem delivery_op (c : Cfg) (g : Unit) (s : St) (op : Op) :
    (deliveryObs c g (applyOp c s op).2).1 = none := by
  cases op with
  | send ty e =>
    refine (Pres_send (f := deliveryEv c .send e) (Inv := fun _ _ => True) (P := fun _ => True) c ty e
      (fun _ _ _ _ => trivial) ?_ g s trivial (fun _ _ => trivial)).1
    intro hbl hpa
    apply delivery_begin c .send e ty e.force false
    · cases e.force <;> simp
    · simp only [sendBlocked] at hbl
      cases hf : e.force <;> simp_all
    · simp [pausedFor, hpa]
  | tick e =>
    have hfl : tickSkipped e = false → (e.globalEnabled && e.ckEnabled) = true ∧ pausedFor .tick e = false := by
      intro hs
      simp only [tickSkipped, Bool.or_eq_false_iff, Bool.not_eq_false'] at hs
      exact ⟨hs.2, by simp [pausedFor, hs.1]⟩
    refine (Pres_tick (f := deliveryEv c .tick e) (Inv := fun _ _ => True) (P := fun _ => True) c e
      (fun _ _ _ _ => trivial) (fun _ _ _ _ => trivial) ?_ ?_ g s trivial (fun _ _ => trivial)).1
    · intro hs ty force
      apply delivery_begin c .tick e ty force false
      · simp
      · simp [(hfl hs).1]
      · exact (hfl hs).2
    · intro hs
      apply Pres_reminderStep c e (fun _ _ _ _ => trivial)
      apply delivery_begin c .tick e .problem false true
      · simp
      · simp [(hfl hs).1]
      · exact (hfl hs).2

theorem recipients_op (c : Cfg) (ps : List Nat) (s : St) (op : Op) (hi : RecInv ps s)
    (hnd : recoveryDropped (applyOp c s op).2 = false) :
    (recipientsObs ps (applyOp c s op).2).1 = none ∧ RecInv (recipientsObs ps (applyOp c s op).2).2 (applyOp c s op).1 := by
  have hsup : ∀ (g : List Nat) (s : St) (sup : Sup), RecInv g s → RecInv g { s with sup := sup } := fun _ _ _ h => h
  have hstash : ∀ (g : List Nat) (s : St) (l : List (NType × Bool)), RecInv g s → RecInv g { s with stash := l } := fun _ _ _ h => h
  have hnext : ∀ (g : List Nat) (s : St) (n : Int), RecInv g s → RecInv g { s with next := n } := fun _ _ _ h => h
  unfold recipientsObs
  rw [hnd]
  simp only [Bool.false_eq_true, if_false]
  cases op with
  | send ty e =>
    exact Pres_send c ty e hstash (fun _ _ => recipients_begin c e ty e.force false) ps s hi (fun _ _ => trivial)
  | tick e =>
    exact Pres_tick c e hsup hstash (fun _ ty force => recipients_begin c e ty force false)
      (fun _ => Pres_reminderStep c e hnext (recipients_begin c e .problem false true)) ps s hi (fun _ _ => trivial)

/-- What the code does with a dropped Recovery request: nothing at all. -/
theorem dropped_noop (c : Cfg) (s : St) (op : Op) (h : recoveryDropped (applyOp c s op).2 = true) :
    (applyOp c s op).1 = s ∧ (applyOp c s op).2.events = [] := by
  cases op with
  | send ty e =>
    simp only [recoveryDropped, applyOp, Bool.and_eq_true, beq_iff_eq, Bool.not_eq_true'] at h
    have hb : sendBlocked e = true := by
      simp only [sendBlocked, Bool.and_eq_true, Bool.not_eq_true']
      exact ⟨by simpa using h.1.2, h.1.1.2⟩
    simp [applyOp, sendStep, hb]
  | tick e => simp [recoveryDropped, applyOp] at h

theorem noDup_op (c : Cfg) (ls : Nat → Option Nat) (s : St) (op : Op) (hi : DupInv ls s) :
    (noDupObs ls (applyOp c s op).2).1 = none ∧ DupInv (noDupObs ls (applyOp c s op).2).2 (applyOp c s op).1 := by
  have hsup : ∀ (g : Nat → Option Nat) (s : St) (sup : Sup), DupInv g s → DupInv g { s with sup := sup } := fun _ _ _ h => h
  have hstash : ∀ (g : Nat → Option Nat) (s : St) (l : List (NType × Bool)), DupInv g s → DupInv g { s with stash := l } :=
    fun _ _ _ h => h
  have hnext : ∀ (g : Nat → Option Nat) (s : St) (n : Int), DupInv g s → DupInv g { s with next := n } := fun _ _ _ h => h
  unfold noDupObs
  generalize hls : (if recoveryDropped (applyOp c s op).2 = true then fun _ => none else ls) = ls'
  have hi' : DupInv ls' s := by
    subst hls
    cases recoveryDropped (applyOp c s op).2
    · simpa using hi
    · intro u st hu; simp at hu
  cases op with
  | send ty e =>
    exact Pres_send c ty e hstash (fun _ _ => noDup_begin c e ty e.force false) ls' s hi' (fun _ _ => trivial)
  | tick e =>
    exact Pres_tick c e hsup hstash (fun _ ty force => noDup_begin c e ty force false)
      (fun _ => Pres_reminderStep c e hnext (noDup_begin c e .problem false true)) ls' s hi' (fun _ _ => trivial)

/-! ### reminder, one operation -/

/-- The relation between operations (no environment at hand). -/
def RemInv (c : Cfg) (g : RemSt) (s : St) : Prop :=
  ∀ t1 l, g.lastProb = some (t1, l) →
    (∀ b, c.tbegin = some b → 0 ≤ b → l + b ≤ t1) ∧
    (0 < c.interval → t1 + c.interval ≤ s.next) ∧ (g.quiet = true → c.interval ≤ 0 → s.noMore = true)

theorem RemInv_validate (c : Cfg) (e : Env) (g : RemSt) (s : St) (h : RemInv c g s) :
    RemInvE c e (remValidate e g) s := by
  intro t1 l hl
  unfold remValidate at hl
  rcases hg : g.lastProb with _ | ⟨t, l'⟩
  · simp [hg] at hl
  · simp only [hg] at hl
    cases hv : (l' == e.lhsc && decide (t ≤ e.now))
    · simp [hv] at hl
    · simp only [hv, if_true] at hl
      rw [hg] at hl
      simp only [Option.some.injEq, Prod.mk.injEq] at hl
      obtain ⟨h1, h2⟩ := hl
      subst h1; subst h2
      simp only [Bool.and_eq_true, beq_iff_eq, decide_eq_true_eq] at hv
      obtain ⟨a, b, d⟩ := h t l' hg
      refine ⟨hv.1, hv.2, a, b, ?_⟩
      simpa [remValidate, hg, hv.1, hv.2] using d

theorem RemInvE_forget (c : Cfg) (e : Env) (g : RemSt) (s : St) (h : RemInvE c e g s) : RemInv c g s := by
  intro t1 l hl
  obtain ⟨_, _, a, b, d⟩ := h t1 l hl
  exact ⟨a, b, d⟩

theorem reminder_begin (strict : Bool) (c : Cfg) (k : OpKind) (e : Env) (ty : NType) (force : Bool) :
    Pres (reminderEv strict c k e) (RemInvE c e) (NoRearm strict c) (beginStep c ty force false e) := by
  apply Pres_begin
  intro g s hi
  have := reminder_begin_core strict c k e ty force false g s hi (by simp)
  rcases hq : (beginExec c s ty force false e).2 with _ | ev
  · rw [hq] at this; exact this
  · rw [hq] at this; exact this

theorem reminder_reminderStep (strict : Bool) (c : Cfg) (e : Env) :
    Pres (reminderEv strict c .tick e) (RemInvE c e) (NoRearm strict c) (reminderStep c e) := by
  intro g s hi _
  simp only [reminderStep]
  cases hd : reminderDue c s e
  · simp only [Bool.false_eq_true, if_false]; exact ⟨rfl, hi⟩
  · simp only [if_true]
    have hi1 : RemInvE c e g { s with next := e.now + c.interval } := by
      intro t1 l hl
      obtain ⟨a, b, c', d, f⟩ := hi t1 l hl
      exact ⟨a, b, c', by intro _; simp; omega, f⟩
    cases ha : reminderAllowed { s with next := e.now + c.interval } e
    · simp only [Bool.false_eq_true, if_false]; exact ⟨rfl, hi1⟩
    · simp only [if_true]
      simp only [reminderDue, Bool.and_eq_true, Bool.not_eq_true', decide_eq_false_iff_not, Bool.and_eq_false_iff,
        decide_eq_true_eq] at hd
      obtain ⟨hd1, hd2⟩ := hd
      have hcond : remCondOk e = true := by
        simp only [reminderAllowed, Bool.and_eq_true, Bool.not_eq_true', Bool.or_eq_false_iff] at ha
        simp only [remCondOk, Bool.and_eq_true, Bool.not_eq_true']
        obtain ⟨⟨⟨a1, a2⟩, _⟩, ⟨⟨a4, a5⟩, a6⟩, a7⟩ := ha
        simp only [Bool.not_eq_false'] at a4
        exact ⟨⟨⟨⟨⟨a1, a2⟩, a4⟩, a5⟩, a6⟩, a7⟩
      have hck : e.ckProblemPending = false := by
        simp only [reminderAllowed, Bool.and_eq_true, Bool.not_eq_true', Bool.or_eq_false_iff] at ha
        exact ha.1.2.1
      have hsp : remSpacingOk c e g = true := by
        unfold remSpacingOk
        rcases hl : g.lastProb with _ | ⟨t1, l⟩
        · rfl
        · obtain ⟨_, _, _, d, _⟩ := hi t1 l hl
          simp only [Bool.or_eq_true, decide_eq_true_eq]
          by_cases hpos : 0 < c.interval
          · right; have := d hpos; omega
          · left; omega
      have hi0 : remInterval0Ok c g = true := by
        unfold remInterval0Ok
        cases hq : g.quiet
        · simp
        · rcases hl : g.lastProb with _ | ⟨t1, l⟩
          · simp
          · obtain ⟨_, _, _, _, f⟩ := hi t1 l hl
            by_cases hint : c.interval ≤ 0
            · have := f hq hint
              rcases hd1 with h | h
              · exact absurd hint h
              · rw [this] at h; cases h
            · simp [hint]
      have := reminder_begin_core strict c .tick e .problem false true g _ hi1
        (fun _ => ⟨rfl, rfl, hcond, hsp, hi0, hck⟩)
      rw [evFold_opt]
      rcases hq : (beginExec c { s with next := e.now + c.interval } .problem false true e).2 with _ | ev
      · rw [hq] at this; exact ⟨rfl, this⟩
      · rw [hq] at this
        apply this
        -- a reminder is a Problem: it never re-arms
        intro _
        have hty : ev.ty = .problem := by
          rcases beginExec_split c { s with next := e.now + c.interval } .problem false true e with ⟨h, _, _⟩ | ⟨_, _, _, _, _, h⟩
          · rw [h] at hq; simp [filteredEv] at hq
          · rw [h] at hq; simp only [passedResult, Option.some.injEq] at hq; rw [← hq]
        simp [rearms, hty]

theorem reminder_op (strict : Bool) (c : Cfg) (g : RemSt) (s : St) (op : Op) (hi : RemInv c g s)
    (hp : allEv (NoRearm strict c) (applyOp c s op).2) :
    (reminderObsOf strict c g (applyOp c s op).2).1 = none ∧
      RemInv c (reminderObsOf strict c g (applyOp c s op).2).2 (applyOp c s op).1 := by
  cases op with
  | send ty e =>
    have hstash : ∀ (g : RemSt) (s : St) (l : List (NType × Bool)), RemInvE c e g s → RemInvE c e g { s with stash := l } :=
      fun _ _ _ h => h
    have := Pres_send (f := reminderEv strict c .send e) c ty e hstash (fun _ _ => reminder_begin strict c .send e ty e.force)
      (remValidate e g) s (RemInv_validate c e g s hi) hp
    exact ⟨this.1, RemInvE_forget c e _ _ this.2⟩
  | tick e =>
    have hsup : ∀ (g : RemSt) (s : St) (sup : Sup), RemInvE c e g s → RemInvE c e g { s with sup := sup } := fun _ _ _ h => h
    have hstash : ∀ (g : RemSt) (s : St) (l : List (NType × Bool)), RemInvE c e g s → RemInvE c e g { s with stash := l } :=
      fun _ _ _ h => h
    have := Pres_tick (f := reminderEv strict c .tick e) c e hsup hstash
      (fun _ ty force => reminder_begin strict c .tick e ty force) (fun _ => reminder_reminderStep strict c e)
      (remValidate e g) s (RemInv_validate c e g s hi) hp
    exact ⟨this.1, RemInvE_forget c e _ _ this.2⟩

theorem evFold_none_mem {G : Type} (f : G → Event → Option Clause × G) :
    ∀ (evs : List Event) (g : G), (evFold f g evs).1 = none → ∀ ev ∈ evs, ∃ g', (f g' ev).1 = none := by
  intro evs
  induction evs with
  | nil => intro g _ ev h; cases h
  | cons a rest ih =>
    intro g h ev hm
    simp only [evFold] at h
    rcases hq : f g a with ⟨_ | cl, g1⟩
    · rw [hq] at h
      rcases List.mem_cons.mp hm with hm | hm
      · subst hm; exact ⟨g, by rw [hq]⟩
      · exact ih g1 h ev hm
    · rw [hq] at h; cases h

/-! ## A reminder never overtakes a Problem the notification object holds back -/

/-- All events of a call carry the call's reminder flag. -/
theorem beginStep_reminder (c : Cfg) (ty : NType) (force rem : Bool) (e : Env) (s : St) :
    ∀ ev ∈ (beginStep c ty force rem e s).2, ev.reminder = rem := by
  intro ev hm
  simp only [beginStep] at hm
  rcases beginExec_split c s ty force rem e with ⟨h, _, _⟩ | ⟨_, _, _, _, _, h⟩
  · rw [h] at hm
    rcases filteredEv_cases ty rem force with ⟨_, h'⟩ | ⟨_, h'⟩
    · rw [h'] at hm; simp at hm
    · rw [h'] at hm; simp at hm; rw [hm]
  · rw [h] at hm; simp [passedResult] at hm; rw [hm]

def NoRem (step : St → St × List Event) : Prop := ∀ s, ∀ ev ∈ (step s).2, ev.reminder = false

theorem NoRem_seq {a b : St → St × List Event} (ha : NoRem a) (hb : NoRem b) : NoRem (seq a b) := by
  intro s ev hm
  simp only [seq, List.mem_append] at hm
  rcases hm with hm | hm
  · exact ha s ev hm
  · exact hb _ ev hm

theorem NoRem_fireOne (c : Cfg) (fire : Bool) (ty : NType) (e : Env) : NoRem (fireOne c fire ty e) := by
  rw [fireOne_eq]
  intro s ev hm
  cases fire
  · simp at hm
  · simp only [if_true] at hm; exact beginStep_reminder c ty false false e _ ev hm

theorem NoRem_unstashList (c : Cfg) (e : Env) : ∀ l : List (NType × Bool), NoRem (unstashList c e l) := by
  intro l
  induction l with
  | nil => intro s ev hm; simp [unstashList] at hm
  | cons a rest ih =>
    obtain ⟨ty, force⟩ := a
    intro s ev hm
    simp only [unstashList] at hm
    exact NoRem_seq (fun s ev hm => beginStep_reminder c ty force false e s ev hm) ih s ev hm

theorem NoRem_supStep (c : Cfg) (e : Env) : NoRem (supStep c e) := by
  intro s ev hm
  simp only [supStep] at hm
  cases hr : e.reachable
  · simp [hr] at hm
  · simp only [hr, if_true] at hm
    refine NoRem_seq (a := unstash c e) (b := fireSup c e) ?_ ?_ s ev hm
    · intro s ev hm; simp only [unstash] at hm; exact NoRem_unstashList c e _ _ ev hm
    · intro s ev hm
      simp only [fireSup] at hm
      exact NoRem_seq (NoRem_fireOne c _ .problem e) (NoRem_seq (NoRem_fireOne c _ .recovery e)
        (NoRem_seq (NoRem_fireOne c _ .flapStart e) (NoRem_fireOne c _ .flapEnd e))) _ ev hm

/-- If the reminder part of the handler emits anything, the object holds no Problem back afterwards. -/
theorem reminderStep_held (c : Cfg) (e : Env) (s : St) :
    (reminderStep c e s).2 ≠ [] → (reminderStep c e s).1.sup.problem = false := by
  simp only [reminderStep]
  cases hd : reminderDue c s e
  · simp
  · simp only [if_true]
    cases ha : reminderAllowed { s with next := e.now + c.interval } e
    · simp
    · simp only [if_true]
      have hp : s.sup.problem = false := by
        simp only [reminderAllowed, Bool.and_eq_true, Bool.not_eq_true', Bool.or_eq_false_iff] at ha
        exact ha.1.2.2
      rcases beginExec_split c { s with next := e.now + c.interval } .problem false true e with ⟨h, _, _⟩ | ⟨_, _, _, _, _, h⟩
      · rw [h]; simp [filteredEv]
      · rw [h]; intro _; simp [passedResult, book, pre, hp]

theorem held_op (c : Cfg) (s : St) (op : Op) : heldObs (applyOp c s op).2 = none := by
  cases op with
  | send ty e =>
    have hno : ∀ ev ∈ (sendStep c s ty e).2, ev.reminder = false := by
      intro ev hm
      simp only [sendStep] at hm
      cases hb : sendBlocked e
      · simp only [hb, Bool.false_eq_true, if_false] at hm
        cases hau : e.authUpdated
        · simp [hau] at hm
        · simp only [hau, Bool.not_true, Bool.false_eq_true, if_false] at hm
          cases hpa : e.paused
          · simp only [hpa, Bool.false_eq_true, if_false] at hm
            cases hst : s.stash.isEmpty
            · simp [hst] at hm
            · simp only [hst, Bool.not_true, Bool.false_eq_true, if_false] at hm
              exact beginStep_reminder c ty e.force false e s ev hm
          · simp [hpa] at hm
      · simp [hb] at hm
    have : (sendStep c s ty e).2.any (fun ev => ev.reminder) = false := by
      rw [List.any_eq_false]; intro ev hm; simp [hno ev hm]
    simp [heldObs, applyOp, this]
  | tick e =>
    simp only [heldObs, applyOp, tickStep]
    by_cases hs : tickSkipped e = true
    · simp [hs]
    · simp only [hs, if_false, seq]
      generalize dropStash s e = s0
      cases hh : (reminderStep c e (supStep c e s0).1).1.sup.problem
      · simp [hh]
      · have hnil : (reminderStep c e (supStep c e s0).1).2 = [] := by
          rcases hq : (reminderStep c e (supStep c e s0).1).2 with _ | ⟨a, l⟩
          · rfl
          · have := reminderStep_held c e (supStep c e s0).1 (by rw [hq]; simp)
            rw [hh] at this; cases this
        have : ((supStep c e s0).2 ++ (reminderStep c e (supStep c e s0).1).2).any (fun ev => ev.reminder) = false := by
          rw [hnil, List.append_nil, List.any_eq_false]
          intro ev hm; simp [NoRem_supStep c e s0 ev hm]
        simp [this]

theorem heldTrace_ok (c : Cfg) : ∀ (ops : List Op) (s : St), heldTrace (traceOf c s ops) = none := by
  intro ops
  induction ops with
  | nil => intro s; rfl
  | cons op rest ih =>
    intro s
    simp only [traceOf, heldTrace, held_op]
    exact ih _

/-! ## The checkable's side: force_next_notification, notification objects that appear later -/

/-- The per-object operations a checkable-level sequence amounts to: requests carry the checkable's flag, requests and
    timer runs while the object is not registered do not reach it. -/
def lower : CkSt → List COp → List Op
  | _, [] => []
  | k, .setForce :: rest => lower (ckSetForce k) rest
  | k, .attach b :: rest => lower { k with attached := b } rest
  | k, .send ty e :: rest =>
    if k.attached then .send ty { e with force := k.force } :: lower (ckRequest k).1 rest else lower (ckRequest k).1 rest
  | k, .tick e :: rest => if k.attached then .tick e :: lower k rest else lower k rest

theorem reqForced_ctraceOf (c : Cfg) (cops : List COp) : ∀ (k : CkSt) (s : St),
    reqForced k.force (ctraceOf c k s cops) = traceOf c s (lower k cops) := by
  induction cops with
  | nil => intro k s; rfl
  | cons op rest ih =>
    intro k s
    cases op with
    | setForce =>
      simp only [ctraceOf, cApply, lower, reqForced]
      exact ih (ckSetForce k) s
    | attach b =>
      simp only [ctraceOf, cApply, lower]
      exact ih { k with attached := b } s
    | send ty e =>
      cases ha : k.attached
      · simp only [ctraceOf, cApply, lower, ha, reqForced, Bool.false_eq_true, if_false]
        exact ih (ckRequest k).1 s
      · simp only [ctraceOf, cApply, lower, ha, if_true, reqForced, applyOp, traceOf, ckRequest]
        congr 1
        exact ih ⟨false, true⟩ _
    | tick e =>
      cases ha : k.attached
      · simp only [ctraceOf, cApply, lower, ha, Bool.false_eq_true, if_false]
        exact ih k s
      · simp only [ctraceOf, cApply, lower, ha, if_true, reqForced, applyOp, traceOf]
        congr 1
        exact ih k _

theorem crun_force_false (c : Cfg) (mid : List COp) : ∀ (k : CkSt) (s : St), k.force = false →
    (∀ op ∈ mid, op ≠ COp.setForce) → (crun c k s mid).1.force = false := by
  induction mid with
  | nil => intro k s h _; exact h
  | cons op rest ih =>
    intro k s h hm
    have hrest : ∀ op ∈ rest, op ≠ COp.setForce := fun o ho => hm o (List.mem_cons_of_mem _ ho)
    cases op with
    | setForce => exact absurd rfl (hm _ (List.mem_cons_self ..))
    | attach b => simp only [crun, cApply]; exact ih _ _ h hrest
    | send ty e =>
      simp only [crun, cApply]
      cases ha : k.attached
      · simp only [Bool.false_eq_true, if_false]; exact ih _ _ rfl hrest
      · simp only [if_true]; exact ih _ _ rfl hrest
    | tick e =>
      simp only [crun, cApply]
      cases ha : k.attached
      · simp only [Bool.false_eq_true, if_false]; exact ih _ _ h hrest
      · simp only [if_true]; exact ih _ _ h hrest

/-! ## Forced notifications out of the timer stem from stashed forced requests -/

/-- `step` keeps the stash and every forced event it shows stems from an entry `(type, true)` of `L`. -/
def FQ (L : List (NType × Bool)) (step : St → St × List Event) : Prop :=
  ∀ s, (step s).1.stash = s.stash ∧ ∀ ev ∈ (step s).2, ev.force = true → (ev.ty, true) ∈ L

theorem FQ_seq {L : List (NType × Bool)} {a b : St → St × List Event} (ha : FQ L a) (hb : FQ L b) : FQ L (seq a b) := by
  intro s
  simp only [seq]
  refine ⟨by rw [(hb _).1, (ha s).1], ?_⟩
  intro ev hm hf
  rcases List.mem_append.mp hm with h | h
  · exact (ha s).2 ev h hf
  · exact (hb _).2 ev h hf

theorem pre_stash (s : St) (ty : NType) : (pre s ty).stash = s.stash := by
  unfold pre; cases (ty == NType.recovery) <;> simp

theorem filteredEv_force (ty : NType) (rem force : Bool) (ev : Event) (h : filteredEv ty rem force = some ev) :
    ev.force = force ∧ ev.ty = ty := by
  rcases filteredEv_cases ty rem force with ⟨_, h2⟩ | ⟨h1, h2⟩
  · rw [h2] at h; cases h
  · rw [h2] at h; cases h; exact ⟨rfl, h1.symm⟩

theorem beginExec_stash_force (c : Cfg) (s : St) (ty : NType) (force rem : Bool) (e : Env) :
    (beginExec c s ty force rem e).1.stash = s.stash ∧
    ∀ ev, (beginExec c s ty force rem e).2 = some ev → ev.force = force ∧ ev.ty = ty := by
  have hp := pre_stash s ty
  rcases beginExec_cases c s ty force rem e with h | h | h | h | h | h
  · rw [h.2]; exact ⟨hp, fun ev hev => filteredEv_force ty rem force ev hev⟩
  · rw [h.2.2]; exact ⟨hp, fun ev hev => filteredEv_force ty rem force ev hev⟩
  · rw [h.2.2.2]; exact ⟨hp, fun ev hev => filteredEv_force ty rem force ev hev⟩
  · rw [h.2.2.2.2]; exact ⟨hp, fun ev hev => filteredEv_force ty rem force ev hev⟩
  · rw [h.2.2.2.2.2]; exact ⟨hp, fun ev hev => filteredEv_force ty rem force ev hev⟩
  · rw [h.2.2.2.2.2]
    refine ⟨by simp [passedResult, book, hp], ?_⟩
    intro ev hev
    simp only [passedResult, Option.some.injEq] at hev
    subst hev; exact ⟨rfl, rfl⟩

theorem FQ_begin (L : List (NType × Bool)) (c : Cfg) (ty : NType) (force rem : Bool) (e : Env)
    (h : force = true → (ty, true) ∈ L) : FQ L (beginStep c ty force rem e) := by
  intro s
  obtain ⟨h1, h2⟩ := beginExec_stash_force c s ty force rem e
  refine ⟨h1, ?_⟩
  intro ev hm hf
  simp only [beginStep, Option.mem_toList] at hm
  obtain ⟨a, b⟩ := h2 ev hm
  rw [b]; exact h (by rw [← a]; exact hf)

theorem FQ_fireOne (L : List (NType × Bool)) (c : Cfg) (fire : Bool) (ty : NType) (e : Env) : FQ L (fireOne c fire ty e) := by
  rw [fireOne_eq]
  intro s
  cases fire
  · exact ⟨rfl, fun ev hm => by simp at hm⟩
  · simp only [if_true]
    have := FQ_begin L c ty false false e (fun h => by cases h) { s with sup := s.sup.clear ty }
    exact this

theorem FQ_fireSup (L : List (NType × Bool)) (c : Cfg) (e : Env) : FQ L (fireSup c e) := by
  intro s
  simp only [fireSup]
  exact FQ_seq (FQ_fireOne L c _ .problem e) (FQ_seq (FQ_fireOne L c _ .recovery e)
    (FQ_seq (FQ_fireOne L c _ .flapStart e) (FQ_fireOne L c _ .flapEnd e))) _

theorem FQ_unstashList (L : List (NType × Bool)) (c : Cfg) (e : Env) :
    ∀ l : List (NType × Bool), (∀ p ∈ l, p ∈ L) → FQ L (unstashList c e l) := by
  intro l
  induction l with
  | nil => intro _ s; exact ⟨rfl, fun ev hm => by simp [unstashList] at hm⟩
  | cons a rest ih =>
    obtain ⟨ty, force⟩ := a
    intro hl
    have h1 : FQ L (beginStep c ty force false e) :=
      FQ_begin L c ty force false e (fun hf => by subst hf; exact hl _ (List.mem_cons_self ..))
    have h2 := ih (fun p hp => hl p (List.mem_cons_of_mem _ hp))
    intro s
    simp only [unstashList]
    exact FQ_seq h1 h2 s

theorem FQ_reminderStep (L : List (NType × Bool)) (c : Cfg) (e : Env) : FQ L (reminderStep c e) := by
  intro s
  simp only [reminderStep]
  cases hd : reminderDue c s e
  · simp
  · simp only [if_true]
    cases ha : reminderAllowed { s with next := e.now + c.interval } e
    · simp
    · simp only [if_true]
      exact FQ_begin L c .problem false true e (fun h => by cases h) { s with next := e.now + c.interval }

/-- A timer run: every forced event stems from a forced request in the stash, and what remains stashed was stashed before. -/
theorem tick_forced_from_stash (c : Cfg) (s : St) (e : Env) :
    (∀ p ∈ (tickStep c s e).1.stash, p ∈ s.stash) ∧
    ∀ ev ∈ (tickStep c s e).2, ev.force = true → (ev.ty, true) ∈ s.stash := by
  have hdrop : ∀ p ∈ (dropStash s e).stash, p ∈ s.stash := by
    unfold dropStash; cases (e.paused && e.authUpdated) <;> simp
  simp only [tickStep]
  cases hs : tickSkipped e
  · simp only [Bool.false_eq_true, if_false]
    have hsup : (∀ p ∈ (supStep c e (dropStash s e)).1.stash, p ∈ s.stash) ∧
        ∀ ev ∈ (supStep c e (dropStash s e)).2, ev.force = true → (ev.ty, true) ∈ s.stash := by
      simp only [supStep]
      cases hr : e.reachable
      · simp only [Bool.false_eq_true, if_false]; exact ⟨hdrop, fun ev hm => by simp at hm⟩
      · simp only [if_true]
        have hq : FQ s.stash (seq (unstashList c e (dropStash s e).stash) (fireSup c e)) :=
          FQ_seq (FQ_unstashList _ c e _ hdrop) (FQ_fireSup _ c e)
        have := hq { dropStash s e with stash := [] }
        simp only [seq, unstash] at this ⊢
        refine ⟨?_, this.2⟩
        rw [this.1]; intro p hp; simp at hp
    have hrem := FQ_reminderStep s.stash c e (supStep c e (dropStash s e)).1
    simp only [seq]
    refine ⟨by rw [hrem.1]; exact hsup.1, ?_⟩
    intro ev hm hf
    rcases List.mem_append.mp hm with h | h
    · exact hsup.2 ev h hf
    · exact hrem.2 ev h hf
  · simp only [if_true]; exact ⟨hdrop, fun ev hm => by simp at hm⟩

def OwedInv (owed : List NType) (s : St) : Prop := ∀ p ∈ s.stash, p.2 = true → p.1 ∈ owed

theorem sendStep_shapes (c : Cfg) (s : St) (ty : NType) (e : Env) :
    sendStep c s ty e = (s, []) ∨ sendStep c s ty e = ({ s with stash := s.stash ++ [(ty, e.force)] }, []) ∨
    sendStep c s ty e = beginStep c ty e.force false e s := by
  unfold sendStep
  cases sendBlocked e <;> cases e.authUpdated <;> cases e.paused <;> cases s.stash.isEmpty <;> simp

theorem owed_op (c : Cfg) (owed : List NType) (s : St) (op : Op) (hi : OwedInv owed s) :
    (owedObs owed (applyOp c s op).2).1 = none ∧ OwedInv (owedObs owed (applyOp c s op).2).2 (applyOp c s op).1 := by
  cases op with
  | send ty e =>
    have hmono : ∀ (b : Bool) p, p ∈ owed → p ∈ (if b then (some ty).toList ++ owed else owed) := by
      intro b p hp; cases b <;> simp [hp]
    have key : ∀ r : St × List Event,
        (r = (s, []) ∨ r = ({ s with stash := s.stash ++ [(ty, e.force)] }, []) ∨ r = beginStep c ty e.force false e s) →
        (owedObs owed ⟨.send, e, r.2, r.1.sup.problem, some ty⟩).1 = none ∧
        OwedInv (owedObs owed ⟨.send, e, r.2, r.1.sup.problem, some ty⟩).2 r.1 := by
      intro r hr
      simp only [owedObs]
      refine ⟨by trivial, ?_⟩
      rcases hr with h | h | h
      · subst h; exact fun p hp h2 => hmono _ _ (hi p hp h2)
      · subst h
        intro p hp h2
        simp only [List.mem_append, List.mem_singleton] at hp
        rcases hp with hp | hp
        · exact hmono _ _ (hi p hp h2)
        · subst hp
          simp only at h2
          simp [h2]
      · subst h
        intro p hp h2
        simp only [beginStep] at hp
        rw [(beginExec_stash_force c s ty e.force false e).1] at hp
        exact hmono _ _ (hi p hp h2)
    exact key (sendStep c s ty e) (sendStep_shapes c s ty e)
  | tick e =>
    have key : ∀ r : St × List Event, (∀ p ∈ r.1.stash, p ∈ s.stash) →
        (∀ ev ∈ r.2, ev.force = true → (ev.ty, true) ∈ s.stash) →
        (owedObs owed ⟨.tick, e, r.2, r.1.sup.problem, none⟩).1 = none ∧
        OwedInv (owedObs owed ⟨.tick, e, r.2, r.1.sup.problem, none⟩).2 r.1 := by
      intro r h1 h2
      simp only [owedObs]
      constructor
      · have : r.2.all (fun ev => !ev.force || owed.contains ev.ty) = true := by
          rw [List.all_eq_true]
          intro ev hm
          cases hf : ev.force
          · simp
          · simp only [Bool.not_true, Bool.false_or, List.contains_eq_mem, decide_eq_true_eq]
            exact hi _ (h2 ev hm hf) rfl
        rw [if_pos this]
      · intro p hp hf; exact hi p (h1 p hp) hf
    exact key (tickStep c s e) (tick_forced_from_stash c s e).1 (tick_forced_from_stash c s e).2

/-! ## Forced notifications reach every enabled user -/

theorem userLoop_forced_all (c : Cfg) (ty : NType) (rem : Bool) (e : Env) (hp : plainType ty = true) :
    ∀ (us : List UEnv) (npu : List Nat) (lns : Nat → Option Nat) (u : UEnv), u ∈ us → u.enabled = true →
      u.id ∈ (userLoop c ty true rem e npu lns us).2.2 := by
  have hty : (ty == NType.problem) = false ∧ (ty == NType.recovery) = false ∧ (ty == NType.ack) = false := by
    cases ty <;> simp [plainType] at hp ⊢
  intro us
  induction us with
  | nil => intro npu lns u hm; simp at hm
  | cons v rest ih =>
    intro npu lns u hm hen
    simp only [userLoop]
    rcases List.mem_cons.mp hm with h | h
    · subst h
      have : (userStep c ty true rem e npu lns u).2.2 = true := by
        rw [userStep_flag]
        simp [userOk, wasNotified, isDup, hen, hty.1, hty.2.1, hty.2.2]
      simp [this]
    · have := ih (userStep c ty true rem e npu lns v).1 (userStep c ty true rem e npu lns v).2.1 u h hen
      cases (userStep c ty true rem e npu lns v).2.2 <;> simp [this]

theorem beginExec_bypass (c : Cfg) (s : St) (ty : NType) (force rem : Bool) (e : Env) (ev : Event)
    (h : (beginExec c s ty force rem e).2 = some ev) : bypassEv e ev = true := by
  rcases beginExec_split c s ty force rem e with ⟨h1, _, _⟩ | ⟨_, _, _, _, _, h1⟩
  · rw [h1] at h
    rcases filteredEv_cases ty rem force with ⟨_, h'⟩ | ⟨_, h'⟩
    · rw [h'] at h; cases h
    · rw [h'] at h; cases h; simp [bypassEv]
  · rw [h1] at h
    simp only [passedResult, Option.some.injEq] at h
    subst h
    cases force
    · simp [bypassEv]
    · cases hp : plainType ty
      · simp [bypassEv, hp]
      · simp only [bypassEv, hp, Bool.and_self, Bool.not_true, Bool.false_or, List.all_eq_true, Bool.or_eq_true,
          Bool.not_eq_true', List.contains_eq_mem, decide_eq_true_eq]
        intro u hu
        cases hen : u.enabled
        · left; rfl
        · right; exact userLoop_forced_all c ty rem e hp _ _ _ u hu hen

/-- every event a step shows satisfies `Q` -/
def AllQ (Q : Event → Prop) (step : St → St × List Event) : Prop := ∀ s, ∀ ev ∈ (step s).2, Q ev

theorem AllQ_seq {Q : Event → Prop} {a b : St → St × List Event} (ha : AllQ Q a) (hb : AllQ Q b) : AllQ Q (seq a b) := by
  intro s ev hm
  simp only [seq, List.mem_append] at hm
  rcases hm with hm | hm
  · exact ha s ev hm
  · exact hb _ ev hm

theorem AllQ_begin (c : Cfg) (ty : NType) (force rem : Bool) (e : Env) :
    AllQ (fun ev => bypassEv e ev = true) (beginStep c ty force rem e) := by
  intro s ev hm
  simp only [beginStep, Option.mem_toList] at hm
  exact beginExec_bypass c s ty force rem e ev hm

theorem AllQ_fireOne (c : Cfg) (fire : Bool) (ty : NType) (e : Env) :
    AllQ (fun ev => bypassEv e ev = true) (fireOne c fire ty e) := by
  rw [fireOne_eq]
  intro s ev hm
  cases fire
  · simp at hm
  · simp only [if_true] at hm; exact AllQ_begin c ty false false e _ ev hm

theorem AllQ_unstashList (c : Cfg) (e : Env) :
    ∀ l : List (NType × Bool), AllQ (fun ev => bypassEv e ev = true) (unstashList c e l) := by
  intro l
  induction l with
  | nil => intro s ev hm; simp [unstashList] at hm
  | cons a rest ih =>
    obtain ⟨ty, force⟩ := a
    intro s ev hm
    simp only [unstashList] at hm
    exact AllQ_seq (AllQ_begin c ty force false e) ih s ev hm

theorem AllQ_supStep (c : Cfg) (e : Env) : AllQ (fun ev => bypassEv e ev = true) (supStep c e) := by
  intro s ev hm
  simp only [supStep] at hm
  cases hr : e.reachable
  · simp [hr] at hm
  · simp only [hr, if_true] at hm
    refine AllQ_seq (Q := fun ev => bypassEv e ev = true) (a := unstash c e) (b := fireSup c e) ?_ ?_ s ev hm
    · intro s ev hm; simp only [unstash] at hm; exact AllQ_unstashList c e _ _ ev hm
    · intro s ev hm
      simp only [fireSup] at hm
      exact AllQ_seq (AllQ_fireOne c _ .problem e) (AllQ_seq (AllQ_fireOne c _ .recovery e)
        (AllQ_seq (AllQ_fireOne c _ .flapStart e) (AllQ_fireOne c _ .flapEnd e))) _ ev hm

theorem AllQ_reminderStep (c : Cfg) (e : Env) : AllQ (fun ev => bypassEv e ev = true) (reminderStep c e) := by
  intro s ev hm
  simp only [reminderStep] at hm
  cases hd : reminderDue c s e
  · simp [hd] at hm
  · simp only [hd, if_true] at hm
    cases ha : reminderAllowed { s with next := e.now + c.interval } e
    · simp [ha] at hm
    · simp only [ha, if_true] at hm
      exact AllQ_begin c .problem false true e _ ev hm

theorem bypass_op (c : Cfg) (s : St) (op : Op) : bypassObs (applyOp c s op).2 = true := by
  cases op with
  | send ty e =>
    simp only [applyOp, bypassObs, List.all_eq_true]
    intro ev hm
    rcases sendStep_shapes c s ty e with h | h | h
    · rw [h] at hm; simp at hm
    · rw [h] at hm; simp at hm
    · rw [h] at hm; exact AllQ_begin c ty e.force false e s ev hm
  | tick e =>
    simp only [applyOp, bypassObs, List.all_eq_true]
    intro ev hm
    simp only [tickStep] at hm
    cases hs : tickSkipped e
    · simp only [hs, Bool.false_eq_true, if_false] at hm
      exact AllQ_seq (AllQ_supStep c e) (AllQ_reminderStep c e) _ ev hm
    · simp [hs] at hm

theorem bypassTrace_ok (c : Cfg) : ∀ (ops : List Op) (s : St), bypassTrace (traceOf c s ops) = true := by
  intro ops
  induction ops with
  | nil => intro s; rfl
  | cons op rest ih =>
    intro s
    simp only [traceOf, bypassTrace, bypass_op, Bool.true_and]
    exact ih _

theorem crun_force_true (c : Cfg) (mid : List COp) : ∀ (k : CkSt) (s : St), k.force = true →
    (∀ op ∈ mid, ∀ ty e, op ≠ COp.send ty e) → (crun c k s mid).1.force = true := by
  induction mid with
  | nil => intro k s h _; exact h
  | cons op rest ih =>
    intro k s h hm
    have hrest : ∀ op ∈ rest, ∀ ty e, op ≠ COp.send ty e := fun o ho => hm o (List.mem_cons_of_mem _ ho)
    cases op with
    | setForce => simp only [crun, cApply]; exact ih _ _ rfl hrest
    | attach b => simp only [crun, cApply]; exact ih _ _ h hrest
    | send ty e => exact absurd rfl (hm _ (List.mem_cons_self ..) ty e)
    | tick e =>
      simp only [crun, cApply]
      cases ha : k.attached
      · simp only [Bool.false_eq_true, if_false]; exact ih _ _ h hrest
      · simp only [if_true]; exact ih _ _ h hrest

end Icinga.C03

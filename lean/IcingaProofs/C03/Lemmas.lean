/-
  C03 — helper lemmas for IcingaProofs/C03.lean.
-/
import IcingaModel.C03.Model
import IcingaModel.C03.Spec

set_option linter.unusedSimpArgs false

namespace Icinga.C03

/-! ## Generic: checkers over events, composition of model steps -/

theorem evFold_append {G : Type} (f : G → Event → Option Clause × G) (g : G) (a b : List Event) :
    evFold f g (a ++ b) =
      (match evFold f g a with
       | (some cl, g') => (some cl, g')
       | (none, g') => evFold f g' b) := by
  induction a generalizing g with
  | nil => simp [evFold]
  | cons ev rest ih =>
    simp only [List.cons_append, evFold]
    rcases h : f g ev with ⟨_ | cl, g'⟩
    · simp only; exact ih g'
    · simp

theorem evFold_opt {G : Type} (f : G → Event → Option Clause × G) (g : G) (o : Option Event) :
    evFold f g o.toList = (match o with | none => (none, g) | some ev => f g ev) := by
  cases o with
  | none => rfl
  | some ev =>
    simp only [Option.toList, evFold]
    rcases h : f g ev with ⟨_ | cl, g'⟩ <;> simp [evFold]

/-- From every state related to the bookkeeping `g`, `step` produces events the checker accepts (as long as
    they satisfy the side condition `P`) and re-establishes the relation. -/
def Pres {G : Type} (f : G → Event → Option Clause × G) (Inv : G → St → Prop) (P : Event → Prop)
    (step : St → St × List Event) : Prop :=
  ∀ g s, Inv g s → (∀ ev ∈ (step s).2, P ev) →
    (evFold f g (step s).2).1 = none ∧ Inv (evFold f g (step s).2).2 (step s).1

theorem Pres_seq {G : Type} {f : G → Event → Option Clause × G} {Inv : G → St → Prop} {P : Event → Prop}
    {a b : St → St × List Event} (ha : Pres f Inv P a) (hb : Pres f Inv P b) : Pres f Inv P (seq a b) := by
  intro g s hi hp
  simp only [seq] at hp ⊢
  obtain ⟨a1, a2⟩ := ha g s hi (fun ev h => hp ev (List.mem_append_left _ h))
  rw [evFold_append]
  generalize hq : evFold f g (a s).2 = q at a1 a2
  obtain ⟨q1, q2⟩ := q
  simp only at a1 a2
  subst a1
  simp only
  exact hb q2 (a s).1 a2 (fun ev h => hp ev (List.mem_append_right _ h))

theorem Pres_silent {G : Type} {f : G → Event → Option Clause × G} {Inv : G → St → Prop} {P : Event → Prop}
    (h : St → St) (hh : ∀ g s, Inv g s → Inv g (h s)) : Pres f Inv P (fun s => (h s, [])) := by
  intro g s hi _
  exact ⟨rfl, hh g s hi⟩

/-- One call of `BeginExecuteNotification` as a step. -/
def beginStep (c : Cfg) (ty : NType) (force reminder : Bool) (e : Env) : St → St × List Event :=
  fun s => ((beginExec c s ty force reminder e).1, (beginExec c s ty force reminder e).2.toList)

/-- `Pres` for a single call, in terms of the checker's event function. -/
theorem Pres_begin {G : Type} {f : G → Event → Option Clause × G} {Inv : G → St → Prop} {P : Event → Prop}
    (c : Cfg) (ty : NType) (force reminder : Bool) (e : Env)
    (h : ∀ g s, Inv g s →
      (match (beginExec c s ty force reminder e).2 with
       | none => Inv g (beginExec c s ty force reminder e).1
       | some ev => P ev → (f g ev).1 = none ∧ Inv (f g ev).2 (beginExec c s ty force reminder e).1)) :
    Pres f Inv P (beginStep c ty force reminder e) := by
  intro g s hi hp
  have := h g s hi
  simp only [beginStep] at hp ⊢
  rw [evFold_opt]
  rcases hq : (beginExec c s ty force reminder e).2 with _ | ev
  · rw [hq] at this; exact ⟨rfl, this⟩
  · rw [hq] at this hp
    exact this (hp ev (by simp))

/-! ## The model's operations as compositions of `beginStep` -/

theorem fireOne_eq (c : Cfg) (fire : Bool) (ty : NType) (e : Env) :
    fireOne c fire ty e = fun s =>
      if fire then beginStep c ty false false e { s with sup := s.sup.clear ty } else (s, []) := by
  funext s; simp only [fireOne, beginStep]

/-- A checker whose relation ignores `sup` is preserved by the suppressed-notification handler. -/
theorem Pres_fireOne {G : Type} {f : G → Event → Option Clause × G} {Inv : G → St → Prop} {P : Event → Prop}
    (c : Cfg) (fire : Bool) (ty : NType) (e : Env)
    (hsup : ∀ g s sup, Inv g s → Inv g { s with sup := sup })
    (hb : Pres f Inv P (beginStep c ty false false e)) : Pres f Inv P (fireOne c fire ty e) := by
  rw [fireOne_eq]
  intro g s hi hp
  cases fire
  · exact ⟨rfl, hi⟩
  · simp only [if_true] at hp ⊢
    exact hb g _ (hsup g s _ hi) hp

theorem Pres_supStep {G : Type} {f : G → Event → Option Clause × G} {Inv : G → St → Prop} {P : Event → Prop}
    (c : Cfg) (e : Env)
    (hsup : ∀ g s sup, Inv g s → Inv g { s with sup := sup })
    (hb : ∀ ty, Pres f Inv P (beginStep c ty false false e)) : Pres f Inv P (supStep c e) := by
  intro g s hi hp
  simp only [supStep] at hp ⊢
  cases hr : e.reachable
  · simp only [Bool.false_eq_true, if_false]; exact ⟨rfl, hi⟩
  · simp only [hr, if_true, fireSup] at hp ⊢
    exact Pres_seq (Pres_fireOne c _ .problem e hsup (hb _))
      (Pres_seq (Pres_fireOne c _ .recovery e hsup (hb _))
        (Pres_seq (Pres_fireOne c _ .flapStart e hsup (hb _)) (Pres_fireOne c _ .flapEnd e hsup (hb _))))
      g _ (hsup g s _ hi) hp

/-! ## Generic: a checker over the model's whole trace -/

theorem runTrace_ok {G : Type} (step : G → Obs → Option Clause × G) (Inv : G → St → Prop) (P : Obs → Prop) (c : Cfg)
    (hstep : ∀ g s op, Inv g s → P (applyOp c s op).2 →
      (step g (applyOp c s op).2).1 = none ∧ Inv (step g (applyOp c s op).2).2 (applyOp c s op).1) :
    ∀ (ops : List Op) (g : G) (s : St), Inv g s → (∀ o ∈ traceOf c s ops, P o) →
      runTrace step g (traceOf c s ops) = none := by
  intro ops
  induction ops with
  | nil => intro g s _ _; rfl
  | cons op rest ih =>
    intro g s hi hp
    simp only [traceOf, runTrace]
    obtain ⟨h1, h2⟩ := hstep g s op hi (hp _ (by simp [traceOf]))
    generalize hq : step g (applyOp c s op).2 = q at h1 h2
    obtain ⟨q1, q2⟩ := q
    simp only at h1 h2
    subst h1
    simp only
    exact ih q2 _ h2 (fun o ho => hp o (by simp [traceOf, ho]))

/-! ## BeginExecuteNotification: the six ways a call can end -/

/-- The state after the unconditional first step of `BeginExecuteNotification` (236-241). -/
def pre (s : St) (ty : NType) : St := if ty == .recovery then { s with lns := fun _ => none } else s

/-- The result of a call that passes the notification-level filters. -/
def passedResult (c : Cfg) (s : St) (ty : NType) (force rem : Bool) (e : Env) : St × Option Event :=
  let b := book c (pre s ty) ty e
  let r := userLoop c ty force rem e b.npu b.lns e.users
  ({ b with npu := if ty == .recovery then [] else r.1, lns := r.2.1 }, some ⟨ty, rem, true, r.2.2⟩)

theorem beginExec_cases (c : Cfg) (s : St) (ty : NType) (force rem : Bool) (e : Env) :
    (gPeriod force e = true ∧ beginExec c s ty force rem e =
        ({ pre s ty with sup := stashSup (pre s ty).sup ty rem }, filteredEv ty rem)) ∨
    (gPeriod force e = false ∧ gBegin c ty force e = true ∧ beginExec c s ty force rem e =
        ({ pre s ty with next := e.lhsc + c.tbegin.getD 0 + 1, noMore := false }, filteredEv ty rem)) ∨
    (gPeriod force e = false ∧ gBegin c ty force e = false ∧ gEnd c ty force e = true ∧
        beginExec c s ty force rem e = (pre s ty, filteredEv ty rem)) ∨
    (gPeriod force e = false ∧ gBegin c ty force e = false ∧ gEnd c ty force e = false ∧ gType c ty force = true ∧
        beginExec c s ty force rem e =
          ({ pre s ty with noMore := if ty == .recovery && decide (c.interval ≤ 0) then false else (pre s ty).noMore },
           filteredEv ty rem)) ∨
    (gPeriod force e = false ∧ gBegin c ty force e = false ∧ gEnd c ty force e = false ∧ gType c ty force = false ∧
        gState c ty force e = true ∧ beginExec c s ty force rem e = (pre s ty, filteredEv ty rem)) ∨
    (gPeriod force e = false ∧ gBegin c ty force e = false ∧ gEnd c ty force e = false ∧ gType c ty force = false ∧
        gState c ty force e = false ∧ beginExec c s ty force rem e = passedResult c s ty force rem e) := by
  unfold beginExec passedResult pre
  cases h1 : gPeriod force e <;> cases h2 : gBegin c ty force e <;> cases h3 : gEnd c ty force e <;>
    cases h4 : gType c ty force <;> cases h5 : gState c ty force e <;> simp

/-! ## The per-user loop -/

theorem userStep_flag (c : Cfg) (ty : NType) (force rem : Bool) (e : Env) (npu : List Nat) (lns : Nat → Option Nat) (u : UEnv) :
    (userStep c ty force rem e npu lns u).2.2 = (userOk c ty force e u && wasNotified npu ty u && !isDup lns ty rem e u) := by
  unfold userStep
  cases h : (userOk c ty force e u && wasNotified npu ty u && !isDup lns ty rem e u)
  · simp
  · cases h2 : (ty == NType.problem) <;> simp

theorem userStep_other (c : Cfg) (ty : NType) (force rem : Bool) (e : Env) (npu : List Nat) (lns : Nat → Option Nat) (u : UEnv)
    (h : ty ≠ .problem) :
    (userStep c ty force rem e npu lns u).1 = npu ∧ (userStep c ty force rem e npu lns u).2.1 = lns := by
  unfold userStep
  have : (ty == NType.problem) = false := by simpa using h
  cases h : (userOk c ty force e u && wasNotified npu ty u && !isDup lns ty rem e u) <;> simp [this]

theorem userLoop_delivered_ok (c : Cfg) (ty : NType) (force rem : Bool) (e : Env) :
    ∀ (us : List UEnv) (npu : List Nat) (lns : Nat → Option Nat) (uid : Nat),
      uid ∈ (userLoop c ty force rem e npu lns us).2.2 → ∃ u ∈ us, u.id = uid ∧ userOk c ty force e u = true := by
  intro us
  induction us with
  | nil => intro npu lns uid h; simp [userLoop] at h
  | cons u rest ih =>
    intro npu lns uid h
    simp only [userLoop] at h
    cases hf : (userStep c ty force rem e npu lns u).2.2
    · simp only [hf, Bool.false_eq_true, if_false] at h
      obtain ⟨v, hv, h1, h2⟩ := ih _ _ _ h
      exact ⟨v, List.mem_cons_of_mem _ hv, h1, h2⟩
    · simp only [hf, if_true, List.mem_cons] at h
      rcases h with h | h
      · refine ⟨u, by simp, h.symm, ?_⟩
        rw [userStep_flag] at hf
        simp only [Bool.and_eq_true] at hf
        exact hf.1.1
      · obtain ⟨v, hv, h1, h2⟩ := ih _ _ _ h
        exact ⟨v, List.mem_cons_of_mem _ hv, h1, h2⟩

theorem userLoop_other (c : Cfg) (ty : NType) (force rem : Bool) (e : Env) (h : ty ≠ .problem) :
    ∀ (us : List UEnv) (npu : List Nat) (lns : Nat → Option Nat),
      (userLoop c ty force rem e npu lns us).1 = npu ∧ (userLoop c ty force rem e npu lns us).2.1 = lns := by
  intro us
  induction us with
  | nil => intro npu lns; simp [userLoop]
  | cons u rest ih =>
    intro npu lns
    simp only [userLoop]
    obtain ⟨a, b⟩ := userStep_other c ty force rem e npu lns u h
    rw [a, b]
    exact ih npu lns

theorem userLoop_recipients (c : Cfg) (ty : NType) (force rem : Bool) (e : Env) (h : ty = .recovery ∨ ty = .ack) :
    ∀ (us : List UEnv) (npu : List Nat) (lns : Nat → Option Nat) (uid : Nat),
      uid ∈ (userLoop c ty force rem e npu lns us).2.2 →
      npu.contains uid = true ∨ ∃ u ∈ us, u.id = uid ∧ admits u.typeFilter NType.problem.bit = false := by
  have hne : ty ≠ .problem := by rcases h with h | h <;> simp [h]
  intro us
  induction us with
  | nil => intro npu lns uid h; simp [userLoop] at h
  | cons u rest ih =>
    intro npu lns uid hm
    simp only [userLoop] at hm
    obtain ⟨a, b⟩ := userStep_other c ty force rem e npu lns u hne
    rw [a, b] at hm
    cases hf : (userStep c ty force rem e npu lns u).2.2
    · simp only [hf, Bool.false_eq_true, if_false] at hm
      rcases ih _ _ _ hm with h1 | ⟨v, hv, h1, h2⟩
      · exact Or.inl h1
      · exact Or.inr ⟨v, List.mem_cons_of_mem _ hv, h1, h2⟩
    · simp only [hf, if_true, List.mem_cons] at hm
      rcases hm with hm | hm
      · rw [userStep_flag] at hf
        simp only [Bool.and_eq_true] at hf
        have hw := hf.1.2
        unfold wasNotified at hw
        have : (ty == NType.recovery || ty == NType.ack) = true := by rcases h with h | h <;> simp [h]
        simp only [this, Bool.not_true, Bool.false_or, Bool.or_eq_true, Bool.not_eq_true'] at hw
        subst hm
        rcases hw with hw | hw
        · exact Or.inl hw
        · exact Or.inr ⟨u, by simp, rfl, hw⟩
      · rcases ih _ _ _ hm with h1 | ⟨v, hv, h1, h2⟩
        · exact Or.inl h1
        · exact Or.inr ⟨v, List.mem_cons_of_mem _ hv, h1, h2⟩

theorem userStep_npu (c : Cfg) (ty : NType) (force rem : Bool) (e : Env) (npu : List Nat) (lns : Nat → Option Nat) (u : UEnv) :
    ∀ x ∈ (userStep c ty force rem e npu lns u).1, x ∈ npu ∨ (x = u.id ∧ (userStep c ty force rem e npu lns u).2.2 = true) := by
  intro x hx
  unfold userStep at hx ⊢
  cases h : (userOk c ty force e u && wasNotified npu ty u && !isDup lns ty rem e u)
  · simp only [h, Bool.false_eq_true, if_false] at hx ⊢; exact Or.inl hx
  · simp only [h, if_true] at hx ⊢
    cases h2 : (ty == NType.problem)
    · simp only [h2, Bool.false_eq_true, if_false] at hx ⊢; exact Or.inl hx
    · simp only [h2, if_true] at hx ⊢
      cases h3 : npu.contains u.id
      · simp only [h3, Bool.false_eq_true, if_false, List.mem_append, List.mem_singleton] at hx
        rcases hx with hx | hx
        · exact Or.inl hx
        · exact Or.inr ⟨hx, trivial⟩
      · simp only [h3, if_true] at hx; exact Or.inl hx

theorem userLoop_npu (c : Cfg) (ty : NType) (force rem : Bool) (e : Env) :
    ∀ (us : List UEnv) (npu : List Nat) (lns : Nat → Option Nat),
      ∀ x ∈ (userLoop c ty force rem e npu lns us).1, x ∈ npu ∨ x ∈ (userLoop c ty force rem e npu lns us).2.2 := by
  intro us
  induction us with
  | nil => intro npu lns x hx; simp only [userLoop] at hx; exact Or.inl hx
  | cons u rest ih =>
    intro npu lns x hx
    simp only [userLoop] at hx ⊢
    rcases ih _ _ x hx with h | h
    · rcases userStep_npu c ty force rem e npu lns u x h with h | ⟨h1, h2⟩
      · exact Or.inl h
      · right; simp [h2, h1]
    · right
      cases (userStep c ty force rem e npu lns u).2.2 <;> simp [h]

end Icinga.C03

/-
  C11 — helper lemmas for `complete_when_connected`: lower bounds on what a node sends, the "flush" invariant
  (everything a node that processed the event had to send is in the history), and the propagation argument at
  quiescence: the originating zone is served, a zone with one processed member is served, the master of a served
  zone reaches the next zone away from the originator; induction along the path to the target zone.
-/
import IcingaProofs.C11.Compass
namespace Icinga.C11

/-! ### lower bounds on what a node sends (for completeness) -/

section Lower
variable (T : Topo) (self : Ep) (o : Origin) (m : Option Ep) (cz : Zone)

/-- the guards that do not depend on the loop's `relayed` flag -/
def blocked0 (e : Ep) : Bool :=
  o.client == some e || o.fromZone == some cz || (m != some self && m != some e)

theorem blocked_eq (r : Bool) (e : Ep) :
    blocked T self o m cz r e = ((r && cz != T.zoneOf self) || blocked0 self o m cz e) := by
  unfold blocked blocked0
  simp [Bool.or_assoc]

theorem foldl_sent_mono (l : List Ep) (st : ZState) {x : Ep} (h : x ∈ st.sent) :
    x ∈ (l.foldl (relayStep T self o m cz) st).sent := by
  obtain ⟨l', _, hs, _⟩ := foldl_sent T self o m cz l st
  rw [hs]; exact List.mem_append_left _ h

/-- own zone: every reachable member that the origin / master guards let through gets the message -/
theorem foldl_own_sends (hcz : cz = T.zoneOf self) {e : Ep} (hne : e ≠ self) (hc : T.conn self e = true)
    (hb : blocked0 self o m cz e = false) : ∀ (l : List Ep), e ∈ l → ∀ st : ZState,
    e ∈ (l.foldl (relayStep T self o m cz) st).sent := by
  intro l
  induction l with
  | nil => intro h; cases h
  | cons x xs ih =>
    intro h st
    rw [List.foldl_cons]
    rcases List.mem_cons.mp h with rfl | h
    · apply foldl_sent_mono
      unfold relayStep
      have h1 : (e == self) = false := by simpa using hne
      have h3 : blocked T self o m cz st.relayed e = false := by
        rw [blocked_eq, hb, hcz]; simp
      simp [h1, hc, h3]
    · exact ih h _

/-- foreign zone: `relayed` once set stays set, and then something was sent -/
theorem foldl_relayed (l : List Ep) : ∀ st : ZState, (st.relayed = true → st.sent ≠ []) →
    (∃ x ∈ l, x ≠ self ∧ T.conn self x = true ∧ blocked0 self o m cz x = false) →
    (l.foldl (relayStep T self o m cz) st).sent ≠ [] := by
  induction l with
  | nil => intro st _ h; obtain ⟨x, hx, _⟩ := h; cases hx
  | cons y ys ih =>
    intro st hinv h
    rw [List.foldl_cons]
    obtain ⟨x, hx, hne, hc, hb⟩ := h
    rcases relayStep_cases T self o m cz st y with ⟨hs, hr⟩ | ⟨hs, hr, _⟩
    · -- y was not sent to
      rcases List.mem_cons.mp hx with rfl | hx'
      · -- then `relayed` was already true
        have hrel : st.relayed = true := by
          apply Classical.byContradiction
          intro hnr
          have hnr' : st.relayed = false := by simpa using hnr
          have h1 : (x == self) = false := by simpa using hne
          have h3 : blocked T self o m cz st.relayed x = false := by
            rw [blocked_eq, hb, hnr']; simp
          have : (relayStep T self o m cz st x).sent = st.sent ++ [x] := by
            unfold relayStep; simp [h1, hc, h3]
          rw [hs] at this
          have := congrArg List.length this
          simp at this
        intro hcontra
        have hne' := hinv hrel
        rw [← hs] at hne'
        obtain ⟨z, hz⟩ := List.exists_mem_of_ne_nil _ hne'
        have := foldl_sent_mono T self o m cz ys (relayStep T self o m cz st x) hz
        rw [hcontra] at this
        cases this
      · apply ih
        · rw [hs, hr]; exact hinv
        · exact ⟨x, hx', hne, hc, hb⟩
    · -- y was sent to: the result contains it
      intro hcontra
      have hy : y ∈ (relayStep T self o m cz st y).sent := by rw [hs]; simp
      have := foldl_sent_mono T self o m cz ys _ hy
      rw [hcontra] at this
      cases this

theorem relayZone_own_sends (hcz : cz = T.zoneOf self) {e : Ep} (he : e ∈ T.eps self cz) (hne : e ≠ self)
    (hc : T.conn self e = true) (hb : blocked0 self o m cz e = false) : e ∈ (relayZone T self o m cz).sent :=
  foldl_own_sends T self o m cz hcz hne hc hb _ he _

theorem relayZone_foreign_sends (h : ∃ x ∈ T.eps self cz, x ≠ self ∧ T.conn self x = true ∧ blocked0 self o m cz x = false) :
    ∃ e, e ∈ (relayZone T self o m cz).sent := by
  have := foldl_relayed T self o m cz (T.eps self cz) {} (by intro h; cases h) h
  exact List.exists_mem_of_ne_nil _ this

end Lower

/-- the inner loop for zone `cz` contributes to the relay step when `cz` is entitled and directly related -/
theorem relayZone_sub_relay {T : Topo} (hd : Detached T) {self : Ep} {o : Origin} {oz : Zone} {log : Bool} {cz : Zone}
    (h : if T.isGlobal oz = true then cz = T.zoneOf self ∨ (cz ∈ T.zones ∧ T.parent cz = some (T.zoneOf self))
         else isChildOf T oz cz = true ∧ related T self cz = true)
    {e : Ep} (he : e ∈ (relayZone T self o (getMaster T self) cz).sent) : e ∈ (relay T self o (some oz) log).sent := by
  unfold relay
  have h' : if T.isGlobal (targetZone T self (some oz)) = true then
        cz = T.zoneOf self ∨ (cz ∈ T.zones ∧ T.parent cz = some (T.zoneOf self))
      else cz ∈ targetZone T self (some oz) :: allParents T maxDepth (targetZone T self (some oz)) ∧ related T self cz = true := by
    simp only [targetZone]
    by_cases hg : T.isGlobal oz = true
    · simp only [hg, if_true] at h ⊢; exact h
    · simp only [hg, Bool.false_eq_true, if_false] at h ⊢
      exact ⟨(isChildOfFuel_iff T _ _ _).mp h.1, h.2⟩
  obtain ⟨z, hz, hrel, hcz⟩ := zone_relayed hd (self := self) (oz := some oz) (fuel := maxDepth) (cz := cz) h'
  exact (mem_relayFuel_sent T self o).mpr ⟨z, hz, (mem_relayOne_sent T self o _).mpr ⟨hrel, cz, hcz, he⟩⟩



/-! ### the flush invariant -/

/-- everything a node that processed the event had to send is in the history -/
structure FInv (T : Topo) (orig : Ep) (oz : Zone) (n : Net) : Prop where
  first : ∀ m' ∈ emit T orig Origin.loc oz, m' ∈ hist n
  later : ∀ m ∈ n.accepted, ∀ m' ∈ emit T m.to (originOf T m) oz, m' ∈ hist n

theorem hist_deliver_accept {T : Topo} {oz : Zone} {n : Net} {i : Nat} {m : Msg} (hget : n.inflight[i]? = some m)
    (hacc : accept T oz (originOf T m) = true) :
    (deliver T oz n i).accepted = n.accepted ++ [m] ∧
    ∀ x, x ∈ hist (deliver T oz n i) ↔ x ∈ hist n ∨ x ∈ emit T m.to (originOf T m) oz := by
  have hd := deliver_accept_eq hget hacc
  generalize deliver T oz n i = n' at hd ⊢
  refine ⟨by rw [hd], ?_⟩
  have hperm : (hist n').Perm (hist n ++ emit T m.to (originOf T m) oz) := by
    have h1 := eraseIdx_perm n.inflight i m hget
    have : hist n' = n.accepted ++ ((m :: n.inflight.eraseIdx i) ++ emit T m.to (originOf T m) oz) := by
      rw [hd]; simp [hist]
    rw [this]
    unfold hist
    rw [List.append_assoc]
    exact (h1.append_right _).append_left _
  intro x; rw [hperm.mem_iff, List.mem_append]

theorem finv_start (T : Topo) (orig : Ep) (oz : Zone) : FInv T orig oz (start T orig oz) :=
  ⟨fun m' h => by simpa [hist, start] using h, fun m h => by simp [start] at h⟩

theorem finv_step_accept {T : Topo} {orig : Ep} {oz : Zone} {n : Net} (f : FInv T orig oz n) {i : Nat} {m : Msg}
    (hget : n.inflight[i]? = some m) (hacc : accept T oz (originOf T m) = true) : FInv T orig oz (deliver T oz n i) := by
  obtain ⟨ha, hmem⟩ := hist_deliver_accept hget hacc
  refine ⟨fun m' h => (hmem m').mpr (Or.inl (f.first m' h)), ?_⟩
  intro m0 hm0 m' hm'
  rw [ha] at hm0
  rcases List.mem_append.mp hm0 with h | h
  · exact (hmem m').mpr (Or.inl (f.later m0 h m' hm'))
  · simp at h; subst h
    exact (hmem m').mpr (Or.inr hm')

/-- both invariants in every reachable state (originator's zone entitled) -/
theorem inv_run {T : Topo} (cl : Cluster T) {orig : Ep} (hM : Member T orig) {oz : Zone}
    (horig : T.isGlobal oz = true ∨ isChildOf T oz (T.zoneOf orig) = true) (sched : List Nat) :
    ∃ Q, KInv T orig Q (run T oz (start T orig oz) sched) ∧ FInv T orig oz (run T oz (start T orig oz) sched) := by
  have hnone : ∀ (n : Net) (i : Nat), n.inflight[i]? = none → deliver T oz n i = n := by
    intro n i hget
    apply deliver_out_of_range
    rcases Nat.lt_or_ge i n.inflight.length with h | h
    · rw [List.getElem?_eq_getElem h] at hget; cases hget
    · exact h
  by_cases hg : T.isGlobal oz = true
  · refine ⟨fun z => Anc T z (T.zoneOf orig), ?_⟩
    have hdir := dirOK_global cl (orig := orig) hg
    apply run_induction (fun n => KInv T orig _ n ∧ FInv T orig oz n)
    · intro n i ⟨k, f⟩
      cases hget : n.inflight[i]? with
      | none => rw [hnone n i hget]; exact ⟨k, f⟩
      | some m => exact ⟨kinv_step_accept cl hdir k hget (accept_global hg _), finv_step_accept f hget (accept_global hg _)⟩
    · exact ⟨kinv_start cl hdir hM (Anc.refl _), finv_start T orig oz⟩
  · have hg' : T.isGlobal oz = false := by simpa using hg
    have horig' : isChildOf T oz (T.zoneOf orig) = true := horig.resolve_left hg
    refine ⟨fun z => Anc T oz z, ?_⟩
    have hdir := dirOK_chain cl (orig := orig) hg' (anc_of_isChildOf horig')
    have := run_induction (T := T) (oz := oz)
      (fun n => (KInv T orig (fun z => Anc T oz z) n ∧ FInv T orig oz n) ∧ AccInv T oz n)
      (fun n i ⟨⟨k, f⟩, a⟩ => by
        refine ⟨?_, accInv_step cl.toNetWF hg' n i a⟩
        cases hget : n.inflight[i]? with
        | none => rw [hnone n i hget]; exact ⟨k, f⟩
        | some m =>
          have hacc := accInv_accept a (List.mem_of_getElem? hget)
          exact ⟨kinv_step_accept cl hdir k hget hacc, finv_step_accept f hget hacc⟩)
      sched (start T orig oz)
      ⟨⟨kinv_start cl hdir hM (anc_of_isChildOf horig'), finv_start T orig oz⟩, accInv_start cl.toNetWF hg' horig'⟩
    exact this.1



/-! ### propagation at quiescence -/

theorem toward_antisymm {T : Topo} {rank : Zone → Nat} (hr : ∀ z p, T.parent z = some p → rank p < rank z)
    {Z0 Z g : Zone} (h1 : Toward T Z0 Z g) (h2 : Toward T Z0 g Z) : False := by
  rcases h1 with ⟨hp1, ha1⟩ | ⟨hp1, ha1⟩ <;> rcases h2 with ⟨hp2, ha2⟩ | ⟨hp2, ha2⟩
  all_goals
    have a := anc_rank hr ha1; have b := anc_rank hr ha2
    have c := hr _ _ hp1; have d := hr _ _ hp2
    omega

/-- the relay step of `self` runs the inner loop for zone `cz` -/
def RelayedTo (T : Topo) (oz : Zone) (self : Ep) (cz : Zone) : Prop :=
  if T.isGlobal oz = true then cz = T.zoneOf self ∨ (cz ∈ T.zones ∧ T.parent cz = some (T.zoneOf self))
  else isChildOf T oz cz = true ∧ related T self cz = true

section Quiescent
variable {T : Topo} {orig : Ep} {oz : Zone} {Q : Zone → Prop} {n : Net}

/-- `e` processed the event and relayed it with origin `o` -/
def RelayedWith (T : Topo) (orig : Ep) (n : Net) (e : Ep) (o : Origin) : Prop :=
  (e = orig ∧ o = Origin.loc) ∨ ∃ m ∈ n.accepted, m.to = e ∧ o = originOf T m

/-- at quiescence whoever was sent the event has processed it -/
theorem sends_processed (k : KInv T orig Q n) (f : FInv T orig oz n) (hq : n.inflight = []) {e : Ep} {o : Origin}
    (hr : RelayedWith T orig n e o) {e' : Ep} (he' : e' ∈ (relay T e o (some oz) true).sent) : e' ∈ n.processed := by
  have hmsg : (⟨e', e, o.fromZone⟩ : Msg) ∈ hist n := by
    rcases hr with ⟨rfl, rfl⟩ | ⟨m, hm, rfl, rfl⟩
    · exact f.first _ (mem_emit.mpr ⟨he', rfl, rfl⟩)
    · exact f.later m hm _ (mem_emit.mpr ⟨he', rfl, rfl⟩)
  unfold hist at hmsg
  rw [hq, List.append_nil] at hmsg
  rw [k.processed_eq]
  exact List.mem_cons_of_mem _ (List.mem_map.mpr ⟨_, hmsg, rfl⟩)

theorem processed_cases (k : KInv T orig Q n) {e : Ep} (he : e ∈ n.processed) :
    e = orig ∨ ∃ m ∈ n.accepted, m.to = e := by
  rw [k.processed_eq] at he
  rcases List.mem_cons.mp he with h | h
  · exact Or.inl h
  · obtain ⟨m, hm, hto⟩ := List.mem_map.mp h
    exact Or.inr ⟨m, hm, hto⟩

/-- the master as a node of a two-member zone sees it is itself or its peer -/
theorem master_self_or_peer (cl : Cluster T) {e p : Ep} (hMe : Member T e) (hMp : Member T p)
    (hz : T.zoneOf p = T.zoneOf e) (hne : e ≠ p) : getMaster T e = some e ∨ getMaster T e = some p := by
  cases hm : getMaster T e with
  | none =>
    exfalso
    unfold getMaster at hm
    have := minEp_eq_none.mp hm
    have he : e ∈ (T.eps e (T.zoneOf e)).filter (fun x => T.conn e x || x == e) := by
      rw [List.mem_filter]; exact ⟨hMe e, by simp⟩
    rw [this] at he; cases he
  | some x =>
    have hx := master_in_own_zone hm
    by_cases hxe : x = e
    · left; rw [hxe]
    · by_cases hxp : x = p
      · right; rw [hxp]
      · exfalso
        have hp : p ∈ T.eps e (T.zoneOf e) := by rw [← hz]; exact hMp e
        exact three_in_two (cl.eps_nodup e _) (cl.two e _) (hMe e) hp hx hne (Ne.symm hxe) (Ne.symm hxp)

/-- a node that relayed hands the event to its zone peer unless the origin forbids it -/
theorem peer_served (cl : Cluster T) (mc : MastersConnected T) (k : KInv T orig Q n) (f : FInv T orig oz n)
    (hq : n.inflight = []) {e p : Ep} {o : Origin} (hr : RelayedWith T orig n e o) (hMe : Member T e) (hMp : Member T p)
    (hz : T.zoneOf p = T.zoneOf e) (hne : e ≠ p) (hcl : o.client ≠ some p) (hfz : o.fromZone ≠ some (T.zoneOf e))
    (hrt : RelayedTo T oz e (T.zoneOf e)) : p ∈ n.processed := by
  apply sends_processed k f hq hr
  apply relayZone_sub_relay cl.toDetached hrt
  apply relayZone_own_sends T e o _ _ rfl (by rw [← hz]; exact hMp e) (Ne.symm hne) (mc.peers e p hMe hMp hz.symm hne)
  unfold blocked0
  have h1 : (o.client == some p) = false := by simpa using hcl
  have h2 : (o.fromZone == some (T.zoneOf e)) = false := by simpa using hfz
  rw [h1, h2]
  rcases master_self_or_peer cl hMe hMp hz hne with h | h <;> simp [h]

/-- a zone other than the originating one in which somebody processed the event is served completely -/
theorem zone_served_of_member (cl : Cluster T) (mc : MastersConnected T) (k : KInv T orig Q n) (f : FInv T orig oz n)
    (hq : n.inflight = []) {e p : Ep} (he : e ∈ n.processed) (hZ : T.zoneOf e ≠ T.zoneOf orig) (hMp : Member T p)
    (hz : T.zoneOf p = T.zoneOf e) (hrt : RelayedTo T oz e (T.zoneOf e)) : p ∈ n.processed := by
  by_cases hne : e = p
  · rw [← hne]; exact he
  rcases processed_cases k he with h | ⟨m, hm, hto⟩
  · rw [h] at hZ; exact absurd rfl hZ
  · have ok := k.msgs m (mem_hist_of_accepted hm)
    have hMe : Member T e := hto ▸ ok.to_member
    by_cases hx : T.zoneOf m.frm = T.zoneOf m.to
    · -- got it from the peer
      by_cases hs : m.frm = p
      · rw [← hs]; exact ok.frm_processed
      · exfalso
        have h1 : T.zoneOf m.frm = T.zoneOf e := by rw [hx, hto]
        have h2 : m.frm ≠ e := by rw [← hto]; exact ok.ne
        exact three_members cl hMe hMp ok.frm_member hz h1 hne (Ne.symm h2) (Ne.symm hs)
    · -- got it from another zone: hands it to the peer
      apply peer_served cl mc k f hq (Or.inr ⟨m, hm, hto, rfl⟩) hMe hMp hz hne
      · show some m.frm ≠ some p
        intro h; cases h
        apply hx; rw [hz, hto]
      · unfold originOf
        have : (T.zoneOf m.frm != T.zoneOf m.to) = true := by simpa using hx
        simp only [this, if_true]
        intro h
        apply hx
        rw [hto]
        exact Option.some.inj h
      · exact hrt

/-- the smallest member of a non-empty zone -/
theorem exists_zone_min (cl : Cluster T) {Z : Zone} (h : ∃ x, Member T x ∧ T.zoneOf x = Z) :
    ∃ m, Member T m ∧ T.zoneOf m = Z ∧ ∀ x, Member T x → T.zoneOf x = Z → m ≤ x := by
  obtain ⟨x0, hM0, hz0⟩ := h
  have hx0 : x0 ∈ T.eps x0 Z := by rw [← hz0]; exact hM0 x0
  cases hm : minEp (T.eps x0 Z) with
  | none => rw [minEp_eq_none.mp hm] at hx0; cases hx0
  | some m =>
    have hmem := minEp_mem hm
    have hzm := cl.zone_of_mem x0 Z m hmem
    refine ⟨m, ?_, hzm, ?_⟩
    · intro x; rw [hzm]; exact cl.mem_indep x0 x Z m hmem
    · intro x hMx hzx
      apply minEp_le hm
      rw [← hzx]; exact hMx x0

theorem zone_min_is_master {m : Ep} (hM : Member T m) (hmin : ∀ x, Member T x → T.zoneOf x = T.zoneOf m → m ≤ x)
    (cl : Cluster T) : getMaster T m = some m := by
  have hmf : m ∈ (T.eps m (T.zoneOf m)).filter (fun x => T.conn m x || x == m) := by
    rw [List.mem_filter]; exact ⟨hM m, by simp⟩
  cases hg : getMaster T m with
  | none =>
    unfold getMaster at hg
    rw [minEp_eq_none.mp hg] at hmf; cases hmf
  | some y =>
    have hy := master_in_own_zone hg
    have hzy := cl.zone_of_mem m _ y hy
    have hMy : Member T y := by intro x; rw [hzy]; exact cl.mem_indep m x _ y hy
    have h1 := hmin y hMy hzy
    unfold getMaster at hg
    have h2 := minEp_le hg m hmf
    congr 1
    eomega

/-- the master of a served zone carries the event into the next zone away from the originating zone -/
theorem next_zone_reached (cl : Cluster T) (mc : MastersConnected T) (k : KInv T orig Q n) (f : FInv T orig oz n)
    (hq : n.inflight = []) {Z Z' : Zone} (hserved : ∀ p, Member T p → T.zoneOf p = Z → p ∈ n.processed)
    (hZ : ∃ x, Member T x ∧ T.zoneOf x = Z) (hZ' : ∃ x, Member T x ∧ T.zoneOf x = Z')
    (hadj : T.parent Z' = some Z ∨ T.parent Z = some Z') (ht : Toward T (T.zoneOf orig) Z' Z)
    (hrt : ∀ s, T.zoneOf s = Z → RelayedTo T oz s Z') :
    ∃ e', Member T e' ∧ T.zoneOf e' = Z' ∧ e' ∈ n.processed := by
  obtain ⟨rank, hr⟩ := cl.acyclic
  obtain ⟨mZ, hMm, hzm, hmin⟩ := exists_zone_min cl hZ
  have hmaster := zone_min_is_master hMm (by rw [hzm]; exact hmin) cl
  have hproc := hserved mZ hMm hzm
  obtain ⟨x, hMx, hzx, hcx⟩ := mc.cross mZ Z' hMm (by rw [hzm]; exact hmin) (by rw [hzm]; exact hadj) hZ'
  have hZZ' : Z' ≠ Z := by
    rcases hadj with h | h
    · intro e; rw [e] at h; exact Nat.lt_irrefl _ (hr _ _ h)
    · intro e; rw [e] at h; exact Nat.lt_irrefl _ (hr _ _ h)
  -- the origin with which mZ relayed does not forbid Z'
  have horigin : ∃ o, RelayedWith T orig n mZ o ∧ o.fromZone ≠ some Z' ∧ ∀ y, T.zoneOf y = Z' → o.client ≠ some y := by
    rcases processed_cases k hproc with h | ⟨m, hm, hto⟩
    · refine ⟨Origin.loc, Or.inl ⟨h, rfl⟩, ?_, ?_⟩
      · intro h'; cases h'
      · intro y _ h'; cases h'
    · have ok := k.msgs m (mem_hist_of_accepted hm)
      refine ⟨originOf T m, Or.inr ⟨m, hm, hto, rfl⟩, ?_, ?_⟩
      · have hc := ok.compass
        rw [hto, hzm] at hc
        rcases hc with ⟨_, h⟩ | ⟨_, g, hg, htg⟩
        · rw [h]; intro h'; cases h'
        · rw [hg]; intro h'; cases h'
          exact toward_antisymm hr htg ht
      · intro y hy hcl
        have hfy : m.frm = y := by
          have : (originOf T m).client = some m.frm := rfl
          rw [this] at hcl; cases hcl; rfl
        have hx : T.zoneOf m.frm ≠ T.zoneOf m.to := by rw [hfy, hy, hto, hzm]; exact hZZ'
        have := (ok.cross_toward hx).2
        rw [hto, hzm, hfy, hy] at this
        exact toward_antisymm hr this ht
  obtain ⟨o, hrw, hfz, hcl⟩ := horigin
  have hx' : x ∈ T.eps mZ Z' := by rw [← hzx]; exact hMx mZ
  have hxne : x ≠ mZ := by intro e; rw [e, hzm] at hzx; exact hZZ' hzx.symm
  have hb : blocked0 mZ o (getMaster T mZ) Z' x = false := by
    unfold blocked0
    have h1 : (o.client == some x) = false := by simpa using hcl x hzx
    have h2 : (o.fromZone == some Z') = false := by simpa using hfz
    rw [h1, h2, hmaster]; simp
  obtain ⟨e', he'⟩ := relayZone_foreign_sends T mZ o (getMaster T mZ) Z' ⟨x, hx', hxne, hcx, hb⟩
  have hmem := (relayZone_sent_eligible T mZ o _ Z' he').1
  have hze' := cl.zone_of_mem mZ Z' e' hmem
  refine ⟨e', ?_, hze', ?_⟩
  · intro y; rw [hze']; exact cl.mem_indep mZ y Z' e' hmem
  · exact sends_processed k f hq hrw (relayZone_sub_relay cl.toDetached (hrt mZ hzm) he')

end Quiescent


section Induction
variable {T : Topo} {orig : Ep} {oz : Zone} {Q : Zone → Prop} {n : Net}

/-- all members of zone `Z` have processed the event -/
def Served (T : Topo) (n : Net) (Z : Zone) : Prop := ∀ p, Member T p → T.zoneOf p = Z → p ∈ n.processed

/-- the originating zone is served -/
theorem origin_zone_served (cl : Cluster T) (mc : MastersConnected T) (k : KInv T orig Q n) (f : FInv T orig oz n)
    (hq : n.inflight = []) (hM : Member T orig) (hrt : RelayedTo T oz orig (T.zoneOf orig)) :
    Served T n (T.zoneOf orig) := by
  intro p hMp hz
  by_cases hne : orig = p
  · rw [← hne, k.processed_eq]; exact List.mem_cons_self
  · exact peer_served cl mc k f hq (Or.inl ⟨rfl, rfl⟩) hM hMp hz hne (by intro h; cases h) (by intro h; cases h) hrt

/-- downwards: every entitled zone below the originating zone is served -/
theorem served_below (cl : Cluster T) (mc : MastersConnected T) (k : KInv T orig Q n) (f : FInv T orig oz n)
    (hq : n.inflight = []) (hM : Member T orig) (E : Zone → Prop)
    (hE_ne : ∀ Z, E Z → ∃ x, Member T x ∧ T.zoneOf x = Z)
    (hE_up : ∀ a p, T.parent a = some p → E a → Anc T p (T.zoneOf orig) → E p)
    (hE_rt : ∀ a p s, T.parent a = some p → E a → T.zoneOf s = p → RelayedTo T oz s a)
    (hown : ∀ e, e ∈ n.processed → RelayedTo T oz e (T.zoneOf e)) :
    ∀ a z0, Anc T a z0 → z0 = T.zoneOf orig → E a → Served T n a := by
  obtain ⟨rank, hr⟩ := cl.acyclic
  intro a z0 h
  induction h with
  | refl a =>
    intro h0 _
    rw [h0]
    exact origin_zone_served cl mc k f hq hM (hown orig (by rw [k.processed_eq]; exact List.mem_cons_self))
  | @step a p z0 hp hanc ih =>
    intro h0 hEa
    subst h0
    have hEp := hE_up a p hp hEa hanc
    have hsp := ih rfl hEp
    obtain ⟨e', hMe', hze', hpe'⟩ := next_zone_reached cl mc k f hq hsp (hE_ne p hEp) (hE_ne a hEa) (Or.inl hp)
      (Or.inr ⟨hp, hanc⟩) (fun s hs => hE_rt a p s hp hEa hs)
    intro q hMq hzq
    have hne0 : T.zoneOf e' ≠ T.zoneOf orig := by
      rw [hze']
      intro e0
      have a1 := anc_rank hr hanc
      have a2 := hr _ _ hp
      rw [e0] at a2; omega
    exact zone_served_of_member cl mc k f hq hpe' hne0 hMq (by rw [hzq, hze']) (hown e' hpe')

/-- upwards (object of an ordinary zone): every zone between the originating zone and an entitled zone above it -/
theorem served_above (cl : Cluster T) (mc : MastersConnected T) (k : KInv T orig Q n) (f : FInv T orig oz n)
    (hq : n.inflight = []) (E : Zone → Prop)
    (hE_ne : ∀ Z, E Z → ∃ x, Member T x ∧ T.zoneOf x = Z)
    (hE_up : ∀ a p, T.parent a = some p → E a → E p)
    (hE_rt : ∀ a p s, T.parent a = some p → E a → T.zoneOf s = a → RelayedTo T oz s p)
    (hown : ∀ e, e ∈ n.processed → RelayedTo T oz e (T.zoneOf e)) :
    ∀ a z, Anc T a z → Anc T (T.zoneOf orig) a → E a → Served T n a → Served T n z := by
  obtain ⟨rank, hr⟩ := cl.acyclic
  intro a z h
  induction h with
  | refl a => intro _ _ hs; exact hs
  | @step a p z hp _ ih =>
    intro h0 hEa hsa
    have hEp := hE_up a p hp hEa
    have ht : Toward T (T.zoneOf orig) p a := Or.inl ⟨hp, h0⟩
    obtain ⟨e', hMe', hze', hpe'⟩ := next_zone_reached cl mc k f hq hsa (hE_ne a hEa) (hE_ne p hEp) (Or.inr hp) ht
      (fun s hs => hE_rt a p s hp hEa hs)
    apply ih (Anc.trans h0 (Anc.step hp (Anc.refl _))) hEp
    intro q hMq hzq
    have hne0 : T.zoneOf e' ≠ T.zoneOf orig := by rw [hze']; exact toward_ne hr ht
    exact zone_served_of_member cl mc k f hq hpe' hne0 hMq (by rw [hzq, hze']) (hown e' hpe')

end Induction

/-- **the general completeness statement**, assembled: in a quiescent state reached from the originator's relay step,
    under the connectivity hypothesis, every member of every entitled zone has processed the event. -/
theorem complete_core {T : Topo} (cl : Cluster T) (mc : MastersConnected T) {orig : Ep} (hM : Member T orig)
    (hdepth : ∀ a b, Anc T a b → isChildOf T a b = true) (hreg : ∀ z p, T.parent z = some p → z ∈ T.zones)
    (oz : Zone) (horig : T.isGlobal oz = true ∨ isChildOf T oz (T.zoneOf orig) = true)
    (hne : ∀ Z, NetEntitled T (T.zoneOf orig) oz Z → ∃ x, Member T x ∧ T.zoneOf x = Z)
    (sched : List Nat) (hq : (run T oz (start T orig oz) sched).inflight = []) :
    ∀ e, Member T e → NetEntitled T (T.zoneOf orig) oz (T.zoneOf e) → e ∈ (run T oz (start T orig oz) sched).processed := by
  obtain ⟨Q, k, f⟩ := inv_run cl hM horig sched
  have ent := run_induction (EntInv T orig oz) (fun n i h => entInv_step cl.toNetWF orig oz n i h) sched _
    (entInv_start cl.toNetWF orig oz)
  generalize run T oz (start T orig oz) sched = n at k f ent hq ⊢
  by_cases hg : T.isGlobal oz = true
  · -- object of a global zone: the originating zone and everything below it
    have hown : ∀ e, e ∈ n.processed → RelayedTo T oz e (T.zoneOf e) := by
      intro e _; unfold RelayedTo; rw [if_pos hg]; exact Or.inl rfl
    intro e hMe hE
    unfold NetEntitled at hE hne
    simp only [hg, if_true] at hE hne
    exact served_below cl mc k f hq hM (fun z => Anc T z (T.zoneOf orig)) hne
      (fun _ _ _ _ h => h)
      (fun a p s hp _ hs => by
        unfold RelayedTo; simp only [hg, if_true]
        exact Or.inr ⟨hreg a p hp, by rw [hs]; exact hp⟩)
      hown _ _ hE rfl hE e hMe rfl
  · have hg' : T.isGlobal oz = false := by simpa using hg
    have horig' : isChildOf T oz (T.zoneOf orig) = true := horig.resolve_left hg
    have h0 : Anc T oz (T.zoneOf orig) := anc_of_isChildOf horig'
    unfold NetEntitled at hne
    simp only [hg', Bool.false_eq_true, if_false] at hne
    have hown : ∀ e, e ∈ n.processed → RelayedTo T oz e (T.zoneOf e) := by
      intro e he
      unfold RelayedTo; simp only [hg', Bool.false_eq_true, if_false]
      refine ⟨?_, by simp [related]⟩
      rcases ent.processed e he with h | h
      · rw [h]; exact horig'
      · unfold NetEntitled at h
        simpa [hg'] using h
    have hE_ne : ∀ Z, Anc T oz Z → ∃ x, Member T x ∧ T.zoneOf x = Z := fun Z h => hne Z (hdepth _ _ h)
    intro e hMe hE
    unfold NetEntitled at hE
    simp only [hg', Bool.false_eq_true, if_false] at hE
    have hEz : Anc T oz (T.zoneOf e) := anc_of_isChildOf hE
    rcases anc_comparable hEz h0 with hdown | hup
    · exact served_below cl mc k f hq hM (fun z => Anc T oz z) hE_ne
        (fun a p hp ha _ => Anc.trans ha (Anc.step hp (Anc.refl _)))
        (fun a p s hp ha hs => by
          unfold RelayedTo; simp only [hg', Bool.false_eq_true, if_false]
          exact ⟨hdepth _ _ ha, by simp [related, hs, hp]⟩)
        hown _ _ hdown rfl hEz e hMe rfl
    · have hs0 := origin_zone_served cl mc k f hq hM (hown orig (by rw [k.processed_eq]; exact List.mem_cons_self))
      exact served_above cl mc k f hq (fun z => Anc T oz z) hE_ne
        (fun a p hp ha => Anc.trans ha (Anc.step hp (Anc.refl _)))
        (fun a p s hp ha hs => by
          unfold RelayedTo; simp only [hg', Bool.false_eq_true, if_false]
          exact ⟨hdepth _ _ (Anc.trans ha (Anc.step hp (Anc.refl _))), by simp [related, hs, hp]⟩)
        hown _ _ hup (Anc.refl _) h0 hs0 e hMe rfl



/-! ### per-node forwarding (the clauses `master_by_names_and_connectedness`, `forwarded_when_reachable`) -/

section Forward
variable {T : Topo} {self : Ep}

theorem masterIsB_of_getMaster {m : Ep} (h : getMaster T self = some m) : masterIsB T self m = true := by
  unfold getMaster at h
  have hmem := List.mem_filter.mp (minEp_mem h)
  unfold masterIsB
  simp only [Bool.and_eq_true, List.contains_iff_mem, List.all_eq_true, Bool.or_eq_true, Bool.not_eq_true',
    decide_eq_true_eq]
  refine ⟨⟨hmem.1, by simpa using hmem.2⟩, ?_⟩
  intro y hy
  by_cases hc : (T.conn self y || y == self) = true
  · right; exact minEp_le h y (List.mem_filter.mpr ⟨hy, hc⟩)
  · left; simpa using hc

theorem getMaster_of_masterIsB {x : Ep} (h : masterIsB T self x = true) : getMaster T self = some x := by
  unfold masterIsB at h
  simp only [Bool.and_eq_true, List.contains_iff_mem, List.all_eq_true, Bool.or_eq_true, Bool.not_eq_true',
    decide_eq_true_eq] at h
  obtain ⟨⟨hx, hcx⟩, hall⟩ := h
  have hxf : x ∈ (T.eps self (T.zoneOf self)).filter (fun e => T.conn self e || e == self) :=
    List.mem_filter.mpr ⟨hx, by simpa using hcx⟩
  cases hm : getMaster T self with
  | none =>
    unfold getMaster at hm
    rw [minEp_eq_none.mp hm] at hxf; cases hxf
  | some m =>
    unfold getMaster at hm
    have h1 := minEp_le hm x hxf
    have hmf := List.mem_filter.mp (minEp_mem hm)
    have h2 : x ≤ m := by
      rcases hall m hmf.1 with h | h
      · have := hmf.2; rw [h] at this; cases this
      · exact h
    congr 1
    eomega

theorem relayZone_sub_relayFuel (hd : Detached T) {o : Origin} {oz : Option Zone} {log : Bool} {fuel : Nat} {cz : Zone}
    (h : if T.isGlobal (targetZone T self oz) = true then
        cz = T.zoneOf self ∨ (cz ∈ T.zones ∧ T.parent cz = some (T.zoneOf self))
      else cz ∈ targetZone T self oz :: allParents T fuel (targetZone T self oz) ∧ related T self cz = true)
    {e : Ep} (he : e ∈ (relayZone T self o (getMaster T self) cz).sent) : e ∈ (relayFuel fuel T self o oz log).sent := by
  obtain ⟨z, hz, hrel, hcz⟩ := zone_relayed hd (self := self) (oz := oz) (fuel := fuel) (cz := cz) h
  exact (mem_relayFuel_sent T self o).mpr ⟨z, hz, (mem_relayOne_sent T self o _).mpr ⟨hrel, cz, hcz, he⟩⟩

theorem related_of_directlyRelated {z : Zone} (h : directlyRelated T self z = true) : related T self z = true := by
  unfold directlyRelated at h; unfold related
  simp only [Bool.or_eq_true] at h ⊢
  rcases h with (h | h) | h
  · exact Or.inl (Or.inl (Or.inr h))
  · exact Or.inl (Or.inr h)
  · exact Or.inr h

/-- an entitled, directly related zone of the candidate list is one the relay step runs the inner loop for -/
theorem candidate_relayed (c : Case) {fuel : Nat} {z : Zone} (hzc : z ∈ candidateZones T c.self c.objZone)
    (hrel : directlyRelated T c.self z = true) (hent : entitledB fuel T c.self c.objZone z = true) :
    if T.isGlobal (targetZone T c.self c.objZone) = true then
      z = T.zoneOf c.self ∨ (z ∈ T.zones ∧ T.parent z = some (T.zoneOf c.self))
    else z ∈ targetZone T c.self c.objZone :: allParents T fuel (targetZone T c.self c.objZone) ∧ related T c.self z = true := by
  unfold entitledB at hent
  by_cases hg : T.isGlobal (targetZone T c.self c.objZone) = true
  · simp only [hg, if_true, Bool.or_eq_true, beq_iff_eq] at hent ⊢
    unfold candidateZones at hzc
    simp only [hg, if_true, List.mem_cons] at hzc
    rcases hent with h | h
    · exact Or.inl h
    · rcases hzc with h' | h'
      · exact Or.inl h'
      · exact Or.inr ⟨h', h⟩
  · simp only [hg, Bool.false_eq_true, if_false] at hent ⊢
    exact ⟨(isChildOfFuel_iff T fuel _ _).mp hent, related_of_directlyRelated hrel⟩

theorem peer_due_sent (hd : Detached T) (c : Case) {fuel : Nat}
    (hent : entitledB fuel T c.self c.objZone (T.zoneOf c.self) = true) {p : Ep} (hp : p ∈ T.eps c.self (T.zoneOf c.self))
    (hdue : peerDueB T c p = true) : p ∈ queued T c.self (relayFuel fuel T c.self c.origin c.objZone c.log) := by
  unfold peerDueB at hdue
  simp only [Bool.and_eq_true, bne_iff_ne, ne_eq, Bool.not_eq_true', Bool.or_eq_true] at hdue
  obtain ⟨⟨⟨⟨⟨hne, hc⟩, hsync⟩, hcl⟩, hfz⟩, hm⟩ := hdue
  unfold queued
  rw [List.mem_filter]
  refine ⟨?_, by simp [hsync]⟩
  have hcand : T.zoneOf c.self ∈ candidateZones T c.self c.objZone := by
    unfold candidateZones; split <;> exact List.mem_cons_self
  apply relayZone_sub_relayFuel hd (candidate_relayed c hcand (by simp [directlyRelated]) hent)
  apply relayZone_own_sends T c.self c.origin _ _ rfl hp hne hc
  unfold blocked0
  have h1 : (c.origin.client == some p) = false := by simpa using hcl
  have h2 : (c.origin.fromZone == some (T.zoneOf c.self)) = false := by simpa using hfz
  rw [h1, h2]
  rcases hm with h | h <;> simp [getMaster_of_masterIsB h]

theorem zone_due_sent (hd : Detached T) (c : Case) {fuel : Nat} {z : Zone} (hzc : z ∈ candidateZones T c.self c.objZone)
    (hrel : directlyRelated T c.self z = true) (hent : entitledB fuel T c.self c.objZone z = true)
    (hdue : zoneDueB T c z = true) :
    ∃ e, e ∈ queued T c.self (relayFuel fuel T c.self c.origin c.objZone c.log) ∧ e ∈ T.eps c.self z := by
  unfold zoneDueB at hdue
  simp only [Bool.and_eq_true, bne_iff_ne, ne_eq, List.all_eq_true, List.any_eq_true, Bool.not_eq_true'] at hdue
  obtain ⟨⟨⟨⟨_, hm⟩, hfz⟩, hall⟩, x, hx, hxne, hxc⟩ := hdue
  have hmaster := getMaster_of_masterIsB hm
  have hb : blocked0 c.self c.origin (getMaster T c.self) z x = false := by
    unfold blocked0
    have h1 : (c.origin.client == some x) = false := by simpa using (hall x hx).1
    have h2 : (c.origin.fromZone == some z) = false := by simpa using hfz
    rw [h1, h2, hmaster]; simp
  obtain ⟨e, he⟩ := relayZone_foreign_sends T c.self c.origin (getMaster T c.self) z ⟨x, hx, hxne, hxc, hb⟩
  have hmem := (relayZone_sent_eligible T c.self c.origin _ z he).1
  refine ⟨e, ?_, hmem⟩
  unfold queued
  rw [List.mem_filter]
  exact ⟨relayZone_sub_relayFuel hd (candidate_relayed c hzc hrel hent) he, by simp [(hall e hmem).2]⟩

/-- two nodes of one zone with the same view of it name the same master -/
theorem same_master_aux {a b : Ep}
    (hmem : ∀ x, x ∈ T.eps a (T.zoneOf a) ↔ x ∈ T.eps b (T.zoneOf b))
    (hview : ∀ x ∈ T.eps a (T.zoneOf a), (T.conn a x || x == a) = (T.conn b x || x == b)) :
    getMaster T a = getMaster T b := by
  have hsub : ∀ x, x ∈ (T.eps a (T.zoneOf a)).filter (fun e => T.conn a e || e == a) ↔
      x ∈ (T.eps b (T.zoneOf b)).filter (fun e => T.conn b e || e == b) := by
    intro x
    simp only [List.mem_filter]
    constructor
    · rintro ⟨h1, h2⟩; exact ⟨(hmem x).mp h1, by rw [← hview x h1]; exact h2⟩
    · rintro ⟨h1, h2⟩
      have h1' := (hmem x).mpr h1
      exact ⟨h1', by rw [hview x h1']; exact h2⟩
  unfold getMaster
  generalize (T.eps a (T.zoneOf a)).filter (fun e => T.conn a e || e == a) = l1 at hsub
  generalize (T.eps b (T.zoneOf b)).filter (fun e => T.conn b e || e == b) = l2 at hsub
  cases h1 : minEp l1 with
  | none =>
    have := minEp_eq_none.mp h1; subst this
    cases h2 : minEp l2 with
    | none => rfl
    | some m => have := (hsub m).mpr (minEp_mem h2); cases this
  | some m1 =>
    cases h2 : minEp l2 with
    | none =>
      have := minEp_eq_none.mp h2; subst this
      have := (hsub m1).mp (minEp_mem h1); cases this
    | some m2 =>
      have a1 := minEp_le h1 m2 ((hsub m2).mpr (minEp_mem h2))
      have a2 := minEp_le h2 m1 ((hsub m1).mp (minEp_mem h1))
      congr 1
      eomega

end Forward

end Icinga.C11

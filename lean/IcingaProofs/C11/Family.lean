/-
  C11 — the FINITE family behind the two `…_partial` composition theorems, checked by kernel evaluation
  (`decide +kernel`: no axioms beyond the kernel's own reduction).  This is an exhaustive enumeration of an
  explicitly listed family - every originator, object zone and delivery order for each listed (connectivity,
  iteration order) - and NOT a proof of the unbounded claim.

  Family: the chain  zone 0 (endpoints 0,1) ── zone 1 (2,3) ── zone 2 (4,5)  of depth 3 with two endpoints per zone
  plus the global zone 3; connectivity: everything connected, and each one of the 11 directly related pairs cut;
  iteration order of the endpoint sets: ascending on every node, descending on every node, alternating by node.
-/
import IcingaProofs.C11.Lemmas
namespace Icinga.C11

/-- the directly related pairs of the chain -/
def chainPairs : List (Ep × Ep) :=
  [(0, 1), (2, 3), (4, 5), (0, 2), (0, 3), (1, 2), (1, 3), (2, 4), (2, 5), (3, 4), (3, 5)]

/-- symmetric connectivity from a bit mask over `pairs` -/
def maskConn (pairs : List (Ep × Ep)) (mask : Nat) (a b : Ep) : Bool :=
  (pairs.zipIdx).any (fun p => ((p.1.1 == a && p.1.2 == b) || (p.1.1 == b && p.1.2 == a)) && mask.testBit p.2)

/-- `ord`: 0 every node iterates ascending, 1 descending, 2 odd nodes descending -/
def chainTopo (mask : Nat) (ord : Nat) : Topo :=
  { parent := fun z => if z = 1 then some 0 else if z = 2 then some 1 else none,
    isGlobal := fun z => z == 3,
    zones := [0, 1, 2, 3],
    zoneOf := fun e => e / 2,
    eps := fun s z => if z < 3 then (if (ord == 1) || (ord == 2 && s % 2 == 1) then [2 * z + 1, 2 * z] else [2 * z, 2 * z + 1]) else [],
    conn := maskConn chainPairs mask }

def chainEps : List Ep := [0, 1, 2, 3, 4, 5]
def chainZones : List Zone := [0, 1, 2, 3]

/-- both cluster-wide specifications at one state -/
def netOk (T : Topo) (orig : Ep) (oz : Zone) (n : Net) : Bool :=
  (specNet T chainEps orig oz n).isNone && specComplete T chainEps chainZones orig oz n

/-- all originators, object zones and delivery orders for the listed (mask, order) pairs; every execution is
    quiescent after at most 8 deliveries -/
def familyOk (cfgs : List (Nat × Nat)) : Bool :=
  cfgs.all fun c => chainEps.all fun orig => chainZones.all fun oz =>
    exploreAll (chainTopo c.1 c.2) oz (netOk (chainTopo c.1 c.2) orig oz) 8 (start (chainTopo c.1 c.2) orig oz)

/-- all pairs connected (mask 2047) and each single pair cut -/
def cutMasks : List Nat := 2047 :: (List.range 11).map (fun i => 2047 - 2 ^ i)

def familyA : List (Nat × Nat) := (cutMasks.take 6).map (fun m => (m, 0))
def familyB : List (Nat × Nat) := (cutMasks.drop 6).map (fun m => (m, 0))
def familyC : List (Nat × Nat) := [(2047, 1), (2047, 2), (2046, 1), (2046, 2), (2039, 1), (2039, 2)]

set_option maxRecDepth 100000 in
theorem familyA_ok : familyOk familyA = true := by decide +kernel
set_option maxRecDepth 100000 in
theorem familyB_ok : familyOk familyB = true := by decide +kernel
set_option maxRecDepth 100000 in
theorem familyC_ok : familyOk familyC = true := by decide +kernel

def family : List (Nat × Nat) := familyA ++ familyB ++ familyC

theorem family_ok : familyOk family = true := by
  unfold familyOk family
  rw [List.all_append, List.all_append]
  have a := familyA_ok; have b := familyB_ok; have c := familyC_ok
  unfold familyOk at a b c
  rw [a, b, c]; rfl

/-- the per-state facts for every member of the family, every originator, object zone and schedule -/
theorem family_run {c : Nat × Nat} (hc : c ∈ family) {orig : Ep} (ho : orig ∈ chainEps) {oz : Zone} (hz : oz ∈ chainZones)
    (sched : List Nat) :
    netOk (chainTopo c.1 c.2) orig oz (run (chainTopo c.1 c.2) oz (start (chainTopo c.1 c.2) orig oz) sched) = true := by
  have h := family_ok
  unfold familyOk at h
  simp only [List.all_eq_true] at h
  exact exploreAll_sound _ _ _ _ _ (h c hc orig ho oz hz) sched

/-- Outside the property's quantifier: a zone with THREE endpoints (0,1,2; 0 and 1 do not see each other, both see 2)
    above a child zone with endpoint 3 that 0 and 1 reach. -/
def threeTopo : Topo :=
  { parent := fun z => if z = 1 then some 0 else none,
    isGlobal := fun _ => false,
    zones := [0, 1],
    zoneOf := fun e => if e = 3 then 1 else 0,
    eps := fun _ z => if z = 0 then [0, 1, 2] else if z = 1 then [3] else [],
    conn := fun a b => a != b && !((a == 0 && b == 1) || (a == 1 && b == 0)) && !((a == 2 && b == 3) || (a == 3 && b == 2)) }

end Icinga.C11

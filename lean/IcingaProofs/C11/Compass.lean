/-
  C11 — the invariant behind the general `no_duplicate` / `finite` theorems (the "compass" of DESIGN.md Appendix A.4),
  stated over the history of one event (all messages ever sent = processed ++ in flight) for an arbitrary zone FOREST:

  * every message that enters a zone other than the originating one from another zone comes from the neighbour zone on
    the originator's side (`Toward`), and a message between zone peers carries that neighbour in `originZone`; inside
    the originating zone messages carry no origin zone (`CompassAt`);
  * a node that sends across a zone border considers itself the zone master; two zone peers that both hold the event
    see each other (one got it from the other), hence cannot both consider themselves the master (`no_rival`);
  * hence a zone is entered at most once from another zone (`one_cross`), a hop across a border always leads away from
    the originating zone (`direction_chain`, `direction_global`), and all recipients are pairwise different.

  No chain projection is needed: "on the chain" is `Anc T oz z`, the neighbour relation is stated on the forest.
-/
import IcingaProofs.C11.Lemmas
namespace Icinga.C11

/-! ### forest facts -/

section Forest
variable {T : Topo} {rank : Zone → Nat}

theorem anc_rank (hr : ∀ z p, T.parent z = some p → rank p < rank z) {a b : Zone} (h : Anc T a b) : rank b ≤ rank a := by
  induction h with
  | refl => exact Nat.le_refl _
  | step hp _ ih => exact Nat.le_trans ih (Nat.le_of_lt (hr _ _ hp))

theorem anc_comparable {a c d : Zone} (h1 : Anc T a c) (h2 : Anc T a d) : Anc T c d ∨ Anc T d c := by
  induction h1 with
  | refl => exact Or.inl h2
  | @step a p c hp hpc ih =>
    cases h2 with
    | refl => exact Or.inr (Anc.step hp hpc)
    | @step _ p' _ hp' hpd =>
      rw [hp] at hp'
      cases hp'
      exact ih hpd

/-- two children of one zone that both lie on the path from `a` upwards are the same zone -/
theorem sibling_unique (hr : ∀ z p, T.parent z = some p → rank p < rank z) {a c d z : Zone}
    (h1 : Anc T a c) (h2 : Anc T a d) (hc : T.parent c = some z) (hd : T.parent d = some z) : c = d := by
  have key : ∀ {x y : Zone}, Anc T x y → T.parent x = some z → T.parent y = some z → x = y := by
    intro x y hxy hx hy
    cases hxy with
    | refl => rfl
    | @step _ p _ hp hpy =>
      rw [hx] at hp
      cases hp
      have h1 := anc_rank hr hpy
      have h2 := hr _ _ hy
      omega
  rcases anc_comparable h1 h2 with h | h
  · exact key h hc hd
  · exact (key h hd hc).symm

end Forest

/-- `g` is the neighbour of `Z` on the side of the originating zone `Z0`: the child of `Z` through which `Z0` hangs
    below `Z`, or the parent of `Z` when `Z` hangs below `Z0` -/
def Toward (T : Topo) (Z0 Z g : Zone) : Prop :=
  (T.parent g = some Z ∧ Anc T Z0 g) ∨ (T.parent Z = some g ∧ Anc T g Z0)

/-- the compass: what `FromZone` an endpoint of zone `Z` sees on the message that brings it the event -/
def CompassAt (T : Topo) (Z0 Z : Zone) (f : Option Zone) : Prop :=
  (Z = Z0 ∧ f = none) ∨ (Z ≠ Z0 ∧ ∃ g, f = some g ∧ Toward T Z0 Z g)

theorem toward_unique {T : Topo} {rank : Zone → Nat} (hr : ∀ z p, T.parent z = some p → rank p < rank z)
    {Z0 Z g1 g2 : Zone} (h1 : Toward T Z0 Z g1) (h2 : Toward T Z0 Z g2) : g1 = g2 := by
  rcases h1 with ⟨hp1, ha1⟩ | ⟨hp1, ha1⟩ <;> rcases h2 with ⟨hp2, ha2⟩ | ⟨hp2, ha2⟩
  · exact sibling_unique hr ha1 ha2 hp1 hp2
  · exfalso
    have a := anc_rank hr ha1; have b := anc_rank hr ha2
    have c := hr _ _ hp1; have d := hr _ _ hp2
    omega
  · exfalso
    have a := anc_rank hr ha1; have b := anc_rank hr ha2
    have c := hr _ _ hp1; have d := hr _ _ hp2
    omega
  · rw [hp1] at hp2; cases hp2; rfl

theorem toward_ne {T : Topo} {rank : Zone → Nat} (hr : ∀ z p, T.parent z = some p → rank p < rank z)
    {Z0 Z g : Zone} (h : Toward T Z0 Z g) : Z ≠ Z0 := by
  rcases h with ⟨hp, ha⟩ | ⟨hp, ha⟩
  · intro e; subst e
    have a := anc_rank hr ha; have c := hr _ _ hp; omega
  · intro e; subst e
    have a := anc_rank hr ha; have c := hr _ _ hp; omega

theorem chain_nonglobal {T : Topo} (hd : Detached T) {fuel : Nat} {tz z : Zone} (hg : T.isGlobal tz = false)
    (hz : z ∈ tz :: allParents T fuel tz) : T.isGlobal z = false := by
  rcases List.mem_cons.mp hz with rfl | hz'
  · exact hg
  · obtain ⟨c, hc⟩ := mem_allParents_is_parent T fuel _ z hz'
    exact hd.parent_not_global c z hc

section Direction
variable {T : Topo} {rank : Zone → Nat} {Z0 : Zone} {e e' : Ep} {o : Origin} {oz : Zone} {fuel : Nat} {log : Bool}

/-- object of an ordinary zone: a node that crosses a zone border moves the event away from the originating zone -/
theorem direction_chain (hd : Detached T) (hr : ∀ z p, T.parent z = some p → rank p < rank z)
    (hz : ∀ z x, x ∈ T.eps e z → T.zoneOf x = z) (hg : T.isGlobal oz = false) (h0 : Anc T oz Z0)
    (hc : CompassAt T Z0 (T.zoneOf e) o.fromZone)
    (he' : e' ∈ (relayFuel fuel T e o (some oz) log).sent) (hne : T.zoneOf e' ≠ T.zoneOf e) :
    T.zoneOf e' ≠ Z0 ∧ Toward T Z0 (T.zoneOf e') (T.zoneOf e) ∧ Anc T oz (T.zoneOf e') := by
  have hs := (sent_zone_of hd hz he').2
  simp only [targetZone, hg, Bool.false_eq_true, if_false] at hs
  obtain ⟨hchain, hrel⟩ := hs
  have hanc : Anc T oz (T.zoneOf e') := mem_chain_anc T fuel _ _ hchain
  have hng := chain_nonglobal hd hg hchain
  have hecho := (sent_no_echo hz he').2
  have hadj : T.parent (T.zoneOf e) = some (T.zoneOf e') ∨ T.parent (T.zoneOf e') = some (T.zoneOf e) := by
    unfold related at hrel
    simp only [hng, Bool.false_or, Bool.or_eq_true, beq_iff_eq] at hrel
    rcases hrel with (h | h) | h
    · exact absurd h hne
    · exact Or.inl h
    · exact Or.inr h
  rcases hc with ⟨hZ, _⟩ | ⟨hZ, g, hf, ht⟩
  · -- the sender is in the originating zone
    rw [hZ] at hadj ⊢
    rcases hadj with h | h
    · exact ⟨fun e0 => by rw [e0] at h; exact Nat.lt_irrefl _ (hr _ _ h), Or.inl ⟨h, Anc.refl _⟩, hanc⟩
    · exact ⟨fun e0 => by rw [e0] at h; exact Nat.lt_irrefl _ (hr _ _ h), Or.inr ⟨h, Anc.refl _⟩, hanc⟩
  · have hg' : g ≠ T.zoneOf e' := by
      intro h; apply hecho; rw [hf, h]
    rcases ht with ⟨hp, ha⟩ | ⟨hp, ha⟩
    · -- the sender's zone is above the originating zone; `g` is its child on the originator's side
      have haZ : Anc T Z0 (T.zoneOf e) := Anc.trans ha (Anc.step hp (Anc.refl _))
      rcases hadj with h | h
      · refine ⟨?_, Or.inl ⟨h, haZ⟩, hanc⟩
        intro e0
        have a := anc_rank hr haZ
        have b := hr _ _ h
        rw [e0] at b; omega
      · exact absurd (sibling_unique hr (Anc.trans h0 ha) hanc hp h) hg'
    · -- the sender's zone is below the originating zone; `g` is its parent
      rcases hadj with h | h
      · rw [hp] at h; cases h; exact absurd rfl hg'
      · have haZ : Anc T (T.zoneOf e) Z0 := Anc.step hp ha
        refine ⟨?_, Or.inr ⟨h, haZ⟩, hanc⟩
        intro e0
        have a := anc_rank hr haZ
        have b := hr _ _ h
        rw [e0] at b; omega

/-- object of a global zone: a node that crosses a zone border goes to a direct child of its zone -/
theorem direction_global (hd : Detached T) (hr : ∀ z p, T.parent z = some p → rank p < rank z)
    (hz : ∀ z x, x ∈ T.eps e z → T.zoneOf x = z) (hg : T.isGlobal oz = true) (hq : Anc T (T.zoneOf e) Z0)
    (he' : e' ∈ (relayFuel fuel T e o (some oz) log).sent) (hne : T.zoneOf e' ≠ T.zoneOf e) :
    T.zoneOf e' ≠ Z0 ∧ Toward T Z0 (T.zoneOf e') (T.zoneOf e) ∧ Anc T (T.zoneOf e') Z0 := by
  have hs := (sent_zone_of hd hz he').2
  simp only [targetZone, hg, if_true] at hs
  rcases hs with h | ⟨_, h⟩
  · exact absurd h hne
  · refine ⟨?_, Or.inr ⟨h, hq⟩, Anc.step h hq⟩
    intro e0
    have a := anc_rank hr hq
    have b := hr _ _ h
    rw [e0] at b; omega

end Direction
/-! ### the history invariant -/

theorem Cluster.wf {T : Topo} (cl : Cluster T) (s : Ep) : WF T s :=
  { cl.toDetached with zone_of_mem := cl.zone_of_mem s, eps_nodup := cl.eps_nodup s, zones_nodup := cl.zones_nodup,
                       acyclic := cl.acyclic }

theorem three_in_two {l : List Ep} (hn : l.Nodup) (hl : l.length ≤ 2) {a b c : Ep} (ha : a ∈ l) (hb : b ∈ l) (hc : c ∈ l)
    (hab : a ≠ b) (hac : a ≠ c) (hbc : b ≠ c) : False := by
  match l, hn, hl with
  | [], _, _ => simp at ha
  | [x], _, _ => simp at ha hb; exact hab (ha.trans hb.symm)
  | [x, y], _, _ =>
    simp only [List.mem_cons, List.not_mem_nil, or_false] at ha hb hc
    rcases ha with rfl | rfl <;> rcases hb with rfl | rfl <;> rcases hc with rfl | rfl <;> simp_all

/-- three pairwise different members of one zone do not exist -/
theorem three_members {T : Topo} (cl : Cluster T) {a b c : Ep} (ha : Member T a) (hb : Member T b) (hc : Member T c)
    (hzb : T.zoneOf b = T.zoneOf a) (hzc : T.zoneOf c = T.zoneOf a)
    (hab : a ≠ b) (hac : a ≠ c) (hbc : b ≠ c) : False := by
  have h1 := ha a
  have h2 := hb a; rw [hzb] at h2
  have h3 := hc a; rw [hzc] at h3
  exact three_in_two (cl.eps_nodup a _) (cl.two a _) h1 h2 h3 hab hac hbc

/-- two zone peers that see each other do not both consider themselves the master -/
theorem masters_agree {T : Topo} {a b : Ep} (ha : getMaster T a = some a) (hb : getMaster T b = some b)
    (hz : T.zoneOf a = T.zoneOf b) (hma : Member T a) (hmb : Member T b)
    (hab : T.conn a b = true) (hba : T.conn b a = true) : a = b := by
  have h1 : a ≤ b := by
    unfold getMaster at ha
    apply minEp_le ha
    rw [List.mem_filter]
    refine ⟨?_, by simp [hab]⟩
    have := hmb a; rw [← hz] at this; exact this
  have h2 : b ≤ a := by
    unfold getMaster at hb
    apply minEp_le hb
    rw [List.mem_filter]
    refine ⟨?_, by simp [hba]⟩
    have := hma b; rw [hz] at this; exact this
  eomega

/-- a node that sends across a zone border considers itself the master -/
theorem crosser_is_master {T : Topo} {self e : Ep} {o : Origin} {oz : Option Zone} {fuel : Nat} {log : Bool}
    (hz : ∀ z x, x ∈ T.eps self z → T.zoneOf x = z)
    (h : e ∈ (relayFuel fuel T self o oz log).sent) (hne : T.zoneOf e ≠ T.zoneOf self) : getMaster T self = some self := by
  apply Classical.byContradiction
  intro hm
  have := sent_master hm h
  exact hne (hz _ _ (master_in_own_zone this))

/-- all messages of the history: processed and still in flight -/
def hist (n : Net) : List Msg := n.accepted ++ n.inflight

structure MsgOK (T : Topo) (orig : Ep) (Q : Zone → Prop) (n : Net) (m : Msg) : Prop where
  frm_processed : m.frm ∈ n.processed
  frm_member : Member T m.frm
  to_member : Member T m.to
  ne : m.frm ≠ m.to
  conn : T.conn m.frm m.to = true
  q : Q (T.zoneOf m.to)
  compass : CompassAt T (T.zoneOf orig) (T.zoneOf m.to) (originOf T m).fromZone
  intra : T.zoneOf m.frm = T.zoneOf m.to →
    T.zoneOf m.to = T.zoneOf orig ∨ ∃ mc ∈ hist n, mc.to = m.frm ∧ T.zoneOf mc.frm ≠ T.zoneOf mc.to
  cross : T.zoneOf m.frm ≠ T.zoneOf m.to → getMaster T m.frm = some m.frm

/-- The invariant behind `no_duplicate`: recipients of all messages ever sent are pairwise different and are not the
    originator; every message obeys the compass; every zone is entered by at most one message from another zone. -/
structure KInv (T : Topo) (orig : Ep) (Q : Zone → Prop) (n : Net) : Prop where
  processed_eq : n.processed = orig :: n.accepted.map (·.to)
  nodup : ((hist n).map (·.to)).Nodup
  orig_not : orig ∉ (hist n).map (·.to)
  msgs : ∀ m ∈ hist n, MsgOK T orig Q n m
  one_cross : ∀ m1 ∈ hist n, ∀ m2 ∈ hist n, T.zoneOf m1.frm ≠ T.zoneOf m1.to → T.zoneOf m2.frm ≠ T.zoneOf m2.to →
    T.zoneOf m1.to = T.zoneOf m2.to → m1.to = m2.to

section Inv
variable {T : Topo} {orig : Ep} {Q : Zone → Prop} {n : Net}

theorem mem_hist_of_inflight {m : Msg} (h : m ∈ n.inflight) : m ∈ hist n := List.mem_append_right _ h
theorem mem_hist_of_accepted {m : Msg} (h : m ∈ n.accepted) : m ∈ hist n := List.mem_append_left _ h

/-- the recipient of a message in flight has not processed the event -/
theorem KInv.not_processed (k : KInv T orig Q n) {m : Msg} (hm : m ∈ n.inflight) : m.to ∉ n.processed := by
  intro h
  rw [k.processed_eq] at h
  rcases List.mem_cons.mp h with h | h
  · apply k.orig_not
    rw [← h]
    exact List.mem_map.mpr ⟨m, mem_hist_of_inflight hm, rfl⟩
  · have nd := k.nodup
    unfold hist at nd
    rw [List.map_append, List.nodup_append] at nd
    exact nd.2.2 _ h _ (List.mem_map.mpr ⟨m, hm, rfl⟩) rfl

/-- a cross message's compass: its recipient's zone is not the originating zone and the sender's zone is the
    neighbour on the originator's side -/
theorem MsgOK.cross_toward {m : Msg} (ok : MsgOK T orig Q n m) (hx : T.zoneOf m.frm ≠ T.zoneOf m.to) :
    T.zoneOf m.to ≠ T.zoneOf orig ∧ Toward T (T.zoneOf orig) (T.zoneOf m.to) (T.zoneOf m.frm) := by
  have hc := ok.compass
  unfold originOf at hc
  have : (T.zoneOf m.frm != T.zoneOf m.to) = true := by simpa using hx
  simp only [this, if_true] at hc
  rcases hc with ⟨_, h⟩ | ⟨h1, g, h2, h3⟩
  · cases h
  · cases h2; exact ⟨h1, h3⟩

/-- No rival: the recipient `e` of a message in flight considers itself the master; then no endpoint of its zone that
    already processed the event considers itself the master as well. -/
theorem KInv.no_rival (cl : Cluster T) (k : KInv T orig Q n) {m : Msg} (hm : m ∈ n.inflight)
    (hme : getMaster T m.to = some m.to) {p : Ep} (hp : p ∈ n.processed) (hzp : T.zoneOf p = T.zoneOf m.to)
    (hmp : Member T p) (hpm : getMaster T p = some p) : False := by
  have ok := k.msgs m (mem_hist_of_inflight hm)
  have hne : p ≠ m.to := fun h => k.not_processed hm (h ▸ hp)
  by_cases hx : T.zoneOf m.frm = T.zoneOf m.to
  · -- the message came from the zone peer
    by_cases hps : p = m.frm
    · subst hps
      have hc := ok.conn
      exact hne (masters_agree hpm hme hzp hmp ok.to_member hc (by rw [cl.conn_symm]; exact hc))
    · exact three_members cl ok.to_member hmp ok.frm_member hzp hx (Ne.symm hne) (Ne.symm ok.ne) hps
  · -- the message came from another zone: nobody else in this zone can hold the event
    obtain ⟨hz0, _⟩ := ok.cross_toward hx
    rw [k.processed_eq] at hp
    rcases List.mem_cons.mp hp with h | h
    · rw [h] at hzp; exact hz0 hzp.symm
    · obtain ⟨mp, hmpa, hto⟩ := List.mem_map.mp h
      have okp := k.msgs mp (mem_hist_of_accepted hmpa)
      by_cases hxp : T.zoneOf mp.frm = T.zoneOf mp.to
      · have hre : mp.frm ≠ m.to := by
          intro h'
          exact k.not_processed hm (h' ▸ okp.frm_processed)
        have hzr : T.zoneOf mp.frm = T.zoneOf m.to := by rw [hxp, hto, hzp]
        have hrp : mp.frm ≠ p := by rw [← hto]; exact okp.ne
        exact three_members cl ok.to_member hmp okp.frm_member hzp hzr (Ne.symm hne) (Ne.symm hre) (Ne.symm hrp)
      · have := k.one_cross mp (mem_hist_of_accepted hmpa) m (mem_hist_of_inflight hm) hxp hx (by rw [hto, hzp])
        exact hne (by rw [← hto, this])

/-- Nothing has yet been sent into the zone `Z'` beyond: `e`, recipient of a message in flight, considers itself the
    master, and its zone is the neighbour of `Z'` on the originator's side. -/
theorem KInv.nothing_beyond (cl : Cluster T) (k : KInv T orig Q n) {m : Msg} (hm : m ∈ n.inflight)
    (hme : getMaster T m.to = some m.to) {Z' : Zone} (hZ0 : Z' ≠ T.zoneOf orig)
    (ht : Toward T (T.zoneOf orig) Z' (T.zoneOf m.to)) : ∀ m2 ∈ hist n, T.zoneOf m2.to ≠ Z' := by
  obtain ⟨rank, hr⟩ := cl.acyclic
  intro m2 hm2 hz2
  -- a message from another zone into Z'
  have hmc : ∃ mc ∈ hist n, T.zoneOf mc.frm ≠ T.zoneOf mc.to ∧ T.zoneOf mc.to = Z' := by
    by_cases hx : T.zoneOf m2.frm = T.zoneOf m2.to
    · rcases (k.msgs m2 hm2).intra hx with h | ⟨mc, hmc, hto, hxc⟩
      · rw [hz2] at h; exact absurd h hZ0
      · exact ⟨mc, hmc, hxc, by rw [hto, hx, hz2]⟩
    · exact ⟨m2, hm2, hx, hz2⟩
  obtain ⟨mc, hmc, hxc, hzc⟩ := hmc
  have okc := k.msgs mc hmc
  obtain ⟨_, htc⟩ := okc.cross_toward hxc
  rw [hzc] at htc
  have hzp : T.zoneOf mc.frm = T.zoneOf m.to := toward_unique hr htc ht
  exact k.no_rival cl hm hme okc.frm_processed hzp okc.frm_member (okc.cross hxc)

end Inv
/-! ### one relay step preserves the invariant -/

/-- what the invariant needs to know about the direction of a hop across a zone border (proved separately for
    objects of ordinary zones, `direction_chain`, and of global zones, `direction_global`) -/
def DirOK (T : Topo) (orig : Ep) (oz : Zone) (Q : Zone → Prop) : Prop :=
  ∀ (e : Ep) (o : Origin) (e' : Ep), Member T e → Q (T.zoneOf e) →
    CompassAt T (T.zoneOf orig) (T.zoneOf e) o.fromZone →
    e' ∈ (relay T e o (some oz) true).sent → T.zoneOf e' ≠ T.zoneOf e →
    T.zoneOf e' ≠ T.zoneOf orig ∧ Toward T (T.zoneOf orig) (T.zoneOf e') (T.zoneOf e) ∧ Q (T.zoneOf e')

theorem eraseIdx_perm {α : Type} : ∀ (l : List α) (i : Nat) (a : α), l[i]? = some a → (a :: l.eraseIdx i).Perm l := by
  intro l
  induction l with
  | nil => intro i a h; simp at h
  | cons x xs ih =>
    intro i a h
    cases i with
    | zero => simp at h; subst h; simp
    | succ j =>
      simp only [List.getElem?_cons_succ] at h
      simp only [List.eraseIdx_cons_succ]
      exact (List.Perm.swap x a _).trans ((ih j a h).cons x)

theorem deliver_accept_eq {T : Topo} {oz : Zone} {n : Net} {i : Nat} {m : Msg} (h : n.inflight[i]? = some m)
    (ha : accept T oz (originOf T m) = true) :
    deliver T oz n i =
      { inflight := n.inflight.eraseIdx i ++ emit T m.to (originOf T m) oz, processed := n.processed ++ [m.to],
        accepted := n.accepted ++ [m],
        persisted := if (relay T m.to (originOf T m) (some oz) true).persist then n.persisted ++ [m.to] else n.persisted,
        discarded := n.discarded } := by
  unfold deliver
  simp [h, ha]

section Step
variable {T : Topo} {orig : Ep} {oz : Zone} {Q : Zone → Prop}

theorem member_of_sent (cl : Cluster T) {e e' : Ep} {o : Origin} {ozo : Option Zone} {fuel : Nat} {log : Bool}
    (h : e' ∈ (relayFuel fuel T e o ozo log).sent) : Member T e' := by
  obtain ⟨cz, _, hmem, _⟩ := sent_eligible h
  intro x
  have := cl.zone_of_mem e cz e' hmem
  rw [this]
  exact cl.mem_indep e x cz e' hmem

/-- the messages a node emits obey the compass -/
theorem emit_msgOK (cl : Cluster T) (hdir : DirOK T orig oz Q) {e : Ep} {o : Origin} (hMe : Member T e)
    (hQ : Q (T.zoneOf e)) (hC : CompassAt T (T.zoneOf orig) (T.zoneOf e) o.fromZone) {n' : Net}
    (hp : e ∈ n'.processed)
    (hintra : ∀ m' ∈ emit T e o oz, T.zoneOf m'.frm = T.zoneOf m'.to →
      T.zoneOf m'.to = T.zoneOf orig ∨ ∃ mc ∈ hist n', mc.to = m'.frm ∧ T.zoneOf mc.frm ≠ T.zoneOf mc.to) :
    ∀ m' ∈ emit T e o oz, MsgOK T orig Q n' m' := by
  intro m' hm'
  obtain ⟨hto, hfrm, hoz⟩ := mem_emit.mp hm'
  have hreach := sent_reachable hto
  refine { frm_processed := by rw [hfrm]; exact hp, frm_member := by rw [hfrm]; exact hMe,
           to_member := member_of_sent cl hto, ne := by rw [hfrm]; exact Ne.symm hreach.1,
           conn := by rw [hfrm]; exact hreach.2, q := ?_, compass := ?_, intra := hintra m' hm', cross := ?_ }
  · by_cases hx : T.zoneOf m'.to = T.zoneOf e
    · rw [hx]; exact hQ
    · exact (hdir e o m'.to hMe hQ hC hto hx).2.2
  · unfold originOf
    rw [hfrm, hoz]
    by_cases hx : T.zoneOf m'.to = T.zoneOf e
    · have : (T.zoneOf e != T.zoneOf m'.to) = false := by simp [hx]
      simp only [this, Bool.false_eq_true, if_false]
      rw [hx]; exact hC
    · have : (T.zoneOf e != T.zoneOf m'.to) = true := by
        simp only [bne_iff_ne, ne_eq]
        exact fun h => hx h.symm
      simp only [this, if_true]
      obtain ⟨h1, h2, _⟩ := hdir e o m'.to hMe hQ hC hto hx
      exact Or.inr ⟨h1, _, rfl, h2⟩
  · intro hx
    rw [hfrm] at hx ⊢
    exact crosser_is_master (cl.zone_of_mem e) hto (Ne.symm hx)

theorem emit_map_to (T : Topo) (e : Ep) (o : Origin) (oz : Zone) :
    (emit T e o oz).map (·.to) = (relay T e o (some oz) true).sent := by
  unfold emit
  rw [List.map_map]
  simp [Function.comp_def]

theorem MsgOK.mono {n n' : Net} {m : Msg} (ok : MsgOK T orig Q n m) (hp : ∀ x ∈ n.processed, x ∈ n'.processed)
    (hh : ∀ x ∈ hist n, x ∈ hist n') : MsgOK T orig Q n' m :=
  { ok with frm_processed := hp _ ok.frm_processed,
            intra := fun hx => (ok.intra hx).imp id (fun ⟨mc, h1, h2⟩ => ⟨mc, hh _ h1, h2⟩) }

/-- the originator's own relay step establishes the invariant -/
theorem kinv_start (cl : Cluster T) (hdir : DirOK T orig oz Q) (hM : Member T orig) (hQ : Q (T.zoneOf orig)) :
    KInv T orig Q (start T orig oz) := by
  have hh : hist (start T orig oz) = emit T orig Origin.loc oz := by simp [hist, start]
  refine { processed_eq := by simp [start], nodup := ?_, orig_not := ?_, msgs := ?_, one_cross := ?_ }
  · rw [hh, emit_map_to]
    exact sent_nodup (cl.wf orig)
  · rw [hh, emit_map_to]
    intro h
    exact (sent_reachable h).1 rfl
  · rw [hh]
    apply emit_msgOK cl hdir hM hQ (Or.inl ⟨rfl, rfl⟩) (by simp [start])
    intro m' hm' hx
    left
    rw [← hx, (mem_emit.mp hm').2.1]
  · rw [hh]
    intro m1 h1 m2 h2 hx1 _ hz
    obtain ⟨ht1, hf1, _⟩ := mem_emit.mp h1
    obtain ⟨ht2, _, _⟩ := mem_emit.mp h2
    rw [hf1] at hx1
    exact sent_single_entry cl.toDetached (cl.zone_of_mem orig) ht1 ht2 hz (Ne.symm hx1)

/-- delivering a message that the recipient accepts preserves the invariant -/
theorem kinv_step_accept (cl : Cluster T) (hdir : DirOK T orig oz Q) {n : Net} (k : KInv T orig Q n) {i : Nat} {m : Msg}
    (hget : n.inflight[i]? = some m) (hacc : accept T oz (originOf T m) = true) :
    KInv T orig Q (deliver T oz n i) := by
  have hm : m ∈ n.inflight := List.mem_of_getElem? hget
  have ok := k.msgs m (mem_hist_of_inflight hm)
  have hnp := k.not_processed hm
  have hd := deliver_accept_eq hget hacc
  generalize deliver T oz n i = n' at hd ⊢
  have hproc : n'.processed = n.processed ++ [m.to] := by rw [hd]
  have hacc' : n'.accepted = n.accepted ++ [m] := by rw [hd]
  have hperm : (hist n').Perm (hist n ++ emit T m.to (originOf T m) oz) := by
    have h1 := eraseIdx_perm n.inflight i m hget
    have : hist n' = n.accepted ++ ((m :: n.inflight.eraseIdx i) ++ emit T m.to (originOf T m) oz) := by
      rw [hd]; simp [hist]
    rw [this]
    unfold hist
    rw [List.append_assoc]
    exact (h1.append_right _).append_left _
  have hmem : ∀ x, x ∈ hist n' ↔ x ∈ hist n ∨ x ∈ emit T m.to (originOf T m) oz := by
    intro x; rw [hperm.mem_iff, List.mem_append]
  -- facts about the new messages
  have hclient : (originOf T m).client = some m.frm := rfl
  have F1 : ∀ e' ∈ (relay T m.to (originOf T m) (some oz) true).sent, T.zoneOf e' = T.zoneOf m.to →
      T.zoneOf m.frm ≠ T.zoneOf m.to := by
    intro e' he' hz hx
    have hr := sent_reachable he'
    have hecho := (sent_no_echo (cl.zone_of_mem m.to) he').1
    rw [hclient] at hecho
    have hse' : m.frm ≠ e' := fun h => hecho (by rw [h])
    exact three_members cl ok.to_member (member_of_sent cl he') ok.frm_member hz hx (Ne.symm hr.1) (Ne.symm ok.ne)
      (Ne.symm hse')
  have F2 : ∀ e' ∈ (relay T m.to (originOf T m) (some oz) true).sent, T.zoneOf e' ≠ T.zoneOf m.to →
      T.zoneOf e' ≠ T.zoneOf orig ∧ ∀ m2 ∈ hist n, T.zoneOf m2.to ≠ T.zoneOf e' := by
    intro e' he' hz
    have hme := crosser_is_master (cl.zone_of_mem m.to) he' hz
    obtain ⟨h1, h2, _⟩ := hdir m.to (originOf T m) e' ok.to_member ok.q ok.compass he' hz
    exact ⟨h1, k.nothing_beyond cl hm hme h1 h2⟩
  have F3 : ∀ e' ∈ (relay T m.to (originOf T m) (some oz) true).sent, e' ≠ orig ∧ ∀ m2 ∈ hist n, m2.to ≠ e' := by
    intro e' he'
    by_cases hz : T.zoneOf e' = T.zoneOf m.to
    · have hx := F1 e' he' hz
      obtain ⟨hz0, _⟩ := ok.cross_toward hx
      refine ⟨fun h => hz0 (by rw [← hz, h]), ?_⟩
      intro m2 hm2 hto
      have ok2 := k.msgs m2 hm2
      have hr := sent_reachable he'
      by_cases hx2 : T.zoneOf m2.frm = T.zoneOf m2.to
      · by_cases hre : m2.frm = m.to
        · exact hnp (hre ▸ ok2.frm_processed)
        · have hrz : T.zoneOf m2.frm = T.zoneOf m.to := by rw [hx2, hto, hz]
          have hre' : m2.frm ≠ e' := by rw [← hto]; exact ok2.ne
          exact three_members cl ok.to_member (member_of_sent cl he') ok2.frm_member hz hrz (Ne.symm hr.1)
            (Ne.symm hre) (Ne.symm hre')
      · have := k.one_cross m2 hm2 m (mem_hist_of_inflight hm) hx2 hx (by rw [hto, hz])
        exact hr.1 (by rw [← hto, this])
    · obtain ⟨h1, h2⟩ := F2 e' he' hz
      exact ⟨fun h => h1 (by rw [h]), fun m2 hm2 hto => h2 m2 hm2 (by rw [hto])⟩
  have hsub_p : ∀ x ∈ n.processed, x ∈ n'.processed := by
    intro x hx; rw [hproc]; exact List.mem_append_left _ hx
  have hsub_h : ∀ x ∈ hist n, x ∈ hist n' := fun x hx => (hmem x).mpr (Or.inl hx)
  have hm_hist' : m ∈ hist n' := by
    apply mem_hist_of_accepted; rw [hacc']; simp
  refine { processed_eq := ?_, nodup := ?_, orig_not := ?_, msgs := ?_, one_cross := ?_ }
  · rw [hproc, hacc', k.processed_eq]; simp
  · rw [(hperm.map _).nodup_iff, List.map_append, List.nodup_append]
    refine ⟨k.nodup, ?_, ?_⟩
    · rw [emit_map_to]; exact sent_nodup (cl.wf m.to)
    · intro a ha b hb hab
      rw [emit_map_to] at hb
      obtain ⟨m2, hm2, hto⟩ := List.mem_map.mp ha
      exact (F3 b hb).2 m2 hm2 (by rw [hto, hab])
  · intro h
    have := (hperm.map (·.to)).mem_iff.mp h
    rw [List.map_append, List.mem_append] at this
    rcases this with h | h
    · exact k.orig_not h
    · rw [emit_map_to] at h
      exact (F3 orig h).1 rfl
  · intro x hx
    rcases (hmem x).mp hx with hx | hx
    · exact (k.msgs x hx).mono hsub_p hsub_h
    · apply emit_msgOK cl hdir ok.to_member ok.q ok.compass (n' := n') (by rw [hproc]; simp) _ x hx
      intro m' hm' hxi
      obtain ⟨ht', hf', _⟩ := mem_emit.mp hm'
      right
      refine ⟨m, hm_hist', hf'.symm, F1 m'.to ht' ?_⟩
      rw [← hxi, hf']
  · intro m1 h1 m2 h2 hx1 hx2 hz
    rcases (hmem m1).mp h1 with h1 | h1 <;> rcases (hmem m2).mp h2 with h2 | h2
    · exact k.one_cross m1 h1 m2 h2 hx1 hx2 hz
    · obtain ⟨ht2, hf2, _⟩ := mem_emit.mp h2
      rw [hf2] at hx2
      exact absurd hz ((F2 m2.to ht2 (Ne.symm hx2)).2 m1 h1)
    · obtain ⟨ht1, hf1, _⟩ := mem_emit.mp h1
      rw [hf1] at hx1
      exact absurd hz.symm ((F2 m1.to ht1 (Ne.symm hx1)).2 m2 h2)
    · obtain ⟨ht1, hf1, _⟩ := mem_emit.mp h1
      obtain ⟨ht2, _, _⟩ := mem_emit.mp h2
      rw [hf1] at hx1
      exact sent_single_entry cl.toDetached (cl.zone_of_mem m.to) ht1 ht2 hz (Ne.symm hx1)


end Step

/-! ### assembling the run-level statements -/

section Run
variable {T : Topo}

theorem accept_global {oz : Zone} (hg : T.isGlobal oz = true) (o : Origin) : accept T oz o = true := by
  unfold accept canAccess
  cases o.fromZone <;> simp [hg]

theorem accInv_start (wf : NetWF T) {orig : Ep} {oz : Zone} (hg : T.isGlobal oz = false)
    (horig : isChildOf T oz (T.zoneOf orig) = true) : AccInv T oz (start T orig oz) :=
  ⟨emit_accInv wf hg horig (by intro z hz; cases hz), rfl⟩

theorem accInv_accept {oz : Zone} {n : Net} (h : AccInv T oz n) {m : Msg} (hm : m ∈ n.inflight) :
    accept T oz (originOf T m) = true :=
  (accept_of_accInv (h.inflight m hm).2).1

theorem accInv_step (wf : NetWF T) {oz : Zone} (hg : T.isGlobal oz = false) (n : Net) (i : Nat) (h : AccInv T oz n) :
    AccInv T oz (deliver T oz n i) := by
  rcases deliver_cases T oz n i with heq | ⟨msg, hmem, ⟨_, hi, _, hd, _⟩ | ⟨hacc, _, _, _, _⟩⟩
  · rw [heq]; exact h
  · obtain ⟨hto, hrest⟩ := h.inflight msg hmem
    obtain ⟨_, hfz⟩ := accept_of_accInv hrest
    refine ⟨?_, by rw [hd]; exact h.discarded⟩
    intro m' hm'
    rw [hi] at hm'
    rcases List.mem_append.mp hm' with hm' | hm'
    · exact h.inflight m' (List.mem_of_mem_eraseIdx hm')
    · exact emit_accInv wf hg hto hfz m' hm'
  · exfalso
    rw [accInv_accept h hmem] at hacc
    cases hacc

theorem anc_of_isChildOf {a z : Zone} (h : isChildOf T a z = true) : Anc T a z := by
  unfold isChildOf at h
  exact mem_chain_anc T _ _ _ ((isChildOfFuel_iff T _ _ _).mp h)

theorem dirOK_chain (cl : Cluster T) {orig : Ep} {oz : Zone} (hg : T.isGlobal oz = false)
    (h0 : Anc T oz (T.zoneOf orig)) : DirOK T orig oz (fun z => Anc T oz z) := by
  obtain ⟨rank, hr⟩ := cl.acyclic
  intro e o e' _ _ hC he' hne
  exact direction_chain cl.toDetached hr (cl.zone_of_mem e) hg h0 hC he' hne

theorem dirOK_global (cl : Cluster T) {orig : Ep} {oz : Zone} (hg : T.isGlobal oz = true) :
    DirOK T orig oz (fun z => Anc T z (T.zoneOf orig)) := by
  obtain ⟨rank, hr⟩ := cl.acyclic
  intro e o e' _ hq _ he' hne
  exact direction_global cl.toDetached hr (cl.zone_of_mem e) hg hq he' hne

/-- the invariant holds in every reachable state when the originator's zone is entitled -/
theorem kinv_run (cl : Cluster T) {orig : Ep} (hM : Member T orig) {oz : Zone}
    (horig : T.isGlobal oz = true ∨ isChildOf T oz (T.zoneOf orig) = true) (sched : List Nat) :
    ∃ Q, KInv T orig Q (run T oz (start T orig oz) sched) := by
  by_cases hg : T.isGlobal oz = true
  · refine ⟨fun z => Anc T z (T.zoneOf orig), ?_⟩
    have hdir := dirOK_global cl (orig := orig) hg
    apply run_induction (KInv T orig _)
    · intro n i k
      cases hget : n.inflight[i]? with
      | none => rw [deliver_out_of_range T oz n i (by
          rcases Nat.lt_or_ge i n.inflight.length with h | h
          · rw [List.getElem?_eq_getElem h] at hget; cases hget
          · exact h)]; exact k
      | some m => exact kinv_step_accept cl hdir k hget (accept_global hg _)
    · exact kinv_start cl hdir hM (Anc.refl _)
  · have hg' : T.isGlobal oz = false := by simpa using hg
    have horig' : isChildOf T oz (T.zoneOf orig) = true := by
      rcases horig with h | h
      · exact absurd h hg
      · exact h
    refine ⟨fun z => Anc T oz z, ?_⟩
    have hdir := dirOK_chain cl (orig := orig) hg' (anc_of_isChildOf horig')
    have := run_induction (T := T) (oz := oz) (fun n => KInv T orig (fun z => Anc T oz z) n ∧ AccInv T oz n)
      (fun n i ⟨k, a⟩ => by
        refine ⟨?_, accInv_step cl.toNetWF hg' n i a⟩
        cases hget : n.inflight[i]? with
        | none => rw [deliver_out_of_range T oz n i (by
            rcases Nat.lt_or_ge i n.inflight.length with h | h
            · rw [List.getElem?_eq_getElem h] at hget; cases hget
            · exact h)]; exact k
        | some m => exact kinv_step_accept cl hdir k hget (accInv_accept a (List.mem_of_getElem? hget)))
      sched (start T orig oz)
      ⟨kinv_start cl hdir hM (anc_of_isChildOf horig'), accInv_start cl.toNetWF hg' horig'⟩
    exact this.1


/-! the originator's zone is NOT entitled (object of an ordinary zone that is neither the originator's zone nor below
    it): everything the originator sends is discarded by its recipients -/

structure NEInv (T : Topo) (orig : Ep) (oz : Zone) (n : Net) : Prop where
  accepted : n.accepted = []
  processed : n.processed = [orig]
  nodup : ((n.discarded ++ n.inflight).map (·.to)).Nodup
  orig_not : orig ∉ (n.discarded ++ n.inflight).map (·.to)
  msgs : ∀ m ∈ n.inflight, m.frm = orig ∧ isChildOf T oz (T.zoneOf m.to) = true
  members : ∀ m ∈ n.discarded ++ n.inflight, Member T m.to

theorem neInv_start (cl : Cluster T) (orig : Ep) {oz : Zone} (hg : T.isGlobal oz = false) :
    NEInv T orig oz (start T orig oz) := by
  have hd : (start T orig oz).discarded ++ (start T orig oz).inflight = emit T orig Origin.loc oz := by simp [start]
  refine ⟨rfl, rfl, ?_, ?_, ?_, ?_⟩
  · rw [hd, emit_map_to]; exact sent_nodup (cl.wf orig)
  · rw [hd, emit_map_to]; intro h; exact (sent_reachable h).1 rfl
  · intro m hm
    obtain ⟨hto, hfrm, _⟩ := mem_emit.mp hm
    refine ⟨hfrm, ?_⟩
    have := only_entitledB cl.toDetached (cl.zone_of_mem orig) hto
    unfold entitledB at this
    simp only [targetZone, hg, Bool.false_eq_true, if_false] at this
    exact this
  · intro m hm
    rw [hd] at hm
    exact member_of_sent cl (mem_emit.mp hm).1

theorem neInv_step {orig : Ep} {oz : Zone} (hg : T.isGlobal oz = false)
    (hne : isChildOf T oz (T.zoneOf orig) = false) (n : Net) (i : Nat) (h : NEInv T orig oz n) :
    NEInv T orig oz (deliver T oz n i) := by
  cases hget : n.inflight[i]? with
  | none =>
    rw [deliver_out_of_range T oz n i (by
      rcases Nat.lt_or_ge i n.inflight.length with h' | h'
      · rw [List.getElem?_eq_getElem h'] at hget; cases hget
      · exact h')]
    exact h
  | some m =>
    have hm : m ∈ n.inflight := List.mem_of_getElem? hget
    obtain ⟨hfrm, hent⟩ := h.msgs m hm
    have hz : T.zoneOf m.frm ≠ T.zoneOf m.to := by
      intro heq
      rw [hfrm] at heq
      rw [← heq, hne] at hent
      cases hent
    have hacc : accept T oz (originOf T m) = false := by
      unfold accept originOf canAccess
      have : (T.zoneOf orig != T.zoneOf m.to) = true := by rw [← hfrm]; simpa using hz
      rw [hfrm]
      simp only [this, if_true, hg, hne, Bool.or_self]
    have hd : deliver T oz n i = { n with inflight := n.inflight.eraseIdx i, discarded := n.discarded ++ [m] } := by
      unfold deliver
      simp [hget, hacc]
    rw [hd]
    have hperm : ((n.discarded ++ [m]) ++ n.inflight.eraseIdx i).Perm (n.discarded ++ n.inflight) := by
      rw [List.append_assoc]
      exact (eraseIdx_perm n.inflight i m hget).append_left _
    refine ⟨h.accepted, h.processed, ?_, ?_, ?_, ?_⟩
    · exact ((hperm.map _).nodup_iff).mpr h.nodup
    · intro hx; exact h.orig_not ((hperm.map (·.to)).mem_iff.mp hx)
    · intro m' hm'; exact h.msgs m' (List.mem_of_mem_eraseIdx hm')
    · intro m' hm'; exact h.members m' (hperm.mem_iff.mp hm')

theorem length_le_of_nodup_subset : ∀ (l L : List Ep), l.Nodup → (∀ x ∈ l, x ∈ L) → l.length ≤ L.length := by
  intro l
  induction l with
  | nil => intros; simp
  | cons a l ih =>
    intro L hn hs
    have ha : a ∈ L := hs a List.mem_cons_self
    have hn' := List.nodup_cons.mp hn
    have := ih (L.erase a) hn'.2 (fun x hx => by
      have hxa : x ≠ a := fun h => hn'.1 (h ▸ hx)
      exact (List.mem_erase_of_ne hxa).mpr (hs x (List.mem_cons_of_mem _ hx)))
    rw [List.length_erase_of_mem ha] at this
    have hpos : 0 < L.length := List.length_pos_of_mem ha
    simp only [List.length_cons]
    omega

/-- What holds of the history of one event in every reachable state, whatever the originator: the recipients of all
    messages ever sent (processed, discarded or still in flight) are pairwise different members of their zones and
    none of them is the originator; those who processed the event are the originator and the recipients of the
    processed messages. -/
theorem history_distinct (cl : Cluster T) {orig : Ep} (hM : Member T orig) (oz : Zone) (sched : List Nat) :
    ((((run T oz (start T orig oz) sched).accepted ++ (run T oz (start T orig oz) sched).discarded ++
        (run T oz (start T orig oz) sched).inflight)).map (·.to)).Nodup ∧
    orig ∉ ((((run T oz (start T orig oz) sched).accepted ++ (run T oz (start T orig oz) sched).discarded ++
        (run T oz (start T orig oz) sched).inflight)).map (·.to)) ∧
    (run T oz (start T orig oz) sched).processed = orig :: (run T oz (start T orig oz) sched).accepted.map (·.to) ∧
    (∀ m ∈ (run T oz (start T orig oz) sched).accepted ++ (run T oz (start T orig oz) sched).discarded ++
        (run T oz (start T orig oz) sched).inflight, Member T m.to) := by
  by_cases horig : T.isGlobal oz = true ∨ isChildOf T oz (T.zoneOf orig) = true
  · obtain ⟨Q, k⟩ := kinv_run cl hM horig sched
    have hdisc : (run T oz (start T orig oz) sched).discarded = [] := by
      by_cases hg : T.isGlobal oz = true
      · apply run_induction (fun n => n.discarded = [])
        · intro n i h
          rcases deliver_cases T oz n i with heq | ⟨msg, _, ⟨_, _, _, hd, _⟩ | ⟨hacc, _, _, _, _⟩⟩
          · rw [heq]; exact h
          · rw [hd]; exact h
          · rw [accept_global hg] at hacc; cases hacc
        · rfl
      · have hg' : T.isGlobal oz = false := by simpa using hg
        have horig' : isChildOf T oz (T.zoneOf orig) = true := horig.resolve_left hg
        exact (run_induction (AccInv T oz) (accInv_step cl.toNetWF hg') sched _ (accInv_start cl.toNetWF hg' horig')).discarded
    generalize run T oz (start T orig oz) sched = n at k hdisc ⊢
    rw [hdisc, List.append_nil]
    exact ⟨k.nodup, k.orig_not, k.processed_eq, fun m hm => (k.msgs m hm).to_member⟩
  · have hg : T.isGlobal oz = false := by
      cases h : T.isGlobal oz
      · rfl
      · exact absurd (Or.inl h) horig
    have hne : isChildOf T oz (T.zoneOf orig) = false := by
      cases h : isChildOf T oz (T.zoneOf orig)
      · rfl
      · exact absurd (Or.inr h) horig
    have k := run_induction (NEInv T orig oz) (neInv_step hg hne) sched _ (neInv_start cl orig hg)
    generalize run T oz (start T orig oz) sched = n at k ⊢
    rw [k.accepted, List.nil_append]
    exact ⟨k.nodup, k.orig_not, by rw [k.processed]; rfl, k.members⟩

end Run

end Icinga.C11

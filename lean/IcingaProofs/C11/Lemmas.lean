/-
  C11 — helper lemmas about the per-node relay function: the minimum that `GetMaster` takes, what the inner loop of
  `RelayMessageOne` (a fold over one zone's endpoints) does to `sent` / `relayed` / the log flags, membership in the
  results of `relayOne` / `relayFuel`, and the walk along the parents (`allParents`, `isChildOfFuel`) versus `Anc`.
-/
import IcingaModel.C11.Model
import IcingaModel.C11.Spec
namespace Icinga.C11

/-- `Ep` and `Zone` abbreviate `Nat`; `omega` wants to see that -/
macro "eomega" : tactic => `(tactic| (simp only [Ep, Zone] at * <;> omega))

theorem minEp_eq_none {l : List Ep} : minEp l = none ↔ l = [] := by
  cases l with
  | nil => simp [minEp]
  | cons e es =>
    simp only [minEp]
    cases minEp es <;> simp

theorem minEp_mem : ∀ {l : List Ep} {m : Ep}, minEp l = some m → m ∈ l := by
  intro l
  induction l with
  | nil => intro m h; simp [minEp] at h
  | cons e es ih =>
    intro m h
    simp only [minEp] at h
    cases hm : minEp es with
    | none => rw [hm] at h; simp at h; simp [h]
    | some m' =>
      rw [hm] at h
      simp at h
      by_cases hle : e ≤ m'
      · simp [hle] at h; simp [h]
      · simp [hle] at h; subst h; exact List.mem_cons_of_mem _ (ih hm)

theorem minEp_le : ∀ {l : List Ep} {m : Ep}, minEp l = some m → ∀ x ∈ l, m ≤ x := by
  intro l
  induction l with
  | nil => intro m h; simp [minEp] at h
  | cons e es ih =>
    intro m h x hx
    simp only [minEp] at h
    cases hm : minEp es with
    | none =>
      rw [hm] at h; simp at h; subst h
      have : es = [] := minEp_eq_none.mp hm
      subst this; simp at hx; eomega
    | some m' =>
      rw [hm] at h
      simp at h
      have ih' := ih hm
      rcases List.mem_cons.mp hx with rfl | hx'
      · by_cases hle : x ≤ m' <;> simp [hle] at h <;> eomega
      · have := ih' x hx'
        by_cases hle : e ≤ m' <;> simp [hle] at h <;> eomega


section Zone
variable (T : Topo) (self : Ep) (o : Origin) (m : Option Ep) (cz : Zone)

/-- what one iteration does to `sent` and `relayed` -/
theorem relayStep_cases (st : ZState) (e : Ep) :
    ((relayStep T self o m cz st e).sent = st.sent ∧ (relayStep T self o m cz st e).relayed = st.relayed) ∨
    ((relayStep T self o m cz st e).sent = st.sent ++ [e] ∧ (relayStep T self o m cz st e).relayed = true ∧
      eligible T self o m cz st.relayed e = true) := by
  unfold relayStep eligible
  by_cases h1 : e == self
  · simp [h1]
  · by_cases h2 : T.conn self e
    · by_cases h3 : blocked T self o m cz st.relayed e
      · simp [h1, h2, h3]
      · have h1' : e ≠ self := by simpa using h1
        simp [h1, h1', h2, h3]
    · simp [h1, h2]

theorem foldl_sent (l : List Ep) : ∀ st : ZState,
    ∃ l', l'.Sublist l ∧ (l.foldl (relayStep T self o m cz) st).sent = st.sent ++ l' ∧
      ∀ e ∈ l', ∃ r, eligible T self o m cz r e = true := by
  induction l with
  | nil => intro st; exact ⟨[], List.Sublist.refl _, by simp, by simp⟩
  | cons e es ih =>
    intro st
    obtain ⟨l', hsub, hsent, hel⟩ := ih (relayStep T self o m cz st e)
    rw [List.foldl_cons]
    rcases relayStep_cases T self o m cz st e with ⟨h1, _⟩ | ⟨h1, _, h3⟩
    · exact ⟨l', hsub.cons _, by rw [hsent, h1], hel⟩
    · refine ⟨e :: l', hsub.cons_cons _, by rw [hsent, h1]; simp, ?_⟩
      intro x hx
      rcases List.mem_cons.mp hx with rfl | hx
      · exact ⟨_, h3⟩
      · exact hel x hx

/-- a foreign zone: at most one endpoint, and only while `relayed` was still false -/
theorem foldl_foreign_single (hcz : cz ≠ T.zoneOf self) (l : List Ep) : ∀ st : ZState,
    (st.relayed = false → st.sent = []) → st.sent.length ≤ 1 →
    (l.foldl (relayStep T self o m cz) st).sent.length ≤ 1 := by
  induction l with
  | nil => intro st _ h; simpa using h
  | cons e es ih =>
    intro st h1 h2
    rw [List.foldl_cons]
    rcases relayStep_cases T self o m cz st e with ⟨hs, hr⟩ | ⟨hs, hr, hel⟩
    · apply ih
      · rw [hs, hr]; exact h1
      · rw [hs]; exact h2
    · have hrel : st.relayed = false := by
        unfold eligible blocked at hel
        cases hst : st.relayed
        · rfl
        · simp [hst, hcz] at hel
      apply ih
      · intro h; rw [hr] at h; cases h
      · rw [hs, h1 hrel]; simp

theorem foldl_logDone_unreachable (l : List Ep) (hl : l.all (fun e => e == self || !T.conn self e) = true) :
    ∀ st : ZState, st.logDone = false → (l.foldl (relayStep T self o m cz) st).logDone = false := by
  induction l with
  | nil => intro st h; simpa using h
  | cons e es ih =>
    intro st h
    rw [List.foldl_cons]
    simp only [List.all_cons, Bool.and_eq_true] at hl
    apply ih hl.2
    unfold relayStep
    by_cases h1 : e == self
    · simp [h1, h]
    · have h2 : T.conn self e = false := by
        have := hl.1
        simp [h1] at this
        exact this
      simp [h1, h2, h]

theorem foldl_logNeeded_mono (l : List Ep) : ∀ st : ZState, st.logNeeded = true →
    (l.foldl (relayStep T self o m cz) st).logNeeded = true := by
  induction l with
  | nil => intro st h; simpa using h
  | cons e es ih =>
    intro st h
    rw [List.foldl_cons]
    apply ih
    unfold relayStep
    split
    · exact h
    · split
      · rfl
      · split <;> rfl

theorem foldl_logNeeded (l : List Ep) (hl : l.any (fun e => e != self) = true) :
    ∀ st : ZState, (l.foldl (relayStep T self o m cz) st).logNeeded = true := by
  induction l with
  | nil => simp at hl
  | cons e es ih =>
    intro st
    rw [List.foldl_cons]
    by_cases h1 : e == self
    · simp only [List.any_cons, Bool.or_eq_true] at hl
      rcases hl with hl | hl
      · have : e = self := by simpa using h1
        simp [this] at hl
      · exact ih hl _
    · apply foldl_logNeeded_mono
      unfold relayStep
      by_cases h2 : T.conn self e
      · by_cases h3 : blocked T self o m cz st.relayed e <;> simp [h1, h2, h3]
      · simp [h1, h2]

theorem relayZone_sent_sublist : (relayZone T self o m cz).sent.Sublist (T.eps self cz) := by
  obtain ⟨l', hsub, hs, _⟩ := foldl_sent T self o m cz (T.eps self cz) {}
  unfold relayZone
  rw [hs]
  simpa using hsub

theorem relayZone_sent_eligible {e : Ep} (h : e ∈ (relayZone T self o m cz).sent) :
    e ∈ T.eps self cz ∧ ∃ r, eligible T self o m cz r e = true := by
  obtain ⟨l', hsub, hs, hel⟩ := foldl_sent T self o m cz (T.eps self cz) {}
  unfold relayZone at h
  rw [hs] at h
  simp at h
  exact ⟨hsub.subset h, hel e h⟩

theorem relayZone_foreign_single (hcz : cz ≠ T.zoneOf self) : (relayZone T self o m cz).sent.length ≤ 1 := by
  unfold relayZone
  exact foldl_foreign_single T self o m cz hcz _ {} (fun _ => rfl) (by simp)

theorem relayZone_unreachable (h : unreachableB T self cz = true) :
    (relayZone T self o m cz).logNeeded = true ∧ (relayZone T self o m cz).logDone = false := by
  unfold unreachableB at h
  simp only [Bool.and_eq_true] at h
  exact ⟨foldl_logNeeded T self o m cz _ h.1 {}, foldl_logDone_unreachable T self o m cz _ h.2 {} rfl⟩

end Zone


theorem mem_flatMap_map {α β γ : Type} {l : List α} {f : α → β} {g : β → List γ} {x : γ} :
    x ∈ (l.map f).flatMap g ↔ ∃ a ∈ l, x ∈ g (f a) := by
  simp only [List.mem_flatMap, List.mem_map]
  constructor
  · rintro ⟨_, ⟨a, h1, rfl⟩, h2⟩
    exact ⟨a, h1, h2⟩
  · rintro ⟨a, h1, h2⟩
    exact ⟨_, ⟨a, h1, rfl⟩, h2⟩

section One
variable (T : Topo) (self : Ep) (o : Origin) (m : Option Ep)

theorem mem_relayOne_sent {tz : Zone} {e : Ep} :
    e ∈ (relayOne T self o m tz).sent ↔
      related T self tz = true ∧ ∃ cz ∈ targetZones T self tz, e ∈ (relayZone T self o m cz).sent := by
  unfold relayOne
  by_cases h : related T self tz = true
  · simp only [h, Bool.not_true, Bool.false_eq_true, if_false, mem_flatMap_map, true_and]
  · simp [h]

theorem relayOne_not_ok {tz cz : Zone} (hrel : related T self tz = true) (hcz : cz ∈ targetZones T self tz)
    (h1 : (relayZone T self o m cz).logNeeded = true) (h2 : (relayZone T self o m cz).logDone = false) :
    (relayOne T self o m tz).ok = false := by
  unfold relayOne
  simp only [hrel, Bool.not_true, Bool.false_eq_true, if_false, Bool.not_eq_false', List.any_map, List.any_eq_true]
  exact ⟨cz, hcz, by simp [h1, h2]⟩

theorem mem_relayFuel_sent {fuel : Nat} {oz : Option Zone} {log : Bool} {e : Ep} :
    e ∈ (relayFuel fuel T self o oz log).sent ↔
      ∃ z ∈ targetZone T self oz :: allParents T fuel (targetZone T self oz),
        e ∈ (relayOne T self o (getMaster T self) z).sent := by
  unfold relayFuel
  simp only [mem_flatMap_map]

theorem relayFuel_persist {fuel : Nat} {oz : Option Zone} {log : Bool} :
    (relayFuel fuel T self o oz log).persist =
      (log && (targetZone T self oz :: allParents T fuel (targetZone T self oz)).any
        (fun z => !(relayOne T self o (getMaster T self) z).ok)) := by
  unfold relayFuel
  simp only [List.any_map]
  rfl

theorem relayFuel_originZone {fuel : Nat} {oz : Option Zone} {log : Bool} :
    (relayFuel fuel T self o oz log).originZone = o.fromZone := rfl

end One

/-! ### parents -/

theorem mem_allParents_anc (T : Topo) : ∀ (n : Nat) (a z : Zone), z ∈ allParents T n a → Anc T a z := by
  intro n
  induction n with
  | zero => intro a z h; simp [allParents] at h
  | succ n ih =>
    intro a z h
    unfold allParents at h
    cases hp : T.parent a with
    | none => simp [hp] at h
    | some p =>
      simp [hp] at h
      rcases h with rfl | h
      · exact Anc.step hp (Anc.refl _)
      · exact Anc.step hp (ih p z h)

theorem mem_chain_anc (T : Topo) (n : Nat) (a z : Zone) (h : z ∈ a :: allParents T n a) : Anc T a z := by
  rcases List.mem_cons.mp h with rfl | h
  · exact Anc.refl _
  · exact mem_allParents_anc T n a z h

theorem isChildOfFuel_iff (T : Topo) : ∀ (n : Nat) (a z : Zone),
    isChildOfFuel T (n + 1) a z = true ↔ z ∈ a :: allParents T n a := by
  intro n
  induction n with
  | zero =>
    intro a z
    unfold isChildOfFuel
    by_cases h : a = z
    · simp [h]
    · have h' : ¬ z = a := fun e => h e.symm
      cases hp : T.parent a <;> simp [h, h', isChildOfFuel, allParents]
  | succ n ih =>
    intro a z
    unfold isChildOfFuel
    by_cases h : a = z
    · simp [h]
    · have h' : ¬ z = a := fun e => h e.symm
      cases hp : T.parent a with
      | none => simp [h, h', allParents, hp]
      | some p =>
        simp only [h, if_false]
        rw [ih p z]
        conv => rhs; unfold allParents
        simp [hp, h']

theorem Anc.trans {T : Topo} {a b c : Zone} (h1 : Anc T a b) (h2 : Anc T b c) : Anc T a c := by
  induction h1 with
  | refl => exact h2
  | step hp _ ih => exact Anc.step hp (ih h2)



theorem allParents_parent_none (T : Topo) (n : Nat) (a : Zone) (h : T.parent a = none) : allParents T n a = [] := by
  cases n <;> simp [allParents, h]

theorem mem_allParents_is_parent (T : Topo) : ∀ (n : Nat) (a z : Zone), z ∈ allParents T n a → ∃ c, T.parent c = some z := by
  intro n
  induction n with
  | zero => intro a z h; simp [allParents] at h
  | succ n ih =>
    intro a z h
    unfold allParents at h
    cases hp : T.parent a with
    | none => simp [hp] at h
    | some p =>
      simp [hp] at h
      rcases h with rfl | h
      · exact ⟨a, hp⟩
      · exact ih p z h

/-- Normal form of a send: the zone whose inner loop produced it. -/
theorem sent_zone {T : Topo} (hd : Detached T) {self : Ep} {o : Origin} {oz : Option Zone} {log : Bool} {fuel : Nat} {e : Ep}
    (h : e ∈ (relayFuel fuel T self o oz log).sent) :
    ∃ cz, e ∈ (relayZone T self o (getMaster T self) cz).sent ∧
      if T.isGlobal (targetZone T self oz) = true then
        cz = T.zoneOf self ∨ (cz ∈ T.zones ∧ T.parent cz = some (T.zoneOf self))
      else cz ∈ targetZone T self oz :: allParents T fuel (targetZone T self oz) ∧ related T self cz = true := by
  obtain ⟨z, hz, he⟩ := (mem_relayFuel_sent T self o).mp h
  obtain ⟨hrel, cz, hcz, he⟩ := (mem_relayOne_sent T self o _).mp he
  refine ⟨cz, he, ?_⟩
  by_cases hg : T.isGlobal (targetZone T self oz) = true
  · simp only [hg, if_true]
    rw [allParents_parent_none T fuel _ (hd.global_no_parent _ hg)] at hz
    simp at hz
    subst hz
    unfold targetZones at hcz
    simp only [hg, if_true, List.mem_cons, List.mem_filter, beq_iff_eq] at hcz
    exact hcz
  · simp only [hg]
    have hzg : T.isGlobal z = false := by
      rcases List.mem_cons.mp hz with rfl | hz'
      · simpa using hg
      · obtain ⟨c, hc⟩ := mem_allParents_is_parent T fuel _ z hz'
        exact hd.parent_not_global c z hc
    unfold targetZones at hcz
    simp [hzg] at hcz
    subst hcz
    exact ⟨hz, hrel⟩

/-- …and every zone of that normal form is one the loop ran for. -/
theorem zone_relayed {T : Topo} (hd : Detached T) {self : Ep} {oz : Option Zone} {fuel : Nat} {cz : Zone}
    (h : if T.isGlobal (targetZone T self oz) = true then
        cz = T.zoneOf self ∨ (cz ∈ T.zones ∧ T.parent cz = some (T.zoneOf self))
      else cz ∈ targetZone T self oz :: allParents T fuel (targetZone T self oz) ∧ related T self cz = true) :
    ∃ z ∈ targetZone T self oz :: allParents T fuel (targetZone T self oz),
      related T self z = true ∧ cz ∈ targetZones T self z := by
  by_cases hg : T.isGlobal (targetZone T self oz) = true
  · simp only [hg, if_true] at h
    refine ⟨_, List.mem_cons_self, by simp [related, hg], ?_⟩
    unfold targetZones
    simp only [hg, if_true, List.mem_cons, List.mem_filter, beq_iff_eq]
    exact h
  · simp only [hg] at h
    have hzg : T.isGlobal cz = false := by
      rcases List.mem_cons.mp h.1 with heq | hz'
      · rw [heq]; simpa using hg
      · obtain ⟨c, hc⟩ := mem_allParents_is_parent T fuel _ cz hz'
        exact hd.parent_not_global c cz hc
    exact ⟨cz, h.1, h.2, by simp [targetZones, hzg]⟩

theorem eq_of_mem_length_le_one {α : Type} {l : List α} (h : l.length ≤ 1) {a b : α} (ha : a ∈ l) (hb : b ∈ l) : a = b := by
  match l, h with
  | [], _ => simp at ha
  | [x], _ => simp at ha hb; rw [ha, hb]

theorem nodup_flatMap_key {α β : Type} (f : α → List β) (key : β → α) : ∀ (l : List α), l.Nodup →
    (∀ a ∈ l, (f a).Nodup) → (∀ a ∈ l, ∀ b ∈ f a, key b = a) → (l.flatMap f).Nodup := by
  intro l
  induction l with
  | nil => intros; simp
  | cons a l ih =>
    intro hl hf hk
    rw [List.flatMap_cons, List.nodup_append]
    have hl' := List.nodup_cons.mp hl
    refine ⟨hf a List.mem_cons_self, ih hl'.2 (fun x hx => hf x (List.mem_cons_of_mem _ hx))
      (fun x hx => hk x (List.mem_cons_of_mem _ hx)), ?_⟩
    intro x hx y hy hxy
    subst hxy
    obtain ⟨a', ha', hxa'⟩ := List.mem_flatMap.mp hy
    have h1 := hk a List.mem_cons_self x hx
    have h2 := hk a' (List.mem_cons_of_mem _ ha') x hxa'
    rw [h1] at h2
    subst h2
    exact hl'.1 ha'

theorem allParents_rank {T : Topo} {rank : Zone → Nat} (hr : ∀ z p, T.parent z = some p → rank p < rank z) :
    ∀ (n : Nat) (a z : Zone), z ∈ allParents T n a → rank z < rank a := by
  intro n
  induction n with
  | zero => intro a z h; simp [allParents] at h
  | succ n ih =>
    intro a z h
    unfold allParents at h
    cases hp : T.parent a with
    | none => simp [hp] at h
    | some p =>
      simp [hp] at h
      have := hr a p hp
      rcases h with rfl | h
      · exact this
      · exact Nat.lt_trans (ih p z h) this

theorem chain_nodup {T : Topo} {rank : Zone → Nat} (hr : ∀ z p, T.parent z = some p → rank p < rank z) :
    ∀ (n : Nat) (a : Zone), (a :: allParents T n a).Nodup := by
  intro n
  induction n with
  | zero => intro a; simp [allParents]
  | succ n ih =>
    intro a
    rw [List.nodup_cons]
    constructor
    · intro h
      exact Nat.lt_irrefl _ (allParents_rank hr _ a a h)
    · unfold allParents
      cases hp : T.parent a with
      | none => simp
      | some p => simpa using ih p



/-! ### consequences for `relayFuel` used by several property theorems -/

section Sent
variable {T : Topo} {self : Ep} {o : Origin} {oz : Option Zone} {log : Bool} {fuel : Nat} {e : Ep}

/-- what made the inner loop hand the message over for `e` -/
theorem sent_eligible (h : e ∈ (relayFuel fuel T self o oz log).sent) :
    ∃ cz r, e ∈ T.eps self cz ∧ eligible T self o (getMaster T self) cz r e = true := by
  obtain ⟨z, _, he⟩ := (mem_relayFuel_sent T self o).mp h
  obtain ⟨_, cz, _, he⟩ := (mem_relayOne_sent T self o _).mp he
  obtain ⟨h1, r, h2⟩ := relayZone_sent_eligible T self o _ cz he
  exact ⟨cz, r, h1, h2⟩

theorem master_in_own_zone {m : Ep} (h : getMaster T self = some m) : m ∈ T.eps self (T.zoneOf self) := by
  unfold getMaster at h
  exact (List.mem_filter.mp (minEp_mem h)).1

theorem sent_zone_of (hd : Detached T) (hz : ∀ z e, e ∈ T.eps self z → T.zoneOf e = z)
    (h : e ∈ (relayFuel fuel T self o oz log).sent) :
    e ∈ (relayZone T self o (getMaster T self) (T.zoneOf e)).sent ∧
      if T.isGlobal (targetZone T self oz) = true then
        T.zoneOf e = T.zoneOf self ∨ (T.zoneOf e ∈ T.zones ∧ T.parent (T.zoneOf e) = some (T.zoneOf self))
      else T.zoneOf e ∈ targetZone T self oz :: allParents T fuel (targetZone T self oz) ∧ related T self (T.zoneOf e) = true := by
  obtain ⟨cz, he, hcz⟩ := sent_zone hd h
  have := hz cz e (relayZone_sent_eligible T self o _ cz he).1
  rw [this]
  exact ⟨he, hcz⟩

/-- executable form, as `specCase` evaluates it -/
theorem only_entitledB (hd : Detached T) (hz : ∀ z e, e ∈ T.eps self z → T.zoneOf e = z)
    (h : e ∈ (relayFuel fuel T self o oz log).sent) : entitledB fuel T self oz (T.zoneOf e) = true := by
  obtain ⟨_, hcz⟩ := sent_zone_of hd hz h
  unfold entitledB
  by_cases hg : T.isGlobal (targetZone T self oz) = true
  · simp only [hg, if_true] at hcz ⊢
    rcases hcz with h1 | ⟨_, h2⟩
    · simp [h1]
    · simp [h2]
  · simp only [hg] at hcz ⊢
    simp only [Bool.false_eq_true, if_false]
    exact (isChildOfFuel_iff T fuel _ _).mpr hcz.1

theorem relayZone_sent_nodup (m : Option Ep) (cz : Zone) (h : (T.eps self cz).Nodup) :
    (relayZone T self o m cz).sent.Nodup :=
  (relayZone_sent_sublist T self o m cz).nodup h

theorem relayOne_sent_nonglobal (m : Option Ep) {z : Zone} (hg : T.isGlobal z = false) :
    (relayOne T self o m z).sent = if related T self z = true then (relayZone T self o m z).sent else [] := by
  unfold relayOne targetZones
  by_cases h : related T self z = true <;> simp [h, hg]

theorem relayOne_sent_global (m : Option Ep) {z : Zone} (hg : T.isGlobal z = true) :
    (relayOne T self o m z).sent =
      (T.zoneOf self :: T.zones.filter (fun c => T.parent c == some (T.zoneOf self))).flatMap
        (fun cz => (relayZone T self o m cz).sent) := by
  unfold relayOne targetZones
  have : related T self z = true := by simp [related, hg]
  simp only [this, hg, Bool.not_true, Bool.false_eq_true, if_false, if_true, List.flatMap_map]

theorem relayFuel_sent_eq : (relayFuel fuel T self o oz log).sent =
    (targetZone T self oz :: allParents T fuel (targetZone T self oz)).flatMap
      (fun z => (relayOne T self o (getMaster T self) z).sent) := by
  unfold relayFuel
  simp only [List.flatMap_map]

theorem nodupB_iff : ∀ (l : List Ep), nodupB l = true ↔ l.Nodup := by
  intro l
  induction l with
  | nil => simp [nodupB]
  | cons a l ih => simp [nodupB, ih, List.nodup_cons]

theorem notMaster_of_notMasterB (h : notMasterB T self = true) : getMaster T self ≠ some self := by
  unfold notMasterB at h
  simp only [List.any_eq_true, Bool.and_eq_true, decide_eq_true_eq] at h
  obtain ⟨x, hx, hc, hlt⟩ := h
  have hmem : x ∈ (T.eps self (T.zoneOf self)).filter (fun e => T.conn self e || e == self) := by
    simp [List.mem_filter, hx, hc]
  intro hm
  unfold getMaster at hm
  have := minEp_le hm x hmem
  eomega

theorem isZoneMasterB_of_master (hz : ∀ z e, e ∈ T.eps self z → T.zoneOf e = z) (hm : getMaster T self = some e)
    (hne : e ≠ self) : isZoneMasterB T self e = true := by
  have hmem := minEp_mem (by unfold getMaster at hm; exact hm)
  have hmem' := List.mem_filter.mp hmem
  have hconn : T.conn self e = true := by
    have := hmem'.2
    simp [hne] at this
    exact this
  unfold isZoneMasterB
  simp only [Bool.and_eq_true, beq_iff_eq, List.all_eq_true, Bool.or_eq_true, Bool.not_eq_true', decide_eq_true_eq]
  refine ⟨⟨hz _ _ hmem'.1, hconn⟩, ?_⟩
  intro x hx
  by_cases hc : (T.conn self x || x == self) = true
  · right
    unfold getMaster at hm
    exact minEp_le hm x (List.mem_filter.mpr ⟨hx, hc⟩)
  · left
    simpa using hc

theorem sent_reachable (h : e ∈ (relayFuel fuel T self o oz log).sent) : e ≠ self ∧ T.conn self e = true := by
  obtain ⟨cz, r, _, hel⟩ := sent_eligible h
  unfold eligible at hel
  simp only [Bool.and_eq_true, bne_iff_ne, ne_eq] at hel
  exact ⟨hel.1.1, hel.1.2⟩

theorem sent_no_echo (hz : ∀ z e, e ∈ T.eps self z → T.zoneOf e = z) (h : e ∈ (relayFuel fuel T self o oz log).sent) :
    o.client ≠ some e ∧ o.fromZone ≠ some (T.zoneOf e) := by
  obtain ⟨cz, r, hmem, hel⟩ := sent_eligible h
  rw [hz cz e hmem]
  unfold eligible blocked at hel
  simp only [Bool.and_eq_true, Bool.not_eq_true', Bool.or_eq_false_iff, beq_eq_false_iff_ne, ne_eq] at hel
  exact ⟨hel.2.1.1.2, hel.2.1.2⟩

theorem sent_master (hm : getMaster T self ≠ some self) (h : e ∈ (relayFuel fuel T self o oz log).sent) :
    getMaster T self = some e := by
  obtain ⟨cz, r, _, hel⟩ := sent_eligible h
  unfold eligible blocked at hel
  simp only [Bool.and_eq_true, Bool.not_eq_true', Bool.or_eq_false_iff, Bool.and_eq_false_imp, bne_iff_ne, ne_eq] at hel
  have := hel.2.2
  simp [hm] at this
  exact this

theorem sent_single_entry (hd : Detached T) (hz : ∀ z e, e ∈ T.eps self z → T.zoneOf e = z) {a b : Ep}
    (ha : a ∈ (relayFuel fuel T self o oz log).sent) (hb : b ∈ (relayFuel fuel T self o oz log).sent)
    (hab : T.zoneOf a = T.zoneOf b) (hf : T.zoneOf a ≠ T.zoneOf self) : a = b := by
  obtain ⟨ha', _⟩ := sent_zone_of hd hz ha
  obtain ⟨hb', _⟩ := sent_zone_of hd hz hb
  rw [← hab] at hb'
  exact eq_of_mem_length_le_one (relayZone_foreign_single T self o _ _ hf) ha' hb'

theorem sent_nodup (wf : WF T self) : (relayFuel fuel T self o oz log).sent.Nodup := by
  obtain ⟨rank, hr⟩ := wf.acyclic
  rw [relayFuel_sent_eq]
  have hkey : ∀ (cz : Zone), ∀ b ∈ (relayZone T self o (getMaster T self) cz).sent, T.zoneOf b = cz :=
    fun cz b hb => wf.zone_of_mem cz b (relayZone_sent_eligible T self o _ cz hb).1
  by_cases hg : T.isGlobal (targetZone T self oz) = true
  · rw [allParents_parent_none T fuel _ (wf.global_no_parent _ hg)]
    simp only [List.flatMap_cons, List.flatMap_nil, List.append_nil]
    rw [relayOne_sent_global _ hg]
    apply nodup_flatMap_key _ T.zoneOf
    · rw [List.nodup_cons]
      refine ⟨?_, wf.zones_nodup.filter _⟩
      intro h
      have := (List.mem_filter.mp h).2
      simp only [beq_iff_eq] at this
      exact Nat.lt_irrefl _ (hr _ _ this)
    · intro cz _
      exact relayZone_sent_nodup _ cz (wf.eps_nodup cz)
    · intro cz _ b hb
      exact hkey cz b hb
  · have hg' : T.isGlobal (targetZone T self oz) = false := by simpa using hg
    have hng : ∀ z ∈ targetZone T self oz :: allParents T fuel (targetZone T self oz), T.isGlobal z = false := by
      intro z hz
      rcases List.mem_cons.mp hz with rfl | hz'
      · exact hg'
      · obtain ⟨c, hc⟩ := mem_allParents_is_parent T fuel _ z hz'
        exact wf.parent_not_global c z hc
    apply nodup_flatMap_key _ T.zoneOf
    · exact chain_nodup hr fuel _
    · intro z hz
      rw [relayOne_sent_nonglobal _ (hng z hz)]
      split
      · exact relayZone_sent_nodup _ z (wf.eps_nodup z)
      · exact List.nodup_nil
    · intro z hz b hb
      rw [relayOne_sent_nonglobal _ (hng z hz)] at hb
      split at hb
      · exact hkey z b hb
      · simp at hb

end Sent


/-! ### the network -/

theorem mem_emit {T : Topo} {s : Ep} {o : Origin} {oz : Zone} {msg : Msg} :
    msg ∈ emit T s o oz ↔ msg.to ∈ (relay T s o (some oz) true).sent ∧ msg.frm = s ∧ msg.originZone = o.fromZone := by
  unfold emit
  simp only [List.mem_map]
  constructor
  · rintro ⟨e, he, rfl⟩
    exact ⟨he, rfl, rfl⟩
  · rintro ⟨h1, h2, h3⟩
    refine ⟨msg.to, h1, ?_⟩
    cases msg
    simp_all

/-- what one delivery does -/
theorem deliver_cases (T : Topo) (oz : Zone) (n : Net) (i : Nat) :
    deliver T oz n i = n ∨
    ∃ msg, msg ∈ n.inflight ∧
      ((accept T oz (originOf T msg) = true ∧
        (deliver T oz n i).inflight = n.inflight.eraseIdx i ++ emit T msg.to (originOf T msg) oz ∧
        (deliver T oz n i).processed = n.processed ++ [msg.to] ∧
        (deliver T oz n i).discarded = n.discarded ∧
        (deliver T oz n i).accepted = n.accepted ++ [msg]) ∨
       (accept T oz (originOf T msg) = false ∧
        (deliver T oz n i).inflight = n.inflight.eraseIdx i ∧
        (deliver T oz n i).processed = n.processed ∧
        (deliver T oz n i).discarded = n.discarded ++ [msg] ∧
        (deliver T oz n i).accepted = n.accepted)) := by
  unfold deliver
  cases h : n.inflight[i]? with
  | none => left; rfl
  | some msg =>
    right
    refine ⟨msg, List.mem_of_getElem? h, ?_⟩
    by_cases ha : accept T oz (originOf T msg) = true
    · left; simp [ha]
    · right
      have : accept T oz (originOf T msg) = false := by simpa using ha
      simp [this]

/-- induction over the deliveries of an execution -/
theorem run_induction {T : Topo} {oz : Zone} (P : Net → Prop) (hstep : ∀ n i, P n → P (deliver T oz n i)) :
    ∀ (sched : List Nat) (n : Net), P n → P (run T oz n sched) := by
  intro sched
  induction sched with
  | nil => intro n h; exact h
  | cons i is ih =>
    intro n h
    unfold run
    rw [List.foldl_cons]
    exact ih _ (hstep n i h)


section Net
variable {T : Topo}

/-- one relay step keeps recipients entitled -/
theorem emit_entitled (wf : NetWF T) {orig s : Ep} {o : Origin} {oz : Zone} {msg : Msg}
    (hs : T.isGlobal oz = true → Anc T (T.zoneOf s) (T.zoneOf orig)) (hm : msg ∈ emit T s o oz) :
    NetEntitled T (T.zoneOf orig) oz (T.zoneOf msg.to) := by
  obtain ⟨hto, _, _⟩ := mem_emit.mp hm
  unfold NetEntitled
  by_cases hg : T.isGlobal oz = true
  · simp only [hg, if_true]
    have := (sent_zone_of wf.toDetached (wf.zone_of_mem s) hto).2
    simp only [targetZone, hg, if_true] at this
    rcases this with h | ⟨_, h⟩
    · rw [h]; exact hs hg
    · exact Anc.step h (hs hg)
  · simp only [hg, Bool.false_eq_true, if_false]
    have := only_entitledB wf.toDetached (wf.zone_of_mem s) hto
    unfold entitledB at this
    simp only [targetZone, hg, Bool.false_eq_true, if_false] at this
    exact this

/-- the invariant behind `net_only_entitled` -/
structure EntInv (T : Topo) (orig : Ep) (oz : Zone) (n : Net) : Prop where
  processed : ∀ e ∈ n.processed, e = orig ∨ NetEntitled T (T.zoneOf orig) oz (T.zoneOf e)
  inflight : ∀ msg ∈ n.inflight, NetEntitled T (T.zoneOf orig) oz (T.zoneOf msg.to)
  discarded : ∀ msg ∈ n.discarded, NetEntitled T (T.zoneOf orig) oz (T.zoneOf msg.to)

theorem entInv_start (wf : NetWF T) (orig : Ep) (oz : Zone) : EntInv T orig oz (start T orig oz) := by
  refine ⟨?_, ?_, ?_⟩
  · intro e he
    simp [start] at he
    exact Or.inl he
  · intro msg hm
    exact emit_entitled wf (fun _ => Anc.refl _) hm
  · intro msg hm
    simp [start] at hm

theorem entInv_step (wf : NetWF T) (orig : Ep) (oz : Zone) (n : Net) (i : Nat) (h : EntInv T orig oz n) :
    EntInv T orig oz (deliver T oz n i) := by
  rcases deliver_cases T oz n i with heq | ⟨msg, hmem, ⟨_, hi, hp, hd, _⟩ | ⟨_, hi, hp, hd, _⟩⟩
  · rw [heq]; exact h
  · have hto := h.inflight msg hmem
    refine ⟨?_, ?_, ?_⟩
    · intro e he
      rw [hp] at he
      rcases List.mem_append.mp he with he | he
      · exact h.processed e he
      · simp at he; subst he; exact Or.inr hto
    · intro m' hm'
      rw [hi] at hm'
      rcases List.mem_append.mp hm' with hm' | hm'
      · exact h.inflight m' (List.mem_of_mem_eraseIdx hm')
      · apply emit_entitled wf _ hm'
        intro hg
        have := hto
        unfold NetEntitled at this
        simpa [hg] using this
    · intro m' hm'
      rw [hd] at hm'
      exact h.discarded m' hm'
  · refine ⟨?_, ?_, ?_⟩
    · intro e he; rw [hp] at he; exact h.processed e he
    · intro m' hm'
      rw [hi] at hm'
      exact h.inflight m' (List.mem_of_mem_eraseIdx hm')
    · intro m' hm'
      rw [hd] at hm'
      rcases List.mem_append.mp hm' with hm' | hm'
      · exact h.discarded m' hm'
      · simp at hm'; subst hm'; exact h.inflight _ hmem

/-- the invariant behind `net_no_discard` (object of an ordinary zone) -/
structure AccInv (T : Topo) (oz : Zone) (n : Net) : Prop where
  inflight : ∀ msg ∈ n.inflight, isChildOf T oz (T.zoneOf msg.to) = true ∧ isChildOf T oz (T.zoneOf msg.frm) = true ∧
    ∀ z, msg.originZone = some z → isChildOf T oz z = true
  discarded : n.discarded = []

theorem accept_of_accInv {oz : Zone} {msg : Msg}
    (h : isChildOf T oz (T.zoneOf msg.frm) = true ∧ ∀ z, msg.originZone = some z → isChildOf T oz z = true) :
    accept T oz (originOf T msg) = true ∧ ∀ z, (originOf T msg).fromZone = some z → isChildOf T oz z = true := by
  unfold accept originOf canAccess
  by_cases hne : (T.zoneOf msg.frm != T.zoneOf msg.to) = true
  · simp only [hne, if_true]
    refine ⟨by simp [h.1], ?_⟩
    intro z hz
    cases hz
    exact h.1
  · have : (T.zoneOf msg.frm != T.zoneOf msg.to) = false := by simpa using hne
    simp only [this, Bool.false_eq_true, if_false]
    refine ⟨?_, h.2⟩
    cases hoz : msg.originZone with
    | none => rfl
    | some z => simp [h.2 z hoz]

theorem emit_accInv (wf : NetWF T) {s : Ep} {o : Origin} {oz : Zone} (hg : T.isGlobal oz = false)
    (hs : isChildOf T oz (T.zoneOf s) = true) (ho : ∀ z, o.fromZone = some z → isChildOf T oz z = true) :
    ∀ msg ∈ emit T s o oz, isChildOf T oz (T.zoneOf msg.to) = true ∧ isChildOf T oz (T.zoneOf msg.frm) = true ∧
      ∀ z, msg.originZone = some z → isChildOf T oz z = true := by
  intro msg hm
  obtain ⟨hto, hfrm, hoz⟩ := mem_emit.mp hm
  refine ⟨?_, by rw [hfrm]; exact hs, by rw [hoz]; exact ho⟩
  have := only_entitledB wf.toDetached (wf.zone_of_mem s) hto
  unfold entitledB at this
  simp only [targetZone, hg, Bool.false_eq_true, if_false] at this
  exact this

end Net

/-- every execution from `n` satisfies `P` at every state and is quiescent after at most `k` deliveries
    (exhaustive exploration of all delivery orders; used for the finite families of the `…_partial` theorems) -/
def exploreAll (T : Topo) (oz : Zone) (P : Net → Bool) : Nat → Net → Bool
  | 0, n => P n && n.inflight.isEmpty
  | k + 1, n => P n && (List.range n.inflight.length).all (fun i => exploreAll T oz P k (deliver T oz n i))

theorem deliver_out_of_range (T : Topo) (oz : Zone) (n : Net) (i : Nat) (h : n.inflight.length ≤ i) :
    deliver T oz n i = n := by
  unfold deliver
  rw [List.getElem?_eq_none h]

theorem run_quiescent (T : Topo) (oz : Zone) (n : Net) (h : n.inflight = []) : ∀ sched, run T oz n sched = n := by
  intro sched
  induction sched with
  | nil => rfl
  | cons i is ih =>
    unfold run at ih ⊢
    rw [List.foldl_cons, deliver_out_of_range T oz n i (by simp [h])]
    exact ih

theorem exploreAll_sound (T : Topo) (oz : Zone) (P : Net → Bool) : ∀ (k : Nat) (n : Net),
    exploreAll T oz P k n = true → ∀ sched, P (run T oz n sched) = true := by
  intro k
  induction k with
  | zero =>
    intro n h sched
    unfold exploreAll at h
    simp only [Bool.and_eq_true, List.isEmpty_iff] at h
    rw [run_quiescent T oz n h.2]
    exact h.1
  | succ k ih =>
    intro n h sched
    unfold exploreAll at h
    simp only [Bool.and_eq_true, List.all_eq_true, List.mem_range] at h
    induction sched with
    | nil => exact h.1
    | cons i is ih2 =>
      by_cases hi : i < n.inflight.length
      · have := ih (deliver T oz n i) (h.2 i hi) is
        unfold run at this ⊢
        rw [List.foldl_cons]
        exact this
      · unfold run at ih2 ⊢
        rw [List.foldl_cons, deliver_out_of_range T oz n i (by omega)]
        exact ih2

end Icinga.C11

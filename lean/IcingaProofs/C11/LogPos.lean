/-
  C11 — helper lemmas for the log-position theorems (`skipped_or_sent`, `log_run_meets_spec`): every connected endpoint
  of a zone the relay loop runs for ends up in `sent` or in `skipped`; `skipped` endpoints are connected; reported positions
  only move a log position forward.
-/
import IcingaProofs.C11.Complete
namespace Icinga.C11

section ZoneSkip
variable (T : Topo) (self : Ep) (o : Origin) (m : Option Ep) (cz : Zone)

/-- what one iteration does to `sent` and `skipped` -/
theorem relayStep_skip_cases (st : ZState) (e : Ep) :
    ((relayStep T self o m cz st e).sent = st.sent ∧ (relayStep T self o m cz st e).skipped = st.skipped ∧
        (e = self ∨ T.conn self e = false)) ∨
    ((relayStep T self o m cz st e).sent = st.sent ∧ (relayStep T self o m cz st e).skipped = st.skipped ++ [e] ∧
        e ≠ self ∧ T.conn self e = true) ∨
    ((relayStep T self o m cz st e).sent = st.sent ++ [e] ∧ (relayStep T self o m cz st e).skipped = st.skipped ∧
        e ≠ self ∧ T.conn self e = true) := by
  unfold relayStep
  by_cases h1 : e == self
  · left; simp [h1]; exact Or.inl (by simpa using h1)
  · have h1' : e ≠ self := by simpa using h1
    by_cases h2 : T.conn self e
    · by_cases h3 : blocked T self o m cz st.relayed e
      · right; left; simp [h1, h1', h2, h3]
      · right; right; simp [h1, h1', h2, h3]
    · left; simp [h1, h2]

theorem foldl_skipped_mono (l : List Ep) : ∀ (st : ZState) {x : Ep}, x ∈ st.skipped →
    x ∈ (l.foldl (relayStep T self o m cz) st).skipped := by
  induction l with
  | nil => intro st x h; simpa using h
  | cons e es ih =>
    intro st x h
    rw [List.foldl_cons]
    apply ih
    rcases relayStep_skip_cases T self o m cz st e with ⟨_, h2, _⟩ | ⟨_, h2, _⟩ | ⟨_, h2, _⟩
    · rw [h2]; exact h
    · rw [h2]; exact List.mem_append_left _ h
    · rw [h2]; exact h

/-- every connected member the loop visits is sent to or skipped -/
theorem foldl_sent_or_skipped (l : List Ep) : ∀ (st : ZState) {x : Ep}, x ∈ l → x ≠ self → T.conn self x = true →
    x ∈ (l.foldl (relayStep T self o m cz) st).sent ∨ x ∈ (l.foldl (relayStep T self o m cz) st).skipped := by
  induction l with
  | nil => intro st x h; cases h
  | cons e es ih =>
    intro st x hx hne hc
    rw [List.foldl_cons]
    rcases List.mem_cons.mp hx with rfl | hx
    · rcases relayStep_skip_cases T self o m cz st x with ⟨_, _, h3⟩ | ⟨_, h2, _⟩ | ⟨h1, _, _⟩
      · rcases h3 with h3 | h3
        · exact absurd h3 hne
        · rw [hc] at h3; cases h3
      · right; apply foldl_skipped_mono; rw [h2]; simp
      · left; apply foldl_sent_mono; rw [h1]; simp
    · exact ih _ hx hne hc

/-- only connected endpoints other than the node are skipped -/
theorem foldl_skipped_conn (l : List Ep) : ∀ (st : ZState), (∀ x ∈ st.skipped, x ≠ self ∧ T.conn self x = true) →
    ∀ x ∈ (l.foldl (relayStep T self o m cz) st).skipped, x ≠ self ∧ T.conn self x = true := by
  induction l with
  | nil => intro st h; simpa using h
  | cons e es ih =>
    intro st h
    rw [List.foldl_cons]
    apply ih
    intro x hx
    rcases relayStep_skip_cases T self o m cz st e with ⟨_, h2, _⟩ | ⟨_, h2, h3, h4⟩ | ⟨_, h2, _⟩
    · rw [h2] at hx; exact h x hx
    · rw [h2] at hx
      rcases List.mem_append.mp hx with hx | hx
      · exact h x hx
      · have : x = e := by simpa using hx
        subst this; exact ⟨h3, h4⟩
    · rw [h2] at hx; exact h x hx

theorem relayZone_sent_or_skipped {x : Ep} (hx : x ∈ T.eps self cz) (hne : x ≠ self) (hc : T.conn self x = true) :
    x ∈ (relayZone T self o m cz).sent ∨ x ∈ (relayZone T self o m cz).skipped :=
  foldl_sent_or_skipped T self o m cz _ _ hx hne hc

theorem relayZone_skipped_conn {x : Ep} (hx : x ∈ (relayZone T self o m cz).skipped) : x ≠ self ∧ T.conn self x = true :=
  foldl_skipped_conn T self o m cz _ _ (by intro x hx; cases hx) x hx

end ZoneSkip

section OneSkip
variable (T : Topo) (self : Ep) (o : Origin) (m : Option Ep)

theorem mem_relayOne_skipped {tz : Zone} {e : Ep} :
    e ∈ (relayOne T self o m tz).skipped ↔
      related T self tz = true ∧ ∃ cz ∈ targetZones T self tz, e ∈ (relayZone T self o m cz).skipped := by
  unfold relayOne
  by_cases h : related T self tz = true
  · simp only [h, Bool.not_true, Bool.false_eq_true, if_false, mem_flatMap_map, true_and]
  · simp [h]

theorem mem_relayFuel_skipped {fuel : Nat} {oz : Option Zone} {log : Bool} {e : Ep} :
    e ∈ (relayFuel fuel T self o oz log).skipped ↔
      ∃ z ∈ targetZone T self oz :: allParents T fuel (targetZone T self oz),
        e ∈ (relayOne T self o (getMaster T self) z).skipped := by
  unfold relayFuel
  simp only [mem_flatMap_map]

end OneSkip

section Pos
variable {T : Topo} {self : Ep}

theorem relayZone_skipped_sub_relayFuel (hd : Detached T) {o : Origin} {oz : Option Zone} {log : Bool} {fuel : Nat} {cz : Zone}
    (h : if T.isGlobal (targetZone T self oz) = true then
        cz = T.zoneOf self ∨ (cz ∈ T.zones ∧ T.parent cz = some (T.zoneOf self))
      else cz ∈ targetZone T self oz :: allParents T fuel (targetZone T self oz) ∧ related T self cz = true)
    {e : Ep} (he : e ∈ (relayZone T self o (getMaster T self) cz).skipped) : e ∈ (relayFuel fuel T self o oz log).skipped := by
  obtain ⟨z, hz, hrel, hcz⟩ := zone_relayed hd (self := self) (oz := oz) (fuel := fuel) (cz := cz) h
  exact (mem_relayFuel_skipped T self o).mpr ⟨z, hz, (mem_relayOne_skipped T self o _).mpr ⟨hrel, cz, hcz, he⟩⟩

theorem skipped_conn {o : Origin} {oz : Option Zone} {log : Bool} {fuel : Nat} {e : Ep}
    (h : e ∈ (relayFuel fuel T self o oz log).skipped) : e ≠ self ∧ T.conn self e = true := by
  obtain ⟨z, _, hz⟩ := (mem_relayFuel_skipped T self o).mp h
  obtain ⟨_, cz, _, he⟩ := (mem_relayOne_skipped T self o _).mp hz
  exact relayZone_skipped_conn T self o _ cz he

/-- reported positions never move a log position backwards -/
theorem reportPos_ge (l p : Int) : l ≤ reportPos l p := by
  unfold reportPos; split <;> omega

theorem foldl_reportPos_ge (ps : List Int) : ∀ l : Int, l ≤ ps.foldl reportPos l := by
  induction ps with
  | nil => intro l; simp
  | cons p ps ih => intro l; rw [List.foldl_cons]; exact Int.le_trans (reportPos_ge l p) (ih _)

/-- … and never beyond the largest position reported -/
theorem foldl_reportPos_lt (ps : List Int) (ts : Int) (h : ∀ p ∈ ps, p < ts) : ∀ l : Int, l < ts → ps.foldl reportPos l < ts := by
  induction ps with
  | nil => intro l hl; simpa using hl
  | cons p ps ih =>
    intro l hl
    rw [List.foldl_cons]
    apply ih (fun q hq => h q (List.mem_cons_of_mem _ hq))
    unfold reportPos; split
    · exact h p List.mem_cons_self
    · exact hl

/-- a position that was reported is reached -/
theorem foldl_reportPos_ge_mem (ps : List Int) : ∀ (l : Int) {p : Int}, p ∈ ps → p ≤ ps.foldl reportPos l := by
  induction ps with
  | nil => intro l p h; cases h
  | cons q ps ih =>
    intro l p h
    rw [List.foldl_cons]
    rcases List.mem_cons.mp h with rfl | h
    · refine Int.le_trans ?_ (foldl_reportPos_ge ps _)
      unfold reportPos; split <;> omega
    · exact ih _ h

end Pos

theorem foldl_max_ge_init (l : List Nat) : ∀ a, a ≤ l.foldl max a := by
  induction l with
  | nil => intro a; simp
  | cons x xs ih => intro a; rw [List.foldl_cons]; exact Nat.le_trans (Nat.le_max_left a x) (ih _)

theorem foldl_max_ge_mem (l : List Nat) : ∀ a, ∀ x ∈ l, x ≤ l.foldl max a := by
  induction l with
  | nil => intro a x h; cases h
  | cons y ys ih =>
    intro a x h
    rw [List.foldl_cons]
    rcases List.mem_cons.mp h with rfl | h
    · exact Nat.le_trans (Nat.le_max_right a x) (foldl_max_ge_init ys _)
    · exact ih _ x h

theorem foldl_max_mem (l : List Nat) : ∀ a, l.foldl max a = a ∨ l.foldl max a ∈ l := by
  induction l with
  | nil => intro a; left; rfl
  | cons y ys ih =>
    intro a
    rw [List.foldl_cons]
    rcases ih (max a y) with h | h
    · rw [h]
      rcases Nat.le_total a y with hle | hle
      · right; rw [Nat.max_eq_right hle]; exact List.mem_cons_self
      · left; exact Nat.max_eq_left hle
    · right; exact List.mem_cons_of_mem _ h

theorem filter_eq_singleton {M : Nat} : ∀ (l : List Nat), l.Nodup → M ∈ l → l.filter (fun t => t == M) = [M] := by
  intro l
  induction l with
  | nil => intro _ h; cases h
  | cons x xs ih =>
    intro hnd hm
    have hx : x ∉ xs := (List.nodup_cons.mp hnd).1
    have hxs : xs.Nodup := (List.nodup_cons.mp hnd).2
    by_cases hxM : x = M
    · subst hxM
      have : xs.filter (fun t => t == x) = [] := by
        rw [List.filter_eq_nil_iff]
        intro a ha h
        have : a = x := by simpa using h
        subst this; exact hx ha
      simp [this]
    · have hm' : M ∈ xs := by
        rcases List.mem_cons.mp hm with h | h
        · exact absurd h.symm hxM
        · exact h
      simp [hxM, ih hxs hm']

end Icinga.C11

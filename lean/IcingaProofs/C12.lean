/-
  C12 — replay log: the property theorems.  Model: IcingaModel/C12/Model.lean (transcription of
  lib/remote/apilistener.cpp PersistMessage/RotateLogFile/ReplayLog/ApiTimerHandler and of the receiver side in
  lib/remote/jsonrpcconnection.cpp); on-disk format: C20's netstring model.  Helper lemmas: C12/Lemmas.lean.
-/
import IcingaProofs.C12.Lemmas
import IcingaModel.C12.Spec

namespace Icinga.C12
open Icinga.C20

/-- What the property wants replayed from position `p`: newer than `p` and visible to the peer's zone. -/
def wanted (vis : Nat → Bool) (p : Int) (e : Entry) : Bool := !skipEntry vis p e

/-- The records on disk are well formed for replay: strictly increasing timestamps in replay order, and
    every rotated file is named after a second later than all its records (`int(lastTs)+1`). -/
structure WF (dec : Bytes → Option Entry) (now : Int) (s : Sender) : Prop where
  increasing : (fullView dec now s).Pairwise (fun a b => a.2.ts < b.2.ts)
  named : ∀ f ∈ s.files, ∀ e ∈ entriesOf dec f.bytes, e.ts < f.name * usec

/-
  FULL STATEMENT (false of the unchanged code, Q-C12a): for all records in non-decreasing timestamp order
  ("arbitrary virtual times" includes a clock that does not advance between two events) a pass sends exactly
  the records newer than the peer's position that its zone may see.  `timestamp <= peer_ts → continue`
  (apilistener.cpp:1527) skips the second of two records with the same stamp: see `replay_exact_counterexample`.
  What holds is the statement for strictly increasing stamps.
-/

/-- **replay_exact_partial (one pass).**  With strictly increasing timestamps a pass over the records `xs`
    sends exactly those newer than `p` that pass the zone filter, in order, each once. -/
theorem replay_exact_partial (vis : Nat → Bool) (p lp : Int) (xs : List (Int × Entry))
    (hs : xs.Pairwise (fun a b => a.2.ts < b.2.ts)) :
    msgsOf (replayEntries vis ⟨p, lp, [], 0⟩ xs).out = (xs.map (·.2)).filter (wanted vis p) := by
  have := replayEntries_sorted vis xs ⟨p, lp, [], 0⟩ hs
  simp only [msgsOf_nil, List.nil_append] at this
  exact this

example : msgsOf (replayEntries (fun o => o == 1) ⟨5, 5, [], 0⟩
    [(2, ⟨4, 1, none⟩), (2, ⟨6, 2, some 0⟩), (2, ⟨7, 3, some 1⟩), (9, ⟨8, 4, none⟩)]).out = [⟨7, 3, some 1⟩, ⟨8, 4, none⟩] := by decide

/-- **replay_exact_counterexample.**  Two records with the same timestamp: the second one is never replayed. -/
theorem replay_exact_counterexample :
    ¬ (∀ (vis : Nat → Bool) (p lp : Int) (xs : List (Int × Entry)), xs.Pairwise (fun a b => a.2.ts ≤ b.2.ts) →
        msgsOf (replayEntries vis ⟨p, lp, [], 0⟩ xs).out = (xs.map (·.2)).filter (wanted vis p)) := by
  intro h
  have := h (fun _ => true) 0 0 [(2, ⟨5, 1, none⟩), (2, ⟨5, 2, none⟩)] (by decide)
  revert this
  decide

/-- **replay_exact (whole ReplayLog).**  For a well-formed log directory ReplayLog — file selection by name,
    all passes of its loop — sends exactly the records on disk that are newer than the endpoint's position and
    visible to its zone, in timestamp order, none twice; and three loop iterations are enough. -/
theorem replay_exact (dec : Bytes → Option Entry) (vis : Nat → Bool) (limit : Nat) (now dur p : Int) (s : Sender)
    (hd : dur ≠ 0) (wf : WF dec now (openLog now s)) :
    msgsOf (replay dec vis limit now dur p s).out = ((fullView dec now (openLog now s)).map (·.2)).filter (wanted vis p) ∧
    (replay dec vis limit now dur p s).fuelOut = false := by
  have hd' : (dur == 0) = false := by simp [hd]
  simp only [replay, hd', Bool.false_eq_true, if_false]
  have h := replayLoop_first_pass dec vis limit now (openLog now s) p
  simp only at h
  rw [h.1, h.2.2.1]
  refine ⟨?_, rfl⟩
  have hsub := view_sublist dec now p (openLog now s)
  simp only [replayPass]
  rw [replay_exact_partial vis p p _ (List.Pairwise.sublist hsub wf.increasing)]
  -- the files dropped by `name ≥ peer_ts` contain nothing the filter would let through
  simp only [view, fullView, List.map_append, List.filter_append]
  congr 1
  rw [List.filter_map, List.filter_map]
  congr 1
  apply filter_flatMap_filter
  intro f hf hc x hx
  simp only [decide_eq_false_iff_not, Int.not_le] at hc
  obtain ⟨e, he, rfl⟩ := List.mem_map.mp hx
  have hn := wf.named f ((mem_sortByName f _).mp hf) e he
  simp only [Function.comp, wanted, skipEntry, Bool.not_eq_false', Bool.or_eq_true, decide_eq_true_eq]
  left; omega

/-- **confirmed_not_replayed.**  Whatever is on disk (any order, any damage): ReplayLog never sends a record
    whose timestamp the peer's position already covers, nor one its zone may not see, and what it sends is a
    subsequence of the records on disk (nothing twice, nothing invented). -/
theorem confirmed_not_replayed (dec : Bytes → Option Entry) (vis : Nat → Bool) (limit : Nat) (now dur p : Int) (s : Sender) :
    (∀ e ∈ msgsOf (replay dec vis limit now dur p s).out, p < e.ts ∧ skipEntry vis p e = false) ∧
    (msgsOf (replay dec vis limit now dur p s).out).Sublist ((fullView dec now (openLog now s)).map (·.2)) := by
  by_cases hd : (dur == 0) = true
  · simp [replay, hd]
  · simp only [replay, hd, Bool.false_eq_true, if_false]
    have h := replayLoop_first_pass dec vis limit now (openLog now s) p
    simp only at h
    rw [h.1]
    obtain ⟨new, h1, h2, h3⟩ := replayEntries_sent vis (view dec now p (openLog now s)) ⟨p, p, [], 0⟩
    simp only [replayPass]
    simp only [msgsOf_nil, List.nil_append] at h1
    rw [h1]
    exact ⟨fun e he => ⟨not_skip_gt vis p e (h3 e he), h3 e he⟩,
      h2.trans (List.Sublist.map _ (view_sublist dec now p (openLog now s)))⟩

/-- **receiver_ignores_old.**  MessageHandler drops a message older than the recorded position and leaves the
    position alone; otherwise it accepts it and records its timestamp. -/
theorem receiver_ignores_old (rpos ts : Int) :
    (ts < rpos → recv rpos (some ts) = (false, rpos)) ∧ (¬ ts < rpos → recv rpos (some ts) = (true, ts)) := by
  constructor <;> intro h <;> simp [recv, h]

example : recv 10 (some 9) = (false, 10) ∧ recv 10 (some 10) = (true, 10) ∧ recv 10 (some 11) = (true, 11) := by decide

/-- **position_monotone.**  Neither position ever moves backwards: SetLogPositionHandler takes the maximum,
    the receiver's filter only records timestamps ≥ the old position, ReplayLog's `peer_ts` only grows. -/
theorem position_monotone (dec : Bytes → Option Entry) (vis : Nat → Bool) (limit : Nat) (now dur : Int) (s : Sender)
    (lpos rpos v : Int) (ts : Option Int) :
    lpos ≤ setLogPos lpos v ∧ v ≤ setLogPos lpos v ∧ (setLogPos lpos v = lpos ∨ setLogPos lpos v = v) ∧
    rpos ≤ (recv rpos ts).2 ∧ lpos ≤ (replay dec vis limit now dur lpos s).peer := by
  refine ⟨?_, ?_, ?_, ?_, ?_⟩
  · simp only [setLogPos]; split <;> omega
  · simp only [setLogPos]; split <;> omega
  · simp only [setLogPos]; split <;> simp
  · cases ts with
    | none => simp [recv]
    | some t => simp only [recv]; split <;> simp <;> omega
  · by_cases hd : (dur == 0) = true
    · simp [replay, hd]
    · simp only [replay, hd, Bool.false_eq_true, if_false]
      have h := replayLoop_first_pass dec vis limit now (openLog now s) lpos
      simp only at h
      rw [h.2.1]
      exact (replayEntries_peer vis _ ⟨lpos, lpos, [], 0⟩).1

/-- **cleanup_safe.**  The timer deletes a file only if, for every related endpoint, the file is older than
    that endpoint's log_duration or lies entirely below its confirmed position — so with well-named files
    (`WF.named`) no record that ReplayLog would still send to a related endpoint inside its log_duration is lost. -/
theorem cleanup_safe (dec : Bytes → Option Entry) (vis : Nat → Bool) (now : Int) (peers : List Peer) (s : Sender)
    (f : LFile) (hf : f ∈ s.files) (hdel : f ∉ (cleanup now peers s).files) (p : Peer) (hp : p ∈ peers) (hr : p.related = true) :
    ((0 ≤ p.dur ∧ f.name * usec < now - p.dur) ∨ f.name * usec ≤ p.lpos) ∧
    ((∀ e ∈ entriesOf dec f.bytes, e.ts < f.name * usec) →
      ∀ e ∈ entriesOf dec f.bytes, (0 ≤ p.dur ∧ e.ts < now - p.dur) ∨ skipEntry vis p.lpos e = true) := by
  have hkeep : peers.any (needsFile now f.name) = false := by
    cases h : peers.any (needsFile now f.name) with
    | false => rfl
    | true => exact absurd (by simp only [cleanup, List.mem_filter]; exact ⟨hf, h⟩) hdel
  have hn : needsFile now f.name p = false := by
    cases h : needsFile now f.name p with
    | false => rfl
    | true => rw [List.any_eq_false] at hkeep; exact absurd h (hkeep p hp)
  have key : (0 ≤ p.dur ∧ f.name * usec < now - p.dur) ∨ f.name * usec ≤ p.lpos := by
    simp only [needsFile, hr, Bool.true_and, Bool.and_eq_false_iff, Bool.not_eq_false', Bool.and_eq_true,
      decide_eq_true_eq, decide_eq_false_iff_not] at hn
    rcases hn with hn | hn
    · left; exact ⟨by omega, hn.2⟩
    · right; omega
  refine ⟨key, fun hnamed e he => ?_⟩
  have := hnamed e he
  rcases key with ⟨h1, h2⟩ | h
  · left; exact ⟨h1, by omega⟩
  · right; simp only [skipEntry, Bool.or_eq_true, decide_eq_true_eq]; left; omega

example : (cleanup 100000000 [⟨true, 50000000, 70000000, 0, false, false⟩] { files := [⟨60, []⟩, ⟨80, []⟩, ⟨40, []⟩] }).files
    = [⟨80, []⟩] := by decide

/-- A payload encoding as PersistMessage/ReplayLog need it: decoding inverts encoding, records stay below
    the netstring reader's length limit. -/
structure Codec where
  enc : Entry → Bytes
  dec : Bytes → Option Entry
  dec_enc : ∀ e, dec (enc e) = some e
  small : ∀ e, (enc e).length < 10 ^ 9

/-- What `n` PersistMessage calls leave in a file. -/
def fileOf (c : Codec) (es : List Entry) : Bytes := nsEncodeAll (es.map c.enc)

/-- **truncation_tolerant.**  A log file cut at ANY byte offset `k` (crash, full disk) still yields exactly
    the records whose frames lie completely inside the first `k` bytes — `j` of them, where the `j`-th frame
    ends at or before `k` and the next one does not — never a wrong record, never an error that would hide them.
    (Other files are not touched by construction: `view` reads every file with a fresh reader.) -/
theorem truncation_tolerant (c : Codec) (es : List Entry) (k : Nat) :
    ∃ j, entriesOf c.dec ((fileOf c es).take k) = es.take j ∧
      (fileOf c (es.take j)).length ≤ k ∧ (j < es.length → k < (fileOf c (es.take (j + 1))).length) := by
  obtain ⟨j, t, h1, h2, h3, h4⟩ := take_encodeAll (es.map c.enc) k
  refine ⟨j, ?_, by simpa [fileOf, List.map_take] using h3, by
    intro hj; simpa [fileOf, List.map_take] using h4 (by simpa using hj)⟩
  have hps : ∀ p ∈ (es.map c.enc).take j, p.length < 10 ^ 9 ∧ bufLimitExceeded none p.length = false := by
    intro p hp
    obtain ⟨e, _, rfl⟩ := List.mem_map.mp (List.mem_of_mem_take hp)
    exact ⟨c.small e, rfl⟩
  have hitems : fileItems ((fileOf c es).take k) = (es.map c.enc).take j := by
    simp only [fileItems, fileOf]
    rcases h2 with h2 | ⟨q, sfx, hq, hs, he⟩
    · subst h2
      exact (netstring_prefix_parse none _ [] [] (nsEncode []) _ hps ⟨by decide, rfl⟩ (by simp)
        (nsEncode_ne_nil []) (by rw [chunks_flatten, h1])).1
    · obtain ⟨e, _, rfl⟩ := List.mem_map.mp hq
      exact (netstring_prefix_parse none _ (c.enc e) t sfx _ hps ⟨c.small e, rfl⟩ he hs
        (by rw [chunks_flatten, h1])).1
  simp only [entriesOf, hitems, ← List.map_take]
  exact takeSome_map_some c.enc c.dec c.dec_enc _

/-- **survives_restart.**  A crash that lost no byte of `current`, followed by a new process on the same
    directory, changes nothing in what ReplayLog sends. -/
theorem survives_restart (dec : Bytes → Option Entry) (vis : Nat → Bool) (limit : Nat) (now now' dur p : Int) (s : Sender)
    (k : Nat) (hk : ∀ b, s.current = some b → b.length ≤ k) :
    (replay dec vis limit now dur p (start now' (crash k s))).out = (replay dec vis limit now dur p s).out := by
  have hcur : (crash k s).current = s.current := by
    simp only [crash]
    cases h : s.current with
    | none => rfl
    | some b => simp [List.take_of_length_le (hk b h)]
  have hv : ∀ q, view dec now q (openLog now (start now' (crash k s))) = view dec now q (openLog now s) := by
    intro q
    apply view_congr
    · simp [openLog, start, crash]
    · simp only [openLog, start]
      rw [hcur]
  have hp : replayPass dec vis now (openLog now (start now' (crash k s))) = replayPass dec vis now (openLog now s) := by
    funext q lp; simp only [replayPass, hv]
  simp only [replay, hp]

/-- **relay_persists.**  An event one of whose target zones consists of a single, disconnected endpoint is
    written to the log (RelayMessageOne returns false → PersistMessage). -/
theorem relay_persists (peers : Nat → Peer) (master : Option Nat) (zones : List (Bool × List Nat)) (loc : Bool) (i : Nat)
    (hz : (loc, [i]) ∈ zones) (hc : (peers i).connected = false) : (relay peers master zones).needLog = true := by
  simp only [relay, List.any_map, List.any_eq_true]
  refine ⟨(loc, [i]), hz, ?_⟩
  simp only [Function.comp, relayZone, List.foldl_cons, List.foldl_nil, relayEndpoint, hc, Bool.not_false, if_true]
  cases loc <;> simp

example : (relay (fun i => if i == 0 then ⟨true, 1, 0, 0, true, false⟩ else ⟨true, 1, 0, 0, false, false⟩) none
    [(false, [1]), (true, [0])]) = ⟨true, [0], []⟩ := by decide

/-- The spec predicate is not vacuous: it rejects a replay that omits a logged, unconfirmed event, and one
    that repeats an event. -/
example : (specTrace (specInit [-1, -1, -1])
    [⟨.relay 10 1 none (some 20) none, [0, 0, 0, 0, 0, 0]⟩, ⟨.conn 0, [0, 0, 0, 0, 0, 0]⟩,
     ⟨.replay 20 0 [] none, [0, 0, 0, 0, 0, 0]⟩] 0) = some (2, .replayComplete) := by decide

example : (specTrace (specInit [-1, -1, -1])
    [⟨.relay 10 1 none (some 20) none, [0, 0, 0, 0, 0, 0]⟩, ⟨.conn 0, [0, 0, 0, 0, 0, 0]⟩,
     ⟨.replay 20 0 [.m 1 10, .m 1 10] none, [0, 0, 0, 0, 0, 0]⟩] 0) = some (2, .replayOrder) := by decide

example : (specTrace (specInit [-1, -1, -1])
    [⟨.relay 10 1 none (some 20) none, [0, 0, 0, 0, 0, 0]⟩, ⟨.conn 0, [0, 0, 0, 0, 0, 0]⟩,
     ⟨.replay 20 0 [.m 1 10] none, [0, 0, 0, 0, 0, 0]⟩] 0) = none := by decide

end Icinga.C12

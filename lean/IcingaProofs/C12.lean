/-
  C12 — replay log: the property theorems.  Model: IcingaModel/C12/Model.lean (transcription of
  lib/remote/apilistener.cpp PersistMessage/RotateLogFile/ReplayLog/ApiTimerHandler and of the receiver side in
  lib/remote/jsonrpcconnection.cpp); on-disk format: C20's netstring model.  Helper lemmas: C12/Lemmas.lean.
-/
import IcingaProofs.C12.Lemmas
import IcingaProofs.C12.TraceLemmas
import IcingaProofs.C12.Sync
import IcingaModel.C12.Spec
import IcingaModel.C12.Trace

namespace Icinga.C12
open Icinga.C20

/-
  FULL STATEMENT (false of the unchanged code, Q-C12a): for all records in non-decreasing timestamp order
  ("arbitrary virtual times" includes a clock that does not advance between two events) a pass sends exactly
  the records newer than the peer's position that its zone may see.  `timestamp <= peer_ts → continue`
  (apilistener.cpp:1535) skips the second of two records with the same stamp: see `replay_exact_counterexample`.
  What holds is the statement for strictly increasing stamps.
-/

/-- **replay_exact_partial (one pass).**  With strictly increasing timestamps a pass over the records `xs`
    sends exactly those newer than `p` that pass the zone filter, in order, each once. -/
theorem replay_exact_partial (vis : Nat → Bool) (p lp : Int) (xs : List (Int × Entry))
    (hs : xs.Pairwise (fun a b => a.2.ts < b.2.ts)) :
    msgsOf (replayEntries vis ⟨p, lp, [], 0⟩ xs).out = (xs.map (·.2)).filter (wanted vis p) := by
  exact replay_pass_aux vis p lp xs hs

example : msgsOf (replayEntries (fun o => o == 1) ⟨5, 5, [], 0⟩
    [(2, ⟨4, 1, none⟩), (2, ⟨6, 2, some 0⟩), (2, ⟨7, 3, some 1⟩), (9, ⟨8, 4, none⟩)]).out = [⟨7, 3, some 1⟩, ⟨8, 4, none⟩] := by decide

/-- **replay_exact_counterexample.**  Two records with the same timestamp: the second one is never replayed. -/
theorem replay_exact_counterexample :
    ¬ (∀ (vis : Nat → Bool) (p lp : Int) (xs : List (Int × Entry)), xs.Pairwise (fun a b => a.2.ts ≤ b.2.ts) →
        msgsOf (replayEntries vis ⟨p, lp, [], 0⟩ xs).out = (xs.map (·.2)).filter (wanted vis p)) := by
  intro h
  have := h (fun _ => true) 0 0 [(2, ⟨5, 1, none⟩), (2, ⟨5, 2, none⟩)] (by decide)
  revert this
  decide

/-- **replay_exact (whole ReplayLog).**  For a well-formed log directory ReplayLog — file selection by name,
    all passes of its loop — sends exactly the records on disk that are newer than the endpoint's position and
    visible to its zone, in timestamp order, none twice; and three loop iterations are enough. -/
theorem replay_exact (dec : Bytes → Option Entry) (vis : Nat → Bool) (limit : Nat) (now dur p : Int) (s : Sender)
    (hd : dur ≠ 0) (wf : WF dec now (openLog now s)) :
    msgsOf (replay dec vis limit now dur p s).out = ((fullView dec now (openLog now s)).map (·.2)).filter (wanted vis p) ∧
    (replay dec vis limit now dur p s).fuelOut = false := by
  exact replay_exact_aux dec vis limit now dur p s hd wf

/-- **confirmed_not_replayed.**  Whatever is on disk (any order, any damage): ReplayLog never sends a record
    whose timestamp the peer's position already covers, nor one its zone may not see, and what it sends is a
    subsequence of the records on disk (nothing twice, nothing invented). -/
theorem confirmed_not_replayed (dec : Bytes → Option Entry) (vis : Nat → Bool) (limit : Nat) (now dur p : Int) (s : Sender) :
    (∀ e ∈ msgsOf (replay dec vis limit now dur p s).out, p < e.ts ∧ skipEntry vis p e = false) ∧
    (msgsOf (replay dec vis limit now dur p s).out).Sublist ((fullView dec now (openLog now s)).map (·.2)) := by
  by_cases hd : (dur == 0) = true
  · simp [replay, hd]
  · simp only [replay, hd, Bool.false_eq_true, if_false]
    have h := replayLoop_first_pass dec vis limit now (openLog now s) p
    simp only at h
    rw [h.1]
    obtain ⟨new, h1, h2, h3⟩ := replayEntries_sent vis (view dec now p (openLog now s)) ⟨p, p, [], 0⟩
    simp only [replayPass]
    simp only [msgsOf_nil, List.nil_append] at h1
    rw [h1]
    exact ⟨fun e he => ⟨not_skip_gt vis p e (h3 e he), h3 e he⟩,
      h2.trans (List.Sublist.map _ (view_sublist dec now p (openLog now s)))⟩

/-- **receiver_ignores_old.**  MessageHandler drops a message older than the recorded position and leaves the
    position alone; otherwise it accepts it and records its timestamp. -/
theorem receiver_ignores_old (rpos ts : Int) :
    (ts < rpos → recv rpos (some ts) = (false, rpos)) ∧ (¬ ts < rpos → recv rpos (some ts) = (true, ts)) := by
  constructor <;> intro h <;> simp [recv, h]

example : recv 10 (some 9) = (false, 10) ∧ recv 10 (some 10) = (true, 10) ∧ recv 10 (some 11) = (true, 11) := by decide

/-- **position_monotone.**  Neither of these three writers ever moves a position backwards: SetLogPositionHandler takes the
    maximum, the receiver's filter only records timestamps ≥ the old position, ReplayLog's `peer_ts` only grows.
    (The fourth writer, RelayMessageOne's `SetLocalLogPosition(ts)` for a skipped CONNECTED endpoint, apilistener.cpp:1321-1322,
    can lower a position that a confirmation had put ahead of the clock; that is harmless — no event with a stamp in between
    exists yet — and the property does not forbid it: clause position_advance_justified only restricts INCREASES.) -/
theorem position_monotone (dec : Bytes → Option Entry) (vis : Nat → Bool) (limit : Nat) (now dur : Int) (s : Sender)
    (lpos rpos v : Int) (ts : Option Int) :
    lpos ≤ setLogPos lpos v ∧ v ≤ setLogPos lpos v ∧ (setLogPos lpos v = lpos ∨ setLogPos lpos v = v) ∧
    rpos ≤ (recv rpos ts).2 ∧ lpos ≤ (replay dec vis limit now dur lpos s).peer := by
  refine ⟨?_, ?_, ?_, ?_, ?_⟩
  · simp only [setLogPos]; split <;> omega
  · simp only [setLogPos]; split <;> omega
  · simp only [setLogPos]; split <;> simp
  · cases ts with
    | none => simp [recv]
    | some t => simp only [recv]; split <;> simp <;> omega
  · by_cases hd : (dur == 0) = true
    · simp [replay, hd]
    · simp only [replay, hd, Bool.false_eq_true, if_false]
      have h := replayLoop_first_pass dec vis limit now (openLog now s) lpos
      simp only at h
      rw [h.2.1]
      exact (replayEntries_peer vis _ ⟨lpos, lpos, [], 0⟩).1

/-- **cleanup_safe.**  The timer deletes a file only if, for every related endpoint, the file is older than
    that endpoint's log_duration or lies entirely below its confirmed position — so with well-named files
    (`WF.named`) no record that ReplayLog would still send to a related endpoint inside its log_duration is lost. -/
theorem cleanup_safe (dec : Bytes → Option Entry) (vis : Nat → Bool) (now : Int) (peers : List Peer) (s : Sender)
    (f : LFile) (hf : f ∈ s.files) (hdel : f ∉ (cleanup now peers s).files) (p : Peer) (hp : p ∈ peers) (hr : p.related = true) :
    ((0 ≤ p.dur ∧ f.name * usec < now - p.dur) ∨ f.name * usec ≤ p.lpos) ∧
    ((∀ e ∈ entriesOf dec f.bytes, e.ts < f.name * usec) →
      ∀ e ∈ entriesOf dec f.bytes, (0 ≤ p.dur ∧ e.ts < now - p.dur) ∨ skipEntry vis p.lpos e = true) := by
  have hkeep : peers.any (needsFile now f.name) = false := by
    cases h : peers.any (needsFile now f.name) with
    | false => rfl
    | true => exact absurd (by simp only [cleanup, List.mem_filter]; exact ⟨hf, h⟩) hdel
  have hn : needsFile now f.name p = false := by
    cases h : needsFile now f.name p with
    | false => rfl
    | true => rw [List.any_eq_false] at hkeep; exact absurd h (hkeep p hp)
  have key : (0 ≤ p.dur ∧ f.name * usec < now - p.dur) ∨ f.name * usec ≤ p.lpos := by
    simp only [needsFile, hr, Bool.true_and, Bool.and_eq_false_iff, Bool.not_eq_false', Bool.and_eq_true,
      decide_eq_true_eq, decide_eq_false_iff_not] at hn
    rcases hn with hn | hn
    · left; exact ⟨by omega, hn.2⟩
    · right; omega
  refine ⟨key, fun hnamed e he => ?_⟩
  have := hnamed e he
  rcases key with ⟨h1, h2⟩ | h
  · left; exact ⟨h1, by omega⟩
  · right; simp only [skipEntry, Bool.or_eq_true, decide_eq_true_eq]; left; omega

example : (cleanup 100000000 [⟨true, 50000000, 70000000, 0, false, false⟩] { files := [⟨60, []⟩, ⟨80, []⟩, ⟨40, []⟩] }).files
    = [⟨80, []⟩] := by decide

/-- What `n` PersistMessage calls leave in a file. -/
def fileOf (c : Codec) (es : List Entry) : Bytes := nsEncodeAll (es.map c.enc)

/-- **truncation_tolerant.**  A log file cut at ANY byte offset `k` (crash, full disk) still yields exactly
    the records whose frames lie completely inside the first `k` bytes — `j` of them, where the `j`-th frame
    ends at or before `k` and the next one does not — never a wrong record, never an error that would hide them.
    (Other files are not touched by construction: `view` reads every file with a fresh reader.) -/
theorem truncation_tolerant (c : Codec) (es : List Entry) (k : Nat) :
    ∃ j, entriesOf c.dec ((fileOf c es).take k) = es.take j ∧
      (fileOf c (es.take j)).length ≤ k ∧ (j < es.length → k < (fileOf c (es.take (j + 1))).length) := by
  obtain ⟨j, t, h1, h2, h3, h4⟩ := take_encodeAll (es.map c.enc) k
  refine ⟨j, ?_, by simpa [fileOf, List.map_take] using h3, by
    intro hj; simpa [fileOf, List.map_take] using h4 (by simpa using hj)⟩
  have hps : ∀ p ∈ (es.map c.enc).take j, p.length < 10 ^ 9 ∧ bufLimitExceeded none p.length = false := by
    intro p hp
    obtain ⟨e, _, rfl⟩ := List.mem_map.mp (List.mem_of_mem_take hp)
    exact ⟨c.small e, rfl⟩
  have hitems : fileItems ((fileOf c es).take k) = (es.map c.enc).take j := by
    simp only [fileItems, fileOf]
    rcases h2 with h2 | ⟨q, sfx, hq, hs, he⟩
    · subst h2
      exact (netstring_prefix_parse none _ [] [] (nsEncode []) _ hps ⟨by decide, rfl⟩ (by simp)
        (nsEncode_ne_nil []) (by rw [chunks_flatten, h1])).1
    · obtain ⟨e, _, rfl⟩ := List.mem_map.mp hq
      exact (netstring_prefix_parse none _ (c.enc e) t sfx _ hps ⟨c.small e, rfl⟩ he hs
        (by rw [chunks_flatten, h1])).1
  simp only [entriesOf, hitems, ← List.map_take]
  exact takeSome_map_some c.enc c.dec c.dec_enc _

/-- **damage_tolerant** (the arbitrary-tail version of `truncation_tolerant`).  A log file whose first `k` bytes
    are intact and are followed by ANY bytes `garbage` (a torn frame with later records appended behind it,
    random corruption, well-framed records whose text is not a JSON object — `dec` says `none` — …): ReplayLog
    reads, first and in order, the `j` records whose frames lie wholly inside the intact prefix; whatever it makes
    of the rest (`extra`: nothing, or what the bytes happen to decode to) comes after them. -/
theorem damage_tolerant (c : Codec) (es : List Entry) (k : Nat) (garbage : Bytes) :
    ∃ j extra, entriesOf c.dec ((fileOf c es).take k ++ garbage) = es.take j ++ extra ∧
      (fileOf c (es.take j)).length ≤ k ∧ (j < es.length → k < (fileOf c (es.take (j + 1))).length) := by
  obtain ⟨j, t, h1, _, h3, h4⟩ := take_encodeAll (es.map c.enc) k
  have hps : ∀ p ∈ (es.map c.enc).take j, okPayload none p := by
    intro p hp
    obtain ⟨e, _, rfl⟩ := List.mem_map.mp (List.mem_of_mem_take hp)
    exact ⟨c.small e, rfl⟩
  obtain ⟨extra, hx⟩ := run_frames_garbage none (runFuel {} (chunks ((fileOf c es).take k ++ garbage))) [] true
    (chunks ((fileOf c es).take k ++ garbage)) [] 0 ((es.map c.enc).take j) (t ++ garbage) hps
    (by rw [chunks_flatten]; simp only [fileOf, List.nil_append, h1, List.append_assoc])
    (by intro _ p ps' _; have := nsEncode_length_ge p; simp; omega)
    (by simp [runFuel])
  refine ⟨j, takeSome (extra.map c.dec), ?_, by simpa [fileOf, List.map_take] using h3, by
    intro hj; simpa [fileOf, List.map_take] using h4 (by simpa using hj)⟩
  have hitems : fileItems ((fileOf c es).take k ++ garbage) = (es.take j).map c.enc ++ extra := by
    simp only [fileItems, nsReadAll]
    rw [hx]; simp [List.map_take]
  simp only [entriesOf, hitems]
  exact takeSome_append_some c.enc c.dec c.dec_enc _ _

example : entriesOf (fun b => if b == [104] then some ⟨1, 1, none⟩ else none)
    (nsEncodeAll [[104]] ++ [52, 58, 110, 117, 108, 108, 44] ++ nsEncodeAll [[104]]) = [⟨1, 1, none⟩] := by decide

/-- **survives_restart.**  A crash that lost no byte of `current`, followed by a new process on the same
    directory, changes nothing in what ReplayLog sends.  (Byte-losing crashes: `crash_restart_exact`; graceful restarts and
    the endpoint positions: `Op.stopStart` / clause restart_keeps_positions in `model_trace_meets_spec_partial`.) -/
theorem survives_restart (dec : Bytes → Option Entry) (vis : Nat → Bool) (limit : Nat) (now now' dur p : Int) (s : Sender)
    (k : Nat) (hk : ∀ b, s.current = some b → b.length ≤ k) :
    (replay dec vis limit now dur p (start now' (crash k s))).out = (replay dec vis limit now dur p s).out := by
  have hcur : (crash k s).current = s.current := by
    simp only [crash]
    cases h : s.current with
    | none => rfl
    | some b => simp [List.take_of_length_le (hk b h)]
  have hv : ∀ q, view dec now q (openLog now (start now' (crash k s))) = view dec now q (openLog now s) := by
    intro q
    apply view_congr
    · simp [openLog, start, crash]
    · simp only [openLog, start]
      rw [hcur]
  have hp : replayPass dec vis now (openLog now (start now' (crash k s))) = replayPass dec vis now (openLog now s) := by
    funext q lp; simp only [replayPass, hv]
  simp only [replay, hp]

/-- **relay_persists.**  An event one of whose target zones consists of a single, disconnected endpoint is
    written to the log (RelayMessageOne returns false → PersistMessage). -/
theorem relay_persists (peers : Nat → Peer) (master : Option Nat) (zones : List (Bool × List Nat)) (loc : Bool) (i : Nat)
    (hz : (loc, [i]) ∈ zones) (hc : (peers i).connected = false) : (relay peers master zones).needLog = true := by
  simp only [relay, List.any_map, List.any_eq_true]
  refine ⟨(loc, [i]), hz, ?_⟩
  simp only [Function.comp, relayZone, List.foldl_cons, List.foldl_nil, relayEndpoint, hc, Bool.not_false, if_true]
  cases loc <;> simp

example : (relay (fun i => if i == 0 then ⟨true, 1, 0, 0, true, false⟩ else ⟨true, 1, 0, 0, false, false⟩) none
    [(false, [1]), (true, [0])]) = ⟨true, [0], []⟩ := by decide

/-! ## the whole trace -/

/-- A fresh node and the empty ghost history are related. -/
theorem rel_init (c : Codec) (t0 : Int) (h0 : 0 < t0) (pf sr tr : Bool) (durs : Nat → Int) :
    Rel c (specInit (dursList durs)) (initNode t0 pf sr tr durs) t0 :=
  { isOpen := rfl, files := rfl, cur := (by simp [initNode, start, openLog, specInit, encFile_nil]),
    curSize := (by simp [specInit, encFile_nil]), torn := rfl,
    intact := (by intro g hg; simp [ghostAll, specInit] at hg), sorted := (by simp [specInit]),
    nameLe := (by intro f hf; simp [specInit] at hf), lastPos := (by simpa [initNode, start, openLog] using h0),
    lastLe := (by simp [initNode, start, openLog]), incr := (by simp [ghostAll, specInit]),
    tsLe := (by intro g hg; simp [ghostAll, specInit] at hg), curLe := (by intro g hg; simp [specInit] at hg),
    named := (by intro f hf; simp [specInit] at hf), pos := rfl, conn := rfl, durs := rfl, dropped := rfl,
    rel := (fun _ => rfl) }

/-- **step_meets_spec.**  From related states, every operation of the node — at a time later than everything
    before, on peer A, B or C — produces observed steps the specification accepts, and leaves related states. -/
theorem step_meets_spec (c : Codec) (limit : Nat) (sp : SpecSt) (n : Node) (t : Int) (op : Op) (hr : Rel c sp n t)
    (hp : op.peerOk = true) (ht : ∀ now, op.time = some now → t < now) :
    ∃ sp', specEnd sp (stepOp c limit n op).2 = some sp' ∧ Rel c sp' (stepOp c limit n op).1 (op.time.getD t) := by
  cases op with
  | relay now id sec => exact step_relay c limit sp n t now id sec (ht now rfl) hr
  | conn p => exact step_conn c limit sp n t p (by simpa [Op.peerOk] using hp) hr
  | attach p => exact step_attach c limit sp n t p (by simpa [Op.peerOk] using hp) hr
  | disc p => exact step_disc c limit sp n t p (by simpa [Op.peerOk] using hp) hr
  | replay now p => exact step_replay c limit sp n t now p (by simpa [Op.peerOk] using hp) (ht now rfl) hr
  | rotate now => exact step_rotate c limit sp n t now (ht now rfl) hr
  | timer now => exact step_timer c limit sp n t now (ht now rfl) hr
  | ack p v => exact step_ack c limit sp n t p v (by simpa [Op.peerOk] using hp) hr
  | recv p ts => exact step_recv c limit sp n t p ts (by simpa [Op.peerOk] using hp) hr
  | crashStart now sr tr => exact step_crashStart c limit sp n t now sr tr (ht now rfl) hr
  | stopStart now sr tr => exact step_stopStart c limit sp n t now sr tr (ht now rfl) hr
  | drop => exact step_drop c limit sp n t hr

/-
  FULL STATEMENT (false of the unchanged code, F-C12c): the model's trace satisfies the WHOLE specification, i.e.
  `specTrace … = none` AND `confirmTrace … = none` (clause confirmation_not_beyond_received).  The second half fails:
  ReplayLog queues `log::SetLogPosition` with its own file's name although nothing was received from the peer
  (`confirmation_counterexample`), and between two nodes that loses logged events (`premature_confirmation_counterexample`).
  What holds is every other clause (`model_trace_meets_spec_partial`: all of `specTrace`), and the clause itself for the
  timer's confirmations (`timer_confirmation_sound`).  Precisely: the node's own guarantees are relative to its recorded
  local position; "all logged events reach the peer" follows only under the extra hypothesis that this position was never
  raised by a SetLogPosition the peer queued inside ITS ReplayLog — the acknowledgements `Op.ack` of the trace are inputs.
-/

/-- **model_trace_meets_spec_partial** (the whole property on the model, except confirmation_not_beyond_received).  For every payload encoding, every rotation
    threshold, every configuration (which of the two zone members is master, in which order the two endpoints of the child
    zone and of the parent zone are visited, the six log_durations), and every
    finite sequence of events (any security object), connects, disconnects, ReplayLog runs, rotations, clean-up
    timer runs, log-position acknowledgements, incoming messages, crash-restarts (every byte written is on disk), GRACEFUL
    restarts (ApiListener::Stop closes and rotates the log, a new process starts: `Op.stopStart`) and runtime removal of a
    security object (`Op.drop`: ReplayLog no longer finds it, the spec no longer lets anybody see it) of the sender, under a virtual
    clock that advances by at least 1 µs per timed operation: the trace the model node produces satisfies the
    executable specification `specTrace` — every event for a disconnected related endpoint is logged; every replay
    delivers exactly known events, in order, none twice, none confirmed, none invisible, and all that are intact,
    unconfirmed, visible and inside the log_duration; the clean-up deletes nothing a related endpoint still needs;
    the receiver filter and the acknowledgement are exact; every new process comes up with the endpoint positions the old one
    had (clause restart_keeps_positions).
    (Crash points that cut `current` at ANY byte after ANY such history: `crash_anywhere_after_any_history`; what is appended
    behind a torn frame afterwards: `persisted_after_crash_partial` / `_counterexample`, F-C12g;
    equal timestamps are excluded by the clock hypothesis, see `replay_exact_counterexample`.) -/
theorem model_trace_meets_spec_partial (c : Codec) (limit : Nat) (t0 : Int) (h0 : 0 < t0) (pf sr tr : Bool) (durs : Nat → Int)
    (ops : List Op) (hc : ClockOK t0 ops) :
    specTrace (specInit (dursList durs)) (runModel c limit (initNode t0 pf sr tr durs) ops) 0 = none := by
  suffices h : ∀ (ops : List Op) (sp : SpecSt) (n : Node) (t : Int) (i : Nat), Rel c sp n t → ClockOK t ops →
      specTrace sp (runModel c limit n ops) i = none from h ops _ _ t0 0 (rel_init c t0 h0 pf sr tr durs) hc
  intro ops
  induction ops with
  | nil => intro sp n t i _ _; rfl
  | cons op rest ih =>
    intro sp n t i hr hck
    simp only [ClockOK] at hck
    obtain ⟨hp, hck⟩ := hck
    have ht : ∀ now, op.time = some now → t < now := by
      intro now hnow; rw [hnow] at hck; exact hck.1
    obtain ⟨sp', h1, h2⟩ := step_meets_spec c limit sp n t op hr hp ht
    simp only [runModel]
    rw [specTrace_append _ sp sp' _ i h1]
    apply ih sp' _ (op.time.getD t) _ h2
    cases hnow : op.time with
    | none => rw [hnow] at hck; exact hck
    | some now => rw [hnow] at hck; exact hck.2

/-- **timer_confirmation_sound.**  The confirmations the clean-up timer queues carry exactly the remote position
    (apilistener.cpp:993-1001): on related states the clause confirmation_not_beyond_received holds for the timer step. -/
theorem timer_confirmation_sound (c : Codec) (limit : Nat) (sp : SpecSt) (n : Node) (t now : Int) (h : Rel c sp n t) :
    ∀ st ∈ (stepOp c limit n (.timer now)).2, confirmStep sp st = none := by
  intro st hst
  simp only [stepOp, List.mem_singleton] at hst
  subst hst
  simp only [confirmStep, Node.peerList, List.map_cons, List.map_nil]
  rw [if_neg]
  simp only [allPeers, List.any_cons, List.any_nil, Bool.or_false, Bool.or_eq_true, not_or]
  have hr : ∀ p, p < 6 → rpos sp.pos p = (n.peers p).rpos := fun p hp => by rw [h.pos, rpos_pos n p hp]
  refine ⟨?_, ?_, ?_, ?_, ?_, ?_⟩
  · rw [hr 0 (by omega)]
    by_cases hc : ((n.peers 0).connected && (n.peers 0).rpos != 0) = true <;> simp [timerSetPos, hc, setPosValues]
  · rw [hr 1 (by omega)]
    by_cases hc : ((n.peers 1).connected && (n.peers 1).rpos != 0) = true <;> simp [timerSetPos, hc, setPosValues]
  · rw [hr 2 (by omega)]
    by_cases hc : ((n.peers 2).connected && (n.peers 2).rpos != 0) = true <;> simp [timerSetPos, hc, setPosValues]
  · rw [hr 3 (by omega)]
    by_cases hc : ((n.peers 3).connected && (n.peers 3).rpos != 0) = true <;> simp [timerSetPos, hc, setPosValues]
  · rw [hr 4 (by omega)]
    by_cases hc : ((n.peers 4).connected && (n.peers 4).rpos != 0) = true <;> simp [timerSetPos, hc, setPosValues]
  · rw [hr 5 (by omega)]
    by_cases hc : ((n.peers 5).connected && (n.peers 5).rpos != 0) = true <;> simp [timerSetPos, hc, setPosValues]

/-- **confirmation_counterexample.**  One logged event, nothing ever received from peer A (remote position 0):
    the model's ReplayLog queues SetLogPosition 1000002 s — the name of the file it replays — and the clause
    confirmation_not_beyond_received rejects that step. -/
theorem confirmation_counterexample :
    let e : Entry := ⟨1000000000001, 101, none⟩
    let out := (replayEntries (fun _ => true) ⟨0, 0, [], 0⟩ [(1000002, e)]).out
    out = [.msg e, .setPos 1000002000000] ∧
    confirmStep { (specInit [-1, -1, -1]) with cur := [⟨e, 140, true⟩] } ⟨.replay 1000001000000 0 (outObs out) none, [0, 0, 0, 0, 0, 0]⟩
      = some .replayFileName := by decide

/-- **premature_confirmation_counterexample** (two nodes, F-C12c).  While the link was down X logged event 101
    and Y logged 201 and 202; nothing is confirmed on either side.  X replays first; Y handles X's queue (the event,
    then X's in-replay SetLogPosition) before its own ReplayLog starts: Y then replays NOTHING — now and, because
    positions only grow, after every later reconnect — so 201 and 202 never reach X, although Y would have delivered
    both had its ReplayLog run first. -/
theorem premature_confirmation_counterexample :
    let vis : Nat → Bool := fun _ => true
    let x : PNode := ⟨[(1000002, ⟨1000000000001, 101, none⟩)], 0, 0⟩
    let y : PNode := ⟨[(1000002, ⟨1000000500000, 201, none⟩), (1000002, ⟨1000000700000, 202, none⟩)], 0, 0⟩
    let y' := (x.replayOut vis).foldl PNode.handle y
    -- both of Y's events are logged and unconfirmed
    (y.view.all (fun r => decide (r.2.ts > y.lpos)) = true) ∧
    -- had Y replayed first, X would have processed both
    (x.accepted (y.replayOut vis) = [⟨1000000500000, 201, none⟩, ⟨1000000700000, 202, none⟩]) ∧
    -- X's queue handled first: Y's position for X is X's file name, and Y replays nothing
    (y'.lpos = 1000002000000) ∧ (msgsOf (y'.replayOut vis) = []) ∧ (x.accepted (y'.replayOut vis) = []) := by decide

/-- **model_positions_justified** (clause position_advance_justified on the model).  Under the same hypotheses: along
    the model's trace an endpoint's local log position grows only by that endpoint's own confirmation, or to the
    timestamp of an event relayed while the endpoint itself was connected (RelayMessageOne only skips — and advances —
    endpoints that ARE connected, `relay_skipped_connected`): never for a disconnected endpoint, for which events
    are being persisted.  Together with `replay_exact` (everything newer than the position is replayed): events
    persisted while an endpoint was disconnected are replayed to it. -/
theorem model_positions_justified (c : Codec) (limit : Nat) (t0 : Int) (h0 : 0 < t0) (pf sr tr : Bool) (durs : Nat → Int)
    (ops : List Op) (hc : ClockOK t0 ops) :
    advanceTrace (specInit (dursList durs)) (runModel c limit (initNode t0 pf sr tr durs) ops) 0 = none := by
  suffices h : ∀ (ops : List Op) (sp : SpecSt) (n : Node) (t : Int) (i : Nat), Rel c sp n t → ClockOK t ops →
      advanceTrace sp (runModel c limit n ops) i = none from h ops _ _ t0 0 (rel_init c t0 h0 pf sr tr durs) hc
  intro ops
  induction ops with
  | nil => intro sp n t i _ _; rfl
  | cons op rest ih =>
    intro sp n t i hr hck
    simp only [ClockOK] at hck
    obtain ⟨hp, hck⟩ := hck
    have ht : ∀ now, op.time = some now → t < now := by
      intro now hnow; rw [hnow] at hck; exact hck.1
    obtain ⟨sp', h1, h2⟩ := step_meets_spec c limit sp n t op hr hp ht
    simp only [runModel]
    rw [advanceTrace_append _ sp sp' _ i h1 (step_advance c limit sp n t op hr hp)]
    apply ih sp' _ (op.time.getD t) _ h2
    cases hnow : op.time with
    | none => rw [hnow] at hck; exact hck
    | some now => rw [hnow] at hck; exact hck.2

/-! ## crash points: the sender dies at ANY byte of `current`, after ANY history -/

/-- **crash_restart_exact** (a whole-directory restart theorem for byte-losing crashes).  A well-formed log directory whose
    `current` holds the records `es`; the process dies and only the first `k` bytes of `current` reach the disk — ANY `k`, inside
    a frame or between frames —, a new process starts on the directory (ApiListener::Start reopens `current` for appending) and
    ReplayLog runs for an endpoint at position `p`: it sends EXACTLY the wanted (unconfirmed, visible) records of every rotated
    file and of the `j` records of `current` whose frames lie wholly inside the surviving prefix, in order, each once — the torn
    frame hides nothing before it and nothing in any other file. -/
theorem crash_restart_exact (c : Codec) (vis : Nat → Bool) (limit : Nat) (now now' dur p : Int) (s : Sender) (es : List Entry) (k : Nat)
    (hd : dur ≠ 0) (hcur : s.current = some (fileOf c es)) (wf : WF c.dec now (openLog now s)) :
    ∃ j, msgsOf (replay c.dec vis limit now dur p (start now' (crash k s))).out
          = ((sortByName s.files).flatMap (fun f => entriesOf c.dec f.bytes) ++ es.take j).filter (wanted vis p) ∧
      (fileOf c (es.take j)).length ≤ k ∧ (j < es.length → k < (fileOf c (es.take (j + 1))).length) := by
  obtain ⟨j, hj, hb1, hb2⟩ := truncation_tolerant c es k
  refine ⟨j, ?_, hb1, hb2⟩
  have hfull : entriesOf c.dec (fileOf c es) = es := by
    have := entriesOf_encFile c (es.map (fun e => (⟨e, 0, true⟩ : GEntry)))
    simpa [encFile, fileOf, List.map_map, Function.comp_def] using this
  have hs'f : (openLog now (start now' (crash k s))).files = s.files := by simp [openLog, start, crash]
  have hs'c : (openLog now (start now' (crash k s))).current = some ((fileOf c es).take k) := by
    simp [openLog, start, crash, hcur]
  have hv' : fullView c.dec now (openLog now (start now' (crash k s))) =
      (sortByName s.files).flatMap (fun f => (entriesOf c.dec f.bytes).map (fun e => (f.name, e)))
        ++ (es.take j).map (fun e => ((now + usec) / usec, e)) := by
    simp only [fullView, hs'f, hs'c, hj]
  have hv : fullView c.dec now (openLog now s) =
      (sortByName s.files).flatMap (fun f => (entriesOf c.dec f.bytes).map (fun e => (f.name, e)))
        ++ es.map (fun e => ((now + usec) / usec, e)) := by
    simp only [fullView, openLog, hcur, hfull]
  have wf' : WF c.dec now (openLog now (start now' (crash k s))) := by
    constructor
    · rw [hv']
      have := wf.increasing
      rw [hv] at this
      exact this.sublist (List.Sublist.append (List.Sublist.refl _) ((List.take_sublist j es).map _))
    · intro f hf
      rw [hs'f] at hf
      exact wf.named f hf
  rw [(replay_exact c.dec vis limit now dur p _ hd wf').1, hv']
  simp [List.map_flatMap, Function.comp_def]

/-- Not vacuous: two records in `current`, the cut falls inside the second frame — the first one is replayed. -/
example : msgsOf (replay (fun b => if b == [104] then some ⟨1, 1, none⟩ else if b == [105] then some ⟨2, 2, none⟩ else none)
    (fun _ => true) 50000 10 (-1) 0 (start 5 (crash 6 { current := some (nsEncodeAll [[104], [105]]) }))).out = [⟨1, 1, none⟩] := by decide

/-
  FULL STATEMENT (false of the unchanged code, F-C12g): after a crash at ANY byte `k` of `current`, what the NEW process
  persists is read back by ReplayLog, i.e. for all `k`:
      entriesOf c.dec ((fileOf c es).take k ++ fileOf c es2) = (the records wholly inside the first k bytes) ++ es2.
  ApiListener::Start only reopens `current` for appending (OpenLogFile, apilistener.cpp:1366-1382): behind a torn frame
  the new frames are swallowed by / collide with it, the reader stops there (:1517-1524) and never reaches them —
  `persisted_after_crash_counterexample`.  What holds is the statement for cuts that fall BETWEEN two frames.
-/

/-- **persisted_after_crash_partial.**  The crash cut `current` exactly behind its `j`-th frame: the surviving records and
    everything the new process appends (`es2`, any number of records) are read, in order. -/
theorem persisted_after_crash_partial (c : Codec) (es es2 : List Entry) (j : Nat) :
    entriesOf c.dec ((fileOf c es).take (fileOf c (es.take j)).length ++ fileOf c es2) = es.take j ++ es2 := by
  have hfull : ∀ l : List Entry, entriesOf c.dec (fileOf c l) = l := by
    intro l
    have := entriesOf_encFile c (l.map (fun e => (⟨e, 0, true⟩ : GEntry)))
    simpa [encFile, fileOf, List.map_map, Function.comp_def] using this
  have happ : ∀ a b : List Entry, fileOf c (a ++ b) = fileOf c a ++ fileOf c b := by
    intro a b; simp [fileOf, List.map_append, nsEncodeAll_append]
  have hsplit : fileOf c es = fileOf c (es.take j) ++ fileOf c (es.drop j) := by
    rw [← happ, List.take_append_drop]
  rw [hsplit, List.take_left' rfl, ← happ]
  exact hfull _

example : entriesOf (fun b => if b == [104] then some ⟨1, 1, none⟩ else if b == [105] then some ⟨2, 2, none⟩ else none)
    ((nsEncodeAll [[104], [104]]).take 4 ++ nsEncodeAll [[105]]) = [⟨1, 1, none⟩, ⟨2, 2, none⟩] := by decide

/-- **persisted_after_crash_counterexample** (F-C12g).  The log holds one record; the process dies with 2 of its 4 bytes on
    disk; a new process starts, persists a second record for the absent peer (it IS on disk, behind the torn frame) — and
    ReplayLog to that peer, unconfirmed position 0, everything visible, sends nothing: the event a healthy process logged is
    never replayed. -/
theorem persisted_after_crash_counterexample :
    let dec : Bytes → Option Entry := fun b => if b == [104] then some ⟨1, 1, none⟩ else if b == [105] then some ⟨7, 2, none⟩ else none
    let s1 := persist 50000 1 [104] 1 (start 1 {})
    let s2 := start 5 (crash 2 s1)
    let s3 := persist 50000 7 [105] 7 s2
    s1.current = some (nsEncode [104]) ∧ s3.current = some ((nsEncode [104]).take 2 ++ nsEncode [105]) ∧
    msgsOf (replay dec (fun _ => true) 50000 9 (-1) 0 s3).out = [] ∧
    -- had the crash lost the whole torn frame (or none of it), the new record would be replayed
    msgsOf (replay dec (fun _ => true) 50000 9 (-1) 0 (persist 50000 7 [105] 7 (start 5 (crash 0 s1)))).out = [⟨7, 2, none⟩] := by
  decide

/-- The clause persisted_after_crash_replayed is not vacuous: it rejects exactly the replay that omits the event appended
    behind a frame a crash tore, accepts the replay that has it, and does not judge events a second crash cut off. -/
example : tornTrace (specInit [-1, -1, -1, -1, -1, -1]) {}
    [⟨.relay 10 1 none (some 20) none, [0, 0, 0, 0, 0, 0, 0, 0, 0, 0, 0, 0]⟩, ⟨.damage ⟨none, 7, false⟩, [0, 0, 0, 0, 0, 0, 0, 0, 0, 0, 0, 0]⟩,
     ⟨.restart, [0, 0, 0, 0, 0, 0, 0, 0, 0, 0, 0, 0]⟩, ⟨.relay 30 2 none (some 20) none, [0, 0, 0, 0, 0, 0, 0, 0, 0, 0, 0, 0]⟩,
     ⟨.replay 40 0 [] none, [0, 0, 0, 0, 0, 0, 0, 0, 0, 0, 0, 0]⟩] 0 = some 4 := by decide
example : tornTrace (specInit [-1, -1, -1, -1, -1, -1]) {}
    [⟨.relay 10 1 none (some 20) none, [0, 0, 0, 0, 0, 0, 0, 0, 0, 0, 0, 0]⟩, ⟨.damage ⟨none, 7, false⟩, [0, 0, 0, 0, 0, 0, 0, 0, 0, 0, 0, 0]⟩,
     ⟨.restart, [0, 0, 0, 0, 0, 0, 0, 0, 0, 0, 0, 0]⟩, ⟨.relay 30 2 none (some 20) none, [0, 0, 0, 0, 0, 0, 0, 0, 0, 0, 0, 0]⟩,
     ⟨.replay 40 0 [.m 2 30] none, [0, 0, 0, 0, 0, 0, 0, 0, 0, 0, 0, 0]⟩] 0 = none := by decide
example : tornTrace (specInit [-1, -1, -1, -1, -1, -1]) {}
    [⟨.relay 10 1 none (some 20) none, [0, 0, 0, 0, 0, 0, 0, 0, 0, 0, 0, 0]⟩, ⟨.damage ⟨none, 7, false⟩, [0, 0, 0, 0, 0, 0, 0, 0, 0, 0, 0, 0]⟩,
     ⟨.restart, [0, 0, 0, 0, 0, 0, 0, 0, 0, 0, 0, 0]⟩, ⟨.relay 30 2 none (some 20) none, [0, 0, 0, 0, 0, 0, 0, 0, 0, 0, 0, 0]⟩,
     ⟨.damage ⟨none, 9, false⟩, [0, 0, 0, 0, 0, 0, 0, 0, 0, 0, 0, 0]⟩, ⟨.replay 40 0 [] none, [0, 0, 0, 0, 0, 0, 0, 0, 0, 0, 0, 0]⟩] 0 = none := by decide

/-- Every state the node reaches under an advancing clock is related to some ghost history. -/
theorem reachable_rel (c : Codec) (limit : Nat) : ∀ (ops : List Op) (sp : SpecSt) (n : Node) (t : Int), Rel c sp n t → ClockOK t ops →
    ∃ sp' t', Rel c sp' (endNode c limit n ops) t' := by
  intro ops
  induction ops with
  | nil => intro sp n t h _; exact ⟨sp, t, h⟩
  | cons op rest ih =>
    intro sp n t hr hck
    simp only [ClockOK] at hck
    obtain ⟨hp, hck⟩ := hck
    have ht : ∀ now, op.time = some now → t < now := by
      intro now hnow; rw [hnow] at hck; exact hck.1
    obtain ⟨sp', _, h2⟩ := step_meets_spec c limit sp n t op hr hp ht
    refine ih sp' _ (op.time.getD t) h2 ?_
    cases hnow : op.time with
    | none => rw [hnow] at hck; exact hck
    | some now => rw [hnow] at hck; exact hck.2

/-- **crash_anywhere_after_any_history** ("for all crash points", on the model node).  After EVERY operation sequence under an
    advancing clock — events, connects, replays, rotations, clean-ups, acknowledgements, graceful and crash restarts, object
    removal — let the process die with only the first `k` bytes of `current` on disk, for ANY `k`, and a new process replay to an
    endpoint at ANY position `p` with ANY visibility: `current` held well-framed records `es`, and the replay sends exactly the
    wanted records of all rotated files and of the first `j` records of `current`, `j` = the number of frames wholly inside the
    surviving `k` bytes. -/
theorem crash_anywhere_after_any_history (c : Codec) (limit : Nat) (t0 : Int) (h0 : 0 < t0) (pf sr tr : Bool) (durs : Nat → Int)
    (ops : List Op) (hc : ClockOK t0 ops) (vis : Nat → Bool) (now now' dur p : Int) (k : Nat) (hd : dur ≠ 0) :
    let s := (endNode c limit (initNode t0 pf sr tr durs) ops).snd
    ∃ es j, s.current = some (fileOf c es) ∧
      msgsOf (replay c.dec vis limit now dur p (start now' (crash k s))).out
          = ((sortByName s.files).flatMap (fun f => entriesOf c.dec f.bytes) ++ es.take j).filter (wanted vis p) ∧
      (fileOf c (es.take j)).length ≤ k ∧ (j < es.length → k < (fileOf c (es.take (j + 1))).length) := by
  intro s
  obtain ⟨sp, t, hr⟩ := reachable_rel c limit ops _ _ t0 (rel_init c t0 h0 pf sr tr durs) hc
  have hcur : s.current = some (fileOf c (sp.cur.map (·.e))) := by
    rw [show s.current = _ from hr.cur]
    simp [encFile, fileOf, List.map_map, Function.comp_def]
  obtain ⟨j, h1, h2, h3⟩ := crash_restart_exact c vis limit now now' dur p s _ k hd hcur (wf_rel c sp _ t now hr)
  exact ⟨_, j, hcur, h1, h2, h3⟩

/-- The clause rejects a position raised for a disconnected endpoint by a relayed event (the seeded reordering of the
    "zone already has it" test before the "endpoint is disconnected" test), accepts it for a connected one. -/
example : advanceOk { (specInit []) with conn := [false, true, false, false, false, false] }
    ⟨.relay 50 7 (some 1) none none, [0, 0, 0, 0, 0, 0, 50, 0, 0, 0, 0, 0]⟩ = false := by decide
example : advanceOk { (specInit []) with conn := [false, true, false, true, false, false] }
    ⟨.relay 50 7 (some 1) none none, [0, 0, 0, 0, 0, 0, 50, 0, 0, 0, 0, 0]⟩ = true := by decide

/-- The hypotheses are satisfiable on a non-trivial history: two events while A is away, a rotation, a clean-up,
    A reconnects and is replayed to, acknowledges, the sender crashes and restarts, B reconnects. -/
example : ClockOK 1000000
    [.relay 1000001 1 none, .relay 1000002 2 (some 1), .rotate 3000000, .relay 3000001 3 (some 4), .timer 9000000,
     .conn 0, .replay 9000001 0, .ack 0 2000000, .recv 0 5, .crashStart 9500000 true false, .conn 1, .relay 9500001 4 (some 1),
     .conn 3, .replay 9500002 3, .conn 5, .replay 9500003 5, .relay 9500004 5 (some 3), .drop, .stopStart 9600000 false true,
     .conn 1, .replay 9600001 1, .timer 9700000] := by
  simp [ClockOK, Op.peerOk, Op.time]

/-- The clause restart_keeps_positions is not vacuous: a new process that comes up with a lost local position is rejected,
    one with the old positions is accepted.  And after the object "zx" was removed, replaying an event about it is rejected. -/
example : (specStep { (specInit [-1, -1, -1, -1, -1, -1]) with pos := [0, 0, 7, 0, 0, 0, 0, 0, 0, 0, 0, 0] }
    ⟨.restart, [0, 0, 0, 0, 0, 0, 0, 0, 0, 0, 0, 0]⟩).1 = some .restartKeepsPositions := by decide
example : (specStep { (specInit [-1, -1, -1, -1, -1, -1]) with pos := [0, 0, 7, 0, 0, 0, 0, 0, 0, 0, 0, 0] }
    ⟨.restart, [0, 0, 7, 0, 0, 0, 0, 0, 0, 0, 0, 0]⟩).1 = none := by decide
example : (specTrace (specInit [-1, -1, -1, -1, -1, -1])
    [⟨.relay 10 1 (some 3) (some 20) none, [0, 0, 0, 0, 0, 0, 0, 0, 0, 0, 0, 0]⟩, ⟨.drop, [0, 0, 0, 0, 0, 0, 0, 0, 0, 0, 0, 0]⟩,
     ⟨.conn 1, [0, 0, 0, 0, 0, 0, 0, 0, 0, 0, 0, 0]⟩, ⟨.replay 20 1 [.m 1 10] none, [0, 0, 0, 0, 0, 0, 0, 0, 0, 0, 0, 0]⟩] 0)
    = some (3, .replayVisible) := by decide

/-- The spec predicate is not vacuous: it rejects a replay that omits a logged, unconfirmed event, and one
    that repeats an event. -/
example : (specTrace (specInit [-1, -1, -1])
    [⟨.relay 10 1 none (some 20) none, [0, 0, 0, 0, 0, 0]⟩, ⟨.conn 0, [0, 0, 0, 0, 0, 0]⟩,
     ⟨.replay 20 0 [] none, [0, 0, 0, 0, 0, 0]⟩] 0) = some (2, .replayComplete) := by decide

example : (specTrace (specInit [-1, -1, -1])
    [⟨.relay 10 1 none (some 20) none, [0, 0, 0, 0, 0, 0]⟩, ⟨.conn 0, [0, 0, 0, 0, 0, 0]⟩,
     ⟨.replay 20 0 [.m 1 10, .m 1 10] none, [0, 0, 0, 0, 0, 0]⟩] 0) = some (2, .replayOrder) := by decide

example : (specTrace (specInit [-1, -1, -1])
    [⟨.relay 10 1 none (some 20) none, [0, 0, 0, 0, 0, 0]⟩, ⟨.conn 0, [0, 0, 0, 0, 0, 0]⟩,
     ⟨.replay 20 0 [.m 1 10] none, [0, 0, 0, 0, 0, 0]⟩] 0) = none := by decide

/-- Equal is not older: a receiver that drops a message whose `ts` EQUALS its recorded position is rejected,
    and so is one that processes an older message. -/
example : (specStep { (specInit [-1, -1, -1]) with pos := [0, 10, 0, 0, 0, 0] } ⟨.recv 0 10 false, [0, 10, 0, 0, 0, 0]⟩).1
    = some .receiverAcceptsNotOlder := by decide

example : (specStep { (specInit [-1, -1, -1]) with pos := [0, 10, 0, 0, 0, 0] } ⟨.recv 0 9 true, [0, 9, 0, 0, 0, 0]⟩).1
    = some .receiverFilter := by decide

example : (specStep { (specInit [-1, -1, -1]) with pos := [0, 10, 0, 0, 0, 0] } ⟨.recv 0 10 true, [0, 10, 0, 0, 0, 0]⟩).1
    = none := by decide

/-- The confirmation clause is not vacuous in the other direction either: a confirmation that equals the received
    position passes, one from the timer beyond it is `other`. -/
example : confirmStep { (specInit [-1, -1, -1]) with pos := [0, 10, 0, 0, 0, 0] } ⟨.timer 20 [] [[.l 10], [], []], [0, 10, 0, 0, 0, 0]⟩ = none := by decide
example : confirmStep { (specInit [-1, -1, -1]) with pos := [0, 10, 0, 0, 0, 0] } ⟨.timer 20 [] [[.l 11], [], []], [0, 10, 0, 0, 0, 0]⟩ = some .other := by decide

/-! ## "… nor of other files" -/

/-
  FULL STATEMENT (false of the unchanged code, F-C12d): whatever a damaged file decodes to (`xs`: its intact records
  followed by whatever the garbage yields), every record of the files behind it (`ys`, intact) that the peer still
  wants is sent.  False: a garbage record that is sent sets `peer_ts` to ITS timestamp (apilistener.cpp:1562), and
  `timestamp <= peer_ts` (:1535) then skips intact records of every later file — `other_files_replayed_counterexample`.
  What holds is the statement for garbage whose timestamps stay below the later records'.
  (A second way damage reaches other files is outside the model: a record whose `timestamp` is no number makes the
  comparison of :1535 throw outside the try block, F-C12e; the model's `dec` folds every undecodable record into `none`.)
-/

/-- **other_files_replayed_partial.**  ReplayLog reads the records `xs ++ ys` — `xs`: everything the files up to and
    including a damaged one yield, in ANY order and with ANY content; `ys`: the intact records of the files behind it.
    If no record of `xs` carries a timestamp above `b`, every record of `ys` newer than `b` that the peer wants (newer
    than its position, visible to its zone) is sent. -/
theorem other_files_replayed_partial (vis : Nat → Bool) (p lp b : Int) (xs ys : List (Int × Entry))
    (hs : ys.Pairwise (fun a b => a.2.ts < b.2.ts)) (hb : ∀ x ∈ xs, x.2.ts ≤ b) :
    ∀ y ∈ ys, b < y.2.ts → wanted vis p y.2 = true → y.2 ∈ msgsOf (replayEntries vis ⟨p, lp, [], 0⟩ (xs ++ ys)).out := by
  intro y hy hby hw
  rw [replayEntries_append, replayEntries_sorted vis ys _ hs, List.mem_append]
  right
  rw [List.mem_filter]
  refine ⟨List.mem_map.mpr ⟨y, hy, rfl⟩, ?_⟩
  have hpeer : (replayEntries vis ⟨p, lp, [], 0⟩ xs).peer ≤ max p b :=
    replayEntries_peer_le vis (max p b) xs ⟨p, lp, [], 0⟩ (Int.le_max_left _ _) (fun x hx => Int.le_trans (hb x hx) (Int.le_max_right _ _))
  simp only [wanted, skipEntry, Bool.not_eq_true', Bool.or_eq_false_iff, decide_eq_false_iff_not] at hw
  simp only [skipEntry, Bool.or_eq_false_iff, decide_eq_false_iff_not, Bool.not_eq_eq_eq_not, Bool.not_true]
  refine ⟨?_, hw.2⟩
  have : max p b < y.2.ts := by
    rcases Int.le_total p b with h | h
    · rw [Int.max_eq_right h]; exact hby
    · rw [Int.max_eq_left h]; omega
  omega

/-- The hypotheses are satisfiable and the conclusion is not empty: an intact record, a garbage record with an OLD stamp,
    then the next file — its record is sent. -/
example : msgsOf (replayEntries (fun _ => true) ⟨0, 0, [], 0⟩
    ([(2, ⟨1000001, 1, none⟩), (2, ⟨7, 99, none⟩)] ++ [(3, ⟨2000002, 2, none⟩)])).out = [⟨1000001, 1, none⟩, ⟨2000002, 2, none⟩] := by decide

/-- **other_files_replayed_counterexample** (F-C12d).  File 2 = an intact record and a well-framed garbage record whose
    timestamp reads 9 000 001; file 3 = one intact record with timestamp 2 000 002, unconfirmed and visible: it is never sent. -/
theorem other_files_replayed_counterexample :
    ¬ (∀ (vis : Nat → Bool) (p lp : Int) (xs ys : List (Int × Entry)), ys.Pairwise (fun a b => a.2.ts < b.2.ts) →
        ∀ y ∈ ys, wanted vis p y.2 = true → y.2 ∈ msgsOf (replayEntries vis ⟨p, lp, [], 0⟩ (xs ++ ys)).out) := by
  intro h
  have := h (fun _ => true) 0 0 [(2, ⟨1, 1, none⟩), (2, ⟨9000001, 1, none⟩)] [(3, ⟨2000002, 2, none⟩)] (by decide)
    (3, ⟨2000002, 2, none⟩) (by decide) (by decide)
  revert this
  decide

/-! ## "… before it is considered in sync" -/

/-- **live_only_when_in_sync** (SyncSendMessage's gate, apilistener.cpp:1180, inside RelayMessageOne's loop).  Whatever the
    zones, the master and the endpoints' states: an event is queued live only for endpoints that are connected and whose
    `syncing` flag is clear. -/
theorem live_only_when_in_sync (peers : Nat → Peer) (master : Option Nat) (zones : List (Bool × List Nat)) :
    ∀ i ∈ (relay peers master zones).live, (peers i).connected = true ∧ (peers i).syncing = false :=
  relay_live_in_sync peers master zones

/-
  FULL STATEMENT (false of the unchanged code, F-C12f): for EVERY operation sequence the model's sync view satisfies
  `syncTrace`.  NewClientHandlerInternal adds the connection (Endpoint::AddClient) and only queues SyncClient, which sets
  `syncing` later: `Op.attach`.  An event relayed in that window is sent live in front of the replay —
  `no_live_before_sync_counterexample`.  What holds is the statement for sequences in which SyncClient is under way as
  soon as the connection exists (`NoWindow`: every connection starts with `Op.conn`).
-/

/-- **model_no_live_before_sync_partial.**  For every payload encoding, rotation threshold, configuration and every
    operation sequence without the connect window — no clock hypothesis, any peers, any order of events, connects,
    disconnects, SyncClient runs, rotations, timers, acknowledgements, incoming messages, crash-restarts — nothing is
    ever queued live for an endpoint between the moment its connection appears and the end of that connection's
    replay, and every SyncClient run ends with the `syncing` flag clear. -/
theorem model_no_live_before_sync_partial (c : Codec) (limit : Nat) (t0 : Int) (pf sr tr : Bool) (durs : Nat → Int)
    (ops : List Op) (hw : NoWindow ops) :
    syncTrace {} (runSync c limit (initNode t0 pf sr tr durs) ops) 0 = none := by
  suffices h : ∀ (ops : List Op) (s : SyncSt) (n : Node) (i : Nat), SyncInv s n → NoWindow ops →
      syncTrace s (runSync c limit n ops) i = none from h ops _ _ 0 (sync_init t0 pf sr tr durs) hw
  intro ops
  induction ops with
  | nil => intro s n i _ _; rfl
  | cons op rest ih =>
    intro s n i hi hnw
    have hop : ∀ p, op ≠ .attach p := by
      intro p hp; subst hp; exact hnw
    have hrest : NoWindow rest := by
      cases op <;> first | exact hnw | exact absurd rfl (hop _)
    obtain ⟨s', h1, h2⟩ := sync_step c limit s n op hi hop
    simp only [runSync]
    rw [syncTrace_append _ s s' _ i h1]
    exact ih s' _ _ h2 hrest

/-- The hypothesis is satisfiable on a history that does send live events, before and after replays. -/
example : NoWindow [.relay 3 1 none, .conn 0, .relay 4 2 none, .replay 5 0, .relay 6 3 none, .disc 0, .conn 0, .replay 7 0,
    .crashStart 8 false true, .conn 4, .replay 9 4, .relay 10 4 (some 0)] := by simp [NoWindow]

/-- **no_live_before_sync_counterexample** (F-C12f).  Event 1 is logged for the absent peer A; A's connection is added
    (`attach`); event 2 is relayed before SyncClient has started: it is queued live for A, in front of the replay of event 1. -/
theorem no_live_before_sync_counterexample (c : Codec) (limit : Nat) :
    syncTrace {} (runSync c limit (initNode 1 false false false (fun _ => -1))
      [.relay 3 1 none, .attach 0, .relay 5 2 none, .replay 6 0]) 0 = some (2, .liveBeforeSync) := by
  rfl

/-- The clause is not vacuous: with SyncClient under way (`conn`) the same history passes; a SyncClient run that leaves
    `syncing` set is rejected. -/
example (c : Codec) (limit : Nat) : syncTrace {} (runSync c limit (initNode 1 false false false (fun _ => -1))
    [.relay 3 1 none, .conn 0, .relay 5 2 none, .replay 6 0, .relay 7 3 none]) 0 = none := by rfl
example : syncTrace {} [.attach 0, .synced 0 true] 0 = some (1, .syncStuck) := by decide
example : syncTrace {} [.attach 0, .synced 0 false, .live [0]] 0 = none := by decide

/-- Visibility is a matter of the object's TYPE and name (seeded change: a per-pass cache keyed by the name alone).  Peer B
    (zone sat) may see Zone "agent" (object 2) but not the object of another type with the same name that lives in zone
    master (object 7): a replay that lets the first verdict stand for both is rejected either way. -/
example : (specTrace (specInit [-1, -1, -1, -1, -1, -1])
    [⟨.relay 10 1 (some 7) (some 20) none, [0, 0, 0, 0, 0, 0, 0, 0, 0, 0, 0, 0]⟩,
     ⟨.relay 11 2 (some 2) (some 20) none, [0, 0, 0, 0, 0, 0, 0, 0, 0, 0, 0, 0]⟩, ⟨.conn 1, [0, 0, 0, 0, 0, 0, 0, 0, 0, 0, 0, 0]⟩,
     ⟨.replay 20 1 [] none, [0, 0, 0, 0, 0, 0, 0, 0, 0, 0, 0, 0]⟩] 0) = some (3, .replayComplete) := by decide
example : (specTrace (specInit [-1, -1, -1, -1, -1, -1])
    [⟨.relay 10 1 (some 2) (some 20) none, [0, 0, 0, 0, 0, 0, 0, 0, 0, 0, 0, 0]⟩,
     ⟨.relay 11 2 (some 7) (some 20) none, [0, 0, 0, 0, 0, 0, 0, 0, 0, 0, 0, 0]⟩, ⟨.conn 1, [0, 0, 0, 0, 0, 0, 0, 0, 0, 0, 0, 0]⟩,
     ⟨.replay 20 1 [.m 1 10, .m 2 11] none, [0, 0, 0, 0, 0, 0, 0, 0, 0, 0, 0, 0]⟩] 0) = some (3, .replayVisible) := by decide
example : (specTrace (specInit [-1, -1, -1, -1, -1, -1])
    [⟨.relay 10 1 (some 2) (some 20) none, [0, 0, 0, 0, 0, 0, 0, 0, 0, 0, 0, 0]⟩,
     ⟨.relay 11 2 (some 7) (some 20) none, [0, 0, 0, 0, 0, 0, 0, 0, 0, 0, 0, 0]⟩, ⟨.conn 1, [0, 0, 0, 0, 0, 0, 0, 0, 0, 0, 0, 0]⟩,
     ⟨.replay 20 1 [.m 1 10] none, [0, 0, 0, 0, 0, 0, 0, 0, 0, 0, 0, 0]⟩] 0) = none := by decide

end Icinga.C12

/-
  C05 — property theorems.  Every `theorem` in this file is a proof obligation of the check.
  Helper lemmas (the `StepRel`/`Both` lifting framework) live in IcingaProofs/C05/Lemmas.lean.

  Three clauses of the property are FALSE of the unchanged code, hence of the faithful model; they are
  carried as `…_partial` + `…_counterexample` (known findings F-C05a, F-C05b, F-C05c):

    start_once (full statement, false):  ∀ ops d, d ∈ (run (initSt k) ops).dts → d.starts ≤ 1
    flexible_trigger (full, false):      a flexible downtime triggers only at a non-OK result or on an
                                         existing problem
    started_when_triggered (full, false): ∀ ops d, d ∈ (run …).dts → d.trigger ≠ 0 → d.starts ≥ 1
-/
import IcingaProofs.C05.Rel

namespace Icinga.C05

/-- **in_downtime_iff.**  The checkable is in downtime at `now` exactly when some downtime attached to
    it (not removed) is in effect by its window. -/
theorem in_downtime_iff (now : Int) (dts : List Dt) :
    inDowntime now dts = true ↔ ∃ d ∈ dts, d.removed = false ∧ InWindow now d := by
  unfold inDowntime
  simp only [List.any_eq_true, Bool.and_eq_true, Bool.not_eq_eq_eq_not, Bool.not_true, isInEffect_iff]

/-- **depth_eq_count.**  The downtime depth is the number of downtimes in effect, and the checkable is
    in downtime iff the depth is positive. -/
theorem depth_eq_count (now : Int) (dts : List Dt) :
    depth now dts = (dts.filter (fun d => !d.removed && isInEffect now d)).length ∧
    (inDowntime now dts = true ↔ 0 < depth now dts) := by
  refine ⟨rfl, ?_⟩
  unfold inDowntime depth
  rw [List.length_pos_iff_exists_mem]
  simp only [List.any_eq_true, List.mem_filter]

/-! ### Trigger time: write-once, only inside the window -/

/-- **trigger_write_once.**  Across any operation, every downtime keeps its identity and parameters, and
    a trigger time that is set (≠ 0) is unchanged. -/
theorem trigger_write_once (st : St) (op : Op) (d : Dt) (hd : d ∈ st.dts) (ht : d.trigger ≠ 0) :
    ∃ d' ∈ (step st op).1.dts, d'.id = d.id ∧ d'.trigger = d.trigger := by
  obtain ⟨d', hm, r⟩ := step_succ st op (stepRel_RTrig op.now) d hd
  exact ⟨d', hm, r.1, r.2.2.2.2.2.1 ht⟩

/-- … and therefore over every operation sequence. -/
theorem trigger_write_once_run (ops : List Op) (st : St) (d : Dt) (hd : d ∈ st.dts) (ht : d.trigger ≠ 0) :
    ∃ d' ∈ (run st ops).dts, d'.id = d.id ∧ d'.trigger = d.trigger := by
  induction ops generalizing st d with
  | nil => exact ⟨d, hd, rfl, rfl⟩
  | cons op ops ih =>
    obtain ⟨d1, h1, hid, htr⟩ := trigger_write_once st op d hd ht
    obtain ⟨d2, h2, hid2, htr2⟩ := ih (step st op).1 d1 h1 (by rw [htr]; exact ht)
    refine ⟨d2, ?_, by omega, by omega⟩
    simpa [run] using h2

/-- **trigger_only_in_window.**  A downtime that is untriggered before an operation at `now` and
    triggered after it has `start ≤ now ≤ end` — it never triggers before its window or after its end
    (an untriggered downtime is expired exactly when `end < now`).  The freshly created downtime of an
    `add` obeys the same rule. -/
theorem trigger_only_in_window (st : St) (op : Op) (d' : Dt) (hd' : d' ∈ (step st op).1.dts)
    (ht : d'.trigger ≠ 0) :
    (∃ d ∈ st.dts, d.id = d'.id ∧ (d.trigger = 0 → d.start ≤ op.now ∧ op.now ≤ d.fin) ∧
        (d.trigger ≠ 0 → d'.trigger = d.trigger)) ∨
    (∃ p, op = .add p op.now ∧ d'.id = p.id ∧ p.start ≤ op.now ∧ op.now ≤ p.fin) := by
  rcases step_pred st op (stepRel_RTrig op.now) d' hd' with ⟨d, hd, r⟩ | ⟨p, hop, r⟩
  · left
    exact ⟨d, hd, r.1.symm, fun h0 => r.2.2.2.2.2.2 h0 ht, r.2.2.2.2.2.1⟩
  · right
    have := r.2.2.2.2.2.2 rfl ht
    exact ⟨p, hop, r.1, this⟩

/-! ### Chained triggers -/

/-- **trigger_cascade.**  When `TriggerDowntime(t)` (`t ≠ 0`) is called on a downtime `d` that can be
    triggered, then for every name `c` in `d.triggers` that denotes an existing downtime there is,
    afterwards, an existing downtime `c` that is triggered (`trigger ≠ 0`) or cannot be triggered at
    `now` (outside `[start, end]`, expired, or already in effect).  `n + 2` is any fuel that lets the
    call and one level of recursion run; deeper levels follow by applying the theorem again. -/
theorem trigger_cascade (n : Nat) (now t : Int) (ht : t ≠ 0) (id : Nat) (dts : List Dt) (d : Dt)
    (hf : findDt dts id = some d) (hc : canBeTriggered now d = true)
    (c : Nat) (hcm : c ∈ d.triggers) (x : Dt) (hx : x ∈ dts) (hl : live c x = true) :
    ∃ x' ∈ triggerDt (n + 2) now t id dts,
      x'.id = c ∧ x'.removed = false ∧ (x'.trigger ≠ 0 ∨ canBeTriggered now x' = false) :=
  cascade_children n now t ht id dts d hf hc c hcm x hx hl

/-! ### DowntimeEnd: at most once, only at removal, only if the downtime had taken effect -/

/-- **end_once.**  Over every operation sequence from a state in which it holds (in particular the
    initial one): DowntimeEnd is requested at most once per downtime, never for a downtime that still
    exists; and the request made at removal is made exactly when the downtime had taken effect
    (`IsTriggered`). -/
theorem end_once (ops : List Op) (st : St) (h0 : ∀ d ∈ st.dts, PEnd d) :
    (∀ d ∈ (run st ops).dts, d.ends ≤ 1 ∧ (d.removed = false → d.ends = 0)) ∧
    (∀ now d, (removeDt now d).ends = d.ends + (if isTriggered now d then 1 else 0)) := by
  constructor
  · induction ops generalizing st with
    | nil => exact h0
    | cons op ops ih =>
      have : run st (op :: ops) = run (step st op).1 ops := by simp [run]
      rw [this]
      apply ih
      intro d' hd'
      rcases step_pred st op (stepRel_REnd op.now) d' hd' with ⟨d, hd, r⟩ | ⟨p, _, r⟩
      · have pd := h0 d hd
        cases hr : d.removed with
        | true => rw [r.1 hr]; exact pd
        | false => exact r.2 hr (pd.2 hr)
      · exact r.2 rfl rfl
  · intro now d
    simp only [removeDt]
    split <;> simp

/-! ### Expired downtimes are removed by the timers -/

/-- **expired_removed.**  After the timers have fired at `now`, no existing downtime has a due cleanup
    timer; with the timer armed at its cleanup point (as `Resume`/`TriggerDowntime` leave it) that means
    `now` is not past the end of a fixed or never-triggered downtime, nor past `trigger + duration` of
    a triggered flexible one. -/
theorem expired_removed (st : St) (now : Int) :
    ∀ d ∈ (pumpOp st now).dts, cleanupDue now d = false ∧
      (d.removed = false → d.cleanup = some (cleanupPoint d) → now ≤ cleanupPoint d) := by
  intro d hd
  have h1 : cleanupDue now d = false := by
    unfold pumpOp at hd
    simp only at hd
    split at hd
    · obtain ⟨x, _, rfl⟩ := List.mem_map.mp hd
      exact fireCleanup_not_due now x
    · obtain ⟨x, _, rfl⟩ := List.mem_map.mp hd
      exact fireCleanup_not_due now x
  refine ⟨h1, fun hr harm => ?_⟩
  simp [cleanupDue, hr, harm] at h1
  exact h1

/-! ### Ownership -/

/-- **owner_protected.**  Removing a downtime owned by a ScheduledDowntime as a user is refused and
    changes nothing; every other removal of an existing downtime removes exactly the named one. -/
theorem owner_protected (st : St) (id : Nat) (now : Int) (d : Dt) (hf : findDt st.dts id = some d) :
    (d.owner = true → removeOp st id true now = (st, 2)) ∧
    (∀ byUser, (d.owner && byUser) = false →
        removeOp st id byUser now = ({ st with dts := updateDt st.dts id (removeDt now) }, 1)) := by
  constructor
  · intro ho; simp [removeOp, hf, ho]
  · intro u hu; simp [removeOp, hf, hu]

/-! ### DowntimeStart once — partial, with the counterexamples (F-C05a, F-C05c) -/

/-- **start_once_partial.**  Every DowntimeStart request of the model is made under `CanBeTriggered`
    (`noteStartedG`, and `noteTriggered` after the guard of `triggerDt`).  A downtime that has taken
    effect (`0 < trigger ≤ now`) cannot be triggered — hence not be started — again, *provided that for
    a fixed downtime `now ≠ end_time`*.  (The lifting of this step lemma to `starts ≤ 1` over whole
    operation sequences is not proved yet.) -/
theorem start_once_partial (now : Int) (d : Dt) (h1 : 0 < d.trigger) (h2 : d.trigger ≤ now)
    (hne : d.fixed = true → now ≠ d.fin) : canBeTriggered now d = false := by
  unfold canBeTriggered isExpired isInEffect isTriggered
  cases hf : d.fixed
  · have h0 : ¬ d.trigger = 0 := by omega
    by_cases hin : now < d.trigger + d.duration <;> simp [h0, h1, h2, hin]
  · have hne' := hne hf
    by_cases ha : d.start ≤ now <;> by_cases hb : now < d.fin <;> simp [h1, h2, ha, hb] <;> omega

/-- F-C05a: fixed downtime [1010, 1020), start timer firing at exactly 1020. -/
def ceStartTwice : List Op :=
  [.result 0 1000 1000, .add ⟨1, true, 1010, 1020, 0, 0, false⟩ 1005, .pump 1010, .pump 1020]

/-- **start_once_counterexample.**  `starts ≤ 1` is false of the model (and of the code: replayed by
    the check, corpus/C05/f_c05a_start_timer_at_end.ops). -/
theorem start_once_counterexample :
    ¬ (∀ ops, ∀ d ∈ (run (initSt .service) ops).dts, d.starts ≤ 1) := by
  intro h
  have := h ceStartTwice
  revert this
  decide

/-- F-C05c: fixed downtime created before its window, non-OK result inside it before the start timer. -/
def ceNeverStarted : List Op :=
  [.result 0 1000 1000, .add ⟨1, true, 1010, 1020, 0, 0, false⟩ 1000, .result 2 1011 1011, .pump 1012,
   .remove 1 true 1017]

/-- **started_counterexample.**  "A downtime that has taken effect has caused a DowntimeStart request"
    is false of the model: the downtime is triggered, never started, and DowntimeEnd is requested. -/
theorem started_counterexample :
    ¬ (∀ ops, ∀ d ∈ (run (initSt .service) ops).dts, d.trigger ≠ 0 → d.starts ≥ 1) ∧
    (∃ d ∈ (run (initSt .service) ceNeverStarted).dts, d.starts = 0 ∧ d.ends = 1) := by
  constructor
  · intro h
    have := h ceNeverStarted
    revert this
    decide
  · decide

/-! ### Flexible trigger — partial, with the counterexample (F-C05b) -/

/-- **flexible_trigger_partial.**  `Downtime::Start` triggers a flexible downtime immediately only when
    the checkable's `state_raw` is not OK; once the checkable *has been checked* (its `state_raw` is the
    state of the last result) that is exactly "a problem exists".  And a non-OK result calls
    `TriggerDowntime(execution_end)` on every existing downtime. -/
theorem flexible_trigger_partial (st : St) (now : Int) (d : Dt) (dts : List Dt) :
    (isOK st.kind st.state = true → startFlexible st now d dts = dts) ∧
    (∀ s te, stale st te now = false → (resultOp st s te now).1.state = s) ∧
    (∀ s te, stale st te now = false → isOK st.kind s = true → (resultOp st s te now).1.dts = st.dts) ∧
    (∀ s te, stale st te now = false → isOK st.kind s = false →
        (resultOp st s te now).1.dts = triggerAll now te st.dts) := by
  refine ⟨?_, ?_, ?_, ?_⟩
  · intro h; simp [startFlexible, h]
  · intro s te hs; simp [resultOp, hs]
  · intro s te hs hok; simp [resultOp, hs, hok]
  · intro s te hs hok; simp [resultOp, hs, hok]

/-- **flexible_trigger_counterexample** (F-C05b).  On a never-checked checkable (no result at all, hence
    no problem) a flexible downtime added inside its window is triggered at once and requests
    DowntimeStart. -/
theorem flexible_trigger_counterexample :
    ∃ d ∈ (run (initSt .service) [.add ⟨1, false, 1000, 1020, 5, 0, false⟩ 1001]).dts,
      d.fixed = false ∧ d.trigger = 1001 ∧ d.starts = 1 := by
  decide

/-! ### Non-vacuity -/

/-- A chained scenario: d1 fixed, d2 flexible chained to d1; the start timer at 1010 triggers both. -/
def exampleOps : List Op :=
  [.result 0 1000 1000, .add ⟨1, true, 1010, 1020, 0, 0, false⟩ 1000, .add ⟨2, false, 1010, 1020, 3, 1, true⟩ 1000,
   .pump 1010]

example : ((run (initSt .host) exampleOps).dts.map (fun d => (d.id, d.trigger, d.starts, d.triggers))) =
    [(1, 1010, 1, [2]), (2, 1010, 1, [])] := by decide

/-- `trigger_write_once` / `trigger_only_in_window`: their hypotheses are met on a non-trivial state. -/
example : ∃ d ∈ (run (initSt .host) exampleOps).dts, d.trigger ≠ 0 ∧ d.fixed = false := by decide

/-- `trigger_cascade`: before the pump at 1010, d1 can be triggered and has the existing d2 chained to it. -/
example : ∃ d, findDt (run (initSt .host) (exampleOps.take 3)).dts 1 = some d ∧ canBeTriggered 1010 d = true ∧
    2 ∈ d.triggers ∧ ∃ x ∈ (run (initSt .host) (exampleOps.take 3)).dts, live 2 x = true := by decide

/-- `owner_protected`: an owned downtime exists and the user removal is refused. -/
example : (removeOp (run (initSt .host) exampleOps) 2 true 1011).2 = 2 := by decide

/-- `expired_removed` / `end_once`: after the pump at 1030 both downtimes are gone, each with one DowntimeEnd. -/
example : ((run (initSt .host) (exampleOps ++ [.pump 1030])).dts.map (fun d => (d.removed, d.ends))) =
    [(true, 1), (true, 1)] := by decide

/-- `start_once_partial`: a triggered fixed downtime inside its window. -/
example : canBeTriggered 1015 { (newDt ⟨1, true, 1010, 1020, 0, 0, false⟩ 1000) with trigger := 1010 } = false := by
  decide

/-- The specification is not vacuous: it rejects a trace whose depth is wrong … -/
example : specTrace (specInit .service)
    [(.add ⟨1, true, 1000, 1020, 0, 0, false⟩ 1001, ⟨1, 0, true, [(1, 1001)], [(1, 1, 1), (3, 1, 1)]⟩)]
    = some .depthEqCount := by decide

/-- … one whose trigger time changes … -/
example : specTrace (specInit .service)
    [(.add ⟨1, true, 1000, 1020, 0, 0, false⟩ 1001, ⟨1, 1, true, [(1, 1001)], [(1, 1, 1), (3, 1, 1)]⟩),
     (.pump 1002, ⟨0, 1, true, [(1, 1002)], []⟩)]
    = some .triggerWriteOnce := by decide

/-- … and accepts the model's own trace of the chained scenario. -/
example : specTrace (specInit .host) (trace (initSt .host) (exampleOps ++ [.pump 1030])) = none := by decide

end Icinga.C05

/-
  C05 — property theorems.  Every `theorem` in this file is a proof obligation of the check.
  Helper lemmas (the `StepRel`/`Both` lifting framework) live in IcingaProofs/C05/Lemmas.lean.

  One clause of the property is FALSE of the code, hence of the faithful model (known finding F-C05c);
  it is carried as `started_partial` + `started_counterexample`:

    started_when_triggered (full, false): ∀ ops d, d ∈ (run …).dts → d.trigger ≠ 0 → d.starts ≥ 1

  F-C05a (start timer at `now = end_time`), F-C05b (flexible downtime on a never-checked checkable) and
  F-C05e (trigger time recorded before `start_time`) are repaired in /repo (eead572, 40d44b0, 2efb740);
  `start_once`, `flexible_trigger` and `trigger_not_before_start` are full theorems.

  `guards_match_source` ties the model's `isTriggered` / `isInEffect` / `isExpired` / `canBeTriggered` to the text of
  lib/icinga/downtime.cpp (translated by gen/c05_guards.py on every run).
-/
import IcingaProofs.C05.EndOnce
import IcingaProofs.C05.SourceTie

namespace Icinga.C05

/-- **in_downtime_iff.**  The checkable is in downtime at `now` exactly when some downtime attached to
    it (not removed) is in effect by its window. -/
theorem in_downtime_iff (now : Int) (dts : List Dt) :
    inDowntime now dts = true ↔ ∃ d ∈ dts, d.removed = false ∧ InWindow now d := by
  unfold inDowntime
  simp only [List.any_eq_true, Bool.and_eq_true, Bool.not_eq_eq_eq_not, Bool.not_true, isInEffect_iff]

/-- **in_downtime_iff_run.**  In every state reached by a well-formed run, at every instant `now` not before
    the last operation: the checkable is in downtime exactly when some existing downtime is fixed with
    `start ≤ now < end`, or flexible, has taken effect at some `trigger ≤ now` and `now < trigger + duration`
    (the lower bound `trigger ≤ now` is not part of `IsInEffect`; it holds of reachable states). -/
theorem in_downtime_iff_run (k : Kind) (ops : List Op) (hw : WF 990 ops) (now : Int)
    (hnow : endTime 990 ops ≤ now) :
    inDowntime now (run (initSt k) ops).dts = true ↔
      ∃ d ∈ (run (initSt k) ops).dts, d.removed = false ∧
        ((d.fixed = true ∧ d.start ≤ now ∧ now < d.fin) ∨
         (d.fixed = false ∧ 0 < d.trigger ∧ d.trigger ≤ now ∧ now < d.trigger + d.duration)) := by
  obtain ⟨sp, h⟩ := tinv_run_at ops (specInit k) (initSt k) 990 (tinv_init k) hw
  rw [in_downtime_iff]
  constructor
  · rintro ⟨d, hd, hr, hwin⟩
    refine ⟨d, hd, hr, ?_⟩
    rcases hwin with hwin | ⟨hf, h0, hlt⟩
    · exact Or.inl hwin
    · have hi := h.sinv.2.2 d hd
      exact Or.inr ⟨hf, by have := hi.1; omega, by have := hi.2.1; omega, hlt⟩
  · rintro ⟨d, hd, hr, hwin⟩
    refine ⟨d, hd, hr, ?_⟩
    rcases hwin with hwin | ⟨hf, h0, _, hlt⟩
    · exact Or.inl hwin
    · exact Or.inr ⟨hf, by omega, hlt⟩

/-- **depth_eq_count.**  The downtime depth is the number of downtimes in effect, and the checkable is
    in downtime iff the depth is positive. -/
theorem depth_eq_count (now : Int) (dts : List Dt) :
    depth now dts = (dts.filter (fun d => !d.removed && isInEffect now d)).length ∧
    (inDowntime now dts = true ↔ 0 < depth now dts) := by
  refine ⟨rfl, ?_⟩
  unfold inDowntime depth
  rw [List.length_pos_iff_exists_mem]
  simp only [List.any_eq_true, List.mem_filter]

/-! ### Trigger time: write-once, only inside the window -/

/-- **trigger_write_once.**  Across any operation, every downtime keeps its identity and parameters, and
    a trigger time that is set (≠ 0) is unchanged. -/
theorem trigger_write_once (st : St) (op : Op) (d : Dt) (hd : d ∈ st.dts) (ht : d.trigger ≠ 0) :
    ∃ d' ∈ (step st op).1.dts, d'.id = d.id ∧ d'.trigger = d.trigger := by
  obtain ⟨d', hm, r⟩ := step_succ st op (stepRel_RTrig op.now) (allc_trivial _) (opT_trivial st op)
    (fun b _ _ d _ => rtrig_setq op.now b d) d hd
  exact ⟨d', hm, r.1, r.2.2.2.2.2.1 ht⟩

/-- … and therefore over every operation sequence. -/
theorem trigger_write_once_run (ops : List Op) (st : St) (d : Dt) (hd : d ∈ st.dts) (ht : d.trigger ≠ 0) :
    ∃ d' ∈ (run st ops).dts, d'.id = d.id ∧ d'.trigger = d.trigger := by
  induction ops generalizing st d with
  | nil => exact ⟨d, hd, rfl, rfl⟩
  | cons op ops ih =>
    obtain ⟨d1, h1, hid, htr⟩ := trigger_write_once st op d hd ht
    obtain ⟨d2, h2, hid2, htr2⟩ := ih (step st op).1 d1 h1 (by rw [htr]; exact ht)
    refine ⟨d2, ?_, by omega, by omega⟩
    simpa [run] using h2

/-- **trigger_only_in_window.**  A downtime that is untriggered before an operation at `now` and
    triggered after it has `start ≤ now ≤ end` — it never triggers before its window or after its end
    (an untriggered downtime is expired exactly when `end < now`).  The freshly created downtime of an
    `add` obeys the same rule. -/
theorem trigger_only_in_window (st : St) (op : Op) (d' : Dt) (hd' : d' ∈ (step st op).1.dts)
    (ht : d'.trigger ≠ 0) :
    (∃ d ∈ st.dts, d.id = d'.id ∧
        (d.trigger = 0 → d.start ≤ op.now ∧ op.now ≤ d.fin ∧ (d.fixed = true → op.now < d.fin)) ∧
        (d.trigger ≠ 0 → d'.trigger = d.trigger)) ∨
    (∃ p, op = .add p op.now ∧ d'.id = p.id ∧ p.start ≤ op.now ∧ op.now ≤ p.fin ∧
        (p.fixed = true → op.now < p.fin)) := by
  rcases step_pred st op (stepRel_RTrig op.now) (allc_trivial _) (opT_trivial st op)
      (fun b _ _ d _ => rtrig_setq op.now b d) d' hd' with ⟨d, hd, r⟩ | ⟨p, hop, r⟩
  · left
    exact ⟨d, hd, r.1.symm, fun h0 => r.2.2.2.2.2.2 h0 ht, r.2.2.2.2.2.1⟩
  · right
    have := r.2.2.2.2.2.2 rfl ht
    exact ⟨p, hop, r.1, this⟩

/-! ### Chained triggers -/

/-- **trigger_cascade.**  When `TriggerDowntime(t)` (`0 < t`) is called on a downtime `d` that can be
    triggered, then for every name `c` in `d.triggers` that denotes an existing downtime there is,
    afterwards, an existing downtime `c` that is triggered (`trigger ≠ 0`) or cannot be triggered at
    `now` (outside `[start, end]`, expired, or already in effect).  `n + 2` is any fuel that lets the
    call and one level of recursion run; deeper levels follow by applying the theorem again. -/
theorem trigger_cascade (n : Nat) (now t : Int) (ht : 0 < t) (id : Nat) (dts : List Dt) (d : Dt)
    (hf : findDt dts id = some d) (hc : canBeTriggered now d = true)
    (c : Nat) (hcm : c ∈ d.triggers) (x : Dt) (hx : x ∈ dts) (hl : live c x = true) :
    ∃ x' ∈ triggerDt (n + 2) now t id dts,
      x'.id = c ∧ x'.removed = false ∧ (x'.trigger ≠ 0 ∨ canBeTriggered now x' = false) :=
  cascade_children n now t ht id dts d hf hc c hcm x hx hl

/-- **trigger_cascade_deep.**  At arbitrary depth: after the last operation of any well-formed run from a
    never-checked checkable, every downtime whose `TriggerDowntime` guard was passed during that operation
    (its OnDowntimeTriggered count grew) has every downtime registered in its `triggers` that still
    exists triggered, or not triggerable at that instant — and this holds for each of those in turn.
    The fuel the model's callers pass (the number of downtimes) never runs out because `triggers` only
    name newer downtimes (`Newer`, kept by every operation). -/
theorem trigger_cascade_deep (k : Kind) (ops : List Op) (op : Op) (hw : WF 990 (ops ++ [op])) :
    ∀ q ∈ preModel (run (initSt k) ops) op, ∀ q' ∈ (step (run (initSt k) ops) op).1.dts,
      q'.id = q.id → q.trigEv < q'.trigEv →
      ∀ c ∈ q.triggers, ∀ x' ∈ (step (run (initSt k) ops) op).1.dts, x'.id = c → x'.removed = false →
        x'.trigger ≠ 0 ∨ canBeTriggered op.now x' = false :=
  cascade_run ops 990 (initSt k) (tinv_init k).sinv (tinv_init k).wfl op hw

/-! ### DowntimeEnd: at most once, only at removal, only if the downtime had taken effect -/

/-- **end_once.**  Over every operation sequence from a state in which it holds (in particular the
    initial one): DowntimeEnd is requested at most once per downtime, never for a downtime that still
    exists; and the request made at removal is made exactly when the downtime had taken effect
    (`IsTriggered`) and the checkable is not paused. -/
theorem end_once (ops : List Op) (st : St) (h0 : ∀ d ∈ st.dts, PEnd d) :
    (∀ d ∈ (run st ops).dts, d.ends ≤ 1 ∧ (d.removed = false → d.ends = 0)) ∧
    (∀ now d, (removeDt now d).ends = d.ends + (if isTriggered now d && !d.quiet then 1 else 0)) := by
  constructor
  · induction ops generalizing st with
    | nil => exact h0
    | cons op ops ih =>
      have : run st (op :: ops) = run (step st op).1 ops := by simp [run]
      rw [this]
      apply ih
      intro d' hd'
      rcases step_pred st op (stepRel_REnd op.now) (allc_trivial _) (opT_trivial st op)
        (fun b _ _ d _ => rend_setq b d) d' hd' with ⟨d, hd, r⟩ | ⟨p, _, r⟩
      · have pd := h0 d hd
        cases hr : d.removed with
        | true => rw [r.1 hr]; exact pd
        | false => exact r.2 hr (pd.2 hr)
      · exact r.2 rfl rfl
  · intro now d
    simp only [removeDt]
    split <;> simp

/-! ### DowntimeStart only when the downtime takes effect; DowntimeEnd exactly once -/

/-- **start_only_on_effect.**  In the last operation of every well-formed run from a never-checked checkable, a
    DowntimeStart notification request is made for a downtime (an existing one, or the one the operation creates)
    only if the downtime takes effect in that very operation: before it, it had not taken effect (`IsTriggered`
    false: no trigger time), the operation passes its `TriggerDowntime` guard (`OnDowntimeTriggered` fires),
    afterwards its trigger time is set, and the instant lies inside its window `[start, end]`.  Together with
    `start_once` and the `started_when_triggered` clause: one DowntimeStart, when it takes effect. -/
theorem start_only_on_effect (k : Kind) (ops : List Op) (op : Op) (hw : WF 990 (ops ++ [op])) :
    ∀ d ∈ preModel (run (initSt k) ops) op, ∀ d' ∈ (step (run (initSt k) ops) op).1.dts, d'.id = d.id →
      d.starts < d'.starts →
      isTriggered op.now d = false ∧ d.trigEv < d'.trigEv ∧ d'.trigger ≠ 0 ∧ d.start ≤ op.now ∧ op.now ≤ d.fin := by
  obtain ⟨T, sp, h, hT, hop⟩ := tinv_run_last ops (specInit k) (initSt k) 990 (tinv_init k) op hw
  exact start_effect_step h op hT hop

/-- **end_exactly_once_run.**  In every state reached by a well-formed run from a never-checked checkable: a
    downtime that still exists has caused no DowntimeEnd request; a downtime that is gone (removed by a user, by
    its owner, or expired) has caused exactly one if it had taken effect (its trigger time was set — and, in a
    well-formed run, reached) and the checkable was not paused when it went, and none otherwise. -/
theorem end_exactly_once_run (k : Kind) (ops : List Op) (hw : WF 990 ops) :
    ∀ d ∈ (run (initSt k) ops).dts,
      (d.removed = false → d.ends = 0) ∧
      (d.removed = true → d.ends = if 0 < d.trigger ∧ d.quiet = false then 1 else 0) :=
  xend_run ops (specInit k) (initSt k) 990 (tinv_init k) (fun d hd => by simp [initSt] at hd) hw

/-! ### Expired downtimes are removed by the timers -/

/-- **expired_removed.**  After the timers have fired at `now`, no existing downtime has a due cleanup
    timer; with the timer armed at its cleanup point (as `Resume`/`TriggerDowntime` leave it) that means
    `now` is not past the end of a fixed or never-triggered downtime, nor past `trigger + duration` of
    a triggered flexible one. -/
theorem expired_removed (st : St) (now : Int) (f : Bool) :
    ∀ d ∈ (pumpOp st now f).dts, cleanupDue now d = false ∧
      (d.removed = false → d.cleanup = some (cleanupPoint d) → now ≤ cleanupPoint d) := by
  intro d hd
  have h1 : cleanupDue now d = false := by
    unfold pumpOp at hd
    simp only at hd
    split at hd
    · obtain ⟨x, _, rfl⟩ := List.mem_map.mp hd
      exact fireCleanup_not_due now x
    · obtain ⟨x, _, rfl⟩ := List.mem_map.mp hd
      exact fireCleanup_not_due now x
  refine ⟨h1, fun hr harm => ?_⟩
  simp [cleanupDue, hr, harm] at h1
  exact h1

/-- **expired_removed_run.**  Without the hypothesis on the cleanup timer: after a pump at `now` at the end of
    any well-formed run, every downtime that still exists is not over — `now ≤ end` for a fixed or
    never-triggered one, `now ≤ trigger + duration` for a triggered flexible one (the cleanup timer of
    every existing downtime is armed at its cleanup point in every reachable state: `AInv`). -/
theorem expired_removed_run (k : Kind) (ops : List Op) (now : Int) (f : Bool)
    (hw : WF 990 (ops ++ [.pump now f])) :
    ∀ d ∈ (run (initSt k) (ops ++ [.pump now f])).dts, d.removed = false →
      ((d.fixed = true ∨ d.trigger = 0) → now ≤ d.fin) ∧
      (d.fixed = false → d.trigger ≠ 0 → now ≤ d.trigger + d.duration) := by
  obtain ⟨T, sp, h⟩ := tinv_run _ (specInit k) (initSt k) 990 (tinv_init k) hw
  intro d hd hr
  have harm := (h.ainv.2 d hd).2 hr
  have hb := (h.ainv.2 d hd).1
  rw [run_snoc] at hd
  have hle := (expired_removed (run (initSt k) ops) now f d hd).2 hr harm
  unfold cleanupPoint at hle
  constructor
  · intro hc
    rcases hc with hc | hc
    · simpa [hc] using hle
    · have : d.trigger ≤ 0 := by omega
      simpa [this] using hle
  · intro hf h0
    have : ¬ d.trigger ≤ 0 := by have := hb.2.1; omega
    simpa [hf, this] using hle

/-! ### Ownership -/

/-- **owner_protected.**  Removing a downtime owned by a ScheduledDowntime as a user is refused and
    changes nothing; every other removal of an existing downtime removes exactly the named one. -/
theorem owner_protected (st : St) (id : Nat) (now : Int) (d : Dt) (hf : findDt st.dts id = some d) :
    (d.owner = true → removeOp st id true now = (st, 2)) ∧
    (∀ byUser, (d.owner && byUser) = false →
        removeOp st id byUser now = ({ st with dts := updateDt st.dts id (removeDt now) }, 1)) := by
  constructor
  · intro ho; simp [removeOp, hf, ho]
  · intro u hu; simp [removeOp, hf, hu]

/-! ### DowntimeStart at most once -/

/-- **start_once.**  Over every well-formed operation sequence from a never-checked checkable, every
    downtime causes at most one DowntimeStart notification request. -/
theorem start_once (k : Kind) (ops : List Op) (hw : WF 990 ops) :
    ∀ d ∈ (run (initSt k) ops).dts, d.starts ≤ 1 := by
  have h0 : SInv 990 (initSt k) := by
    refine ⟨by simp [initSt], by simp [initSt], ?_⟩
    intro d hd; simp [initSt] at hd
  obtain ⟨T', _, _, hall⟩ := sinv_run ops 990 (initSt k) h0 hw
  intro d hd
  exact (hall d hd).2.2.2.2.1

/-- F-C05d: a flexible downtime, two non-OK results whose execution end (1010, 1011) lies after the
    processing time (1005, 1006). -/
def ceFutureResult : List Op :=
  [.result 0 1000 1000, .add ⟨1, false, 1000, 1030, 5, 0, false⟩ 1001, .result 2 1010 1005, .result 2 1011 1006]

/-- **start_once_future_counterexample.**  The hypothesis of `start_once` that a check result's execution end
    is not later than its processing time (`WF`: `te ≤ now`) cannot be dropped: with the checker's clock
    ahead the trigger time lies in the future, the downtime is not yet `IsTriggered`, and the next non-OK
    result requests DowntimeStart again (known finding F-C05d; the trigger time itself is kept). -/
theorem start_once_future_counterexample :
    ¬ WF 990 ceFutureResult ∧
    (∃ d ∈ (run (initSt .service) ceFutureResult).dts, d.starts = 2 ∧ d.trigger = 1010) := by
  constructor
  · decide
  · decide

/-! ### DowntimeStart for every downtime that took effect — partial, with the counterexample (F-C05c) -/

/-- **started_partial.**  Every downtime triggered by its own start (`Downtime::Start` of a fixed downtime
    inside its window, the start timer) or, being flexible, by `TriggerDowntime`, has requested
    DowntimeStart; what is excluded — exactly F-C05c — is a *fixed* downtime reached by `TriggerDowntime`
    (non-OK result, trigger chain).  (While the checkable is paused no notification is requested at
    all: `paused_requests_nothing`.) -/
theorem started_partial (t : Int) (d : Dt) (hq : d.quiet = false) :
    (startSelf d).starts = (if d.fixed then d.starts + 1 else d.starts + 1) ∧
    (d.fixed = false → (trigSelf t d).starts = d.starts + 1) ∧
    (d.fixed = true → (trigSelf t d).starts = d.starts) := by
  refine ⟨?_, ?_, ?_⟩
  · cases hf : d.fixed <;> simp [startSelf, trigSelf, noteTriggered, markTriggered, noteStarted, hf, hq]
  · intro hf; simp [trigSelf, noteTriggered, markTriggered, hf, hq]
  · intro hf; simp [trigSelf, noteTriggered, markTriggered, hf]

/-- **paused_requests_nothing.**  While the checkable is paused (`quiet`, the mirror of
    `GetCheckable()->IsPaused()` kept equal to the checkable's flag on every existing downtime: `QInv`),
    neither taking effect nor ending requests a notification; the signals still fire. -/
theorem paused_requests_nothing (now t : Int) (d : Dt) (hq : d.quiet = true) :
    (trigSelf t d).starts = d.starts ∧ (startSelf d).starts = d.starts ∧ (removeDt now d).ends = d.ends ∧
    (trigSelf t d).trigEv = d.trigEv + 1 ∧ (removeDt now d).remEv = d.remEv + 1 := by
  refine ⟨?_, ?_, ?_, ?_, ?_⟩ <;>
    simp [trigSelf, startSelf, removeDt, noteTriggered, markTriggered, noteStarted, hq]

/-- F-C05c: fixed downtime created before its window, non-OK result inside it before the start timer. -/
def ceNeverStarted : List Op :=
  [.result 0 1000 1000, .add ⟨1, true, 1010, 1020, 0, 0, false⟩ 1000, .result 2 1011 1011, .pump 1012 true,
   .remove 1 true 1017]

/-- **started_counterexample.**  "A downtime that has taken effect has caused a DowntimeStart request"
    is false of the model: the downtime is triggered, never started, and DowntimeEnd is requested. -/
theorem started_counterexample :
    ¬ (∀ ops, ∀ d ∈ (run (initSt .service) ops).dts, d.trigger ≠ 0 → d.starts ≥ 1) ∧
    (∃ d ∈ (run (initSt .service) ceNeverStarted).dts, d.starts = 0 ∧ d.ends = 1) := by
  constructor
  · intro h
    have := h ceNeverStarted
    revert this
    decide
  · decide

/-- **flexible_started_run.**  In every state reached by a well-formed run from a never-checked checkable in which
    the checkable is never paused, a flexible downtime has caused exactly one DowntimeStart notification request if
    it has taken effect (its trigger time is set), and none otherwise.  (The run-level form of `started_partial`
    for flexible downtimes; for fixed ones the statement is false of the code: `started_counterexample`.) -/
theorem flexible_started_run (k : Kind) (ops : List Op) (hw : WF 990 ops) (hnp : ∀ op ∈ ops, noPause op = true) :
    ∀ d ∈ (run (initSt k) ops).dts, d.fixed = false →
      (d.trigger ≠ 0 → d.starts = 1) ∧ (d.trigger = 0 → d.starts = 0) := by
  have h0 : SInv 990 (initSt k) := by
    refine ⟨by simp [initSt], by simp [initSt], ?_⟩
    intro d hd; simp [initSt] at hd
  obtain ⟨T', _, _, hall⟩ := sinv_run ops 990 (initSt k) h0 hw
  have hn := np_run ops (initSt k) ⟨rfl, fun d hd => by simp [initSt] at hd⟩ hnp
  intro d hd hf
  have hi := hall d hd
  constructor
  · intro ht
    have := (hn.2 d hd).2 hf ht
    have := hi.2.2.2.2.1
    omega
  · intro ht
    have h1 := hi.2.2.2.2.1
    have h2 := hi.2.2.2.2.2
    by_cases hs : d.starts = 1
    · have := h2 hs; omega
    · omega

/-! ### Flexible trigger -/

/-- **flexible_trigger.**  A flexible downtime takes effect at the first non-OK result, or on an already
    existing problem, inside `[start, end]`:
    (a) `Downtime::Start` triggers it at once only if the checkable has a problem, i.e. has a check result
        whose state is not OK;
    (b) an OK (or dropped) result triggers nothing;
    (c) an accepted non-OK result at `now` triggers every existing, not yet triggered flexible downtime
        with `start ≤ now ≤ end`, with the result's execution end — or `start_time`, if the result was executed before
        it (2efb740) — as trigger time (ids are unique among
        the checkable's downtimes). -/
theorem flexible_trigger (st : St) (now : Int) :
    (∀ d dts, st.problem = false → startFlexible st now d dts = dts) ∧
    (st.problem = true ↔ (st.lastExec.isSome = true ∧ isOK st.kind st.state = false)) ∧
    (∀ s te, isOK st.kind s = true → (resultOp st s te now).1.dts = st.dts) ∧
    (∀ s te, stale st te now = false → isOK st.kind s = false → 0 < te →
      ∀ d ∈ st.dts, (∀ y ∈ st.dts, y.id = d.id → y = d) →
        d.removed = false → d.fixed = false → d.trigger = 0 → d.start ≤ now → now ≤ d.fin →
        ∃ d' ∈ (resultOp st s te now).1.dts, d'.id = d.id ∧ d'.removed = false ∧ d'.trigger = max te d.start) := by
  refine ⟨?_, ?_, ?_, ?_⟩
  · intro d dts h; simp [startFlexible, h]
  · simp [St.problem]
  · intro s te hok
    unfold resultOp
    split <;> simp [hok]
  · intro s te hs hok hte d hd huniq hr hf h0 h1 h2
    exact result_triggers_flexible st now s te hs hok hte d hd huniq hr hf h0 h1 h2

/-- **flexible_trigger_exact.**  In every state reached by a well-formed run, an accepted non-OK result at
    `now` triggers every existing, not yet triggered flexible downtime with `start ≤ now ≤ end`, and its
    trigger time is exactly `max(execution end, start_time)` (no uniqueness hypothesis: ids are unique in
    reachable states, so the downtime is identified by its id). -/
theorem flexible_trigger_exact (k : Kind) (ops : List Op) (hw : WF 990 ops) (s : Nat) (te now : Int)
    (hs : stale (run (initSt k) ops) te now = false) (hok : isOK (run (initSt k) ops).kind s = false)
    (hte : 0 < te) :
    ∀ d ∈ (run (initSt k) ops).dts, d.removed = false → d.fixed = false → d.trigger = 0 →
      d.start ≤ now → now ≤ d.fin →
      ∃ d' ∈ (resultOp (run (initSt k) ops) s te now).1.dts, d'.id = d.id ∧ d'.removed = false ∧
        d'.trigger = max te d.start ∧ ∀ y ∈ (resultOp (run (initSt k) ops) s te now).1.dts, y.id = d.id → y = d' := by
  obtain ⟨T, sp, h⟩ := tinv_run ops (specInit k) (initSt k) 990 (tinv_init k) hw
  intro d hd hr hf h0 h1 h2
  obtain ⟨d', hd', hid, hr', ht⟩ := result_triggers_flexible (run (initSt k) ops) now s te hs hok hte d hd
    (fun y hy hyid => eq_of_id h.wfl.1 hy hd hyid) hr hf h0 h1 h2
  refine ⟨d', hd', hid, hr', ht, ?_⟩
  intro y hy hyid
  have hnd' : (idsOf (resultOp (run (initSt k) ops) s te now).1.dts).Nodup := by
    rw [ids_result]; exact h.wfl.1
  exact eq_of_id hnd' hy hd' (by rw [hyid, hid])

/-! ### The recorded trigger time and the window (F-C05e, repaired by 2efb740) -/

/-- **trigger_not_before_start.**  Over every operation sequence (no well-formedness needed) from a state in
    which it holds — in particular the initial one —, the trigger time a downtime records is never before its
    own `start_time`: `TriggerDowntime` clamps the time it is given (execution end of the result, trigger time
    of the root of a chain) to the start of the downtime it is called on, so a chained downtime whose window
    begins later than its trigger downtime took effect records its own `start_time`. -/
theorem trigger_not_before_start (ops : List Op) (st : St)
    (h0 : ∀ d ∈ st.dts, d.trigger ≠ 0 → d.start ≤ d.trigger) :
    ∀ d ∈ (run st ops).dts, d.trigger ≠ 0 → d.start ≤ d.trigger := by
  induction ops generalizing st with
  | nil => exact h0
  | cons op ops ih =>
    have : run st (op :: ops) = run (step st op).1 ops := by simp [run]
    rw [this]
    apply ih
    intro d' hd' ht
    rcases step_pred st op (stepRel_RLB op.now) (allc_trivial _) (opT_trivial st op)
      (fun b _ _ d _ => rlb_setq b d) d' hd' with ⟨d, hd, r⟩ | ⟨p, _, r⟩
    · by_cases hz : d.trigger = 0
      · have := r.2.2.2 hz ht; rw [r.2.1]; exact this
      · rw [r.2.2.1 hz, r.2.1]; exact h0 d hd hz
    · have := r.2.2.2 rfl ht; rw [r.2.1]; exact this

/-- The former F-C05e witness: flexible downtime [1010, 1030] of 5 s; a CRITICAL result executed at 1004 is
    processed at 1010. -/
def ceEarlyResult : List Op :=
  [.result 0 1000 1000, .add ⟨1, false, 1010, 1030, 5, 0, false⟩ 1001, .result 2 1004 1010]

/-- … now takes effect at its `start_time`, the checkable is in downtime, and the whole specification holds;
    and a chained downtime whose window begins after its trigger downtime took effect records its own start. -/
example : WF 990 ceEarlyResult ∧
    ((run (initSt .service) ceEarlyResult).dts.map (fun d => (d.trigger, d.starts))) = [(1010, 1)] ∧
    depth 1010 (run (initSt .service) ceEarlyResult).dts = 1 ∧
    specTrace (specInit .service) (trace (initSt .service) ceEarlyResult) = none := by decide

example : ((run (initSt .host) [.result 0 1000 1000, .add ⟨1, true, 1000, 1030, 0, 0, false⟩ 995,
    .add ⟨2, false, 1003, 1030, 20, 1, false⟩ 996, .pump 1004 true]).dts.map (fun d => (d.id, d.trigger))) =
    [(1, 1000), (2, 1003)] := by decide

/-! ### The whole trace -/

/-- **model_trace_meets_spec_partial.**  For every well-formed operation sequence (the clock does not run
    backwards, check results carry an execution end in `(0, now]`, durations are not negative) from a
    never-checked checkable, the trace of the model — operations with the model's own observations —
    satisfies the executable specification, evaluated through the specification's own bookkeeping, on
    every clause except the two that are false of the code (`coreMask`, IcingaProofs/C05/Whole.lean):
    existence, dropped result, in-downtime iff, depth, trigger write-once, trigger only in window,
    flexible trigger (exact time), trigger cascade, start once, DowntimeStart for every flexible downtime
    that took effect (`started_when_triggered`), fixed started in window, end once, no DowntimeEnd of a
    flexible downtime without its DowntimeStart (`end_has_start`), removed event, expired removed, owner
    protected, recorded trigger time not before start (`trigger_not_before_start`, F-C05e repaired by 2efb740),
    DowntimeStart only in the operation in which the downtime takes effect (`start_only_on_effect`).
    The full statement `specTrace (specInit k) (trace (initSt k) ops) = none` is false of the code: F-C05c
    violates `fixed_started_when_triggered` and `fixed_end_has_start` (see `started_counterexample`). -/
theorem model_trace_meets_spec_partial (k : Kind) (ops : List Op) (hw : WF 990 ops) :
    specTraceM coreMask (specInit k) (trace (initSt k) ops) = none :=
  trace_core ops (specInit k) (initSt k) 990 (tinv_init k) hw

/-! ### The window predicates of the model are the ones of the source text -/

/-- **guards_match_source.**  The four functions that gen/c05_guards.py translates, on every run of the check, from
    the bodies of `Downtime::IsTriggered`, `IsInEffect`, `IsExpired` and `CanBeTriggered` in lib/icinga/downtime.cpp
    (IcingaProofs/Gen/DowntimeGuards.lean) are equal, at every instant and for every downtime, to the hand-written
    predicates of the model that all the theorems of this file are about.  (Times are integers on both sides.) -/
theorem guards_match_source (now : Int) (d : Dt) :
    Icinga.Gen.DowntimeGuards.isTriggeredSrc now d = isTriggered now d ∧
    Icinga.Gen.DowntimeGuards.isInEffectSrc now d = isInEffect now d ∧
    Icinga.Gen.DowntimeGuards.isExpiredSrc now d = isExpired now d ∧
    Icinga.Gen.DowntimeGuards.canBeTriggeredSrc now d = canBeTriggered now d :=
  ⟨isTriggered_src now d, isInEffect_src now d, isExpired_src now d, canBeTriggered_src now d⟩

/-- … and they are not trivial: at 1015 the translated predicates tell a fixed downtime [1010, 1020) triggered at
    1010 in effect and not triggerable, and the same downtime at 1020 neither in effect nor expired. -/
example :
    let d : Dt := { (default : Dt) with fixed := true, start := 1010, fin := 1020, trigger := 1010 }
    Icinga.Gen.DowntimeGuards.isInEffectSrc 1015 d = true ∧ Icinga.Gen.DowntimeGuards.canBeTriggeredSrc 1015 d = false ∧
    Icinga.Gen.DowntimeGuards.isInEffectSrc 1020 d = false ∧ Icinga.Gen.DowntimeGuards.isExpiredSrc 1020 d = false ∧
    Icinga.Gen.DowntimeGuards.isExpiredSrc 1021 d = true := by decide

/-! ### Non-vacuity -/

/-- A chained scenario: d1 fixed, d2 flexible chained to d1; the start timer at 1010 triggers both. -/
def exampleOps : List Op :=
  [.result 0 1000 1000, .add ⟨1, true, 1010, 1020, 0, 0, false⟩ 1000, .add ⟨2, false, 1010, 1020, 3, 1, true⟩ 1000,
   .pump 1010 true]

example : ((run (initSt .host) exampleOps).dts.map (fun d => (d.id, d.trigger, d.starts, d.triggers))) =
    [(1, 1010, 1, [2]), (2, 1010, 1, [])] := by decide

/-- `trigger_write_once` / `trigger_only_in_window`: their hypotheses are met on a non-trivial state. -/
example : ∃ d ∈ (run (initSt .host) exampleOps).dts, d.trigger ≠ 0 ∧ d.fixed = false := by decide

/-- `trigger_cascade`: before the pump at 1010, d1 can be triggered and has the existing d2 chained to it. -/
example : ∃ d, findDt (run (initSt .host) (exampleOps.take 3)).dts 1 = some d ∧ canBeTriggered 1010 d = true ∧
    2 ∈ d.triggers ∧ ∃ x ∈ (run (initSt .host) (exampleOps.take 3)).dts, live 2 x = true := by decide

/-- `owner_protected`: an owned downtime exists and the user removal is refused. -/
example : (removeOp (run (initSt .host) exampleOps) 2 true 1011).2 = 2 := by decide

/-- `expired_removed` / `end_once`: after the pump at 1030 both downtimes are gone, each with one DowntimeEnd. -/
example : ((run (initSt .host) (exampleOps ++ [.pump 1030 true])).dts.map (fun d => (d.removed, d.ends))) =
    [(true, 1), (true, 1)] := by decide

/-- `start_once`: the chained scenario is well-formed, and at the (formerly failing) instant `now = end` the
    start timer no longer starts the fixed downtime again. -/
example : WF 990 (exampleOps ++ [.pump 1020 true]) := by decide

example : ((run (initSt .host) (exampleOps ++ [.pump 1020 true])).dts.map (fun d => d.starts)) = [1, 1] := by decide

/-- `flexible_trigger` (c): an untriggered flexible downtime inside its window exists before a non-OK result. -/
example : ∃ d ∈ (run (initSt .service) [.result 0 1000 1000, .add ⟨1, false, 1000, 1020, 5, 0, false⟩ 1001]).dts,
    d.fixed = false ∧ d.trigger = 0 ∧ d.removed = false ∧ d.start ≤ 1002 ∧ (1002 : Int) ≤ d.fin := by decide

/-- The specification is not vacuous: it rejects a trace whose depth is wrong … -/
example : specTrace (specInit .service)
    [(.add ⟨1, true, 1000, 1020, 0, 0, false⟩ 1001, ⟨1, 0, true, [(1, 1001)], [(1, 1, 1), (3, 1, 1)]⟩)]
    = some .depthEqCount := by decide

/-- … one whose trigger time changes … -/
example : specTrace (specInit .service)
    [(.add ⟨1, true, 1000, 1020, 0, 0, false⟩ 1001, ⟨1, 1, true, [(1, 1001)], [(1, 1, 1), (3, 1, 1)]⟩),
     (.pump 1002 true, ⟨0, 1, true, [(1, 1002)], []⟩)]
    = some .triggerWriteOnce := by decide

/-- The masked predicate of `model_trace_meets_spec_partial` is not vacuous either … -/
example : specTraceM coreMask (specInit .service)
    [(.add ⟨1, true, 1000, 1020, 0, 0, false⟩ 1001, ⟨1, 0, true, [(1, 1001)], [(1, 1, 1), (3, 1, 1)]⟩)]
    = some .depthEqCount := by decide

/-- … and the only thing it hides on the F-C05c scenario is the F-C05c clause. -/
example : specTrace (specInit .service) (trace (initSt .service) ceNeverStarted) = some .fixedStartedWhenTriggered ∧
    specTraceM coreMask (specInit .service) (trace (initSt .service) ceNeverStarted) = none := by decide

/-- `in_downtime_iff_run` / `expired_removed_run`: the chained scenario, observed at its last instant; both
    downtimes are in effect there, and after a pump at 1013 the flexible one (1010 + 3) is still there. -/
example : endTime 990 exampleOps = 1010 ∧ inDowntime 1010 (run (initSt .host) exampleOps).dts = true := by decide

example : WF 990 (exampleOps ++ [.pump 1013 true]) ∧
    ((run (initSt .host) (exampleOps ++ [.pump 1013 true])).dts.map (fun d => (d.id, d.removed))) =
      [(1, false), (2, false)] := by decide

/-- `started_when_triggered` is inside the proved mask and not vacuous: a flexible downtime that has taken
    effect without any DowntimeStart request is rejected … -/
example : specTraceM coreMask (specInit .service)
    [(.result 2 1000 1000, ⟨1, 0, false, [], []⟩),
     (.add ⟨1, false, 1000, 1020, 5, 0, false⟩ 1001, ⟨1, 1, true, [(1, 1001)], [(3, 1, 1)]⟩)]
    = some .startedWhenTriggered := by decide

/-- … and accepts the model's own trace of the chained scenario. -/
example : specTrace (specInit .host) (trace (initSt .host) (exampleOps ++ [.pump 1030 true])) = none := by decide

/-- `start_only_on_effect`: in the pump at 1010 of the chained scenario both downtimes request DowntimeStart … -/
example : ∃ d ∈ preModel (run (initSt .host) (exampleOps.take 3)) (.pump 1010 true),
    ∃ d' ∈ (step (run (initSt .host) (exampleOps.take 3)) (.pump 1010 true)).1.dts, d'.id = d.id ∧ d.starts < d'.starts := by
  decide

/-- … and the specification rejects a DowntimeStart request for a fixed downtime created before its window. -/
example : specTrace (specInit .service)
    [(.add ⟨1, true, 1010, 1020, 0, 0, false⟩ 1001, ⟨1, 0, false, [(1, 0)], [(1, 1, 1)]⟩)]
    = some .startOnlyOnEffect := by decide

/-- `end_exactly_once_run`: a downtime removed before it took effect has caused no DowntimeEnd, one removed
    after it took effect exactly one. -/
example : WF 990 [.add ⟨1, false, 1010, 1020, 5, 0, false⟩ 1000, .remove 1 true 1005] ∧
    ((run (initSt .host) [.add ⟨1, false, 1010, 1020, 5, 0, false⟩ 1000, .remove 1 true 1005]).dts.map
      (fun d => (d.removed, d.trigger, d.ends))) = [(true, 0, 0)] ∧
    ((run (initSt .host) (exampleOps ++ [.remove 1 true 1012])).dts.map (fun d => (d.id, d.removed, d.ends))) =
      [(1, true, 1), (2, false, 0)] := by decide

/-- `flexible_started_run`: a run without pausing in which a flexible downtime takes effect. -/
example : (∀ op ∈ ceEarlyResult, noPause op = true) ∧ WF 990 ceEarlyResult ∧
    ∃ d ∈ (run (initSt .service) ceEarlyResult).dts, d.fixed = false ∧ d.trigger ≠ 0 := by decide

end Icinga.C05

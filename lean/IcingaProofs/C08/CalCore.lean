/-
  C08 — lemmas about the token-level calendar core (IcingaModel/C08/Calendar.lean): properties
  assumed of the time-zone parameter, monotonicity of local midnights, the per-entry / per-day /
  day-loop characterisations that `scriptFunc_spec` is assembled from.
-/
import IcingaProofs.C08.Lemmas
import IcingaProofs.C08.CalLemmas

namespace Icinga.C08

/-- What the theorems assume of the time-zone parameter (libc + tzdata are not verified; the driver
    evaluates `tzOkOn` on the probed offset list of every run):
    every local day lasts between 23 and 46 hours, and `localDay` is the day whose midnights
    enclose the instant. -/
structure TzOk (tz : Tz) : Prop where
  dayLen : ∀ D, 82800 ≤ mkDay tz (D + 1) 0 - mkDay tz D 0 ∧ mkDay tz (D + 1) 0 - mkDay tz D 0 ≤ 165600
  localDay : ∀ t, mkDay tz (localDay tz t) 0 ≤ t ∧ t < mkDay tz (localDay tz t + 1) 0

/-- UTC offsets at two local midnights differ by less than 12 hours. -/
def TzDrift (tz : Tz) : Prop :=
  ∀ D D', D ≤ D' → -43200 < mkDay tz D' 0 - mkDay tz D 0 - 86400 * (D' - D) ∧
                    mkDay tz D' 0 - mkDay tz D 0 - 86400 * (D' - D) < 43200

theorem mid_add (tz : Tz) (h : TzOk tz) (n : Nat) (D : Int) :
    mkDay tz D 0 + 82800 * (n : Int) ≤ mkDay tz (D + n) 0 := by
  induction n with
  | zero => simp
  | succ k ih =>
    have e : D + ((k + 1 : Nat) : Int) = (D + k) + 1 := by omega
    rw [e]
    have := (h.dayLen (D + k)).1
    omega

theorem mid_lt (tz : Tz) (h : TzOk tz) (D D' : Int) (hlt : D < D') : mkDay tz D 0 < mkDay tz D' 0 := by
  have := mid_add tz h (D' - D).toNat D
  have e : D + ((D' - D).toNat : Int) = D' := by omega
  rw [e] at this
  omega

theorem mid_lt_iff (tz : Tz) (h : TzOk tz) (D D' : Int) : mkDay tz D 0 < mkDay tz D' 0 ↔ D < D' := by
  constructor
  · intro hl
    by_cases hc : D < D'
    · exact hc
    · exfalso
      rcases Int.lt_or_eq_of_le (Int.not_lt.mp hc) with h2 | h2
      · have := mid_lt tz h D' D h2; omega
      · subst h2; omega
  · exact mid_lt tz h D D'

theorem mid_le_iff (tz : Tz) (h : TzOk tz) (D D' : Int) : mkDay tz D 0 ≤ mkDay tz D' 0 ↔ D ≤ D' := by
  have := mid_lt_iff tz h D' D
  constructor
  · intro hl; by_cases hc : D ≤ D'
    · exact hc
    · have := this.mpr (by omega); omega
  · intro hl
    rcases Int.lt_or_eq_of_le hl with h2 | h2
    · have := mid_lt tz h D D' h2; omega
    · subst h2; omega

/-! ### IsInTimeRange -/

theorem isInTimeRange_days (tz : Tz) (h : TzOk tz) (hd : TzDrift tz) (b e stride D : Int) :
    isInTimeRange tz b e stride D =
      (decide (b ≤ D) && decide (D < e) && (decide (stride ≤ 1) || (D - b) % stride == 0)) := by
  unfold isInTimeRange
  simp only
  by_cases h1 : mkDay tz D 0 < mkDay tz b 0
  · have : D < b := (mid_lt_iff tz h D b).mp h1
    have nb : ¬ b ≤ D := by omega
    simp [h1, nb]
  · have h1' : b ≤ D := by
      have := mt (mid_lt_iff tz h D b).mpr h1; omega
    by_cases h2 : mkDay tz D 0 ≥ mkDay tz e 0
    · have : ¬ D < e := fun hh => by have := (mid_lt_iff tz h D e).mpr hh; omega
      simp [h1, h2, this]
    · have h2' : D < e := (mid_lt_iff tz h D e).mp (by omega)
      simp only [h1, h2, or_self, if_false, h1', h2', decide_true, Bool.true_and]
      have hdn : (mkDay tz D 0 - mkDay tz b 0 + 43200) / 86400 = D - b := by
        have := hd b D h1'
        omega
      rw [hdn]
      by_cases h3 : 1 < stride
      · have hnn : 0 ≤ (D - b) % stride := Int.emod_nonneg _ (by omega)
        by_cases h4 : (D - b) % stride = 0
        · simp [h3, h4]
        · have : (D - b) % stride > 0 := by omega
          simp [h3, h4, this]
      · have : stride ≤ 1 := by omega
        simp [h3, this]

/-- Without a stride only the order of the midnights matters (no drift hypothesis). -/
theorem isInTimeRange_days_nostride (tz : Tz) (h : TzOk tz) (b e stride D : Int) (hs : stride ≤ 1) :
    isInTimeRange tz b e stride D = (decide (b ≤ D) && decide (D < e)) := by
  unfold isInTimeRange
  simp only
  by_cases h1 : mkDay tz D 0 < mkDay tz b 0
  · have : D < b := (mid_lt_iff tz h D b).mp h1
    have nb : ¬ b ≤ D := by omega
    simp [h1, nb]
  · have h1' : b ≤ D := by
      have := mt (mid_lt_iff tz h D b).mpr h1; omega
    by_cases h2 : mkDay tz D 0 ≥ mkDay tz e 0
    · have : ¬ D < e := fun hh => by have := (mid_lt_iff tz h D e).mpr hh; omega
      simp [h1, h2, this]
    · have h2' : D < e := (mid_lt_iff tz h D e).mp (by omega)
      have h3 : ¬ 1 < stride := by omega
      simp [h1, h2, h1', h2', h3]

/-- A single-day definition matches exactly the day it resolves to, whatever the stride. -/
theorem isInTimeRange_single (tz : Tz) (h : TzOk tz) (d stride D : Int) :
    isInTimeRange tz d (d + 1) stride D = decide (D = d) := by
  unfold isInTimeRange
  simp only
  by_cases h1 : mkDay tz D 0 < mkDay tz d 0
  · have : D < d := (mid_lt_iff tz h D d).mp h1
    have : ¬ D = d := by omega
    simp [h1, this]
  · have h1' : d ≤ D := by
      have := mt (mid_lt_iff tz h D d).mpr h1; omega
    by_cases h2 : mkDay tz D 0 ≥ mkDay tz (d + 1) 0
    · have : ¬ D < d + 1 := fun hh => by have := (mid_lt_iff tz h D (d + 1)).mpr hh; omega
      have : ¬ D = d := by omega
      simp [h1, h2, this]
    · have h2' : D < d + 1 := (mid_lt_iff tz h D (d + 1)).mp (by omega)
      have hD : D = d := by omega
      subst hD
      simp [h1, h2]

/-! ### entries of one day -/

/-- The instant `t` lies in one of the ranges of entry `en` evaluated on day `D`, and `D` matches the
    entry's day definition. -/
def EntryCovers (tz : Tz) (en : EntryTok) (D t : Int) : Prop :=
  ∃ df rs, en.dayDef = some df ∧ dayMatchesTok tz df D = some true ∧ en.ranges = some rs ∧
    ∃ r ∈ rs, (rangeSeg tz r D).1 ≤ t ∧ t < (rangeSeg tz r D).2

theorem rangesSegs_inside (tz : Tz) (rs : List (Int × Int)) (D t : Int) :
    inside (rangesSegs tz rs D) t = true ↔ ∃ r ∈ rs, (rangeSeg tz r D).1 ≤ t ∧ t < (rangeSeg tz r D).2 := by
  induction rs with
  | nil => simp [rangesSegs, inside]
  | cons r rest ih =>
    have e : rangesSegs tz (r :: rest) D =
        (if (rangeSeg tz r D).1 ≥ (rangeSeg tz r D).2 then [] else [rangeSeg tz r D]) ++ rangesSegs tz rest D := by
      by_cases hc : (rangeSeg tz r D).1 ≥ (rangeSeg tz r D).2
      · simp [rangesSegs, List.filterMap_cons, hc]
      · simp [rangesSegs, List.filterMap_cons, hc]
    rw [e, inside_append, ih]
    constructor
    · rintro (h | ⟨r', hr', hc⟩)
      · split at h
        · simp [inside] at h
        · rw [inside_cons] at h
          rcases h with h | h
          · exact ⟨r, by simp, h⟩
          · simp [inside] at h
      · exact ⟨r', by simp [hr'], hc⟩
    · rintro ⟨r', hr', hc⟩
      simp only [List.mem_cons] at hr'
      rcases hr' with rfl | hr'
      · left
        have : ¬ (rangeSeg tz r' D).1 ≥ (rangeSeg tz r' D).2 := by omega
        simp only [this, if_false, inside_cons]
        exact Or.inl hc
      · exact Or.inr ⟨r', hr', hc⟩

theorem entrySegs_spec (tz : Tz) (en : EntryTok) (D t : Int) (s : List Seg)
    (h : entrySegs tz en D = some s) : inside s t = true ↔ EntryCovers tz en D t := by
  unfold entrySegs at h
  unfold EntryCovers
  cases hdf : en.dayDef with
  | none => simp [hdf] at h
  | some df =>
    simp only [hdf] at h
    cases hm : dayMatchesTok tz df D with
    | none => simp [hm] at h
    | some m =>
      simp only [hm] at h
      cases m with
      | false =>
        simp at h; subst h
        simp [inside, hm]
      | true =>
        simp only at h
        cases hr : en.ranges with
        | none => simp [hr] at h
        | some rs =>
          simp only [hr, Option.some.injEq] at h
          subst h
          rw [rangesSegs_inside]
          constructor
          · intro hc; exact ⟨df, rs, rfl, hm, rfl, hc⟩
          · rintro ⟨df', rs', h1, _, h3, hc⟩
            cases h1; cases h3; exact hc

theorem dayEntries_fold_none (tz : Tz) (entries : List EntryTok) (D : Int) :
    entries.foldl (fun acc en =>
      match acc, entrySegs tz en D with
      | some l, some s => some (l ++ s)
      | _, _ => none) none = none := by
  induction entries with
  | nil => rfl
  | cons en rest ih => simpa [List.foldl_cons] using ih

theorem dayEntries_fold_spec (tz : Tz) (entries : List EntryTok) (D t : Int) :
    ∀ (acc l : List Seg),
      entries.foldl (fun acc en =>
        match acc, entrySegs tz en D with
        | some l, some s => some (l ++ s)
        | _, _ => none) (some acc) = some l →
      (inside l t = true ↔ inside acc t = true ∨ ∃ en ∈ entries, EntryCovers tz en D t) := by
  induction entries with
  | nil => intro acc l h; simp at h; subst h; simp
  | cons en rest ih =>
    intro acc l h
    simp only [List.foldl_cons] at h
    cases hs : entrySegs tz en D with
    | none =>
      simp only [hs] at h
      rw [dayEntries_fold_none] at h
      cases h
    | some s =>
      simp only [hs] at h
      rw [ih (acc ++ s) l h, inside_append, entrySegs_spec tz en D t s hs]
      constructor
      · rintro ((h1 | h1) | ⟨en', he', hc⟩)
        · exact Or.inl h1
        · exact Or.inr ⟨en, by simp, h1⟩
        · exact Or.inr ⟨en', by simp [he'], hc⟩
      · rintro (h1 | ⟨en', he', hc⟩)
        · exact Or.inl (Or.inl h1)
        · simp only [List.mem_cons] at he'
          rcases he' with rfl | he'
          · exact Or.inl (Or.inr hc)
          · exact Or.inr ⟨en', he', hc⟩

theorem dayEntries_spec (tz : Tz) (entries : List EntryTok) (D t : Int) (l : List Seg)
    (h : dayEntriesTok tz entries D = some l) :
    inside l t = true ↔ ∃ en ∈ entries, EntryCovers tz en D t := by
  have := dayEntries_fold_spec tz entries D t [] l h
  simpa [inside] using this

/-! ### the day loop -/

/-- The reference days the loop visits, in order. -/
def loopDays (tz : Tz) (e : Int) : Nat → Int → List Int
  | 0, _ => []
  | fuel + 1, D => if mkDay tz D 0 ≤ e then D :: loopDays tz e fuel (D + 1) else []

theorem loopDays_mem (tz : Tz) (h : TzOk tz) (e : Int) :
    ∀ (fuel : Nat) (D0 : Int), e < mkDay tz (D0 + fuel) 0 →
      ∀ D, D ∈ loopDays tz e fuel D0 ↔ D0 ≤ D ∧ mkDay tz D 0 ≤ e := by
  intro fuel
  induction fuel with
  | zero =>
    intro D0 hf D
    simp only [loopDays, List.not_mem_nil, false_iff]
    rintro ⟨h1, h2⟩
    have := (mid_le_iff tz h D0 D).mpr h1
    simp at hf; omega
  | succ f ih =>
    intro D0 hf D
    unfold loopDays
    by_cases hc : mkDay tz D0 0 ≤ e
    · simp only [hc, if_true, List.mem_cons]
      have e1 : D0 + ((f + 1 : Nat) : Int) = (D0 + 1) + f := by omega
      rw [e1] at hf
      rw [ih (D0 + 1) hf D]
      constructor
      · rintro (rfl | ⟨h1, h2⟩)
        · exact ⟨Int.le_refl _, hc⟩
        · exact ⟨by omega, h2⟩
      · rintro ⟨h1, h2⟩
        by_cases hD : D = D0
        · exact Or.inl hD
        · exact Or.inr ⟨by omega, h2⟩
    · simp only [hc, if_false, List.not_mem_nil, false_iff]
      rintro ⟨h1, h2⟩
      have := (mid_le_iff tz h D0 D).mpr h1
      omega

theorem loopDays_increasing (tz : Tz) (e : Int) :
    ∀ (fuel : Nat) (D0 : Int), (∀ D ∈ loopDays tz e fuel D0, D0 ≤ D) ∧ (loopDays tz e fuel D0).Pairwise (· < ·) := by
  intro fuel
  induction fuel with
  | zero => intro D0; simp [loopDays]
  | succ f ih =>
    intro D0
    unfold loopDays
    by_cases hc : mkDay tz D0 0 ≤ e
    · simp only [hc, if_true]
      obtain ⟨i1, i2⟩ := ih (D0 + 1)
      constructor
      · intro D hD
        simp only [List.mem_cons] at hD
        rcases hD with rfl | hD
        · exact Int.le_refl _
        · have := i1 D hD; omega
      · rw [List.pairwise_cons]
        exact ⟨fun D hD => by have := i1 D hD; omega, i2⟩
    · simp [hc]

theorem dayLoop_spec (tz : Tz) (entries : List EntryTok) (e t : Int) :
    ∀ (fuel : Nat) (D0 : Int) (segs : List Seg), dayLoopTok tz entries e fuel D0 = some segs →
      (inside segs t = true ↔ ∃ D ∈ loopDays tz e fuel D0, ∃ en ∈ entries, EntryCovers tz en D t) := by
  intro fuel
  induction fuel with
  | zero => intro D0 segs h; simp [dayLoopTok] at h; subst h; simp [inside, loopDays]
  | succ f ih =>
    intro D0 segs h
    unfold dayLoopTok at h
    unfold loopDays
    by_cases hc : mkDay tz D0 0 ≤ e
    · simp only [hc, if_true] at h ⊢
      cases ha : dayEntriesTok tz entries D0 with
      | none => simp [ha] at h
      | some a =>
        cases hb : dayLoopTok tz entries e f (D0 + 1) with
        | none => simp [ha, hb] at h
        | some b =>
          simp only [ha, hb, Option.some.injEq] at h
          subst h
          rw [inside_append, dayEntries_spec tz entries D0 t a ha, ih (D0 + 1) b hb]
          simp only [List.mem_cons, exists_eq_or_imp]
    · simp only [hc, if_false] at h ⊢
      simp at h; subst h; simp [inside]

/-- The fuel of `scriptFuncTok` suffices: the loop ends because its condition fails. -/
theorem loopFuel_enough (tz : Tz) (h : TzOk tz) (b e : Int) :
    e < mkDay tz (localDay tz b + (loopFuel b e : Nat)) 0 := by
  have h1 := mid_add tz h (loopFuel b e) (localDay tz b)
  have h2 := (h.localDay b).2
  have h3 := (h.dayLen (localDay tz b)).2
  unfold loopFuel at *
  omega

end Icinga.C08

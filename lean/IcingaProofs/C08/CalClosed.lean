/-
  C08 — small arithmetic facts behind the closed forms of the calendar layer: a day number is
  linear in the day-of-month field (which is how `mktime` carries an out-of-range `tm_mday`),
  "day 0 of the next month" is the last day of the month, and a time of day beyond 24:00 is the
  same time of day on the next calendar day (`tm_hour += 24`, legacytimeperiod.cpp:442-444).
-/
import IcingaProofs.C08.CalCore

namespace Icinga.C08

theorem daysFromCivil_day (y m d : Int) : daysFromCivil y m d = daysFromCivil y m 1 + (d - 1) := by
  unfold daysFromCivil; simp only; omega

theorem month_last_day2 (y m : Int) : daysFromCivil y (m + 2) 0 = daysFromCivil y (m + 2) 1 - 1 := by
  rw [daysFromCivil_day]; omega

theorem mkDay_next_day (tz : Tz) (D s : Int) : mkDay tz D (s + 24 * 3600) = mkDay tz (D + 1) s := by
  unfold mkDay
  have : D * 86400 + (s + 24 * 3600) = (D + 1) * 86400 + s := by omega
  rw [this]

/-- Lookup in a name table as generated from the source (first match; the tables have distinct names). -/
def lookupName : List (String × Int) → String → Option Int
  | [], _ => none
  | (k, v) :: rest, s => if s = k then some v else lookupName rest s

/-! ### every segment `ScriptFunc` returns is non-empty (ProcessTimeRanges skips empty results) -/

theorem rangesSegs_wf (tz : Tz) (rs : List (Int × Int)) (D : Int) : ∀ s ∈ rangesSegs tz rs D, s.1 < s.2 := by
  intro s hs
  unfold rangesSegs at hs
  rw [List.mem_filterMap] at hs
  obtain ⟨r, _, hr⟩ := hs
  simp only at hr
  split at hr
  · cases hr
  · cases hr; omega

theorem entrySegs_wf (tz : Tz) (en : EntryTok) (D : Int) (l : List Seg) (h : entrySegs tz en D = some l) :
    ∀ s ∈ l, s.1 < s.2 := by
  unfold entrySegs at h
  split at h
  · cases h
  · split at h
    · cases h
    · cases h; intro s hs; cases hs
    · split at h
      · cases h
      · cases h; exact rangesSegs_wf tz _ D

theorem dayEntries_fold_wf (tz : Tz) (D : Int) : ∀ (entries : List EntryTok) (acc l : List Seg),
    (∀ s ∈ acc, s.1 < s.2) →
    entries.foldl (fun acc en =>
      match acc, entrySegs tz en D with
      | some l, some s => some (l ++ s)
      | _, _ => none) (some acc) = some l → ∀ s ∈ l, s.1 < s.2 := by
  intro entries
  induction entries with
  | nil => intro acc l hacc h; simp at h; subst h; exact hacc
  | cons en rest ih =>
    intro acc l hacc h
    simp only [List.foldl_cons] at h
    cases he : entrySegs tz en D with
    | none =>
      rw [he] at h
      simp only at h
      have : (none : Option (List Seg)) = some l := by
        rw [← h]; exact (dayEntries_fold_none tz rest D).symm
      cases this
    | some s0 =>
      rw [he] at h
      simp only at h
      refine ih (acc ++ s0) l ?_ h
      intro s hs
      rw [List.mem_append] at hs
      rcases hs with hs | hs
      · exact hacc s hs
      · exact entrySegs_wf tz en D s0 he s hs

theorem dayLoop_wf (tz : Tz) (entries : List EntryTok) (e : Int) :
    ∀ (fuel : Nat) (D0 : Int) (segs : List Seg), dayLoopTok tz entries e fuel D0 = some segs → ∀ s ∈ segs, s.1 < s.2 := by
  intro fuel
  induction fuel with
  | zero => intro D0 segs h; simp [dayLoopTok] at h; subst h; intro s hs; cases hs
  | succ f ih =>
    intro D0 segs h
    unfold dayLoopTok at h
    by_cases hc : mkDay tz D0 0 ≤ e
    · simp only [hc, if_true] at h
      cases ha : dayEntriesTok tz entries D0 with
      | none => simp [ha] at h
      | some a =>
        cases hb : dayLoopTok tz entries e f (D0 + 1) with
        | none => simp [ha, hb] at h
        | some b =>
          simp only [ha, hb, Option.some.injEq] at h
          subst h
          intro s hs
          rw [List.mem_append] at hs
          rcases hs with hs | hs
          · exact dayEntries_fold_wf tz D0 entries [] a (by intro s hs; cases hs) ha s hs
          · exact ih (D0 + 1) b hb s hs
    · simp only [hc, if_false] at h
      simp at h; subst h; intro s hs; cases hs

theorem scriptFunc_wf (tz : Tz) (entries : List EntryTok) (b e : Int) (segs : List Seg)
    (h : scriptFuncTok tz entries b e = some segs) : ∀ s ∈ segs, s.1 < s.2 :=
  dayLoop_wf tz entries e _ _ segs h

end Icinga.C08

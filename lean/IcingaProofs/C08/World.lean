/-
  C08 — helper lemmas for runs over several periods (IcingaModel/C08/World.lean): the invariant
  "every stored segment is non-empty" is preserved by every operation, and the lists looked up by
  name inherit it.
-/
import IcingaProofs.C08.Nested
import IcingaProofs.C08.Tick
import IcingaModel.C08.World

namespace Icinga.C08

def Period.WF (p : Period) : Prop := ∀ s ∈ p.segs, s.1 < s.2
def World.WF (W : World) : Prop := ∀ en ∈ W, en.st.WF
def SegsWF (L : List Seg) : Prop := ∀ s ∈ L, s.1 < s.2

def Op.WF : Op → Prop
  | .update _ b e _ own => b ≤ e ∧ SegsWF own
  | .start _ _ own => SegsWF own
  | .tick _ _ owns => ∀ kv ∈ owns, SegsWF kv.2

theorem World.find_mem (W : World) (id : Nat) (en : PEntry) (h : W.find id = some en) : en ∈ W :=
  List.mem_of_find?_eq_some h

theorem World.segsOf_wf (W : World) (hW : W.WF) (ids : List Nat) :
    ∀ L ∈ W.segsOf ids, ∀ s ∈ L, s.1 < s.2 := by
  intro L hL
  unfold World.segsOf at hL
  rw [List.mem_filterMap] at hL
  obtain ⟨j, _, hj⟩ := hL
  cases hf : W.find j with
  | none => rw [hf] at hj; cases hj
  | some en =>
    rw [hf] at hj
    simp only [Option.map_some, Option.some.injEq] at hj
    subst hj
    exact hW en (W.find_mem j en hf)

theorem ownOf_wf (owns : List (Nat × List Seg)) (h : ∀ kv ∈ owns, SegsWF kv.2) (id : Nat) :
    SegsWF (ownOf owns id) := by
  unfold ownOf
  cases hf : owns.find? (fun kv => kv.1 == id) with
  | none => intro s hs; cases hs
  | some kv => exact h kv (List.mem_of_find?_eq_some hf)

theorem updateRegion_wf (p : Period) (u : UpdIn) (b e : Int) (clear : Bool)
    (hp : p.WF) (hown : ∀ s ∈ u.own, s.1 < s.2) (hinc : ∀ L ∈ u.incs, ∀ s ∈ L, s.1 < s.2) :
    (p.updateRegion u b e clear).WF := by
  unfold Period.updateRegion
  split
  · exact region_wf [] p.vb p.ve u b e (by intro s hs; cases hs) hown hinc
  · split
    · exact hp
    · cases p with
      | mk S vb ve => exact region_wf S vb ve u _ e hp hown hinc

theorem tick_wf (p : Period) (u : UpdIn) (now : Int)
    (hp : p.WF) (hown : ∀ s ∈ u.own, s.1 < s.2) (hinc : ∀ L ∈ u.incs, ∀ s ∈ L, s.1 < s.2) :
    (p.tick u now).WF := by
  unfold Period.tick
  exact updateRegion_wf _ u _ _ false (purge_wf p _ hp) hown hinc

theorem World.set_wf (W : World) (hW : W.WF) (id : Nat) (f : PEntry → PEntry)
    (hf : ∀ en ∈ W, (f en).st.WF) : (W.set id f).WF := by
  intro en hen
  unfold World.set at hen
  rw [List.mem_map] at hen
  obtain ⟨x, hx, rfl⟩ := hen
  split
  · exact hf x hx
  · exact hW x hx

end Icinga.C08

/-
  C08 — helper lemmas for the interval algebra.
-/
import IcingaModel.C08.Model
import IcingaModel.C08.Spec

namespace Icinga.C08

/-- Point-in-interval as a proposition. -/
def In (b e t : Int) : Prop := b ≤ t ∧ t < e

/-- `omega` after a case split on one non-arithmetic atom (an `inside … = true` fact). -/
macro "arith_with " P:term : tactic =>
  `(tactic| (by_cases hP__ : $P <;>
      simp only [hP__, or_true, true_or, or_false, false_or, and_true, true_and, and_false, false_and,
        iff_true, true_iff, iff_false, false_iff, not_true_eq_false, not_false_eq_true, Bool.false_eq_true] <;>
      (try omega)))

macro "arith_with2 " P:term:max Q:term:max : tactic =>
  `(tactic| (by_cases hP__ : $P <;> by_cases hQ__ : $Q <;>
      simp only [hP__, hQ__, or_true, true_or, or_false, false_or, and_true, true_and, and_false, false_and,
        iff_true, true_iff, iff_false, false_iff, not_true_eq_false, not_false_eq_true, Bool.false_eq_true] <;>
      (try omega)))

theorem inside_nil (t : Int) : inside [] t = false := rfl

theorem inside_cons (s : Seg) (S : List Seg) (t : Int) :
    inside (s :: S) t = true ↔ (s.1 ≤ t ∧ t < s.2) ∨ inside S t = true := by
  simp [inside, List.any_cons]

theorem inside_cons_false (s : Seg) (S : List Seg) (t : Int) :
    inside (s :: S) t = false ↔ ¬ (s.1 ≤ t ∧ t < s.2) ∧ inside S t = false := by
  rw [← Bool.not_eq_true, inside_cons, not_or, Bool.not_eq_true]

theorem inside_append (A B : List Seg) (t : Int) :
    inside (A ++ B) t = true ↔ inside A t = true ∨ inside B t = true := by
  simp [inside, List.any_append]

theorem inside_iff_exists (S : List Seg) (t : Int) :
    inside S t = true ↔ ∃ s ∈ S, s.1 ≤ t ∧ t < s.2 := by
  simp [inside, List.any_eq_true]

/-- AddSegment: the stored set grows by exactly the new interval — no hypothesis at all, also for
    overlapping stored segments and degenerate intervals. -/
theorem addSeg_inside (S : List Seg) (b e t : Int) :
    inside (addSeg S b e) t = true ↔ inside S t = true ∨ (b ≤ t ∧ t < e) := by
  induction S with
  | nil => simp [addSeg, inside]
  | cons s rest ih =>
    unfold addSeg
    split
    · rw [inside_cons]; arith_with (inside rest t = true)
    · split
      · rw [inside_cons, inside_cons]; simp only; arith_with (inside rest t = true)
      · split
        · rw [inside_cons, inside_cons]; simp only; arith_with (inside rest t = true)
        · split
          · rw [inside_cons, inside_cons]; simp only; arith_with (inside rest t = true)
          · rw [inside_cons, inside_cons, ih]; arith_with (inside rest t = true)

theorem adjust_cases (s : Seg) (b e : Int) :
    adjust s b e =
      (if s.1 ≥ b ∧ s.1 < e then e else s.1, if s.2 > b ∧ s.2 ≤ e then b else s.2) := by
  unfold adjust
  by_cases h1 : s.1 ≥ b ∧ s.1 < e <;> by_cases h2 : s.2 > b ∧ s.2 ≤ e <;> simp [h1, h2]

/-- RemoveSegment is exact (repaired comparisons, commit 9b846ed). -/
theorem removeSeg_inside (S : List Seg) (b e t : Int) (hbe : b ≤ e)
    (hwf : ∀ s ∈ S, s.1 < s.2) :
    inside (removeSeg S b e) t = true ↔ inside S t = true ∧ ¬ (b ≤ t ∧ t < e) := by
  induction S with
  | nil => simp [removeSeg, inside]
  | cons s rest ih =>
    have hs : s.1 < s.2 := hwf s (by simp)
    have hwf' : ∀ s ∈ rest, s.1 < s.2 := fun x hx => hwf x (by simp [hx])
    have ih' := ih hwf'
    unfold removeSeg
    split
    · rw [inside_cons, ih']; arith_with (inside rest t = true)
    · split
      · rw [inside_cons, inside_cons, ih']; arith_with (inside rest t = true)
      · split
        · rw [inside_cons, inside_cons, inside_cons, ih']; simp only; arith_with (inside rest t = true)
        · rw [inside_cons, inside_cons, ih', adjust_cases]
          simp only
          split <;> split <;> arith_with (inside rest t = true)

/-- RemoveSegment never adds anything and never removes a point outside the removed interval
    (holds unconditionally; the defect F-C08a is only that it may remove too little). -/
theorem removeSeg_inside_sound (S : List Seg) (b e t : Int) (hbe : b ≤ e)
    (hwf : ∀ s ∈ S, s.1 < s.2) :
    (inside (removeSeg S b e) t = true → inside S t = true) ∧
    (inside S t = true → ¬ (b ≤ t ∧ t < e) → inside (removeSeg S b e) t = true) := by
  induction S with
  | nil => simp [removeSeg, inside]
  | cons s rest ih =>
    have hs : s.1 < s.2 := hwf s (by simp)
    have hwf' : ∀ s ∈ rest, s.1 < s.2 := fun x hx => hwf x (by simp [hx])
    obtain ⟨ih1, ih2⟩ := ih hwf'
    unfold removeSeg
    split
    · rw [inside_cons]; constructor
      · intro h; exact Or.inr (ih1 h)
      · rintro (h | h) hn
        · omega
        · exact ih2 h hn
    · split
      · rw [inside_cons, inside_cons]; constructor
        · rintro (h | h); exact Or.inl h; exact Or.inr (ih1 h)
        · rintro (h | h) hn; exact Or.inl h; exact Or.inr (ih2 h hn)
      · split
        · rw [inside_cons, inside_cons, inside_cons]; simp only; constructor
          · rintro (h | h | h)
            · left; omega
            · left; omega
            · exact Or.inr (ih1 h)
          · rintro (h | h) hn
            · omega
            · exact Or.inr (Or.inr (ih2 h hn))
        · rw [inside_cons, inside_cons, adjust_cases]; simp only; constructor
          · rintro (h | h)
            · left; split at h <;> split at h <;> omega
            · exact Or.inr (ih1 h)
          · rintro (h | h) hn
            · left; split <;> split <;> omega
            · exact Or.inr (ih2 h hn)

/-- Well-formedness (`begin < end`) is preserved by both operations. -/
theorem addSeg_wf (S : List Seg) (b e : Int) (hbe : b < e) (hwf : ∀ s ∈ S, s.1 < s.2) :
    ∀ s ∈ addSeg S b e, s.1 < s.2 := by
  induction S with
  | nil => simp [addSeg]; exact hbe
  | cons s rest ih =>
    have hs : s.1 < s.2 := hwf s (by simp)
    have hwf' : ∀ s ∈ rest, s.1 < s.2 := fun x hx => hwf x (by simp [hx])
    unfold addSeg
    split
    · exact hwf
    · split
      · intro x hx; simp at hx; rcases hx with rfl | hx; exact hbe; exact hwf' x hx
      · split
        · intro x hx; simp at hx; rcases hx with rfl | hx; simp only; omega; exact hwf' x hx
        · split
          · intro x hx; simp at hx; rcases hx with rfl | hx; simp only; omega; exact hwf' x hx
          · intro x hx; simp at hx; rcases hx with rfl | hx; exact hs; exact ih hwf' x hx

theorem removeSeg_wf (S : List Seg) (b e : Int) (hwf : ∀ s ∈ S, s.1 < s.2) :
    ∀ s ∈ removeSeg S b e, s.1 < s.2 := by
  induction S with
  | nil => simp [removeSeg]
  | cons s rest ih =>
    have hs : s.1 < s.2 := hwf s (by simp)
    have hwf' : ∀ s ∈ rest, s.1 < s.2 := fun x hx => hwf x (by simp [hx])
    unfold removeSeg
    split
    · exact ih hwf'
    · split
      · intro x hx; simp at hx; rcases hx with rfl | hx; exact hs; exact ih hwf' x hx
      · split
        · intro x hx; simp at hx
          rcases hx with rfl | rfl | hx
          · simp only; omega
          · simp only; omega
          · exact ih hwf' x hx
        · intro x hx; simp at hx
          rcases hx with rfl | hx
          · rw [adjust_cases]; simp only; split <;> split <;> omega
          · exact ih hwf' x hx

/-! ### canonical form -/

theorem insertSeg_inside (s : Seg) (L : List Seg) (t : Int) :
    inside (insertSeg s L) t = true ↔ (s.1 ≤ t ∧ t < s.2) ∨ inside L t = true := by
  induction L with
  | nil => simp [insertSeg, inside]
  | cons x xs ih =>
    unfold insertSeg
    split
    · rw [inside_cons]
    · rw [inside_cons, ih, inside_cons]
      constructor
      · rintro (h | h | h)
        · exact Or.inr (Or.inl h)
        · exact Or.inl h
        · exact Or.inr (Or.inr h)
      · rintro (h | h | h)
        · exact Or.inr (Or.inl h)
        · exact Or.inl h
        · exact Or.inr (Or.inr h)

theorem sortSegs_inside (L : List Seg) (t : Int) : inside (sortSegs L) t = inside L t := by
  induction L with
  | nil => rfl
  | cons s rest ih =>
    rw [Bool.eq_iff_iff]
    show inside (insertSeg s (sortSegs rest)) t = true ↔ _
    rw [insertSeg_inside, inside_cons, ih]

theorem mergeRun_inside (L : List Seg) (cur : Seg) (t : Int) :
    inside (mergeRun cur L) t = true ↔ (cur.1 ≤ t ∧ t < cur.2) ∨ inside L t = true := by
  induction L generalizing cur with
  | nil => simp [mergeRun, inside]
  | cons x xs ih =>
    unfold mergeRun
    split
    · rw [ih, inside_cons]
      simp only
      arith_with (inside xs t = true)
      all_goals (split <;> split <;> omega)
    · rw [inside_cons, ih, inside_cons]

theorem filter_nonempty_inside (S : List Seg) (t : Int) :
    inside (S.filter (fun s => decide (s.1 < s.2))) t = inside S t := by
  induction S with
  | nil => rfl
  | cons s rest ih =>
    rw [Bool.eq_iff_iff, List.filter_cons]
    by_cases h : s.1 < s.2
    · simp only [h, decide_true, if_true, inside_cons, ih]
    · simp only [h, decide_false, Bool.false_eq_true, if_false, inside_cons, ih]
      constructor
      · exact Or.inr
      · rintro (h1 | h1)
        · omega
        · exact h1

theorem canon_inside (S : List Seg) (t : Int) : inside (canon S) t = inside S t := by
  unfold canon
  have h := sortSegs_inside (S.filter (fun s => decide (s.1 < s.2))) t
  rw [filter_nonempty_inside] at h
  cases hs : sortSegs (S.filter (fun s => decide (s.1 < s.2))) with
  | nil => rw [hs] at h; simpa using h
  | cons s rest =>
    rw [hs] at h
    simp only
    rw [← h, Bool.eq_iff_iff, mergeRun_inside, inside_cons]

/-! ### folds -/

theorem addAll_inside (X S : List Seg) (t : Int) :
    inside (addAll S X) t = true ↔ inside S t = true ∨ inside X t = true := by
  induction X generalizing S with
  | nil => simp [addAll, inside]
  | cons x xs ih =>
    have : addAll S (x :: xs) = addAll (addSeg S x.1 x.2) xs := rfl
    rw [this, ih, addSeg_inside, inside_cons]; arith_with2 (inside S t = true) (inside xs t = true)

theorem addAll_wf (X S : List Seg) (hX : ∀ s ∈ X, s.1 < s.2) (hS : ∀ s ∈ S, s.1 < s.2) :
    ∀ s ∈ addAll S X, s.1 < s.2 := by
  induction X generalizing S with
  | nil => simpa [addAll] using hS
  | cons x xs ih =>
    have : addAll S (x :: xs) = addAll (addSeg S x.1 x.2) xs := rfl
    rw [this]
    exact ih _ (fun s hs => hX s (by simp [hs])) (addSeg_wf S x.1 x.2 (hX x (by simp)) hS)

theorem removeAll_wf (X S : List Seg) (hS : ∀ s ∈ S, s.1 < s.2) :
    ∀ s ∈ removeAll S X, s.1 < s.2 := by
  induction X generalizing S with
  | nil => simpa [removeAll] using hS
  | cons x xs ih =>
    have : removeAll S (x :: xs) = removeAll (removeSeg S x.1 x.2) xs := rfl
    rw [this]
    exact ih _ (removeSeg_wf S x.1 x.2 hS)

theorem removeAll_inside (X S : List Seg) (t : Int) (hX : ∀ s ∈ X, s.1 < s.2)
    (hS : ∀ s ∈ S, s.1 < s.2) :
    inside (removeAll S X) t = true ↔ inside S t = true ∧ inside X t = false := by
  induction X generalizing S with
  | nil => simp [removeAll, inside]
  | cons x xs ih =>
    have e1 : removeAll S (x :: xs) = removeAll (removeSeg S x.1 x.2) xs := rfl
    have hx : x.1 < x.2 := hX x (by simp)
    rw [e1, ih _ (fun s hs => hX s (by simp [hs])) (removeSeg_wf S x.1 x.2 hS),
      removeSeg_inside S x.1 x.2 t (by omega) hS]
    rw [inside_cons_false]
    constructor
    · rintro ⟨⟨a, b⟩, c⟩; exact ⟨a, b, c⟩
    · rintro ⟨a, b, c⟩; exact ⟨⟨a, b⟩, c⟩

theorem removeAll_inside_sound (X S : List Seg) (t : Int) (hX : ∀ s ∈ X, s.1 < s.2)
    (hS : ∀ s ∈ S, s.1 < s.2) :
    (inside (removeAll S X) t = true → inside S t = true) ∧
    (inside S t = true → inside X t = false → inside (removeAll S X) t = true) := by
  induction X generalizing S with
  | nil => exact ⟨fun h => h, fun h _ => h⟩
  | cons x xs ih =>
    have e1 : removeAll S (x :: xs) = removeAll (removeSeg S x.1 x.2) xs := rfl
    have hx : x.1 < x.2 := hX x (by simp)
    obtain ⟨i1, i2⟩ := ih (removeSeg S x.1 x.2) (fun s hs => hX s (by simp [hs])) (removeSeg_wf S x.1 x.2 hS)
    obtain ⟨r1, r2⟩ := removeSeg_inside_sound S x.1 x.2 t (by omega) hS
    rw [e1]
    constructor
    · intro h; exact r1 (i1 h)
    · intro h hn
      rw [inside_cons_false] at hn
      exact i2 (r2 h hn.1) hn.2

/-! ### Period-level folds: the segment component of `merge`/`mergeAll` is `addAll`/`removeAll` -/

theorem merge_segs_include (o : List Seg) (p : Period) :
    (p.merge o true).segs = addAll p.segs o := by
  induction o generalizing p with
  | nil => rfl
  | cons x xs ih =>
    have : p.merge (x :: xs) true = (p.add x).merge xs true := rfl
    rw [this, ih]; rfl

theorem merge_segs_exclude (o : List Seg) (p : Period) :
    (p.merge o false).segs = removeAll p.segs o := by
  induction o generalizing p with
  | nil => rfl
  | cons x xs ih =>
    have : p.merge (x :: xs) false = (p.remove x).merge xs false := rfl
    rw [this, ih]; rfl

theorem addAll_append (S A B : List Seg) : addAll S (A ++ B) = addAll (addAll S A) B := by
  simp [addAll, List.foldl_append]

theorem removeAll_append (S A B : List Seg) : removeAll S (A ++ B) = removeAll (removeAll S A) B := by
  simp [removeAll, List.foldl_append]

theorem mergeAll_segs_include (os : List (List Seg)) (p : Period) :
    (p.mergeAll os true).segs = addAll p.segs os.flatten := by
  induction os generalizing p with
  | nil => rfl
  | cons o rest ih =>
    have : p.mergeAll (o :: rest) true = (p.merge o true).mergeAll rest true := rfl
    rw [this, ih, merge_segs_include, List.flatten_cons, addAll_append]

theorem mergeAll_segs_exclude (os : List (List Seg)) (p : Period) :
    (p.mergeAll os false).segs = removeAll p.segs os.flatten := by
  induction os generalizing p with
  | nil => rfl
  | cons o rest ih =>
    have : p.mergeAll (o :: rest) false = (p.merge o false).mergeAll rest false := rfl
    rw [this, ih, merge_segs_exclude, List.flatten_cons, removeAll_append]

theorem own_fold_segs (own : List Seg) (p : Period) :
    (own.foldl (fun q s => q.add s) p).segs = addAll p.segs own := by
  induction own generalizing p with
  | nil => rfl
  | cons x xs ih =>
    simp only [List.foldl_cons]; rw [ih]; rfl

/-- Segment list after `region`, in terms of the list-level folds. -/
theorem region_segs (p : Period) (u : UpdIn) (b e : Int) :
    (p.region u b e).segs =
      if u.prefer then addAll (removeAll (addAll (removeSeg p.segs b e) u.own) u.excs.flatten) u.incs.flatten
      else removeAll (addAll (addAll (removeSeg p.segs b e) u.own) u.incs.flatten) u.excs.flatten := by
  unfold Period.region
  cases u.prefer
  · simp only [Bool.false_eq_true, if_false]
    rw [mergeAll_segs_exclude, mergeAll_segs_include, own_fold_segs]; rfl
  · simp only [if_true]
    rw [mergeAll_segs_include, mergeAll_segs_exclude, own_fold_segs]; rfl

theorem inside_flatten (Ls : List (List Seg)) (t : Int) :
    inside Ls.flatten t = true ↔ ∃ L ∈ Ls, inside L t = true := by
  induction Ls with
  | nil => simp [inside]
  | cons L rest ih => rw [List.flatten_cons, inside_append, ih]; simp

/-! ### windows -/

theorem widenLo_le (v : Option Int) (b : Int) : ∃ x, widenLo v b = some x ∧ x ≤ b ∧ (∀ y, v = some y → x ≤ y) := by
  cases v with
  | none => exact ⟨b, rfl, Int.le_refl _, by simp⟩
  | some y =>
    unfold widenLo
    by_cases h : b < y
    · simp only [h, if_true]; exact ⟨b, rfl, Int.le_refl _, by intro z hz; cases hz; omega⟩
    · simp only [h]; exact ⟨y, rfl, by omega, by intro z hz; cases hz; omega⟩

theorem widenHi_ge (v : Option Int) (e : Int) : ∃ x, widenHi v e = some x ∧ e ≤ x ∧ (∀ y, v = some y → y ≤ x) := by
  cases v with
  | none => exact ⟨e, rfl, Int.le_refl _, by simp⟩
  | some y =>
    unfold widenHi
    by_cases h : e > y
    · simp only [h, if_true]; exact ⟨e, rfl, Int.le_refl _, by intro z hz; cases hz; omega⟩
    · simp only [h]; exact ⟨y, rfl, by omega, by intro z hz; cases hz; omega⟩

/-- A period "covers" `[b, e]` when its window is set and contains it. -/
def Period.covers (p : Period) (b e : Int) : Prop :=
  ∃ vb ve, p.vb = some vb ∧ p.ve = some ve ∧ vb ≤ b ∧ e ≤ ve

theorem covers_add (p : Period) (s : Seg) (b e : Int) (h : p.covers b e) : (p.add s).covers b e := by
  obtain ⟨vb, ve, h1, h2, h3, h4⟩ := h
  obtain ⟨x, hx, _, hx2⟩ := widenLo_le p.vb s.1
  obtain ⟨y, hy, _, hy2⟩ := widenHi_ge p.ve s.2
  refine ⟨x, y, hx, hy, ?_, ?_⟩
  · have := hx2 vb h1; omega
  · have := hy2 ve h2; omega

theorem covers_remove (p : Period) (s : Seg) (b e : Int) (h : p.covers b e) : (p.remove s).covers b e := by
  obtain ⟨vb, ve, h1, h2, h3, h4⟩ := h
  obtain ⟨x, hx, _, hx2⟩ := widenLo_le p.vb s.1
  obtain ⟨y, hy, _, hy2⟩ := widenHi_ge p.ve s.2
  refine ⟨x, y, hx, hy, ?_, ?_⟩
  · have := hx2 vb h1; omega
  · have := hy2 ve h2; omega

theorem covers_remove_self (p : Period) (b e : Int) : (p.remove (b, e)).covers b e := by
  obtain ⟨x, hx, hx1, _⟩ := widenLo_le p.vb b
  obtain ⟨y, hy, hy1, _⟩ := widenHi_ge p.ve e
  exact ⟨x, y, hx, hy, hx1, hy1⟩

theorem covers_merge (o : List Seg) (inc : Bool) (p : Period) (b e : Int) (h : p.covers b e) :
    (p.merge o inc).covers b e := by
  induction o generalizing p with
  | nil => exact h
  | cons x xs ih =>
    have : p.merge (x :: xs) inc = (if inc then p.add x else p.remove x).merge xs inc := rfl
    rw [this]; apply ih
    cases inc
    · exact covers_remove p x b e h
    · exact covers_add p x b e h

theorem covers_mergeAll (os : List (List Seg)) (inc : Bool) (p : Period) (b e : Int) (h : p.covers b e) :
    (p.mergeAll os inc).covers b e := by
  induction os generalizing p with
  | nil => exact h
  | cons o rest ih =>
    have : p.mergeAll (o :: rest) inc = (p.merge o inc).mergeAll rest inc := rfl
    rw [this]; exact ih _ (covers_merge o inc p b e h)

theorem covers_own (own : List Seg) (p : Period) (b e : Int) (h : p.covers b e) :
    (own.foldl (fun q s => q.add s) p).covers b e := by
  induction own generalizing p with
  | nil => exact h
  | cons x xs ih => simp only [List.foldl_cons]; exact ih _ (covers_add p x b e h)

theorem region_covers (p : Period) (u : UpdIn) (b e : Int) : (p.region u b e).covers b e := by
  unfold Period.region
  have h2 := covers_own u.own _ b e (covers_remove_self p b e)
  cases u.prefer
  · simp only [Bool.false_eq_true, if_false]
    exact covers_mergeAll _ _ _ b e (covers_mergeAll _ _ _ b e h2)
  · simp only [if_true]
    exact covers_mergeAll _ _ _ b e (covers_mergeAll _ _ _ b e h2)

theorem isInside_of_covers (p : Period) (b e t : Int) (h : p.covers b e) (hb : b ≤ t) (he : t ≤ e) :
    p.isInside t = inside p.segs t := by
  obtain ⟨vb, ve, h1, h2, h3, h4⟩ := h
  unfold Period.isInside
  rw [h1, h2]
  have : ¬ (t < vb ∨ t > ve) := by omega
  simp [this]

/-! ### the set formula for one `region` call -/

theorem any_inside_flatten (Ls : List (List Seg)) (t : Int) :
    Ls.any (fun L => inside L t) = inside Ls.flatten t := by
  simp [inside, List.any_flatten]

theorem flatten_wf (Ls : List (List Seg)) (h : ∀ L ∈ Ls, ∀ s ∈ L, s.1 < s.2) :
    ∀ s ∈ Ls.flatten, s.1 < s.2 := by
  intro s hs
  obtain ⟨L, hL, hsL⟩ := List.mem_flatten.mp hs
  exact h L hL s hsL

/-- Bool form of the property's formula over list-level facts. -/
def formula (prefer kept own inc exc : Bool) : Bool :=
  if prefer then ((kept || own) && !exc) || inc else ((kept || own) || inc) && !exc

theorem region_inside_formula (S : List Seg) (vb ve : Option Int) (u : UpdIn) (b e t : Int) (hbe : b ≤ e)
    (hS : ∀ s ∈ S, s.1 < s.2) (hown : ∀ s ∈ u.own, s.1 < s.2)
    (hinc : ∀ L ∈ u.incs, ∀ s ∈ L, s.1 < s.2) (hexc : ∀ L ∈ u.excs, ∀ s ∈ L, s.1 < s.2)
    :
    inside (({ segs := S, vb := vb, ve := ve } : Period).region u b e).segs t =
      formula u.prefer (inside S t && !(decide (b ≤ t) && decide (t < e))) (inside u.own t)
        (inside u.incs.flatten t) (inside u.excs.flatten t) := by
  rw [region_segs]
  have hI := flatten_wf _ hinc
  have hX := flatten_wf _ hexc
  have w1 := removeSeg_wf S b e hS
  have w2 := addAll_wf u.own _ hown w1
  have r0 := removeSeg_inside S b e t hbe hS
  rw [Bool.eq_iff_iff]
  unfold formula
  cases hp : u.prefer
  · simp only [Bool.false_eq_true, if_false]
    have w3 := addAll_wf u.incs.flatten _ hI w2
    rw [removeAll_inside _ _ t hX w3, addAll_inside, addAll_inside, r0]
    simp only [Bool.and_eq_true, Bool.or_eq_true, Bool.not_eq_true', decide_eq_true_eq,
      Bool.and_eq_false_iff, decide_eq_false_iff_not]
    constructor
    · rintro ⟨((⟨a, c⟩ | a) | a), d⟩
      · exact ⟨Or.inl (Or.inl ⟨a, by omega⟩), d⟩
      · exact ⟨Or.inl (Or.inr a), d⟩
      · exact ⟨Or.inr a, d⟩
    · rintro ⟨((⟨a, c⟩ | a) | a), d⟩
      · exact ⟨Or.inl (Or.inl ⟨a, by omega⟩), d⟩
      · exact ⟨Or.inl (Or.inr a), d⟩
      · exact ⟨Or.inr a, d⟩
  · simp only [if_true]
    rw [addAll_inside, removeAll_inside _ _ t hX w2, addAll_inside, r0]
    simp only [Bool.and_eq_true, Bool.or_eq_true, Bool.not_eq_true', decide_eq_true_eq,
      Bool.and_eq_false_iff, decide_eq_false_iff_not]
    constructor
    · rintro (⟨(⟨a, c⟩ | a), d⟩ | a)
      · exact Or.inl ⟨Or.inl ⟨a, by omega⟩, d⟩
      · exact Or.inl ⟨Or.inr a, d⟩
      · exact Or.inr a
    · rintro (⟨(⟨a, c⟩ | a), d⟩ | a)
      · exact Or.inl ⟨Or.inl ⟨a, by omega⟩, d⟩
      · exact Or.inl ⟨Or.inr a, d⟩
      · exact Or.inr a

/-- Core of `updateRegion_spec_partial`: any observation record that reports the window and the
    answers of `q.region u b' e` and whose formula inputs are those of the call satisfies the spec. -/
theorem spec_core (q : Period) (u : UpdIn) (b' e : Int) (o : UpdObs) (ts : List Int)
    (hb'e : b' ≤ e)
    (hS : ∀ s ∈ q.segs, s.1 < s.2) (hown : ∀ s ∈ u.own, s.1 < s.2)
    (hinc : ∀ L ∈ u.incs, ∀ s ∈ L, s.1 < s.2) (hexc : ∀ L ∈ u.excs, ∀ s ∈ L, s.1 < s.2)
    (hnoop : o.noop = false) (heffB : o.effB = b') (he : o.e = e)
    (hvb : o.vb = (q.region u b' e).vb) (hve : o.ve = (q.region u b' e).ve)
    (hexp : ∀ t, expectInside o t =
      formula u.prefer (inside q.segs t && !(decide (b' ≤ t) && decide (t < e))) (inside u.own t)
        (inside u.incs.flatten t) (inside u.excs.flatten t))
    (hqs : o.queries = ts.map (fun t => (t, (q.region u b' e).isInside t))) :
    specUpdate o = none := by
  obtain ⟨vb, ve, cvb, cve, h1, h2⟩ := region_covers q u b' e
  have hw : specWindow o = none := by
    unfold specWindow
    rw [hvb, hve, cvb, cve, heffB, he]
    simp [h1, h2]
  have key : ∀ t, specQuery o (t, (q.region u b' e).isInside t) = none := by
    intro t
    unfold specQuery
    rw [hvb, hve, cvb, cve]
    simp only
    have hins : (q.region u b' e).isInside t =
        if t < vb ∨ t > ve then true else inside (q.region u b' e).segs t := by
      unfold Period.isInside; rw [cvb, cve]
    by_cases hout : t < vb ∨ t > ve
    · simp [hout, hins]
    · have hf := region_inside_formula q.segs q.vb q.ve u b' e t hb'e hS hown hinc hexc
      simp only [hout, if_false, hins, hexp t]
      rw [← hf]; simp
  have all : ∀ qs : List Int, specQueries o (qs.map (fun t => (t, (q.region u b' e).isInside t))) = none := by
    intro qs
    induction qs with
    | nil => rfl
    | cons x xs ih => simp only [List.map_cons, specQueries, key x, ih]
  unfold specUpdate
  rw [hnoop, hw, hqs]
  simpa using all ts

end Icinga.C08

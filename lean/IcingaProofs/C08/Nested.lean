/-
  C08 — nested include/exclude forests: definitions (evaluation leaves-first through the model's
  `updateRegion`, and the property's recursive meaning) and the mutual induction.
-/
import IcingaProofs.C08.Lemmas
namespace Icinga.C08

/-- A time period together with the periods it includes and excludes (any nesting depth). -/
inductive PTree where
  | node (prefer : Bool) (own : List Seg) (incs excs : List PTree)

mutual
/-- Leaves first: every included/excluded period is updated (clearing) over the same region before
    the period that refers to it — `TimePeriod::UpdateRegion` then reads their segment lists. -/
def PTree.evalP (b e : Int) : PTree → Period
  | .node pr own incs excs =>
    ({} : Period).updateRegion { prefer := pr, own := own, incs := evalList b e incs, excs := evalList b e excs } b e true
def evalList (b e : Int) : List PTree → List (List Seg)
  | [] => []
  | T :: Ts => (T.evalP b e).segs :: evalList b e Ts
end

mutual
/-- What the property says a (nested) period is at instant `t`. -/
def PTree.sem (t : Int) : PTree → Bool
  | .node pr own incs excs =>
    if pr then (inside own t && !semAny t excs) || semAny t incs
    else (inside own t || semAny t incs) && !semAny t excs
def semAny (t : Int) : List PTree → Bool
  | [] => false
  | T :: Ts => T.sem t || semAny t Ts
end

mutual
def PTree.WF : PTree → Prop
  | .node _ own incs excs => (∀ s ∈ own, s.1 < s.2) ∧ WFs incs ∧ WFs excs
def WFs : List PTree → Prop
  | [] => True
  | T :: Ts => T.WF ∧ WFs Ts
end

theorem region_wf (S : List Seg) (vb ve : Option Int) (u : UpdIn) (b e : Int)
    (hS : ∀ s ∈ S, s.1 < s.2) (hown : ∀ s ∈ u.own, s.1 < s.2)
    (hinc : ∀ L ∈ u.incs, ∀ s ∈ L, s.1 < s.2) :
    ∀ s ∈ (({ segs := S, vb := vb, ve := ve } : Period).region u b e).segs, s.1 < s.2 := by
  rw [region_segs]
  have w1 := removeSeg_wf S b e hS
  have w2 := addAll_wf u.own _ hown w1
  have hI := flatten_wf _ hinc
  cases u.prefer
  · simp only [Bool.false_eq_true, if_false]
    exact removeAll_wf _ _ (addAll_wf _ _ hI w2)
  · simp only [if_true]
    exact addAll_wf _ _ hI (removeAll_wf _ _ w2)

mutual
theorem evalP_ok (b e : Int) (hbe : b ≤ e) : (T : PTree) → T.WF →
    (∀ s ∈ (T.evalP b e).segs, s.1 < s.2) ∧ ∀ t, inside (T.evalP b e).segs t = T.sem t
  | .node pr own incs excs, h => by
    unfold PTree.WF at h
    obtain ⟨hown, hi, hx⟩ := h
    obtain ⟨wi, si⟩ := evalList_ok b e hbe incs hi
    obtain ⟨wx, sx⟩ := evalList_ok b e hbe excs hx
    have hup : (PTree.node pr own incs excs).evalP b e =
        ({ segs := [], vb := none, ve := none } : Period).region
          { prefer := pr, own := own, incs := evalList b e incs, excs := evalList b e excs } b e := by
      simp [PTree.evalP, Period.updateRegion]
    constructor
    · rw [hup]; exact region_wf [] none none _ b e (by simp) hown wi
    · intro t
      rw [hup, region_inside_formula [] none none _ b e t hbe (by simp) hown wi wx]
      simp only [formula, inside_nil, Bool.false_and, Bool.false_or, ← any_inside_flatten, si t, sx t]
      unfold PTree.sem
      rfl
theorem evalList_ok (b e : Int) (hbe : b ≤ e) : (Ts : List PTree) → WFs Ts →
    (∀ L ∈ evalList b e Ts, ∀ s ∈ L, s.1 < s.2) ∧ ∀ t, (evalList b e Ts).any (fun L => inside L t) = semAny t Ts
  | [], _ => by simp [evalList, semAny]
  | T :: Ts, h => by
    unfold WFs at h
    obtain ⟨w1, s1⟩ := evalP_ok b e hbe T h.1
    obtain ⟨w2, s2⟩ := evalList_ok b e hbe Ts h.2
    constructor
    · intro L hL
      simp only [evalList, List.mem_cons] at hL
      rcases hL with rfl | hL
      · exact w1
      · exact w2 L hL
    · intro t
      simp only [evalList, List.any_cons, s1 t, s2 t, semAny]
end

theorem evalP_covers (b e : Int) (T : PTree) : (T.evalP b e).covers b e := by
  cases T with
  | node pr own incs excs =>
    have hup : (PTree.node pr own incs excs).evalP b e =
        ({ segs := [], vb := none, ve := none } : Period).region
          { prefer := pr, own := own, incs := evalList b e incs, excs := evalList b e excs } b e := by
      simp [PTree.evalP, Period.updateRegion]
    rw [hup]; exact region_covers _ _ b e

end Icinga.C08

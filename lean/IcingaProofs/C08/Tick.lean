/-
  C08 — helper lemmas for activation and the 300 s update timer (PurgeSegments, UpdateTimerHandler).
-/
import IcingaProofs.C08.Lemmas

namespace Icinga.C08

theorem purge_ve (p : Period) (c : Int) : (p.purge c).ve = p.ve := by
  unfold Period.purge; split
  · rfl
  · split <;> rfl

theorem purge_wf (p : Period) (c : Int) (h : ∀ s ∈ p.segs, s.1 < s.2) : ∀ s ∈ (p.purge c).segs, s.1 < s.2 := by
  unfold Period.purge; split
  · exact h
  · split
    · exact h
    · intro s hs; exact h s (List.mem_filter.mp hs).1

/-- from the cut-off on, purging changes no answer of `inside` -/
theorem purge_inside (p : Period) (c t : Int) (ht : c ≤ t) : inside (p.purge c).segs t = inside p.segs t := by
  unfold Period.purge; split
  · rfl
  · split
    · rfl
    · simp only
      rw [Bool.eq_iff_iff, inside_iff_exists, inside_iff_exists]
      constructor
      · rintro ⟨s, hs, h1, h2⟩
        exact ⟨s, (List.mem_filter.mp hs).1, h1, h2⟩
      · rintro ⟨s, hs, h1, h2⟩
        exact ⟨s, List.mem_filter.mpr ⟨hs, by simp; omega⟩, h1, h2⟩

theorem purge_vb (p : Period) (c : Int) :
    (p.purge c).vb = match p.vb with
      | some x => some (if x < c then c else x)
      | none => none := by
  unfold Period.purge
  cases h : p.vb with
  | none => simp [h]
  | some x =>
    simp only
    by_cases hc : c < x
    · simp [hc, h]; omega
    · simp only [hc, if_false]
      by_cases hx : x < c
      · simp [hx]
      · simp [hx]; omega


theorem region_covers_of (p : Period) (u : UpdIn) (b e x y : Int) (h : (p.remove (b, e)).covers x y) :
    (p.region u b e).covers x y := by
  unfold Period.region
  have h2 := covers_own u.own _ x y h
  cases u.prefer
  · simp only [Bool.false_eq_true, if_false]
    exact covers_mergeAll _ _ _ x y (covers_mergeAll _ _ _ x y h2)
  · simp only [if_true]
    exact covers_mergeAll _ _ _ x y (covers_mergeAll _ _ _ x y h2)

theorem remove_covers_lo (q : Period) (b e l : Int) (h : q.vb = some l) : (q.remove (b, e)).covers l e := by
  obtain ⟨x, hx, _, hx2⟩ := widenLo_le q.vb b
  obtain ⟨y, hy, hy1, _⟩ := widenHi_ge q.ve e
  exact ⟨x, y, hx, hy, hx2 l h, hy1⟩

theorem specTickQueries_map (k : TickObs) (f : Int → Bool) (h : ∀ t, specTickQuery k (t, f t) = none) (ts : List Int) :
    specTickQueries k (ts.map (fun t => (t, f t))) = none := by
  induction ts with
  | nil => rfl
  | cons x xs ih => simp only [List.map_cons, specTickQueries, h x, ih]

theorem tick_noop (p : Period) (u : UpdIn) (now : Int) (h : now + 86400 < numOf p.ve) :
    p.tick u now = p.purge (now - 3600) := by
  unfold Period.tick
  simp only [purge_ve, Period.updateRegion, Bool.false_eq_true, if_false, h, if_true]

theorem tick_eff (p : Period) (u : UpdIn) (now : Int) (h : ¬ now + 86400 < numOf p.ve) :
    p.tick u now = (p.purge (now - 3600)).region u (numOf p.ve) (now + 86400) := by
  unfold Period.tick
  simp only [purge_ve, Period.updateRegion, Bool.false_eq_true, if_false, h, Int.lt_irrefl]

theorem timerTick_core (p : Period) (u : UpdIn) (now : Int) (ts : List Int)
    (hS : ∀ s ∈ p.segs, s.1 < s.2) (hown : ∀ s ∈ u.own, s.1 < s.2)
    (hinc : ∀ L ∈ u.incs, ∀ s ∈ L, s.1 < s.2) (hexc : ∀ L ∈ u.excs, ∀ s ∈ L, s.1 < s.2) :
    specTick (observeTick p u now ts) = none := by
  have hqve := purge_ve p (now - 3600)
  have hqwf := purge_wf p (now - 3600) hS
  have hqvb := purge_vb p (now - 3600)
  by_cases hlt : now + 86400 < numOf p.ve
  · -- nothing refreshed
    have hup := tick_noop p u now hlt
    have hnoop : (observeTick p u now ts).upd.noop = true := by
      simp [observeTick, UpdObs.noop, hlt]
    have hw : specTickWindow (observeTick p u now ts) = none := by
      unfold specTickWindow
      simp only [hnoop, if_true]
      simp only [observeTick, hup, hqve, hqvb, true_and]
      cases p.vb with
      | none => simp
      | some x => simp; split <;> split <;> omega
    unfold specTick
    rw [hw]
    simp only [observeTick, hup]
    apply specTickQueries_map
    intro t
    unfold specTickQuery
    by_cases htc : t < now - 3600
    · simp [htc]
    · simp only [htc, if_false]
      have hin := purge_inside p (now - 3600) t (by omega)
      unfold Period.isInside expectTick
      cases hvb : (p.purge (now - 3600)).vb with
      | none => simp
      | some vb =>
        cases hve : (p.purge (now - 3600)).ve with
        | none => simp
        | some ve =>
          by_cases hout : t < vb ∨ t > ve
          · simp [hout]
          · simp [hout, UpdObs.noop, hlt, hin]
  · -- the region [old valid_end, now + 24 h] is refreshed on the purged period
    have hup := tick_eff p u now hlt
    have hbe : numOf p.ve ≤ now + 86400 := by omega
    have hnoop : (observeTick p u now ts).upd.noop = false := by
      simp [observeTick, UpdObs.noop, hlt]
    have heffB : (observeTick p u now ts).upd.effB = numOf p.ve := by
      simp [observeTick, UpdObs.effB]
    obtain ⟨vb, ve, cvb, cve, h1, h2⟩ := region_covers (p.purge (now - 3600)) u (numOf p.ve) (now + 86400)
    have hw : specTickWindow (observeTick p u now ts) = none := by
      unfold specTickWindow
      simp only [hnoop, heffB, Bool.false_eq_true, if_false]
      simp only [observeTick, hup, cvb, cve]
      cases hpvb : p.vb with
      | none => simp [h1, h2]
      | some x =>
        have hq : (p.purge (now - 3600)).vb = some (if x < now - 3600 then now - 3600 else x) := by
          rw [hqvb, hpvb]
        obtain ⟨vb2, ve2, c1, _, l1, _⟩ := region_covers_of _ u _ _ _ (now + 86400)
          (remove_covers_lo (p.purge (now - 3600)) (numOf p.ve) (now + 86400) _ hq)
        rw [cvb] at c1; cases c1
        have l2 : vb ≤ if x < now then now else x := by
          split at l1 <;> split <;> omega
        simp [h1, h2, l2]
    unfold specTick
    rw [hw]
    have hq : (observeTick p u now ts).upd.queries = ts.map (fun t => (t, (p.tick u now).isInside t)) := rfl
    have hvb' : (observeTick p u now ts).upd.vb = some vb := by
      show (p.tick u now).vb = _; rw [hup, cvb]
    have hve' : (observeTick p u now ts).upd.ve = some ve := by
      show (p.tick u now).ve = _; rw [hup, cve]
    have hcut : (observeTick p u now ts).cutoff = now - 3600 := rfl
    rw [hq]
    apply specTickQueries_map
    intro t
    unfold specTickQuery
    rw [hcut, hvb', hve', hup]
    by_cases htc : t < now - 3600
    · simp [htc]
    · simp only [htc, if_false]
      have hin := purge_inside p (now - 3600) t (by omega)
      have hins : ((p.purge (now - 3600)).region u (numOf p.ve) (now + 86400)).isInside t =
          if t < vb ∨ t > ve then true else inside ((p.purge (now - 3600)).region u (numOf p.ve) (now + 86400)).segs t := by
        unfold Period.isInside; rw [cvb, cve]
      by_cases hout : t < vb ∨ t > ve
      · simp [hout, hins]
      · have hf := region_inside_formula (p.purge (now - 3600)).segs (p.purge (now - 3600)).vb (p.purge (now - 3600)).ve
          u (numOf p.ve) (now + 86400) t hbe hqwf hown hinc hexc
        have hex : expectTick (observeTick p u now ts) t =
            formula u.prefer (inside p.segs t && !(decide (numOf p.ve ≤ t) && decide (t < now + 86400))) (inside u.own t)
              (inside u.incs.flatten t) (inside u.excs.flatten t) := by
          unfold expectTick
          rw [hnoop]
          unfold expectInside formula
          simp only [Bool.false_eq_true, if_false, heffB, any_inside_flatten]
          simp only [observeTick]
          rfl
        simp only [hout, if_false, hins]
        rw [hex, ← hin, ← hf]
        simp

end Icinga.C08

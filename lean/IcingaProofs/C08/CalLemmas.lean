/-
  C08 — helper lemmas for the calendar layer (the search loop of FindNthWeekday).
-/
import IcingaModel.C08.Calendar
import IcingaModel.C08.CalSpec
namespace Icinga.C08

theorem findNthLoop_fwd (w : Int) (hw0 : 0 ≤ w) (hw7 : w < 7) :
    ∀ (fuel need : Nat) (day : Int), 1 ≤ need →
      ((w - weekdayOf day) % 7 + 7 * ((need : Int) - 1) + 1 ≤ (fuel : Int)) →
      findNthLoop w 1 fuel need day = some (day + (w - weekdayOf day) % 7 + 7 * ((need : Int) - 1)) := by
  intro fuel
  induction fuel with
  | zero => intro need day h1 h2; unfold weekdayOf at h2; omega
  | succ f ih =>
    intro need day h1 h2
    unfold findNthLoop
    by_cases hwd : weekdayOf day = w
    · simp only [hwd, if_true]
      by_cases hn : need ≤ 1
      · simp only [hn, if_true]
        have : need = 1 := by omega
        subst this; simp
      · simp only [hn, if_false]
        rw [ih (need - 1) (day + 1) (by omega) (by unfold weekdayOf at *; omega)]
        congr 1
        unfold weekdayOf at *; omega
    · simp only [hwd, if_false]
      rw [ih need (day + 1) h1 (by unfold weekdayOf at *; omega)]
      congr 1
      unfold weekdayOf at *; omega

theorem findNthLoop_bwd (w : Int) (hw0 : 0 ≤ w) (hw7 : w < 7) :
    ∀ (fuel need : Nat) (day : Int), 1 ≤ need →
      ((weekdayOf day - w) % 7 + 7 * ((need : Int) - 1) + 1 ≤ (fuel : Int)) →
      findNthLoop w (-1) fuel need day = some (day - (weekdayOf day - w) % 7 - 7 * ((need : Int) - 1)) := by
  intro fuel
  induction fuel with
  | zero => intro need day h1 h2; unfold weekdayOf at h2; omega
  | succ f ih =>
    intro need day h1 h2
    unfold findNthLoop
    by_cases hwd : weekdayOf day = w
    · simp only [hwd, if_true]
      by_cases hn : need ≤ 1
      · simp only [hn, if_true]
        have : need = 1 := by omega
        subst this; simp
      · simp only [hn, if_false]
        rw [ih (need - 1) (day + -1) (by omega) (by unfold weekdayOf at *; omega)]
        congr 1
        unfold weekdayOf at *; omega
    · simp only [hwd, if_false]
      rw [ih need (day + -1) h1 (by unfold weekdayOf at *; omega)]
      congr 1
      unfold weekdayOf at *; omega
end Icinga.C08

/-
  C13 — property theorems.  Every `theorem` in this file is a proof obligation of `./check C13`.
  Helper lemmas: IcingaProofs/C13/Lemmas.lean.  Generated method list: IcingaProofs/Gen/ApiFunctions.lean.

  THE FULL STATEMENT (what properties.jsonl asks for) is

      theorem accept_implies_entitled (f : Forest) (m : Method) (c : Ctx) :
          accepts f m c = true → Entitled f m c

  It is FALSE of the unchanged code, hence of the model (`accept_implies_entitled_counterexample`):
    F-C13a  a sender in the receiver's own zone is never checked against the object's zone: `FromZone`
            is then taken from the message's own `originZone` field (absent ⇒ null ⇒ guard skipped;
            present ⇒ any zone the sender cares to name).  Known finding, not repaired.
  What is proved instead is the full statement for every method class that has it, and for the update
  classes the statement under the exact hypothesis that excludes the counterexample
  (`accept_implies_entitled_partial`: sender not in the receiver's own zone).
  `anonymous_only_certificate` holds in full.
  `accept_implies_entitled_or_claimed` is the whole table WITHOUT hypothesis: accepted ⇒ entitled, or exactly the
  shape of F-C13a (own-zone sender, update class, `originZone` absent or naming a zone that is itself entitled);
  `own_zone_claim_not_entitled_is_refused` is its boundary from the other side.
  THE WHOLE-TRACE THEOREM is `model_trace_satisfies_spec_partial`: for every forest and every sequence of
  messages the specification predicate the driver evaluates finds nothing in the model's observations
  (`observe`: nothing for a message that does not apply, the connection-bookkeeping methods confined to the
  sender's Endpoint object), provided no message lies in the class F-C13a; `model_trace_counterexample` is the
  kernel-checked trace for the excluded case.

  History: F-C13b (`pki::UpdateCertificate` had no endpoint test; /repo ba4edd4) and F-C13c
  (`event::SetRemovalInfo` did not look at the object's zone; /repo cc1e22f) were found by this check and
  are repaired; their `…_partial`/`…_counterexample` pairs have been replaced by the full theorems.
-/
import IcingaProofs.C13.Lemmas
import IcingaProofs.C13.Trace
import IcingaProofs.Gen.ApiFunctions

namespace Icinga.C13

/-! ## The table is complete -/

/-- **table_covers_registered_methods.**  The rows of the decision table are exactly the methods the
    source registers (list regenerated from `REGISTER_APIFUNCTION` on every run). -/
theorem table_covers_registered_methods : Method.all.map Method.name = Icinga.Gen.apiFunctions := by
  decide

/-- Every constructor of `Method` is a row (so `Method.all` is not a subset chosen to fit). -/
theorem all_methods_listed (m : Method) : m ∈ Method.all := by
  cases m <;> decide

/-- The driver finds the row of a method by its registered name. -/
theorem ofName_name (m : Method) : Method.ofName? m.name = some m := by
  cases m <;> decide

/-! ## accept ⇒ entitled, class by class (over ALL forests, contexts and fuels) -/

/-- Zone-internal bookkeeping (suppression state, last-notified state, notification events) is applied
    only from an authenticated endpoint of the receiver's own zone. -/
theorem accept_implies_entitled_zone_internal (f : Forest) (m : Method) (c : Ctx)
    (hm : m.cls = .zoneInternal) (h : accepts f m c = true) : Entitled f m c := by
  have key : c.endpoint.isSome = true ∧ guardLocal c = true := by
    cases m <;> simp [Method.cls] at hm <;> simp [accepts] at h <;> exact ⟨h.1.1, h.2⟩
  obtain ⟨ez, he⟩ := endpoint_isSome key.1
  obtain ⟨ha, hz⟩ := endpoint_some he
  refine Or.inr ⟨ha, ez, hz, ?_⟩
  rw [hm]
  exact guardLocal_sender he key.2

/-- Configuration files and runtime objects are applied only from an authenticated endpoint of the
    receiver's own zone or a zone above it, and only with `accept_config`. -/
theorem accept_implies_entitled_config (f : Forest) (m : Method) (c : Ctx)
    (hm : m.cls = .config) (h : accepts f m c = true) : Entitled f m c := by
  have key : ∃ ez, c.endpoint = some ez ∧ Below f c.localZone ez ∧ c.acceptConfig = true := by
    cases m <;> simp [Method.cls] at hm
    · -- config::DeleteObject
      simp [accepts] at h
      obtain ⟨ez, he, hb⟩ := guardConfigSender_sender f h.1.1.1
      exact ⟨ez, he, hb, h.1.1.2⟩
    · -- config::Update
      simp [accepts] at h
      obtain ⟨ez, he⟩ := endpoint_isSome h.1.1
      exact ⟨ez, he, guardParent_sender f he h.1.2, h.2⟩
    · -- config::UpdateObject
      simp [accepts] at h
      obtain ⟨ez, he, hb⟩ := guardConfigSender_sender f h.1
      exact ⟨ez, he, hb, h.2⟩
  obtain ⟨ez, he, hb, hc⟩ := key
  obtain ⟨ha, hz⟩ := endpoint_some he
  refine Or.inr ⟨ha, ez, hz, ?_⟩
  rw [hm]
  exact ⟨hb, hc⟩

/-- A command is executed — or forwarded towards the node it names — only for an authenticated endpoint of
    the receiver's own zone or a zone above it (the code admits only the direct parent), and executed only
    with `accept_commands`. -/
theorem accept_implies_entitled_command (f : Forest) (m : Method) (c : Ctx)
    (hm : m.cls = .command) (h : accepts f m c = true) : Entitled f m c := by
  cases m <;> simp [Method.cls] at hm
  simp only [accepts, Bool.and_eq_true] at h
  obtain ⟨ez, he, hb⟩ := guardCommandSender_sender f h.1
  obtain ⟨ha, hz⟩ := endpoint_some he
  refine Or.inr ⟨ha, ez, hz, hb, ?_⟩
  cases hf : c.forwardZone with
  | none => simp only [hf, Bool.and_eq_true] at h; exact Or.inr h.2.2
  | some tz => exact Or.inl rfl

/-- A command is forwarded only towards the receiver's own zone or a zone below it. -/
theorem forwarded_only_downwards (f : Forest) (c : Ctx) (tz : Zone) (hf : c.forwardZone = some tz)
    (h : accepts f .executeCommand c = true) : Below f tz c.localZone := by
  simp only [accepts, hf, Bool.and_eq_true] at h
  exact isChildOf_sound f _ _ h.2

/-- Version/capabilities/log position/heartbeat: only for an authenticated, configured endpoint. -/
theorem accept_implies_entitled_session (f : Forest) (m : Method) (c : Ctx)
    (hm : m.cls = .session) (h : accepts f m c = true) : Entitled f m c := by
  have key : c.endpoint.isSome = true := by
    cases m <;> simp [Method.cls] at hm <;> simp [accepts] at h <;> exact h
  obtain ⟨ez, he⟩ := endpoint_isSome key
  obtain ⟨ha, hz⟩ := endpoint_some he
  refine Or.inr ⟨ha, ez, hz, ?_⟩
  rw [hm]
  trivial

/-- State and event updates, check results and execution results **from another zone** are applied only
    for objects in the sender's zone or below it (check results: or from the command endpoint;
    execution results: for executions on endpoints of the sender's zone or below). -/
theorem accept_implies_entitled_update_from_other_zone (f : Forest) (m : Method) (c : Ctx)
    (hm : m.cls = .stateUpdate ∨ m.cls = .checkResult ∨ m.cls = .execResult)
    (hforeign : c.endpointZone ≠ some c.localZone)
    (h : accepts f m c = true) : Entitled f m c := by
  have hep : c.endpoint.isSome = true := by
    cases m <;> simp [Method.cls] at hm <;> simp [accepts] at h <;> first | exact h.1.1 | exact h.1.1.1
  obtain ⟨ez, he⟩ := endpoint_isSome hep
  obtain ⟨ha, hz⟩ := endpoint_some he
  have hne : ez ≠ c.localZone := by
    intro heq; apply hforeign; rw [hz, heq]
  have hfz := fromZone_foreign he hne
  refine Or.inr ⟨ha, ez, hz, ?_⟩
  rcases hm with hm | hm | hm
  · -- the nine `CanAccessObject` rows
    have hg : guardAccess f c = true := by
      cases m <;> simp [Method.cls] at hm <;> (simp [accepts] at h; exact h.2)
    rw [hm]
    exact guardAccess_foreign f he hne hg
  · -- event::CheckResult
    have hg : guardAccess f c = true ∨ c.senderIsCommandEndpoint = true := by
      cases m <;> simp [Method.cls] at hm
      simp [accepts] at h
      exact h.2
    rw [hm]
    exact hg.imp (guardAccess_foreign f he hne) id
  · -- event::ExecutedCommand
    have hg : guardExecEndpoint f c = true := by
      cases m <;> simp [Method.cls] at hm
      simp [accepts] at h
      exact h.2
    rw [hm]
    unfold guardExecEndpoint at hg
    cases hx : c.execEndpointZone with
    | none => simp [hx] at hg
    | some xz =>
      simp only [hx, hfz] at hg
      exact ⟨xz, hx, isChildOf_sound f _ _ hg⟩

/-- `event::SetRemovalInfo` additionally requires the sender's zone to be the receiver's own zone or a
    zone above it (clusterevents.cpp:1597). -/
theorem removal_info_only_from_own_zone_or_above (f : Forest) (c : Ctx)
    (h : accepts f .setRemovalInfo c = true) :
    c.authenticated = true ∧ ∃ s, c.endpointZone = some s ∧ Below f c.localZone s := by
  simp [accepts] at h
  obtain ⟨ez, he⟩ := endpoint_isSome h.1.1.1
  obtain ⟨ha, hz⟩ := endpoint_some he
  exact ⟨ha, ez, hz, guardParent_sender f he h.1.1.2⟩

/-- **accept_implies_entitled_cert_update** (full).  `pki::UpdateCertificate` is applied only from an
    authenticated, configured endpoint of the receiver's own zone or a zone above it. -/
theorem accept_implies_entitled_cert_update (f : Forest) (m : Method) (c : Ctx)
    (hm : m.cls = .certUpdate) (h : accepts f m c = true) : Entitled f m c := by
  cases m <;> simp [Method.cls] at hm
  simp [accepts] at h
  obtain ⟨ez, he⟩ := endpoint_isSome h.1
  obtain ⟨ha, hz⟩ := endpoint_some he
  exact Or.inr ⟨ha, ez, hz, guardParent_sender f he h.2⟩

/-- **accept_implies_entitled_partial** — the whole table in one statement.  For every forest, method
    and context: an accepted message comes from an entitled sender, *provided* the context is not
    an update-class method from a sender in the receiver's own zone (F-C13a). -/
theorem accept_implies_entitled_partial (f : Forest) (m : Method) (c : Ctx)
    (ha : (m.cls = .stateUpdate ∨ m.cls = .checkResult ∨ m.cls = .execResult) →
          c.endpointZone ≠ some c.localZone)
    (h : accepts f m c = true) : Entitled f m c := by
  cases hcls : m.cls with
  | stateUpdate => exact accept_implies_entitled_update_from_other_zone f m c (Or.inl hcls) (ha (Or.inl hcls)) h
  | checkResult => exact accept_implies_entitled_update_from_other_zone f m c (Or.inr (Or.inl hcls)) (ha (Or.inr (Or.inl hcls))) h
  | execResult => exact accept_implies_entitled_update_from_other_zone f m c (Or.inr (Or.inr hcls)) (ha (Or.inr (Or.inr hcls))) h
  | zoneInternal => exact accept_implies_entitled_zone_internal f m c hcls h
  | config => exact accept_implies_entitled_config f m c hcls h
  | command => exact accept_implies_entitled_command f m c hcls h
  | session => exact accept_implies_entitled_session f m c hcls h
  | certRequest => exact Or.inl hcls
  | certUpdate => exact accept_implies_entitled_cert_update f m c hcls h

/-! ## The counterexample F-C13a (kernel-checked; replayed on the real code by the harness) -/

/-- master (0) ← satellite (1) ← agent (2); zone 3 is unrelated, zone 4 is global. -/
def exForest : Forest :=
  { parent := fun z => if z = 1 then some 0 else if z = 2 then some 1 else none,
    isGlobal := fun z => z == 4 }

theorem not_below_master_satellite : ¬ Below exForest 0 1 := by
  intro h
  cases h with
  | step hp _ => simp [exForest] at hp

/-- A satellite (zone 1) receives `event::SetForceNextCheck` for a host of the *master* zone (0) from its
    HA peer (zone 1), no `originZone` in the message. -/
def exPeerNoOrigin : Ctx :=
  { authenticated := true, endpointZone := some 1, originZone := none, localZone := 1, objExists := true,
    objZone := some 0, senderIsCommandEndpoint := false, execEndpointZone := none, forwardZone := none,
    acceptConfig := false, acceptCommands := false }

/-- **F-C13a.**  The full statement fails: accepted, although the object is in the parent zone of the
    sender's zone. -/
theorem accept_implies_entitled_counterexample :
    ¬ (∀ (f : Forest) (m : Method) (c : Ctx), accepts f m c = true → Entitled f m c) := by
  intro hall
  have h := hall exForest .setForceNextCheck exPeerNoOrigin (by decide)
  rcases h with h | ⟨_, s, hs, he⟩
  · simp [Method.cls] at h
  · simp [exPeerNoOrigin] at hs
    subst hs
    simp only [Method.cls, EntitledZone, ObjWithin, exPeerNoOrigin] at he
    rcases he with he | he
    · simp [exForest] at he
    · exact not_below_master_satellite he

/-- F-C13a, second form: the own-zone peer names the master zone in `originZone`; the claim is taken at
    face value. -/
theorem accept_implies_entitled_counterexample_claimed_origin :
    accepts exForest .setAcknowledgement { exPeerNoOrigin with originZone := some 0 } = true ∧
    ¬ Entitled exForest .setAcknowledgement { exPeerNoOrigin with originZone := some 0 } := by
  refine ⟨by decide, ?_⟩
  rintro (h | ⟨_, s, hs, he⟩)
  · simp [Method.cls] at h
  · simp [exPeerNoOrigin] at hs
    subst hs
    simp only [Method.cls, EntitledZone, ObjWithin, exPeerNoOrigin] at he
    rcases he with he | he
    · simp [exForest] at he
    · exact not_below_master_satellite he

/-- F-C13a in general: for the nine `CanAccessObject` rows a sender in the receiver's own zone that
    sends no `originZone` is accepted for an object of ANY zone, in every forest. -/
theorem own_zone_sender_is_not_checked (f : Forest) (m : Method) (c : Ctx)
    (hm : m.cls = .stateUpdate)
    (hauth : c.authenticated = true) (hown : c.endpointZone = some c.localZone)
    (hno : c.originZone = none) (hobj : c.objExists = true) : accepts f m c = true := by
  have he : c.endpoint = some c.localZone := by simp [Ctx.endpoint, hauth, hown]
  have hfz : c.fromZone = none := by rw [fromZone_own he, hno]
  cases m <;> simp [Method.cls] at hm <;> simp [accepts, he, hobj, guardAccess, guardParent, hfz]

/-- An anonymous connection (certificate not verified) sends `pki::UpdateCertificate`. -/
def exAnonymous : Ctx :=
  { authenticated := false, endpointZone := none, originZone := none, localZone := 1, objExists := true,
    objZone := none, senderIsCommandEndpoint := false, execEndpointZone := none, forwardZone := none,
    acceptConfig := false, acceptCommands := false }

/-- **anonymous_only_certificate** (full).  A connection without authenticated, configured endpoint gets
    nothing but the certificate request past the guards — in every forest and context. -/
theorem anonymous_only_certificate (f : Forest) (m : Method) (c : Ctx)
    (hanon : c.endpoint = none) (h : accepts f m c = true) : m = .requestCertificate := by
  cases m <;> first
    | rfl
    | (simp [accepts, hanon, guardCommandSender, guardConfigSender] at h)

/-- master (0) ← satellite (1) ← agent (2): the agent (local zone 2) receives `event::SetRemovalInfo`
    from the satellite zone for a comment that belongs to the master zone (refused since cc1e22f). -/
def exRemoval : Ctx :=
  { authenticated := true, endpointZone := some 1, originZone := none, localZone := 2, objExists := true,
    objZone := some 0, senderIsCommandEndpoint := false, execEndpointZone := none, forwardZone := none,
    acceptConfig := false, acceptCommands := false }

/-! ## Refusal -/

/-- **refused_is_noop** (model level).  A message that does not get past its guards leaves the state as
    it is and sends nothing, whatever the method's effect would have been.  (That the *code's* refuse
    branches do the same is what the harness's before/after snapshot checks.) -/
theorem refused_is_noop {σ μ : Type} (f : Forest) (m : Method) (c : Ctx) (effect : σ → σ × List μ) (s : σ)
    (h : accepts f m c = false) : handle f m c effect s = (s, []) := by
  simp [handle, h]

/-- The heartbeat never does anything. -/
theorem heartbeat_is_noop (f : Forest) (c : Ctx) : accepts f .heartbeat c = false := rfl

/-! ## The executable specification is sound for the proposition -/

/-- What the driver evaluates (`entitledB`) implies the proposition the theorems are about. -/
theorem entitledB_sound (f : Forest) (m : Method) (c : Ctx) (h : entitledB f m c = true) : Entitled f m c := by
  unfold entitledB at h
  simp only [Bool.or_eq_true, beq_iff_eq, Bool.and_eq_true] at h
  rcases h with h | ⟨ha, h⟩
  · exact Or.inl h
  · cases hz : c.endpointZone with
    | none => simp [hz] at h
    | some s =>
      simp only [hz] at h
      refine Or.inr ⟨ha, s, hz, ?_⟩
      cases hcls : m.cls <;> simp only [hcls, entitledZoneB, EntitledZone] at h ⊢
      · exact objWithinB_sound f _ _ _ h
      · simp only [Bool.or_eq_true] at h
        exact h.imp (objWithinB_sound f _ _ _) id
      · cases hx : c.execEndpointZone with
        | none => simp [hx] at h
        | some xz => simp only [hx] at h; exact ⟨xz, rfl, belowB_sound f _ _ _ h⟩
      · simpa using h
      · simp only [Bool.and_eq_true] at h; exact ⟨belowB_sound f _ _ _ h.1, h.2⟩
      · simp only [Bool.and_eq_true, Bool.or_eq_true] at h; exact ⟨belowB_sound f _ _ _ h.1, h.2⟩
      · exact belowB_sound f _ _ _ h

/-! ## Non-vacuity -/

/-- The hypotheses of the per-class theorems are satisfiable on non-trivial contexts: the master (zone 0)
    sends `event::SetAcknowledgement` for a host of the agent zone (2) to the satellite (1) … -/
def exFromMaster : Ctx :=
  { authenticated := true, endpointZone := some 0, originZone := none, localZone := 1, objExists := true,
    objZone := some 2, senderIsCommandEndpoint := false, execEndpointZone := some 2, forwardZone := none,
    acceptConfig := true, acceptCommands := true }

example : accepts exForest .setAcknowledgement exFromMaster = true := by decide
example : accepts exForest .configUpdateObject exFromMaster = true := by decide
example : accepts exForest .executeCommand exFromMaster = true := by decide
example : accepts exForest .executedCommand exFromMaster = true := by decide
example : accepts exForest .setRemovalInfo exFromMaster = true := by decide
example : exFromMaster.endpointZone ≠ some exFromMaster.localZone := by decide
/-- … the same from the agent zone (2) is refused for a satellite-zone host, and zone-internal
    bookkeeping is refused from the master. -/
example : accepts exForest .setAcknowledgement { exFromMaster with endpointZone := some 2, objZone := some 1 } = false := by decide
example : accepts exForest .setSuppressedNotifications exFromMaster = false := by decide
example : accepts exForest .setSuppressedNotifications { exFromMaster with endpointZone := some 1 } = true := by decide
example : accepts exForest .configUpdateObject { exFromMaster with acceptConfig := false } = false := by decide
example : accepts exForest .executeCommand { exFromMaster with endpointZone := some 2 } = false := by decide
/-- forwarding: from the master towards the agent zone yes (also without accept_commands), from the agent zone
    towards anything no, towards the master zone no -/
example : accepts exForest .executeCommand { exFromMaster with forwardZone := some 2, acceptCommands := false } = true := by decide
example : accepts exForest .executeCommand { exFromMaster with endpointZone := some 2, forwardZone := some 2 } = false := by decide
example : accepts exForest .executeCommand { exFromMaster with forwardZone := some 0 } = false := by decide
example : specStep exForest .executeCommand { exFromMaster with endpointZone := some 2, forwardZone := some 2 } ⟨false, false, true, false, false⟩ = some .appliedOnlyIfEntitled := by decide
/-- the two repaired guards refuse their former witnesses; the legitimate senders are still accepted -/
example : accepts exForest .updateCertificate exAnonymous = false := by decide
example : accepts exForest .updateCertificate exFromMaster = true := by decide
example : accepts exForest .setRemovalInfo exRemoval = false := by decide
example : accepts exForest .setRemovalInfo { exRemoval with objZone := some 2 } = true := by decide
example : exAnonymous.endpoint = none := by decide
/-- objects of a global zone are everybody's -/
example : accepts exForest .setNextCheck { exFromMaster with endpointZone := some 2, objZone := some 4 } = true := by decide

/-- The specification predicate is not vacuous: it rejects an applied update from an unentitled zone,
    an applied message on an anonymous connection, and accepts the entitled one. -/
example : specStep exForest .setForceNextCheck exPeerNoOrigin ⟨true, false, false, false, true⟩ = some .appliedOnlyIfEntitled := by decide
example : specStep exForest .updateCertificate exAnonymous ⟨false, true, false, false, false⟩ = some .anonymousOnlyCertificate := by decide
example : specStep exForest .setForceNextCheck exPeerNoOrigin ⟨false, false, false, false, false⟩ = none := by decide
example : specStep exForest .setAcknowledgement exFromMaster ⟨true, false, true, false, true⟩ = none := by decide
example : specStep exForest .requestCertificate exAnonymous ⟨false, true, false, false, false⟩ = none := by decide

/-! ## The whole table without hypothesis, and the whole trace -/

/-- **accepted_is_entitledB_or_fc13a** — for EVERY forest, method and context: a message that gets past its guards
    satisfies the executable entitlement predicate the driver evaluates, or it lies in the class F-C13a
    (own-zone sender, update class, `originZone` absent or naming a zone that is itself entitled). -/
theorem accepted_is_entitledB_or_fc13a (f : Forest) (m : Method) (c : Ctx) (h : accepts f m c = true) :
    entitledB f m c = true ∨ inFC13a f m c = true := by
  cases hcls : m.cls with
  | stateUpdate | checkResult | execResult =>
    all_goals
      have hm : m.cls = .stateUpdate ∨ m.cls = .checkResult ∨ m.cls = .execResult := by simp [hcls]
      obtain ⟨ez, he⟩ := endpoint_isSome (update_has_endpoint f m c hm h)
      obtain ⟨ha, hz⟩ := endpoint_some he
      by_cases hown : ez = c.localZone
      · subst hown
        right
        have hfz := fromZone_own he
        cases horg : c.originZone with
        | none => simp [inFC13a, hcls, ha, hz, horg]
        | some z =>
          have := update_guard_fromZone f m c z hm (by rw [hfz, horg]) h
          rw [hcls] at this
          simp [inFC13a, hcls, ha, hz, horg, this]
      · left
        have := update_guard_fromZone f m c ez hm (fromZone_foreign he hown) h
        exact entitledB_of_zone f m he this
  | zoneInternal =>
    left
    have key : c.endpoint.isSome = true ∧ guardLocal c = true := by
      cases m <;> simp [Method.cls] at hcls <;> simp [accepts] at h <;> exact ⟨h.1.1, h.2⟩
    obtain ⟨ez, he⟩ := endpoint_isSome key.1
    refine entitledB_of_zone f m he ?_
    rw [hcls]
    simp [entitledZoneB, guardLocal_sender he key.2]
  | config =>
    left
    have key : ∃ ez, c.endpoint = some ez ∧ belowB f specDepth c.localZone ez = true ∧ c.acceptConfig = true := by
      cases m <;> simp [Method.cls] at hcls
      · simp [accepts] at h
        obtain ⟨ez, he, hb⟩ := guardConfigSender_belowB f h.1.1.1
        exact ⟨ez, he, hb, h.1.1.2⟩
      · simp [accepts] at h
        obtain ⟨ez, he⟩ := endpoint_isSome h.1.1
        exact ⟨ez, he, guardParent_belowB f he h.1.2, h.2⟩
      · simp [accepts] at h
        obtain ⟨ez, he, hb⟩ := guardConfigSender_belowB f h.1
        exact ⟨ez, he, hb, h.2⟩
    obtain ⟨ez, he, hb, hc⟩ := key
    refine entitledB_of_zone f m he ?_
    rw [hcls]
    simp [entitledZoneB, hb, hc]
  | command =>
    left
    cases m <;> simp [Method.cls] at hcls
    simp only [accepts, Bool.and_eq_true] at h
    obtain ⟨ez, he, hb⟩ := guardCommandSender_belowB f h.1
    refine entitledB_of_zone f _ he ?_
    cases hf : c.forwardZone with
    | none => simp only [hf, Bool.and_eq_true] at h; simp [Method.cls, entitledZoneB, hb, h.2.2]
    | some tz => simp [Method.cls, entitledZoneB, hb, hf]
  | certUpdate =>
    left
    cases m <;> simp [Method.cls] at hcls
    simp [accepts] at h
    obtain ⟨ez, he⟩ := endpoint_isSome h.1
    refine entitledB_of_zone f _ he ?_
    simp [Method.cls, entitledZoneB, guardParent_belowB f he h.2]
  | session =>
    left
    have key : c.endpoint.isSome = true := by
      cases m <;> simp [Method.cls] at hcls <;> simp [accepts] at h <;> exact h
    obtain ⟨ez, he⟩ := endpoint_isSome key
    refine entitledB_of_zone f m he ?_
    rw [hcls]; rfl
  | certRequest => left; simp [entitledB, hcls]

/-- **accept_implies_entitled_or_claimed** — the same as a proposition, and the exact shape of F-C13a: an accepted
    message comes from an entitled sender, or it is an update-class message from an authenticated endpoint of the
    receiver's own zone whose `originZone` is absent/unknown or names a zone that IS entitled.  In particular
    nothing else escapes: no other class, no foreign sender, no claim of a zone that is not entitled. -/
theorem accept_implies_entitled_or_claimed (f : Forest) (m : Method) (c : Ctx) (h : accepts f m c = true) :
    Entitled f m c ∨
    ((m.cls = .stateUpdate ∨ m.cls = .checkResult ∨ m.cls = .execResult) ∧ c.authenticated = true ∧
     c.endpointZone = some c.localZone ∧
     (c.originZone = none ∨ ∃ z, c.originZone = some z ∧ EntitledZone f m.cls z c)) := by
  rcases accepted_is_entitledB_or_fc13a f m c h with h | h
  · exact Or.inl (entitledB_sound f m c h)
  · right
    simp only [inFC13a, Bool.and_eq_true, Bool.or_eq_true, beq_iff_eq] at h
    obtain ⟨⟨⟨hm, ha⟩, hz⟩, ho⟩ := h
    refine ⟨?_, ha, hz, ?_⟩
    · rcases hm with (hm | hm) | hm
      · exact Or.inl hm
      · exact Or.inr (Or.inl hm)
      · exact Or.inr (Or.inr hm)
    · cases horg : c.originZone with
      | none => exact Or.inl rfl
      | some z =>
        simp only [horg] at ho
        exact Or.inr ⟨z, rfl, entitledZoneB_sound f _ z c ho⟩

/-- **own_zone_claim_not_entitled_is_refused** — the boundary of F-C13a from the other side: an own-zone peer that
    names in `originZone` a zone which is NOT entitled to the message is refused, in every forest. -/
theorem own_zone_claim_not_entitled_is_refused (f : Forest) (m : Method) (c : Ctx) (z : Zone)
    (hm : m.cls = .stateUpdate ∨ m.cls = .checkResult ∨ m.cls = .execResult)
    (hown : c.endpoint = some c.localZone) (horg : c.originZone = some z)
    (hne : ¬ EntitledZone f m.cls z c) : accepts f m c = false := by
  cases hacc : accepts f m c with
  | false => rfl
  | true =>
    exfalso
    apply hne
    have hfz : c.fromZone = some z := by rw [fromZone_own hown, horg]
    exact entitledZoneB_sound f _ z c (update_guard_fromZone f m c z hm hfz hacc)

/-- The specification accepts an observation whose changes are covered by the entitlement and whose
    connection-bookkeeping stays on the sender's Endpoint object. -/
theorem specStep_none_of (f : Forest) (m : Method) (c : Ctx) (o : Obs)
    (hent : o.applied = true → entitledB f m c = true)
    (hsess : m.cls = .session → o.foreign = false ∧ o.files = false ∧ o.relayed = false ∧ o.executed = false) :
    specStep f m c o = none := by
  unfold specStep
  cases happ : o.applied with
  | false =>
    by_cases hs : m.cls = .session
    · obtain ⟨h1, h2, h3, h4⟩ := hsess hs
      simp [h1, h2, h3, h4]
    · simp [hs]
  | true =>
    have he := hent happ
    have hauth : m.cls = .certRequest ∨ (c.authenticated = true ∧ c.endpointZone.isSome = true) := by
      unfold entitledB at he
      simp only [Bool.or_eq_true, beq_iff_eq, Bool.and_eq_true] at he
      rcases he with he | ⟨ha, he⟩
      · exact Or.inl he
      · right
        cases hz : c.endpointZone with
        | none => simp [hz] at he
        | some s => exact ⟨ha, rfl⟩
    by_cases hs : m.cls = .session
    · obtain ⟨h1, h2, h3, h4⟩ := hsess hs
      rcases hauth with hc | ⟨ha, hz⟩
      · simp [hc] at hs
      · simp [he, ha, hz, h1, h2, h3, h4]
    · rcases hauth with hc | ⟨ha, hz⟩
      · simp [he, hc]
      · simp [he, ha, hz, hs]

theorem touchesOnlySenderEndpoint_iff (m : Method) : touchesOnlySenderEndpoint m = true ↔ m.cls = .session := by
  cases m <;> simp [touchesOnlySenderEndpoint, Method.cls]

/-- **model_step_satisfies_spec** — for every forest, method, context and every effect: the model's observation
    of the message satisfies the specification, unless the message lies in the class F-C13a. -/
theorem model_step_satisfies_spec (f : Forest) (m : Method) (c : Ctx) (eff : Obs)
    (hk : inFC13a f m c = false) : specStep f m c (observe f m c eff) = none := by
  apply specStep_none_of
  · intro happ
    unfold observe at happ
    by_cases ha : applies f m c = true
    · have hacc : accepts f m c = true := by
        simp only [applies, Bool.and_eq_true] at ha; exact ha.1
      rcases accepted_is_entitledB_or_fc13a f m c hacc with h | h
      · exact h
      · rw [hk] at h; cases h
    · simp [ha, Obs.nothing, Obs.applied] at happ
  · intro hs
    unfold observe
    by_cases ha : applies f m c = true
    · simp [ha, (touchesOnlySenderEndpoint_iff m).mpr hs]
    · simp [ha, Obs.nothing]

/-- The trace of the model for a sequence of messages with arbitrary effects. -/
def modelTrace (f : Forest) (msgs : List (Method × Ctx × Obs)) : List (Method × Ctx × Obs) :=
  msgs.map (fun s => (s.1, s.2.1, observe f s.1 s.2.1 s.2.2))

/-- **model_trace_satisfies_spec_partial** — THE WHOLE-TRACE THEOREM.  For every zone forest and every sequence
    of messages (any methods, any contexts, any effects, any length): the specification predicate that the driver
    evaluates on the implementation's observations finds no violation in the model's observations — provided no
    message of the sequence lies in the class F-C13a.  (The full statement, without the proviso, is false of the
    unchanged code: `model_trace_counterexample`.) -/
theorem model_trace_satisfies_spec_partial (f : Forest) (msgs : List (Method × Ctx × Obs))
    (hk : ∀ s ∈ msgs, inFC13a f s.1 s.2.1 = false) (i : Nat) :
    specTrace f (modelTrace f msgs) i = none := by
  induction msgs generalizing i with
  | nil => rfl
  | cons s rest ih =>
    obtain ⟨m, c, eff⟩ := s
    have h1 := model_step_satisfies_spec f m c eff (hk (m, c, eff) (List.mem_cons_self ..))
    simp only [modelTrace, List.map_cons, specTrace, h1]
    exact ih (fun s hs => hk s (List.mem_cons_of_mem _ hs)) (i + 1)

/-- **model_trace_counterexample** (F-C13a on the trace level): an entitled message followed by the own-zone
    peer's update for a master-zone host; the specification fails at index 1. -/
theorem model_trace_counterexample :
    specTrace exForest (modelTrace exForest
      [(.setAcknowledgement, exFromMaster, { objects := true, files := false, relayed := true, executed := false }),
       (.setForceNextCheck, exPeerNoOrigin, { objects := true, files := false, relayed := false, executed := false })]) 0
      = some (1, .appliedOnlyIfEntitled) := by
  decide

/-- A refused message shows nothing — for every method and effect (here `observe` is the model's whole step, the
    connection-bookkeeping confinement included). -/
theorem refused_observes_nothing (f : Forest) (m : Method) (c : Ctx) (eff : Obs)
    (h : accepts f m c = false) : (observe f m c eff).applied = false := by
  simp [observe, applies, h, Obs.nothing, Obs.applied]

/-- `config::UpdateObject` needs `accept_config` in BOTH of its branches — creating an object that does not exist
    yet and modifying one that does — and `config::DeleteObject` deletes nothing the API did not create. -/
theorem update_object_needs_accept_config (f : Forest) (c : Ctx)
    (h : applies f .configUpdateObject c = true) :
    c.acceptConfig = true ∧ (if c.objExists then c.versionNewer = true else c.configEmpty = false) := by
  simp only [applies, accepts, effective, Bool.and_eq_true] at h
  refine ⟨h.1.2, ?_⟩
  cases hx : c.objExists <;> simp [hx] at h ⊢ <;> exact h.2

theorem delete_object_only_api_package (f : Forest) (c : Ctx)
    (h : applies f .configDeleteObject c = true) :
    c.acceptConfig = true ∧ c.objExists = true ∧ c.apiPackage = true := by
  simp [applies, accepts, effective] at h
  exact ⟨h.1.1.2, h.1.2, h.2⟩

/-- Not only refusals: a state/event update from a zone other than the receiver's that may access the object IS
    accepted (so the table is not trivially `false`; `event::SetRemovalInfo` additionally wants the sender above). -/
theorem entitled_foreign_update_is_accepted (f : Forest) (m : Method) (c : Ctx) (s : Zone)
    (hm : m.cls = .stateUpdate) (hnr : m ≠ .setRemovalInfo)
    (ha : c.authenticated = true) (hz : c.endpointZone = some s) (hne : s ≠ c.localZone)
    (hobj : c.objExists = true) (hacc : canAccessObject f c.localZone s c.objZone = true) :
    accepts f m c = true := by
  have he : c.endpoint = some s := by simp [Ctx.endpoint, ha, hz]
  have hfz := fromZone_foreign he hne
  cases m <;> simp [Method.cls] at hm <;> first
    | exact absurd rfl hnr
    | simp [accepts, he, hobj, guardAccess, hfz, hacc]

/-! ## Non-vacuity of the trace-level theorems and of the new clauses -/

/-- The satellite's own-zone peer names the AGENT zone (2) for a master-zone host: outside F-C13a, and refused. -/
def exPeerClaimsAgent : Ctx := { exPeerNoOrigin with originZone := some 2 }

/-- both disjuncts of `accepted_is_entitledB_or_fc13a` occur, and the narrowed class excludes the unentitled claim -/
example : accepts exForest .setAcknowledgement exFromMaster = true ∧ entitledB exForest .setAcknowledgement exFromMaster = true ∧
    inFC13a exForest .setAcknowledgement exFromMaster = false := by decide
example : accepts exForest .setForceNextCheck exPeerNoOrigin = true ∧ entitledB exForest .setForceNextCheck exPeerNoOrigin = false ∧
    inFC13a exForest .setForceNextCheck exPeerNoOrigin = true := by decide
example : inFC13a exForest .setAcknowledgement { exPeerNoOrigin with originZone := some 0 } = true := by decide
example : inFC13a exForest .setForceNextCheck exPeerClaimsAgent = false ∧ accepts exForest .setForceNextCheck exPeerClaimsAgent = false := by decide
/-- hypotheses of `own_zone_claim_not_entitled_is_refused` on that context -/
example : exPeerClaimsAgent.endpoint = some exPeerClaimsAgent.localZone ∧ exPeerClaimsAgent.originZone = some 2 := by decide
example : ¬ EntitledZone exForest Method.setForceNextCheck.cls 2 exPeerClaimsAgent := by
  simp only [Method.cls, EntitledZone, ObjWithin, exPeerClaimsAgent, exPeerNoOrigin]
  rintro (h | h)
  · simp [exForest] at h
  · cases h with
    | step hp _ => simp [exForest] at hp
/-- a spec failure for the unentitled claim would NOT be excused: the predicate rejects it like any other -/
example : specStep exForest .setForceNextCheck exPeerClaimsAgent { objects := true, files := false, relayed := false, executed := false } = some .appliedOnlyIfEntitled := by decide

/-- `model_step_satisfies_spec` / `model_trace_satisfies_spec_partial`: hypothesis satisfiable on a trace with accepted,
    refused and connection-bookkeeping messages (and the model really applies the first and the third) -/
def exMsgs : List (Method × Ctx × Obs) :=
  [(.setAcknowledgement, exFromMaster, { objects := true, files := false, relayed := true, executed := false }),
   (.setSuppressedNotifications, exFromMaster, { objects := true, files := false, relayed := false, executed := false }),
   (.hello, exFromMaster, { objects := true, files := true, relayed := true, executed := true }),
   (.configUpdateObject, { exFromMaster with acceptConfig := false, objExists := true }, { objects := true, files := false, relayed := true, executed := false }),
   (.updateCertificate, exAnonymous, { objects := false, files := true, relayed := false, executed := false })]
example : ∀ s ∈ exMsgs, inFC13a exForest s.1 s.2.1 = false := by decide
example : (modelTrace exForest exMsgs).map (fun s => s.2.2.applied) = [true, false, true, false, false] := by decide
example : specTrace exForest (modelTrace exForest exMsgs) 0 = none := by decide
/-- the same trace as an implementation that ignores accept_config / lets Hello touch other objects would show it -/
example : specTrace exForest exMsgs 0 = some (1, .appliedOnlyIfEntitled) := by decide
example : specTrace exForest (exMsgs.drop 2) 0 = some (0, .sessionOnlyOwnEndpoint) := by decide
example : specTrace exForest (exMsgs.drop 3) 0 = some (0, .appliedOnlyIfEntitled) := by decide
example : specTrace exForest (exMsgs.drop 4) 0 = some (0, .anonymousOnlyCertificate) := by decide

/-- `session_only_own_endpoint`: rejects a Hello that changes another object; accepts one that changes the sender's
    Endpoint object only -/
example : specStep exForest .hello exFromMaster { objects := true, files := false, relayed := false, executed := false, foreign := true } = some .sessionOnlyOwnEndpoint := by decide
example : specStep exForest .hello exFromMaster { objects := true, files := false, relayed := false, executed := false, foreign := false } = none := by decide

/-- config::UpdateObject / DeleteObject: every branch (`update_object_needs_accept_config`, `delete_object_only_api_package`) -/
example : applies exForest .configUpdateObject { exFromMaster with objExists := false } = true := by decide
example : applies exForest .configUpdateObject { exFromMaster with objExists := false, configEmpty := true } = false := by decide
example : applies exForest .configUpdateObject { exFromMaster with objExists := true } = true := by decide
example : applies exForest .configUpdateObject { exFromMaster with objExists := true, versionNewer := false } = false := by decide
example : applies exForest .configUpdateObject { exFromMaster with objExists := true, acceptConfig := false } = false := by decide
example : applies exForest .configDeleteObject exFromMaster = true := by decide
example : applies exForest .configDeleteObject { exFromMaster with apiPackage := false } = false := by decide
/-- the spec rejects a modification of an existing object that went through without accept_config -/
example : specStep exForest .configUpdateObject { exFromMaster with objExists := true, acceptConfig := false }
    { objects := true, files := false, relayed := true, executed := false } = some .appliedOnlyIfEntitled := by decide

/-- check results: the command endpoint's zone mate is NOT the command endpoint — the agent (zone 2) sends a result for a
    master-zone host whose command endpoint is the agent's HA partner -/
example : specStep exForest .checkResult { exFromMaster with endpointZone := some 2, localZone := 0, objZone := some 0, senderIsCommandEndpoint := false }
    { objects := true, files := false, relayed := true, executed := false } = some .appliedOnlyIfEntitled := by decide
example : accepts exForest .checkResult { exFromMaster with endpointZone := some 2, localZone := 0, objZone := some 0, senderIsCommandEndpoint := false } = false := by decide
example : accepts exForest .checkResult { exFromMaster with endpointZone := some 2, localZone := 0, objZone := some 0, senderIsCommandEndpoint := true } = true := by decide

/-- forwarding error notices: towards the agent zone (2) from the master (local 0): the satellite zone is the child on
    the way; the notice goes to the own zone and the parent zone — the master has no parent, so if the sender is the
    master's own peer nobody else hears of it -/
example : forwardErrorNotice exForest { exFromMaster with localZone := 0, childLacksCapability := true } 2 = true := by decide
example : forwardErrorNotice exForest { exFromMaster with localZone := 0, hostInaccessibleToChild := true } 2 = true := by decide
example : forwardErrorNotice exForest { exFromMaster with localZone := 0, hostInaccessibleToChild := true } 1 = false := by decide
example : applies exForest .executeCommand { exFromMaster with localZone := 0, forwardZone := some 2, childLacksCapability := true } = false := by decide
example : applies exForest .executeCommand { exFromMaster with forwardZone := some 2, childLacksCapability := true } = true := by decide

/-- `entitled_foreign_update_is_accepted`: its hypotheses hold for the master's acknowledgement -/
example : exFromMaster.authenticated = true ∧ exFromMaster.endpointZone = some 0 ∧ (0 : Zone) ≠ exFromMaster.localZone ∧
    exFromMaster.objExists = true ∧ canAccessObject exForest exFromMaster.localZone 0 exFromMaster.objZone = true := by decide


end Icinga.C13

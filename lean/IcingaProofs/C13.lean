/-
  C13 — property theorems.  Every `theorem` in this file is a proof obligation of `./check C13`.
  Helper lemmas: IcingaProofs/C13/Lemmas.lean.  Generated method list: IcingaProofs/Gen/ApiFunctions.lean.

  THE FULL STATEMENT (what properties.jsonl asks for) is

      theorem accept_implies_entitled (f : Forest) (m : Method) (c : Ctx) :
          accepts f m c = true → Entitled f m c

  It is FALSE of the unchanged code, hence of the model (`accept_implies_entitled_counterexample`):
    F-C13a  a sender in the receiver's own zone is never checked against the object's zone: `FromZone`
            is then taken from the message's own `originZone` field (absent ⇒ null ⇒ guard skipped;
            present ⇒ any zone the sender cares to name).  Known finding, not repaired.
  What is proved instead is the full statement for every method class that has it, and for the update
  classes the statement under the exact hypothesis that excludes the counterexample
  (`accept_implies_entitled_partial`: sender not in the receiver's own zone).
  `anonymous_only_certificate` holds in full.
  `accept_implies_entitled_or_claimed` is the whole table WITHOUT hypothesis: accepted ⇒ entitled, or exactly the
  shape of F-C13a (own-zone sender, update class, `originZone` absent or naming a zone that is itself entitled);
  `own_zone_claim_not_entitled_is_refused` is its boundary from the other side.
  THE WHOLE-TRACE THEOREM is `model_trace_satisfies_spec_partial`: for every forest and every sequence of
  messages the specification predicate the driver evaluates finds nothing in the model's observations
  (`observe`: nothing for a message that does not apply, the connection-bookkeeping methods confined to the
  sender's Endpoint object), provided no message lies in the class F-C13a; `model_trace_counterexample` is the
  kernel-checked trace for the excluded case.

  COMPLETENESS (forests of configurations that loaded — bound regenerated from Zone::OnAllConfigLoaded by
  gen/c13_zonelevels.py): `isChildOf_iff_below_loaded`, `config_update_object_accept_iff_entitled`,
  `config_delete_object_accept_iff_entitled`, `foreign_update_accept_iff_entitled` (guards neither laxer nor stricter
  than the statement), `sender_strictly_below_is_refused`, `entitledB_iff_entitled_loaded` (the executable predicate IS
  the proposition).  `model_trace_failure_is_fc13a` is the whole-trace theorem WITHOUT proviso;
  `relayed_update_entitles_first_hop` is the two-hop statement for an honest own-zone peer;
  `origin_claim_matters_only_for_own_zone_peer`: `originZone` is ignored for every other sender; `loadedB_sound` /
  `driver_forests_are_loaded`: the forests of the correspondence runs satisfy the hypothesis `Loaded`.

  History: F-C13b (`pki::UpdateCertificate` had no endpoint test; /repo ba4edd4) and F-C13c
  (`event::SetRemovalInfo` did not look at the object's zone; /repo cc1e22f) were found by this check and
  are repaired; their `…_partial`/`…_counterexample` pairs have been replaced by the full theorems.
-/
import IcingaProofs.C13.Lemmas
import IcingaProofs.C13.Trace
import IcingaProofs.C13.Complete
import IcingaProofs.Gen.ApiFunctions
import IcingaProofs.Gen.ZoneLevels

namespace Icinga.C13

/-! ## The table is complete -/

/-- **table_covers_registered_methods.**  The rows of the decision table are exactly the methods the
    source registers (list regenerated from `REGISTER_APIFUNCTION` on every run). -/
theorem table_covers_registered_methods : Method.all.map Method.name = Icinga.Gen.apiFunctions := by
  decide

/-- Every constructor of `Method` is a row (so `Method.all` is not a subset chosen to fit). -/
theorem all_methods_listed (m : Method) : m ∈ Method.all := by
  cases m <;> decide

/-- The driver finds the row of a method by its registered name. -/
theorem ofName_name (m : Method) : Method.ofName? m.name = some m := by
  cases m <;> decide

/-! ## accept ⇒ entitled, class by class (over ALL forests, contexts and fuels) -/

/-- Zone-internal bookkeeping (suppression state, last-notified state, notification events) is applied
    only from an authenticated endpoint of the receiver's own zone. -/
theorem accept_implies_entitled_zone_internal (f : Forest) (m : Method) (c : Ctx)
    (hm : m.cls = .zoneInternal) (h : accepts f m c = true) : Entitled f m c := by
  have key : c.endpoint.isSome = true ∧ guardLocal c = true := by
    cases m <;> simp [Method.cls] at hm <;> simp [accepts] at h <;> exact ⟨h.1.1, h.2⟩
  obtain ⟨ez, he⟩ := endpoint_isSome key.1
  obtain ⟨ha, hz⟩ := endpoint_some he
  refine Or.inr ⟨ha, ez, hz, ?_⟩
  rw [hm]
  exact guardLocal_sender he key.2

/-- Configuration files and runtime objects are applied only from an authenticated endpoint of the
    receiver's own zone or a zone above it, and only with `accept_config`. -/
theorem accept_implies_entitled_config (f : Forest) (m : Method) (c : Ctx)
    (hm : m.cls = .config) (h : accepts f m c = true) : Entitled f m c := by
  have key : ∃ ez, c.endpoint = some ez ∧ Below f c.localZone ez ∧ c.acceptConfig = true := by
    cases m <;> simp [Method.cls] at hm
    · -- config::DeleteObject
      simp [accepts] at h
      obtain ⟨ez, he, hb⟩ := guardConfigSender_sender f h.1.1.1
      exact ⟨ez, he, hb, h.1.1.2⟩
    · -- config::Update
      simp [accepts] at h
      obtain ⟨ez, he⟩ := endpoint_isSome h.1.1
      exact ⟨ez, he, guardParent_sender f he h.1.2, h.2⟩
    · -- config::UpdateObject
      simp [accepts] at h
      obtain ⟨ez, he, hb⟩ := guardConfigSender_sender f h.1
      exact ⟨ez, he, hb, h.2⟩
  obtain ⟨ez, he, hb, hc⟩ := key
  obtain ⟨ha, hz⟩ := endpoint_some he
  refine Or.inr ⟨ha, ez, hz, ?_⟩
  rw [hm]
  exact ⟨hb, hc⟩

/-- A command is executed — or forwarded towards the node it names — only for an authenticated endpoint of
    the receiver's own zone or a zone above it (the code admits only the direct parent), and executed only
    with `accept_commands`. -/
theorem accept_implies_entitled_command (f : Forest) (m : Method) (c : Ctx)
    (hm : m.cls = .command) (h : accepts f m c = true) : Entitled f m c := by
  cases m <;> simp [Method.cls] at hm
  simp only [accepts, Bool.and_eq_true] at h
  obtain ⟨ez, he, hb⟩ := guardCommandSender_sender f h.1
  obtain ⟨ha, hz⟩ := endpoint_some he
  refine Or.inr ⟨ha, ez, hz, hb, ?_⟩
  cases hf : c.forwardZone with
  | none => simp only [hf, Bool.and_eq_true] at h; exact Or.inr h.2.2
  | some tz => exact Or.inl rfl

/-- A command is forwarded only towards the receiver's own zone or a zone below it. -/
theorem forwarded_only_downwards (f : Forest) (c : Ctx) (tz : Zone) (hf : c.forwardZone = some tz)
    (h : accepts f .executeCommand c = true) : Below f tz c.localZone := by
  simp only [accepts, hf, Bool.and_eq_true] at h
  exact isChildOf_sound f _ _ h.2

/-- Version/capabilities/log position/heartbeat: only for an authenticated, configured endpoint. -/
theorem accept_implies_entitled_session (f : Forest) (m : Method) (c : Ctx)
    (hm : m.cls = .session) (h : accepts f m c = true) : Entitled f m c := by
  have key : c.endpoint.isSome = true := by
    cases m <;> simp [Method.cls] at hm <;> simp [accepts] at h <;> exact h
  obtain ⟨ez, he⟩ := endpoint_isSome key
  obtain ⟨ha, hz⟩ := endpoint_some he
  refine Or.inr ⟨ha, ez, hz, ?_⟩
  rw [hm]
  trivial

/-- State and event updates, check results and execution results **from another zone** are applied only
    for objects in the sender's zone or below it (check results: or from the command endpoint;
    execution results: for executions on endpoints of the sender's zone or below). -/
theorem accept_implies_entitled_update_from_other_zone (f : Forest) (m : Method) (c : Ctx)
    (hm : m.cls = .stateUpdate ∨ m.cls = .checkResult ∨ m.cls = .execResult)
    (hforeign : c.endpointZone ≠ some c.localZone)
    (h : accepts f m c = true) : Entitled f m c := by
  have hep : c.endpoint.isSome = true := by
    cases m <;> simp [Method.cls] at hm <;> simp [accepts] at h <;> first | exact h.1.1 | exact h.1.1.1
  obtain ⟨ez, he⟩ := endpoint_isSome hep
  obtain ⟨ha, hz⟩ := endpoint_some he
  have hne : ez ≠ c.localZone := by
    intro heq; apply hforeign; rw [hz, heq]
  have hfz := fromZone_foreign he hne
  refine Or.inr ⟨ha, ez, hz, ?_⟩
  rcases hm with hm | hm | hm
  · -- the nine `CanAccessObject` rows
    have hg : guardAccess f c = true := by
      cases m <;> simp [Method.cls] at hm <;> (simp [accepts] at h; exact h.2)
    rw [hm]
    exact guardAccess_foreign f he hne hg
  · -- event::CheckResult
    have hg : guardAccess f c = true ∨ c.senderIsCommandEndpoint = true := by
      cases m <;> simp [Method.cls] at hm
      simp [accepts] at h
      exact h.2
    rw [hm]
    exact hg.imp (guardAccess_foreign f he hne) id
  · -- event::ExecutedCommand
    have hg : guardExecEndpoint f c = true := by
      cases m <;> simp [Method.cls] at hm
      simp [accepts] at h
      exact h.2
    rw [hm]
    unfold guardExecEndpoint at hg
    cases hx : c.execEndpointZone with
    | none => simp [hx] at hg
    | some xz =>
      simp only [hx, hfz] at hg
      exact ⟨xz, hx, isChildOf_sound f _ _ hg⟩

/-- `event::SetRemovalInfo` additionally requires the sender's zone to be the receiver's own zone or a
    zone above it (clusterevents.cpp:1597). -/
theorem removal_info_only_from_own_zone_or_above (f : Forest) (c : Ctx)
    (h : accepts f .setRemovalInfo c = true) :
    c.authenticated = true ∧ ∃ s, c.endpointZone = some s ∧ Below f c.localZone s := by
  simp [accepts] at h
  obtain ⟨ez, he⟩ := endpoint_isSome h.1.1.1
  obtain ⟨ha, hz⟩ := endpoint_some he
  exact ⟨ha, ez, hz, guardParent_sender f he h.1.1.2⟩

/-- **accept_implies_entitled_cert_update** (full).  `pki::UpdateCertificate` is applied only from an
    authenticated, configured endpoint of the receiver's own zone or a zone above it. -/
theorem accept_implies_entitled_cert_update (f : Forest) (m : Method) (c : Ctx)
    (hm : m.cls = .certUpdate) (h : accepts f m c = true) : Entitled f m c := by
  cases m <;> simp [Method.cls] at hm
  simp [accepts] at h
  obtain ⟨ez, he⟩ := endpoint_isSome h.1
  obtain ⟨ha, hz⟩ := endpoint_some he
  exact Or.inr ⟨ha, ez, hz, guardParent_sender f he h.2⟩

/-- **accept_implies_entitled_partial** — the whole table in one statement.  For every forest, method
    and context: an accepted message comes from an entitled sender, *provided* the context is not
    an update-class method from a sender in the receiver's own zone (F-C13a). -/
theorem accept_implies_entitled_partial (f : Forest) (m : Method) (c : Ctx)
    (ha : (m.cls = .stateUpdate ∨ m.cls = .checkResult ∨ m.cls = .execResult) →
          c.endpointZone ≠ some c.localZone)
    (h : accepts f m c = true) : Entitled f m c := by
  cases hcls : m.cls with
  | stateUpdate => exact accept_implies_entitled_update_from_other_zone f m c (Or.inl hcls) (ha (Or.inl hcls)) h
  | checkResult => exact accept_implies_entitled_update_from_other_zone f m c (Or.inr (Or.inl hcls)) (ha (Or.inr (Or.inl hcls))) h
  | execResult => exact accept_implies_entitled_update_from_other_zone f m c (Or.inr (Or.inr hcls)) (ha (Or.inr (Or.inr hcls))) h
  | zoneInternal => exact accept_implies_entitled_zone_internal f m c hcls h
  | config => exact accept_implies_entitled_config f m c hcls h
  | command => exact accept_implies_entitled_command f m c hcls h
  | session => exact accept_implies_entitled_session f m c hcls h
  | certRequest => exact Or.inl hcls
  | certUpdate => exact accept_implies_entitled_cert_update f m c hcls h

/-! ## The counterexample F-C13a (kernel-checked; replayed on the real code by the harness) -/

/-- master (0) ← satellite (1) ← agent (2); zone 3 is unrelated, zone 4 is global. -/
def exForest : Forest :=
  { parent := fun z => if z = 1 then some 0 else if z = 2 then some 1 else none,
    isGlobal := fun z => z == 4 }

theorem not_below_master_satellite : ¬ Below exForest 0 1 := by
  intro h
  cases h with
  | step hp _ => simp [exForest] at hp

/-- A satellite (zone 1) receives `event::SetForceNextCheck` for a host of the *master* zone (0) from its
    HA peer (zone 1), no `originZone` in the message. -/
def exPeerNoOrigin : Ctx :=
  { authenticated := true, endpointZone := some 1, originZone := none, localZone := 1, objExists := true,
    objZone := some 0, senderIsCommandEndpoint := false, execEndpointZone := none, forwardZone := none,
    acceptConfig := false, acceptCommands := false }

/-- **F-C13a.**  The full statement fails: accepted, although the object is in the parent zone of the
    sender's zone. -/
theorem accept_implies_entitled_counterexample :
    ¬ (∀ (f : Forest) (m : Method) (c : Ctx), accepts f m c = true → Entitled f m c) := by
  intro hall
  have h := hall exForest .setForceNextCheck exPeerNoOrigin (by decide)
  rcases h with h | ⟨_, s, hs, he⟩
  · simp [Method.cls] at h
  · simp [exPeerNoOrigin] at hs
    subst hs
    simp only [Method.cls, EntitledZone, ObjWithin, exPeerNoOrigin] at he
    rcases he with he | he
    · simp [exForest] at he
    · exact not_below_master_satellite he

/-- F-C13a, second form: the own-zone peer names the master zone in `originZone`; the claim is taken at
    face value. -/
theorem accept_implies_entitled_counterexample_claimed_origin :
    accepts exForest .setAcknowledgement { exPeerNoOrigin with originZone := some 0 } = true ∧
    ¬ Entitled exForest .setAcknowledgement { exPeerNoOrigin with originZone := some 0 } := by
  refine ⟨by decide, ?_⟩
  rintro (h | ⟨_, s, hs, he⟩)
  · simp [Method.cls] at h
  · simp [exPeerNoOrigin] at hs
    subst hs
    simp only [Method.cls, EntitledZone, ObjWithin, exPeerNoOrigin] at he
    rcases he with he | he
    · simp [exForest] at he
    · exact not_below_master_satellite he

/-- F-C13a in general: for the nine `CanAccessObject` rows a sender in the receiver's own zone that
    sends no `originZone` is accepted for an object of ANY zone, in every forest. -/
theorem own_zone_sender_is_not_checked (f : Forest) (m : Method) (c : Ctx)
    (hm : m.cls = .stateUpdate)
    (hauth : c.authenticated = true) (hown : c.endpointZone = some c.localZone)
    (hno : c.originZone = none) (hobj : c.objExists = true) : accepts f m c = true := by
  have he : c.endpoint = some c.localZone := by simp [Ctx.endpoint, hauth, hown]
  have hfz : c.fromZone = none := by rw [fromZone_own he, hno]
  cases m <;> simp [Method.cls] at hm <;> simp [accepts, he, hobj, guardAccess, guardParent, hfz]

/-- An anonymous connection (certificate not verified) sends `pki::UpdateCertificate`. -/
def exAnonymous : Ctx :=
  { authenticated := false, endpointZone := none, originZone := none, localZone := 1, objExists := true,
    objZone := none, senderIsCommandEndpoint := false, execEndpointZone := none, forwardZone := none,
    acceptConfig := false, acceptCommands := false }

/-- **anonymous_only_certificate** (full).  A connection without authenticated, configured endpoint gets
    nothing but the certificate request past the guards — in every forest and context. -/
theorem anonymous_only_certificate (f : Forest) (m : Method) (c : Ctx)
    (hanon : c.endpoint = none) (h : accepts f m c = true) : m = .requestCertificate := by
  cases m <;> first
    | rfl
    | (simp [accepts, hanon, guardCommandSender, guardConfigSender] at h)

/-- master (0) ← satellite (1) ← agent (2): the agent (local zone 2) receives `event::SetRemovalInfo`
    from the satellite zone for a comment that belongs to the master zone (refused since cc1e22f). -/
def exRemoval : Ctx :=
  { authenticated := true, endpointZone := some 1, originZone := none, localZone := 2, objExists := true,
    objZone := some 0, senderIsCommandEndpoint := false, execEndpointZone := none, forwardZone := none,
    acceptConfig := false, acceptCommands := false }

/-! ## Refusal -/

/-- **refused_is_noop** (model level).  A message that does not get past its guards leaves the state as
    it is and sends nothing, whatever the method's effect would have been.  (That the *code's* refuse
    branches do the same is what the harness's before/after snapshot checks.) -/
theorem refused_is_noop {σ μ : Type} (f : Forest) (m : Method) (c : Ctx) (effect : σ → σ × List μ) (s : σ)
    (h : accepts f m c = false) : handle f m c effect s = (s, []) := by
  simp [handle, h]

/-- The heartbeat never does anything. -/
theorem heartbeat_is_noop (f : Forest) (c : Ctx) : accepts f .heartbeat c = false := rfl

/-! ## The executable specification is sound for the proposition -/

/-- What the driver evaluates (`entitledB`) implies the proposition the theorems are about. -/
theorem entitledB_sound (f : Forest) (m : Method) (c : Ctx) (h : entitledB f m c = true) : Entitled f m c := by
  unfold entitledB at h
  simp only [Bool.or_eq_true, beq_iff_eq, Bool.and_eq_true] at h
  rcases h with h | ⟨ha, h⟩
  · exact Or.inl h
  · cases hz : c.endpointZone with
    | none => simp [hz] at h
    | some s =>
      simp only [hz] at h
      refine Or.inr ⟨ha, s, hz, ?_⟩
      cases hcls : m.cls <;> simp only [hcls, entitledZoneB, EntitledZone] at h ⊢
      · exact objWithinB_sound f _ _ _ h
      · simp only [Bool.or_eq_true] at h
        exact h.imp (objWithinB_sound f _ _ _) id
      · cases hx : c.execEndpointZone with
        | none => simp [hx] at h
        | some xz => simp only [hx] at h; exact ⟨xz, rfl, belowB_sound f _ _ _ h⟩
      · simpa using h
      · simp only [Bool.and_eq_true] at h; exact ⟨belowB_sound f _ _ _ h.1, h.2⟩
      · simp only [Bool.and_eq_true, Bool.or_eq_true] at h; exact ⟨belowB_sound f _ _ _ h.1, h.2⟩
      · exact belowB_sound f _ _ _ h

/-! ## Non-vacuity -/

/-- The hypotheses of the per-class theorems are satisfiable on non-trivial contexts: the master (zone 0)
    sends `event::SetAcknowledgement` for a host of the agent zone (2) to the satellite (1) … -/
def exFromMaster : Ctx :=
  { authenticated := true, endpointZone := some 0, originZone := none, localZone := 1, objExists := true,
    objZone := some 2, senderIsCommandEndpoint := false, execEndpointZone := some 2, forwardZone := none,
    acceptConfig := true, acceptCommands := true }

example : accepts exForest .setAcknowledgement exFromMaster = true := by decide
example : accepts exForest .configUpdateObject exFromMaster = true := by decide
example : accepts exForest .executeCommand exFromMaster = true := by decide
example : accepts exForest .executedCommand exFromMaster = true := by decide
example : accepts exForest .setRemovalInfo exFromMaster = true := by decide
example : exFromMaster.endpointZone ≠ some exFromMaster.localZone := by decide
/-- … the same from the agent zone (2) is refused for a satellite-zone host, and zone-internal
    bookkeeping is refused from the master. -/
example : accepts exForest .setAcknowledgement { exFromMaster with endpointZone := some 2, objZone := some 1 } = false := by decide
example : accepts exForest .setSuppressedNotifications exFromMaster = false := by decide
example : accepts exForest .setSuppressedNotifications { exFromMaster with endpointZone := some 1 } = true := by decide
example : accepts exForest .configUpdateObject { exFromMaster with acceptConfig := false } = false := by decide
example : accepts exForest .executeCommand { exFromMaster with endpointZone := some 2 } = false := by decide
/-- forwarding: from the master towards the agent zone yes (also without accept_commands), from the agent zone
    towards anything no, towards the master zone no -/
example : accepts exForest .executeCommand { exFromMaster with forwardZone := some 2, acceptCommands := false } = true := by decide
example : accepts exForest .executeCommand { exFromMaster with endpointZone := some 2, forwardZone := some 2 } = false := by decide
example : accepts exForest .executeCommand { exFromMaster with forwardZone := some 0 } = false := by decide
example : specStep exForest .executeCommand { exFromMaster with endpointZone := some 2, forwardZone := some 2 } ⟨false, false, true, false, false⟩ = some .appliedOnlyIfEntitled := by decide
/-- the two repaired guards refuse their former witnesses; the legitimate senders are still accepted -/
example : accepts exForest .updateCertificate exAnonymous = false := by decide
example : accepts exForest .updateCertificate exFromMaster = true := by decide
example : accepts exForest .setRemovalInfo exRemoval = false := by decide
example : accepts exForest .setRemovalInfo { exRemoval with objZone := some 2 } = true := by decide
example : exAnonymous.endpoint = none := by decide
/-- objects of a global zone are everybody's -/
example : accepts exForest .setNextCheck { exFromMaster with endpointZone := some 2, objZone := some 4 } = true := by decide

/-- The specification predicate is not vacuous: it rejects an applied update from an unentitled zone,
    an applied message on an anonymous connection, and accepts the entitled one. -/
example : specStep exForest .setForceNextCheck exPeerNoOrigin ⟨true, false, false, false, true⟩ = some .appliedOnlyIfEntitled := by decide
example : specStep exForest .updateCertificate exAnonymous ⟨false, true, false, false, false⟩ = some .anonymousOnlyCertificate := by decide
example : specStep exForest .setForceNextCheck exPeerNoOrigin ⟨false, false, false, false, false⟩ = none := by decide
example : specStep exForest .setAcknowledgement exFromMaster ⟨true, false, true, false, true⟩ = none := by decide
example : specStep exForest .requestCertificate exAnonymous ⟨false, true, false, false, false⟩ = none := by decide

/-! ## The whole table without hypothesis, and the whole trace -/

/-- **accepted_is_entitledB_or_fc13a** — for EVERY forest, method and context: a message that gets past its guards
    satisfies the executable entitlement predicate the driver evaluates, or it lies in the class F-C13a
    (own-zone sender, update class, `originZone` absent or naming a zone that is itself entitled). -/
theorem accepted_is_entitledB_or_fc13a (f : Forest) (m : Method) (c : Ctx) (h : accepts f m c = true) :
    entitledB f m c = true ∨ inFC13a f m c = true := by
  cases hcls : m.cls with
  | stateUpdate | checkResult | execResult =>
    all_goals
      have hm : m.cls = .stateUpdate ∨ m.cls = .checkResult ∨ m.cls = .execResult := by simp [hcls]
      obtain ⟨ez, he⟩ := endpoint_isSome (update_has_endpoint f m c hm h)
      obtain ⟨ha, hz⟩ := endpoint_some he
      by_cases hown : ez = c.localZone
      · subst hown
        right
        have hfz := fromZone_own he
        cases horg : c.originZone with
        | none => simp [inFC13a, hcls, ha, hz, horg]
        | some z =>
          have := update_guard_fromZone f m c z hm (by rw [hfz, horg]) h
          rw [hcls] at this
          simp [inFC13a, hcls, ha, hz, horg, this]
      · left
        have := update_guard_fromZone f m c ez hm (fromZone_foreign he hown) h
        exact entitledB_of_zone f m he this
  | zoneInternal =>
    left
    have key : c.endpoint.isSome = true ∧ guardLocal c = true := by
      cases m <;> simp [Method.cls] at hcls <;> simp [accepts] at h <;> exact ⟨h.1.1, h.2⟩
    obtain ⟨ez, he⟩ := endpoint_isSome key.1
    refine entitledB_of_zone f m he ?_
    rw [hcls]
    simp [entitledZoneB, guardLocal_sender he key.2]
  | config =>
    left
    have key : ∃ ez, c.endpoint = some ez ∧ belowB f specDepth c.localZone ez = true ∧ c.acceptConfig = true := by
      cases m <;> simp [Method.cls] at hcls
      · simp [accepts] at h
        obtain ⟨ez, he, hb⟩ := guardConfigSender_belowB f h.1.1.1
        exact ⟨ez, he, hb, h.1.1.2⟩
      · simp [accepts] at h
        obtain ⟨ez, he⟩ := endpoint_isSome h.1.1
        exact ⟨ez, he, guardParent_belowB f he h.1.2, h.2⟩
      · simp [accepts] at h
        obtain ⟨ez, he, hb⟩ := guardConfigSender_belowB f h.1
        exact ⟨ez, he, hb, h.2⟩
    obtain ⟨ez, he, hb, hc⟩ := key
    refine entitledB_of_zone f m he ?_
    rw [hcls]
    simp [entitledZoneB, hb, hc]
  | command =>
    left
    cases m <;> simp [Method.cls] at hcls
    simp only [accepts, Bool.and_eq_true] at h
    obtain ⟨ez, he, hb⟩ := guardCommandSender_belowB f h.1
    refine entitledB_of_zone f _ he ?_
    cases hf : c.forwardZone with
    | none => simp only [hf, Bool.and_eq_true] at h; simp [Method.cls, entitledZoneB, hb, h.2.2]
    | some tz => simp [Method.cls, entitledZoneB, hb, hf]
  | certUpdate =>
    left
    cases m <;> simp [Method.cls] at hcls
    simp [accepts] at h
    obtain ⟨ez, he⟩ := endpoint_isSome h.1
    refine entitledB_of_zone f _ he ?_
    simp [Method.cls, entitledZoneB, guardParent_belowB f he h.2]
  | session =>
    left
    have key : c.endpoint.isSome = true := by
      cases m <;> simp [Method.cls] at hcls <;> simp [accepts] at h <;> exact h
    obtain ⟨ez, he⟩ := endpoint_isSome key
    refine entitledB_of_zone f m he ?_
    rw [hcls]; rfl
  | certRequest => left; simp [entitledB, hcls]

/-- **accept_implies_entitled_or_claimed** — the same as a proposition, and the exact shape of F-C13a: an accepted
    message comes from an entitled sender, or it is an update-class message from an authenticated endpoint of the
    receiver's own zone whose `originZone` is absent/unknown or names a zone that IS entitled.  In particular
    nothing else escapes: no other class, no foreign sender, no claim of a zone that is not entitled. -/
theorem accept_implies_entitled_or_claimed (f : Forest) (m : Method) (c : Ctx) (h : accepts f m c = true) :
    Entitled f m c ∨
    ((m.cls = .stateUpdate ∨ m.cls = .checkResult ∨ m.cls = .execResult) ∧ c.authenticated = true ∧
     c.endpointZone = some c.localZone ∧
     (c.originZone = none ∨ ∃ z, c.originZone = some z ∧ EntitledZone f m.cls z c)) := by
  rcases accepted_is_entitledB_or_fc13a f m c h with h | h
  · exact Or.inl (entitledB_sound f m c h)
  · right
    simp only [inFC13a, Bool.and_eq_true, Bool.or_eq_true, beq_iff_eq] at h
    obtain ⟨⟨⟨hm, ha⟩, hz⟩, ho⟩ := h
    refine ⟨?_, ha, hz, ?_⟩
    · rcases hm with (hm | hm) | hm
      · exact Or.inl hm
      · exact Or.inr (Or.inl hm)
      · exact Or.inr (Or.inr hm)
    · cases horg : c.originZone with
      | none => exact Or.inl rfl
      | some z =>
        simp only [horg] at ho
        exact Or.inr ⟨z, rfl, entitledZoneB_sound f _ z c ho⟩

/-- **own_zone_claim_not_entitled_is_refused** — the boundary of F-C13a from the other side: an own-zone peer that
    names in `originZone` a zone which is NOT entitled to the message is refused, in every forest. -/
theorem own_zone_claim_not_entitled_is_refused (f : Forest) (m : Method) (c : Ctx) (z : Zone)
    (hm : m.cls = .stateUpdate ∨ m.cls = .checkResult ∨ m.cls = .execResult)
    (hown : c.endpoint = some c.localZone) (horg : c.originZone = some z)
    (hne : ¬ EntitledZone f m.cls z c) : accepts f m c = false := by
  cases hacc : accepts f m c with
  | false => rfl
  | true =>
    exfalso
    apply hne
    have hfz : c.fromZone = some z := by rw [fromZone_own hown, horg]
    exact entitledZoneB_sound f _ z c (update_guard_fromZone f m c z hm hfz hacc)

/-- The specification accepts an observation whose changes are covered by the entitlement and whose
    connection-bookkeeping stays on the sender's Endpoint object. -/
theorem specStep_none_of (f : Forest) (m : Method) (c : Ctx) (o : Obs)
    (hent : o.applied = true → entitledB f m c = true)
    (hsess : m.cls = .session → o.foreign = false ∧ o.files = false ∧ o.relayed = false ∧ o.executed = false) :
    specStep f m c o = none := by
  unfold specStep
  cases happ : o.applied with
  | false =>
    by_cases hs : m.cls = .session
    · obtain ⟨h1, h2, h3, h4⟩ := hsess hs
      simp [h1, h2, h3, h4]
    · simp [hs]
  | true =>
    have he := hent happ
    have hauth : m.cls = .certRequest ∨ (c.authenticated = true ∧ c.endpointZone.isSome = true) := by
      unfold entitledB at he
      simp only [Bool.or_eq_true, beq_iff_eq, Bool.and_eq_true] at he
      rcases he with he | ⟨ha, he⟩
      · exact Or.inl he
      · right
        cases hz : c.endpointZone with
        | none => simp [hz] at he
        | some s => exact ⟨ha, rfl⟩
    by_cases hs : m.cls = .session
    · obtain ⟨h1, h2, h3, h4⟩ := hsess hs
      rcases hauth with hc | ⟨ha, hz⟩
      · simp [hc] at hs
      · simp [he, ha, hz, h1, h2, h3, h4]
    · rcases hauth with hc | ⟨ha, hz⟩
      · simp [he, hc]
      · simp [he, ha, hz, hs]

theorem touchesOnlySenderEndpoint_iff (m : Method) : touchesOnlySenderEndpoint m = true ↔ m.cls = .session := by
  cases m <;> simp [touchesOnlySenderEndpoint, Method.cls]

/-- **model_step_satisfies_spec** — for every forest, method, context and every effect: the model's observation
    of the message satisfies the specification, unless the message lies in the class F-C13a. -/
theorem model_step_satisfies_spec (f : Forest) (m : Method) (c : Ctx) (eff : Obs)
    (hk : inFC13a f m c = false) : specStep f m c (observe f m c eff) = none := by
  apply specStep_none_of
  · intro happ
    unfold observe at happ
    by_cases ha : applies f m c = true
    · have hacc : accepts f m c = true := by
        simp only [applies, Bool.and_eq_true] at ha; exact ha.1
      rcases accepted_is_entitledB_or_fc13a f m c hacc with h | h
      · exact h
      · rw [hk] at h; cases h
    · simp [ha, Obs.nothing, Obs.applied] at happ
  · intro hs
    unfold observe
    by_cases ha : applies f m c = true
    · simp [ha, (touchesOnlySenderEndpoint_iff m).mpr hs]
    · simp [ha, Obs.nothing]

/-- The trace of the model for a sequence of messages with arbitrary effects. -/
def modelTrace (f : Forest) (msgs : List (Method × Ctx × Obs)) : List (Method × Ctx × Obs) :=
  msgs.map (fun s => (s.1, s.2.1, observe f s.1 s.2.1 s.2.2))

/-- **model_trace_satisfies_spec_partial** — THE WHOLE-TRACE THEOREM.  For every zone forest and every sequence
    of messages (any methods, any contexts, any effects, any length): the specification predicate that the driver
    evaluates on the implementation's observations finds no violation in the model's observations — provided no
    message of the sequence lies in the class F-C13a.  (The full statement, without the proviso, is false of the
    unchanged code: `model_trace_counterexample`.) -/
theorem model_trace_satisfies_spec_partial (f : Forest) (msgs : List (Method × Ctx × Obs))
    (hk : ∀ s ∈ msgs, inFC13a f s.1 s.2.1 = false) (i : Nat) :
    specTrace f (modelTrace f msgs) i = none := by
  induction msgs generalizing i with
  | nil => rfl
  | cons s rest ih =>
    obtain ⟨m, c, eff⟩ := s
    have h1 := model_step_satisfies_spec f m c eff (hk (m, c, eff) (List.mem_cons_self ..))
    simp only [modelTrace, List.map_cons, specTrace, h1]
    exact ih (fun s hs => hk s (List.mem_cons_of_mem _ hs)) (i + 1)

/-- **model_trace_counterexample** (F-C13a on the trace level): an entitled message followed by the own-zone
    peer's update for a master-zone host; the specification fails at index 1. -/
theorem model_trace_counterexample :
    specTrace exForest (modelTrace exForest
      [(.setAcknowledgement, exFromMaster, { objects := true, files := false, relayed := true, executed := false }),
       (.setForceNextCheck, exPeerNoOrigin, { objects := true, files := false, relayed := false, executed := false })]) 0
      = some (1, .appliedOnlyIfEntitled) := by
  decide

/-- A refused message shows nothing — for every method and effect (here `observe` is the model's whole step, the
    connection-bookkeeping confinement included). -/
theorem refused_observes_nothing (f : Forest) (m : Method) (c : Ctx) (eff : Obs)
    (h : accepts f m c = false) : (observe f m c eff).applied = false := by
  simp [observe, applies, h, Obs.nothing, Obs.applied]

/-- `config::UpdateObject` needs `accept_config` in BOTH of its branches — creating an object that does not exist
    yet and modifying one that does — and `config::DeleteObject` deletes nothing the API did not create. -/
theorem update_object_needs_accept_config (f : Forest) (c : Ctx)
    (h : applies f .configUpdateObject c = true) :
    c.acceptConfig = true ∧ (if c.objExists then c.versionNewer = true else c.configEmpty = false) := by
  simp only [applies, accepts, effective, Bool.and_eq_true] at h
  refine ⟨h.1.2, ?_⟩
  cases hx : c.objExists <;> simp [hx] at h ⊢ <;> exact h.2

theorem delete_object_only_api_package (f : Forest) (c : Ctx)
    (h : applies f .configDeleteObject c = true) :
    c.acceptConfig = true ∧ c.objExists = true ∧ c.apiPackage = true := by
  simp [applies, accepts, effective] at h
  exact ⟨h.1.1.2, h.1.2, h.2⟩

/-- Not only refusals: a state/event update from a zone other than the receiver's that may access the object IS
    accepted (so the table is not trivially `false`; `event::SetRemovalInfo` additionally wants the sender above). -/
theorem entitled_foreign_update_is_accepted (f : Forest) (m : Method) (c : Ctx) (s : Zone)
    (hm : m.cls = .stateUpdate) (hnr : m ≠ .setRemovalInfo)
    (ha : c.authenticated = true) (hz : c.endpointZone = some s) (hne : s ≠ c.localZone)
    (hobj : c.objExists = true) (hacc : canAccessObject f c.localZone s c.objZone = true) :
    accepts f m c = true := by
  have he : c.endpoint = some s := by simp [Ctx.endpoint, ha, hz]
  have hfz := fromZone_foreign he hne
  cases m <;> simp [Method.cls] at hm <;> first
    | exact absurd rfl hnr
    | simp [accepts, he, hobj, guardAccess, hfz, hacc]

/-! ## Non-vacuity of the trace-level theorems and of the new clauses -/

/-- The satellite's own-zone peer names the AGENT zone (2) for a master-zone host: outside F-C13a, and refused. -/
def exPeerClaimsAgent : Ctx := { exPeerNoOrigin with originZone := some 2 }

/-- both disjuncts of `accepted_is_entitledB_or_fc13a` occur, and the narrowed class excludes the unentitled claim -/
example : accepts exForest .setAcknowledgement exFromMaster = true ∧ entitledB exForest .setAcknowledgement exFromMaster = true ∧
    inFC13a exForest .setAcknowledgement exFromMaster = false := by decide
example : accepts exForest .setForceNextCheck exPeerNoOrigin = true ∧ entitledB exForest .setForceNextCheck exPeerNoOrigin = false ∧
    inFC13a exForest .setForceNextCheck exPeerNoOrigin = true := by decide
example : inFC13a exForest .setAcknowledgement { exPeerNoOrigin with originZone := some 0 } = true := by decide
example : inFC13a exForest .setForceNextCheck exPeerClaimsAgent = false ∧ accepts exForest .setForceNextCheck exPeerClaimsAgent = false := by decide
/-- hypotheses of `own_zone_claim_not_entitled_is_refused` on that context -/
example : exPeerClaimsAgent.endpoint = some exPeerClaimsAgent.localZone ∧ exPeerClaimsAgent.originZone = some 2 := by decide
example : ¬ EntitledZone exForest Method.setForceNextCheck.cls 2 exPeerClaimsAgent := by
  simp only [Method.cls, EntitledZone, ObjWithin, exPeerClaimsAgent, exPeerNoOrigin]
  rintro (h | h)
  · simp [exForest] at h
  · cases h with
    | step hp _ => simp [exForest] at hp
/-- a spec failure for the unentitled claim would NOT be excused: the predicate rejects it like any other -/
example : specStep exForest .setForceNextCheck exPeerClaimsAgent { objects := true, files := false, relayed := false, executed := false } = some .appliedOnlyIfEntitled := by decide

/-- `model_step_satisfies_spec` / `model_trace_satisfies_spec_partial`: hypothesis satisfiable on a trace with accepted,
    refused and connection-bookkeeping messages (and the model really applies the first and the third) -/
def exMsgs : List (Method × Ctx × Obs) :=
  [(.setAcknowledgement, exFromMaster, { objects := true, files := false, relayed := true, executed := false }),
   (.setSuppressedNotifications, exFromMaster, { objects := true, files := false, relayed := false, executed := false }),
   (.hello, exFromMaster, { objects := true, files := true, relayed := true, executed := true }),
   (.configUpdateObject, { exFromMaster with acceptConfig := false, objExists := true }, { objects := true, files := false, relayed := true, executed := false }),
   (.updateCertificate, exAnonymous, { objects := false, files := true, relayed := false, executed := false })]
example : ∀ s ∈ exMsgs, inFC13a exForest s.1 s.2.1 = false := by decide
example : (modelTrace exForest exMsgs).map (fun s => s.2.2.applied) = [true, false, true, false, false] := by decide
example : specTrace exForest (modelTrace exForest exMsgs) 0 = none := by decide
/-- the same trace as an implementation that ignores accept_config / lets Hello touch other objects would show it -/
example : specTrace exForest exMsgs 0 = some (1, .appliedOnlyIfEntitled) := by decide
example : specTrace exForest (exMsgs.drop 2) 0 = some (0, .sessionOnlyOwnEndpoint) := by decide
example : specTrace exForest (exMsgs.drop 3) 0 = some (0, .appliedOnlyIfEntitled) := by decide
example : specTrace exForest (exMsgs.drop 4) 0 = some (0, .anonymousOnlyCertificate) := by decide

/-- `session_only_own_endpoint`: rejects a Hello that changes another object; accepts one that changes the sender's
    Endpoint object only -/
example : specStep exForest .hello exFromMaster { objects := true, files := false, relayed := false, executed := false, foreign := true } = some .sessionOnlyOwnEndpoint := by decide
example : specStep exForest .hello exFromMaster { objects := true, files := false, relayed := false, executed := false, foreign := false } = none := by decide

/-- config::UpdateObject / DeleteObject: every branch (`update_object_needs_accept_config`, `delete_object_only_api_package`) -/
example : applies exForest .configUpdateObject { exFromMaster with objExists := false } = true := by decide
example : applies exForest .configUpdateObject { exFromMaster with objExists := false, configEmpty := true } = false := by decide
example : applies exForest .configUpdateObject { exFromMaster with objExists := true } = true := by decide
example : applies exForest .configUpdateObject { exFromMaster with objExists := true, versionNewer := false } = false := by decide
example : applies exForest .configUpdateObject { exFromMaster with objExists := true, acceptConfig := false } = false := by decide
example : applies exForest .configDeleteObject exFromMaster = true := by decide
example : applies exForest .configDeleteObject { exFromMaster with apiPackage := false } = false := by decide
/-- the spec rejects a modification of an existing object that went through without accept_config -/
example : specStep exForest .configUpdateObject { exFromMaster with objExists := true, acceptConfig := false }
    { objects := true, files := false, relayed := true, executed := false } = some .appliedOnlyIfEntitled := by decide

/-- check results: the command endpoint's zone mate is NOT the command endpoint — the agent (zone 2) sends a result for a
    master-zone host whose command endpoint is the agent's HA partner -/
example : specStep exForest .checkResult { exFromMaster with endpointZone := some 2, localZone := 0, objZone := some 0, senderIsCommandEndpoint := false }
    { objects := true, files := false, relayed := true, executed := false } = some .appliedOnlyIfEntitled := by decide
example : accepts exForest .checkResult { exFromMaster with endpointZone := some 2, localZone := 0, objZone := some 0, senderIsCommandEndpoint := false } = false := by decide
example : accepts exForest .checkResult { exFromMaster with endpointZone := some 2, localZone := 0, objZone := some 0, senderIsCommandEndpoint := true } = true := by decide

/-- forwarding error notices: towards the agent zone (2) from the master (local 0): the satellite zone is the child on
    the way; the notice goes to the own zone and the parent zone — the master has no parent, so if the sender is the
    master's own peer nobody else hears of it -/
example : forwardErrorNotice exForest { exFromMaster with localZone := 0, childLacksCapability := true } 2 = true := by decide
example : forwardErrorNotice exForest { exFromMaster with localZone := 0, hostInaccessibleToChild := true } 2 = true := by decide
example : forwardErrorNotice exForest { exFromMaster with localZone := 0, hostInaccessibleToChild := true } 1 = false := by decide
example : applies exForest .executeCommand { exFromMaster with localZone := 0, forwardZone := some 2, childLacksCapability := true } = false := by decide
example : applies exForest .executeCommand { exFromMaster with forwardZone := some 2, childLacksCapability := true } = true := by decide

/-- `entitled_foreign_update_is_accepted`: its hypotheses hold for the master's acknowledgement -/
example : exFromMaster.authenticated = true ∧ exFromMaster.endpointZone = some 0 ∧ (0 : Zone) ≠ exFromMaster.localZone ∧
    exFromMaster.objExists = true ∧ canAccessObject exForest exFromMaster.localZone 0 exFromMaster.objZone = true := by decide

/-! ## Completeness: in the forests of configurations that loaded, the guards are EXACTLY the property's relations -/

/-- A zone forest within the bound that `Zone::OnAllConfigLoaded` enforces (constant regenerated from zone.cpp on every
    run): every zone has at most `maxLevels` proper ancestors; no cycles. -/
abbrev LoadedSrc (f : Forest) : Prop := Loaded f Icinga.Gen.ZoneLevels.maxLevels

/-- **fuel_covers_source_level_limit.**  The walk of the model's `IsChildOf` is longer than every chain of parents of a
    configuration the source admits. -/
theorem fuel_covers_source_level_limit : Icinga.Gen.ZoneLevels.maxLevels < maxDepth := by decide

/-- **isChildOf_iff_below_loaded.**  On every loaded forest `Zone::IsChildOf` as modelled (fuel 40) IS the relation
    "the zone itself or a zone below it" — complete, not merely sound. -/
theorem isChildOf_iff_below_loaded (f : Forest) (hl : LoadedSrc f) (a z : Zone) :
    isChildOf f a z = true ↔ Below f a z :=
  isChildOf_iff_below_of_loaded hl fuel_covers_source_level_limit a z

/-- **config_update_object_accept_iff_entitled.**  `config::UpdateObject` gets past its guards IF AND ONLY IF the
    property entitles the sender (authenticated, configured, own zone or above, accept_config): the guard is neither
    laxer nor stricter than the statement. -/
theorem config_update_object_accept_iff_entitled (f : Forest) (hl : LoadedSrc f) (c : Ctx) :
    accepts f .configUpdateObject c = true ↔ Entitled f .configUpdateObject c := by
  constructor
  · exact accept_implies_entitled_config f _ c rfl
  · rintro (h | ⟨ha, s, hz, hb, hc⟩)
    · simp [Method.cls] at h
    · have he : c.endpoint = some s := by simp [Ctx.endpoint, ha, hz]
      simp [accepts, guardConfigSender, he, hc, (isChildOf_iff_below_loaded f hl _ _).mpr hb]

/-- The same for `config::DeleteObject`, which additionally wants an existing object of package `_api`. -/
theorem config_delete_object_accept_iff_entitled (f : Forest) (hl : LoadedSrc f) (c : Ctx) :
    accepts f .configDeleteObject c = true ↔
      (Entitled f .configDeleteObject c ∧ c.objExists = true ∧ c.apiPackage = true) := by
  constructor
  · intro h
    refine ⟨accept_implies_entitled_config f _ c rfl h, ?_⟩
    simp [accepts] at h
    exact ⟨h.1.2, h.2⟩
  · rintro ⟨h | ⟨ha, s, hz, hb, hc⟩, ho, hp⟩
    · simp [Method.cls] at h
    · have he : c.endpoint = some s := by simp [Ctx.endpoint, ha, hz]
      simp [accepts, guardConfigSender, he, hc, ho, hp, (isChildOf_iff_below_loaded f hl _ _).mpr hb]

/-- **foreign_update_accept_iff_entitled.**  A state/event update from a sender of ANOTHER zone is applied if and only
    if the property entitles the sender (the object lies in the sender's zone or below it, or in a global zone) and the
    object exists.  (`event::SetRemovalInfo` is stricter: `removal_info_only_from_own_zone_or_above`.) -/
theorem foreign_update_accept_iff_entitled (f : Forest) (hl : LoadedSrc f) (m : Method) (c : Ctx) (s : Zone)
    (hm : m.cls = .stateUpdate) (hnr : m ≠ .setRemovalInfo)
    (hz : c.endpointZone = some s) (hne : s ≠ c.localZone) :
    accepts f m c = true ↔ (Entitled f m c ∧ c.objExists = true) := by
  constructor
  · intro h
    refine ⟨accept_implies_entitled_update_from_other_zone f m c (Or.inl hm) (by rw [hz]; intro h'; exact hne (Option.some.inj h')) h, ?_⟩
    cases m <;> simp [Method.cls] at hm <;> (simp [accepts] at h; exact h.1.2)
  · rintro ⟨h | ⟨ha, s', hz', he⟩, ho⟩
    · rw [hm] at h; cases h
    · rw [hz] at hz'; cases hz'
      rw [hm] at he
      exact entitled_foreign_update_is_accepted f m c s hm hnr ha hz hne ho
        ((canAccessObject_iff_of_loaded hl fuel_covers_source_level_limit _ _ _).mpr he)

/-- **sender_strictly_below_is_refused.**  On every loaded forest: configuration (files, runtime objects, deletions),
    command execution/forwarding, the node's certificate and removal information are NEVER applied for a sender whose
    zone lies strictly below the receiver's — whatever the message says (`originZone` included), whatever the
    accept_* settings. -/
theorem sender_strictly_below_is_refused (f : Forest) (hl : LoadedSrc f) (m : Method) (c : Ctx) (s : Zone)
    (hm : m.cls = .config ∨ m.cls = .command ∨ m.cls = .certUpdate ∨ m = .setRemovalInfo)
    (hz : c.endpointZone = some s) (hbelow : Below f s c.localZone) (hne : s ≠ c.localZone) :
    accepts f m c = false := by
  cases hacc : accepts f m c with
  | false => rfl
  | true =>
    exfalso
    apply hne
    apply Below.antisymm_of_loaded hl hbelow
    rcases hm with hm | hm | hm | hm
    · rcases accept_implies_entitled_config f m c hm hacc with h | ⟨_, s', hz', he⟩
      · rw [hm] at h; cases h
      · rw [hz] at hz'; cases hz'; rw [hm] at he; exact he.1
    · rcases accept_implies_entitled_command f m c hm hacc with h | ⟨_, s', hz', he⟩
      · rw [hm] at h; cases h
      · rw [hz] at hz'; cases hz'; rw [hm] at he; exact he.1
    · rcases accept_implies_entitled_cert_update f m c hm hacc with h | ⟨_, s', hz', he⟩
      · rw [hm] at h; cases h
      · rw [hz] at hz'; cases hz'; rw [hm] at he; exact he
    · subst hm
      obtain ⟨_, s', hz', hb⟩ := removal_info_only_from_own_zone_or_above f c hacc
      rw [hz] at hz'; cases hz'; exact hb

/-! ## The whole trace WITHOUT hypothesis -/

/-- **model_step_failure_is_fc13a.**  For every forest, method, context and effect: if the specification finds
    anything at all in the model's observation of a message, it is the clause `applied_only_if_entitled`, the message
    got past its guards and lies in the class F-C13a.  (No other clause can fail, no other class of message.) -/
theorem model_step_failure_is_fc13a (f : Forest) (m : Method) (c : Ctx) (eff : Obs) (cl : Clause)
    (h : specStep f m c (observe f m c eff) = some cl) :
    cl = .appliedOnlyIfEntitled ∧ inFC13a f m c = true ∧ accepts f m c = true := by
  cases hk : inFC13a f m c with
  | false => rw [model_step_satisfies_spec f m c eff hk] at h; cases h
  | true =>
    have hk' := hk
    simp only [inFC13a, Bool.and_eq_true, Bool.or_eq_true, beq_iff_eq] at hk'
    obtain ⟨⟨⟨hcls, ha⟩, hz⟩, _⟩ := hk'
    have hns : m.cls ≠ .session := by
      rcases hcls with (h' | h') | h' <;> rw [h'] <;> decide
    unfold specStep at h
    split at h
    · rename_i hc
      simp [ha, hz] at hc
    · split at h
      · rename_i hc
        simp only [Bool.and_eq_true] at hc
        refine ⟨(Option.some.inj h).symm, rfl, ?_⟩
        cases hacc : accepts f m c with
        | true => rfl
        | false =>
          have := refused_observes_nothing f m c eff hacc
          rw [this] at hc
          cases hc.1
      · split at h
        · rename_i hc
          simp [hns] at hc
        · cases h

/-- **model_trace_failure_is_fc13a** — THE WHOLE-TRACE THEOREM WITHOUT PROVISO.  For every zone forest and every
    sequence of messages (any methods, contexts, effects, length): whatever the specification predicate reports on the
    model's trace is the clause `applied_only_if_entitled` at a message that was accepted and lies in the class F-C13a —
    exactly what the check files under the known finding; every other report of the predicate on the implementation's
    trace is a deviation from the model. -/
theorem model_trace_failure_is_fc13a (f : Forest) (msgs : List (Method × Ctx × Obs)) (i k : Nat) (cl : Clause)
    (h : specTrace f (modelTrace f msgs) i = some (k, cl)) :
    cl = .appliedOnlyIfEntitled ∧ ∃ j s, k = i + j ∧ msgs[j]? = some s ∧
      inFC13a f s.1 s.2.1 = true ∧ accepts f s.1 s.2.1 = true := by
  induction msgs generalizing i with
  | nil => simp [modelTrace, specTrace] at h
  | cons s rest ih =>
    obtain ⟨m, c, eff⟩ := s
    simp only [modelTrace, List.map_cons, specTrace] at h
    cases hs : specStep f m c (observe f m c eff) with
    | some cl' =>
      simp only [hs] at h
      cases h
      obtain ⟨h1, h2, h3⟩ := model_step_failure_is_fc13a f m c eff cl hs
      exact ⟨h1, 0, (m, c, eff), rfl, rfl, h2, h3⟩
    | none =>
      simp only [hs] at h
      obtain ⟨h1, j, s, hk, hj, h2, h3⟩ := ih (i + 1) h
      exact ⟨h1, j + 1, s, by omega, by simpa using hj, h2, h3⟩

/-! ## The executable specification IS the proposition on loaded forests -/

theorem belowB_complete {f : Forest} {d : Zone → Nat} (hd : ∀ a p, f.parent a = some p → d p < d a)
    {a z : Zone} (h : Below f a z) : ∀ n, d a - d z < n → belowB f n a z = true := by
  induction h with
  | refl a =>
    intro n hn
    cases n with
    | zero => omega
    | succ n => simp [belowB]
  | step hp hb ih =>
    rename_i a p z
    intro n hn
    cases n with
    | zero => omega
    | succ n =>
      unfold belowB
      have h3 := hd _ _ hp
      have h4 := Below.rank_le hd hb
      simp only [hp, Bool.or_eq_true]
      exact Or.inr (ih n (by omega))

theorem belowB_iff_below_loaded (f : Forest) (hl : LoadedSrc f) (a z : Zone) :
    belowB f specDepth a z = true ↔ Below f a z := by
  constructor
  · exact belowB_sound f _ a z
  · intro h
    obtain ⟨d, hd, hle⟩ := hl
    apply belowB_complete hd h
    have := hle a
    have : Icinga.Gen.ZoneLevels.maxLevels < specDepth := by decide
    omega

/-- **entitledB_iff_entitled_loaded.**  On every loaded forest the predicate the driver evaluates on the
    implementation's observations (`entitledB`, walk length 64) is EQUIVALENT to the proposition `Entitled` the theorems
    are about: a `SPECFAIL applied_only_if_entitled` is never an artefact of the executable walk, and no unentitled
    message slips through it. -/
theorem entitledB_iff_entitled_loaded (f : Forest) (hl : LoadedSrc f) (m : Method) (c : Ctx) :
    entitledB f m c = true ↔ Entitled f m c := by
  constructor
  · exact entitledB_sound f m c
  · rintro (h | ⟨ha, s, hz, he⟩)
    · simp [entitledB, h]
    · have hb := fun a z => (belowB_iff_below_loaded f hl a z).mpr
      have hw : ∀ oz, ObjWithin f c.localZone s oz → objWithinB f c.localZone s oz = true := by
        intro oz h
        unfold ObjWithin at h
        unfold objWithinB
        simp only [Bool.or_eq_true]
        exact h.imp id (hb _ _)
      simp only [entitledB, ha, hz, Bool.true_and, Bool.or_eq_true]
      right
      cases hcls : m.cls <;> simp only [hcls, EntitledZone, entitledZoneB] at he ⊢
      · exact hw _ he
      · simp only [Bool.or_eq_true]; exact he.imp (hw _) id
      · obtain ⟨ez, hx, hbel⟩ := he
        simp only [hx]; exact hb _ _ hbel
      · simp [he]
      · simp only [Bool.and_eq_true]; exact ⟨hb _ _ he.1, he.2⟩
      · simp only [Bool.and_eq_true, Bool.or_eq_true]; exact ⟨hb _ _ he.1, he.2⟩
      · exact hb _ _ he

/-! ## Two hops: what an honest peer of the own zone relays -/

/-- The context in which the receiver sees a message that its own-zone peer received under `c1` and relayed:
    `ApiListener::SyncRelayMessage` (apilistener.cpp:1337-1338) writes the name of `origin->FromZone` into `originZone`
    when there is one; the connection is the peer's (authenticated, own zone), which is not the command endpoint. -/
def relayedByPeer (c1 : Ctx) : Ctx :=
  { c1 with authenticated := true, endpointZone := some c1.localZone, originZone := c1.fromZone,
            senderIsCommandEndpoint := false }

/-- **relayed_update_entitles_first_hop** (what F-C13a leaves intact).  If the own-zone peer relays honestly — i.e. puts
    the zone of the endpoint IT received the message from into `originZone` — then an update-class message the receiver
    accepts from the peer is one the FIRST-HOP sender (of another zone) is entitled to: the `originZone` detour loses
    nothing as long as the peer does not lie.  For every forest, method and first-hop context. -/
theorem relayed_update_entitles_first_hop (f : Forest) (m : Method) (c1 : Ctx) (s : Zone)
    (hm : m.cls = .stateUpdate ∨ m.cls = .checkResult ∨ m.cls = .execResult)
    (he : c1.endpoint = some s) (hne : s ≠ c1.localZone)
    (h : accepts f m (relayedByPeer c1) = true) : Entitled f m c1 := by
  have hfz1 : c1.fromZone = some s := fromZone_foreign he hne
  have he2 : (relayedByPeer c1).endpoint = some (relayedByPeer c1).localZone := by
    simp [relayedByPeer, Ctx.endpoint]
  have hfz2 : (relayedByPeer c1).fromZone = some s := by
    rw [fromZone_own he2]; simp [relayedByPeer, hfz1]
  have hz := entitledZoneB_sound f _ s _ (update_guard_fromZone f m _ s hm hfz2 h)
  obtain ⟨ha, hez⟩ := endpoint_some he
  refine Or.inr ⟨ha, s, hez, ?_⟩
  rcases hm with hm | hm | hm <;> rw [hm] at hz ⊢
  · exact hz
  · rcases hz with hz | hz
    · exact Or.inl hz
    · simp [relayedByPeer] at hz
  · exact hz

example : accepts exForest .setAcknowledgement (relayedByPeer exFromMaster) = true := by decide
example : (relayedByPeer exFromMaster).originZone = some 0 ∧ exFromMaster.endpoint = some 0 := by decide


/-! ## The forests of the correspondence runs satisfy the hypothesis of the completeness theorems -/

theorem depthOf_lt (f : Forest) : ∀ (n : Nat) (a : Zone) (d : Nat), depthOf f n a = some d → d < n := by
  intro n
  induction n with
  | zero => intro a d h; simp [depthOf] at h
  | succ n ih =>
    intro a d h
    unfold depthOf at h
    cases hp : f.parent a with
    | none => simp [hp] at h; omega
    | some p =>
      simp only [hp, Option.map_eq_some_iff] at h
      obtain ⟨k, hk, rfl⟩ := h
      have := ih p k hk
      omega

theorem depthOf_succ (f : Forest) : ∀ (n : Nat) (a : Zone) (d : Nat), depthOf f n a = some d → depthOf f (n + 1) a = some d := by
  intro n
  induction n with
  | zero => intro a d h; simp [depthOf] at h
  | succ n ih =>
    intro a d h
    unfold depthOf at h ⊢
    cases hp : f.parent a with
    | none => simpa [hp] using h
    | some p =>
      simp only [hp, Option.map_eq_some_iff] at h ⊢
      obtain ⟨k, hk, rfl⟩ := h
      exact ⟨k, ih p k hk, rfl⟩

theorem loadedB_sound (f : Forest) (n bound : Nat) (hout : ∀ a, n ≤ a → f.parent a = none)
    (h : loadedB f n bound = true) : Loaded f bound := by
  refine ⟨fun a => (depthOf f (bound + 1) a).getD 0, ?_, ?_⟩
  · intro a p hp
    have han : a < n := by
      apply Decidable.byContradiction
      intro hc
      rw [hout a (Nat.le_of_not_lt hc)] at hp
      cases hp
    have hs : (depthOf f (bound + 1) a).isSome = true := by
      simp only [loadedB, List.all_eq_true, List.mem_range] at h
      exact h a han
    obtain ⟨k, hk⟩ := Option.isSome_iff_exists.mp hs
    have hk' := hk
    unfold depthOf at hk'
    simp only [hp, Option.map_eq_some_iff] at hk'
    obtain ⟨k', hk2, rfl⟩ := hk'
    have := depthOf_succ f bound p k' hk2
    simp [hk, this]
  · intro a
    show (depthOf f (bound + 1) a).getD 0 ≤ bound
    cases hd : depthOf f (bound + 1) a with
    | none => simp
    | some d => have := depthOf_lt f _ a d hd; simp only [Option.getD_some]; omega


/-- **driver_forests_are_loaded.**  Every forest the driver lets pass (`loadedB … harnessLevelBound`, zones outside the
    table have no parent) is a forest the SOURCE admits: the completeness theorems apply to every case of every run. -/
theorem driver_forests_are_loaded (f : Forest) (n : Nat) (hout : ∀ a, n ≤ a → f.parent a = none)
    (h : loadedB f n harnessLevelBound = true) : LoadedSrc f := by
  obtain ⟨d, hd, hle⟩ := loadedB_sound f n harnessLevelBound hout h
  refine ⟨d, hd, fun a => Nat.le_trans (hle a) ?_⟩
  decide

example : loadedB exForest 5 harnessLevelBound = true := by decide
/-- a cycle 0 → 1 → 0 is not loadable -/
example : loadedB { parent := fun z => if z = 0 then some 1 else if z = 1 then some 0 else none, isGlobal := fun _ => false } 2 harnessLevelBound = false := by decide

/-! ## The claim inside the message body -/

/-- **origin_claim_matters_only_for_own_zone_peer.**  The `originZone` field — an unauthenticated claim inside the message
    body — has NO influence on whether a message is applied unless the connection is an authenticated endpoint of the
    receiver's own zone: for anonymous, unconfigured and foreign-zone senders, every method, every forest. -/
theorem origin_claim_matters_only_for_own_zone_peer (f : Forest) (m : Method) (c : Ctx) (o : Option Zone)
    (h : c.endpoint ≠ some c.localZone) :
    applies f m { c with originZone := o } = applies f m c := by
  have hep : ({ c with originZone := o } : Ctx).endpoint = c.endpoint := rfl
  have hfz : ({ c with originZone := o } : Ctx).fromZone = c.fromZone := by
    cases he : c.endpoint with
    | none => simp [Ctx.fromZone, fromZone, hep, he]
    | some ez =>
      have hne : ez ≠ c.localZone := by intro h'; apply h; rw [he, h']
      simp [Ctx.fromZone, fromZone, hep, he, hne]
  cases m <;>
    simp only [applies, accepts, effective, guardAccess, guardLocal, guardParent, guardExecEndpoint, guardCommandSender,
      guardConfigSender, forwardErrorNotice, noticeReachesSomeoneElse, hep, hfz] <;> rfl

/-! ## What the handlers are told about the sender -/

/-- **model_origin_satisfies_spec.**  For every context: the origin the model's `MessageHandler` builds (`Ctx.endpoint`,
    `Ctx.fromZone`) satisfies the origin clauses of the specification — an endpoint only for an authenticated, configured
    identity; no zone without endpoint; a foreign sender's zone is its endpoint's zone, never the claimed one. -/
theorem model_origin_satisfies_spec (c : Ctx) :
    specOrigin c { hasEndpoint := c.endpoint.isSome, fromZone := c.fromZone } = none := by
  unfold specOrigin
  cases ha : c.authenticated <;> cases hz : c.endpointZone <;>
    simp [Ctx.endpoint, Ctx.fromZone, fromZone, ha, hz]
  rename_i ez
  by_cases h : ez = c.localZone <;> simp [h]

/-- the origin clauses are not vacuous: an unverified certificate with an endpoint's name treated as that endpoint; a
    child-zone sender judged by the zone it claims -/
example : specOrigin { exFromMaster with authenticated := false } { hasEndpoint := true, fromZone := none } = some .endpointOnlyIfAuthenticated := by decide
example : specOrigin { exFromMaster with endpointZone := some 2, originZone := some 0 } { hasEndpoint := true, fromZone := some 0 } = some .judgedBySendersZone := by decide
example : specOrigin exAnonymous { hasEndpoint := false, fromZone := some 1 } = some .judgedBySendersZone := by decide
example : specOrigin exPeerClaimsAgent { hasEndpoint := true, fromZone := some 2 } = none := by decide

/-! non-vacuity -/
theorem exForest_loaded : LoadedSrc exForest := by
  refine ⟨fun z => if z = 1 then 1 else if z = 2 then 2 else 0, ?_, ?_⟩
  · intro a p h
    simp only [exForest] at h
    by_cases h1 : a = 1
    · subst h1; simp at h; subst h; decide
    · by_cases h2 : a = 2
      · subst h2; simp at h; subst h; decide
      · simp [h1, h2] at h
  · intro a
    show (if a = 1 then 1 else if a = 2 then 2 else 0) ≤ 32
    split
    · decide
    · split <;> decide


/-- hypotheses of the completeness theorems on the example forest: the agent zone (2) lies strictly below the satellite
    (1); a config/command/certificate message from there is refused, from the master (0) it is accepted -/
example : Below exForest 2 1 ∧ (2 : Zone) ≠ exFromMaster.localZone := ⟨Below.step (by decide) (Below.refl _), by decide⟩
example : accepts exForest .configUpdateObject { exFromMaster with endpointZone := some 2 } = false := by decide
example : accepts exForest .configUpdateObject exFromMaster = true := by decide
example : Method.cls .setAcknowledgement = .stateUpdate ∧ exFromMaster.endpointZone = some 0 ∧ (0 : Zone) ≠ exFromMaster.localZone := by decide
/-- `model_trace_failure_is_fc13a`: its hypothesis is satisfiable (`model_trace_counterexample` is such a report), and the
    conclusion names the message at index 1 -/
example : inFC13a exForest .setForceNextCheck exPeerNoOrigin = true ∧ accepts exForest .setForceNextCheck exPeerNoOrigin = true := by decide
/-- the executable predicate and the proposition agree on the refused side too -/
example : entitledB exForest .configUpdateObject { exFromMaster with endpointZone := some 2 } = false := by decide

end Icinga.C13

/-
  C13 — property theorems.  Every `theorem` in this file is a proof obligation of `./check C13`.
  Helper lemmas: IcingaProofs/C13/Lemmas.lean.  Generated method list: IcingaProofs/Gen/ApiFunctions.lean.

  THE FULL STATEMENT (what properties.jsonl asks for) is

      theorem accept_implies_entitled (f : Forest) (m : Method) (c : Ctx) :
          accepts f m c = true → Entitled f m c

  It is FALSE of the unchanged code, hence of the model (`accept_implies_entitled_counterexample`):
    F-C13a  a sender in the receiver's own zone is never checked against the object's zone: `FromZone`
            is then taken from the message's own `originZone` field (absent ⇒ null ⇒ guard skipped;
            present ⇒ any zone the sender cares to name).  Known finding, not repaired.
  What is proved instead is the full statement for every method class that has it, and for the update
  classes the statement under the exact hypothesis that excludes the counterexample
  (`accept_implies_entitled_partial`: sender not in the receiver's own zone).
  `anonymous_only_certificate` holds in full.

  History: F-C13b (`pki::UpdateCertificate` had no endpoint test; /repo ba4edd4) and F-C13c
  (`event::SetRemovalInfo` did not look at the object's zone; /repo cc1e22f) were found by this check and
  are repaired; their `…_partial`/`…_counterexample` pairs have been replaced by the full theorems.
-/
import IcingaProofs.C13.Lemmas
import IcingaProofs.Gen.ApiFunctions

namespace Icinga.C13

/-! ## The table is complete -/

/-- **table_covers_registered_methods.**  The rows of the decision table are exactly the methods the
    source registers (list regenerated from `REGISTER_APIFUNCTION` on every run). -/
theorem table_covers_registered_methods : Method.all.map Method.name = Icinga.Gen.apiFunctions := by
  decide

/-- Every constructor of `Method` is a row (so `Method.all` is not a subset chosen to fit). -/
theorem all_methods_listed (m : Method) : m ∈ Method.all := by
  cases m <;> decide

/-- The driver finds the row of a method by its registered name. -/
theorem ofName_name (m : Method) : Method.ofName? m.name = some m := by
  cases m <;> decide

/-! ## accept ⇒ entitled, class by class (over ALL forests, contexts and fuels) -/

/-- Zone-internal bookkeeping (suppression state, last-notified state, notification events) is applied
    only from an authenticated endpoint of the receiver's own zone. -/
theorem accept_implies_entitled_zone_internal (f : Forest) (m : Method) (c : Ctx)
    (hm : m.cls = .zoneInternal) (h : accepts f m c = true) : Entitled f m c := by
  have key : c.endpoint.isSome = true ∧ guardLocal c = true := by
    cases m <;> simp [Method.cls] at hm <;> simp [accepts] at h <;> exact ⟨h.1.1, h.2⟩
  obtain ⟨ez, he⟩ := endpoint_isSome key.1
  obtain ⟨ha, hz⟩ := endpoint_some he
  refine Or.inr ⟨ha, ez, hz, ?_⟩
  rw [hm]
  exact guardLocal_sender he key.2

/-- Configuration files and runtime objects are applied only from an authenticated endpoint of the
    receiver's own zone or a zone above it, and only with `accept_config`. -/
theorem accept_implies_entitled_config (f : Forest) (m : Method) (c : Ctx)
    (hm : m.cls = .config) (h : accepts f m c = true) : Entitled f m c := by
  have key : ∃ ez, c.endpoint = some ez ∧ Below f c.localZone ez ∧ c.acceptConfig = true := by
    cases m <;> simp [Method.cls] at hm
    · -- config::DeleteObject
      simp [accepts] at h
      obtain ⟨ez, he, hb⟩ := guardConfigSender_sender f h.1.1
      exact ⟨ez, he, hb, h.1.2⟩
    · -- config::Update
      simp [accepts] at h
      obtain ⟨ez, he⟩ := endpoint_isSome h.1.1
      exact ⟨ez, he, guardParent_sender f he h.1.2, h.2⟩
    · -- config::UpdateObject
      simp [accepts] at h
      obtain ⟨ez, he, hb⟩ := guardConfigSender_sender f h.1
      exact ⟨ez, he, hb, h.2⟩
  obtain ⟨ez, he, hb, hc⟩ := key
  obtain ⟨ha, hz⟩ := endpoint_some he
  refine Or.inr ⟨ha, ez, hz, ?_⟩
  rw [hm]
  exact ⟨hb, hc⟩

/-- A command is executed — or forwarded towards the node it names — only for an authenticated endpoint of
    the receiver's own zone or a zone above it (the code admits only the direct parent), and executed only
    with `accept_commands`. -/
theorem accept_implies_entitled_command (f : Forest) (m : Method) (c : Ctx)
    (hm : m.cls = .command) (h : accepts f m c = true) : Entitled f m c := by
  cases m <;> simp [Method.cls] at hm
  simp only [accepts, Bool.and_eq_true] at h
  obtain ⟨ez, he, hb⟩ := guardCommandSender_sender f h.1
  obtain ⟨ha, hz⟩ := endpoint_some he
  refine Or.inr ⟨ha, ez, hz, hb, ?_⟩
  cases hf : c.forwardZone with
  | none => simp only [hf, Bool.and_eq_true] at h; exact Or.inr h.2.2
  | some tz => exact Or.inl rfl

/-- A command is forwarded only towards the receiver's own zone or a zone below it. -/
theorem forwarded_only_downwards (f : Forest) (c : Ctx) (tz : Zone) (hf : c.forwardZone = some tz)
    (h : accepts f .executeCommand c = true) : Below f tz c.localZone := by
  simp only [accepts, hf, Bool.and_eq_true] at h
  exact isChildOf_sound f _ _ h.2

/-- Version/capabilities/log position/heartbeat: only for an authenticated, configured endpoint. -/
theorem accept_implies_entitled_session (f : Forest) (m : Method) (c : Ctx)
    (hm : m.cls = .session) (h : accepts f m c = true) : Entitled f m c := by
  have key : c.endpoint.isSome = true := by
    cases m <;> simp [Method.cls] at hm <;> simp [accepts] at h <;> exact h
  obtain ⟨ez, he⟩ := endpoint_isSome key
  obtain ⟨ha, hz⟩ := endpoint_some he
  refine Or.inr ⟨ha, ez, hz, ?_⟩
  rw [hm]
  trivial

/-- State and event updates, check results and execution results **from another zone** are applied only
    for objects in the sender's zone or below it (check results: or from the command endpoint;
    execution results: for executions on endpoints of the sender's zone or below). -/
theorem accept_implies_entitled_update_from_other_zone (f : Forest) (m : Method) (c : Ctx)
    (hm : m.cls = .stateUpdate ∨ m.cls = .checkResult ∨ m.cls = .execResult)
    (hforeign : c.endpointZone ≠ some c.localZone)
    (h : accepts f m c = true) : Entitled f m c := by
  have hep : c.endpoint.isSome = true := by
    cases m <;> simp [Method.cls] at hm <;> simp [accepts] at h <;> first | exact h.1.1 | exact h.1.1.1
  obtain ⟨ez, he⟩ := endpoint_isSome hep
  obtain ⟨ha, hz⟩ := endpoint_some he
  have hne : ez ≠ c.localZone := by
    intro heq; apply hforeign; rw [hz, heq]
  have hfz := fromZone_foreign he hne
  refine Or.inr ⟨ha, ez, hz, ?_⟩
  rcases hm with hm | hm | hm
  · -- the nine `CanAccessObject` rows
    have hg : guardAccess f c = true := by
      cases m <;> simp [Method.cls] at hm <;> (simp [accepts] at h; exact h.2)
    rw [hm]
    exact guardAccess_foreign f he hne hg
  · -- event::CheckResult
    have hg : guardAccess f c = true ∨ c.senderIsCommandEndpoint = true := by
      cases m <;> simp [Method.cls] at hm
      simp [accepts] at h
      exact h.2
    rw [hm]
    exact hg.imp (guardAccess_foreign f he hne) id
  · -- event::ExecutedCommand
    have hg : guardExecEndpoint f c = true := by
      cases m <;> simp [Method.cls] at hm
      simp [accepts] at h
      exact h.2
    rw [hm]
    unfold guardExecEndpoint at hg
    cases hx : c.execEndpointZone with
    | none => simp [hx] at hg
    | some xz =>
      simp only [hx, hfz] at hg
      exact ⟨xz, hx, isChildOf_sound f _ _ hg⟩

/-- `event::SetRemovalInfo` additionally requires the sender's zone to be the receiver's own zone or a
    zone above it (clusterevents.cpp:1597). -/
theorem removal_info_only_from_own_zone_or_above (f : Forest) (c : Ctx)
    (h : accepts f .setRemovalInfo c = true) :
    c.authenticated = true ∧ ∃ s, c.endpointZone = some s ∧ Below f c.localZone s := by
  simp [accepts] at h
  obtain ⟨ez, he⟩ := endpoint_isSome h.1.1.1
  obtain ⟨ha, hz⟩ := endpoint_some he
  exact ⟨ha, ez, hz, guardParent_sender f he h.1.1.2⟩

/-- **accept_implies_entitled_cert_update** (full).  `pki::UpdateCertificate` is applied only from an
    authenticated, configured endpoint of the receiver's own zone or a zone above it. -/
theorem accept_implies_entitled_cert_update (f : Forest) (m : Method) (c : Ctx)
    (hm : m.cls = .certUpdate) (h : accepts f m c = true) : Entitled f m c := by
  cases m <;> simp [Method.cls] at hm
  simp [accepts] at h
  obtain ⟨ez, he⟩ := endpoint_isSome h.1
  obtain ⟨ha, hz⟩ := endpoint_some he
  exact Or.inr ⟨ha, ez, hz, guardParent_sender f he h.2⟩

/-- **accept_implies_entitled_partial** — the whole table in one statement.  For every forest, method
    and context: an accepted message comes from an entitled sender, *provided* the context is not
    an update-class method from a sender in the receiver's own zone (F-C13a). -/
theorem accept_implies_entitled_partial (f : Forest) (m : Method) (c : Ctx)
    (ha : (m.cls = .stateUpdate ∨ m.cls = .checkResult ∨ m.cls = .execResult) →
          c.endpointZone ≠ some c.localZone)
    (h : accepts f m c = true) : Entitled f m c := by
  cases hcls : m.cls with
  | stateUpdate => exact accept_implies_entitled_update_from_other_zone f m c (Or.inl hcls) (ha (Or.inl hcls)) h
  | checkResult => exact accept_implies_entitled_update_from_other_zone f m c (Or.inr (Or.inl hcls)) (ha (Or.inr (Or.inl hcls))) h
  | execResult => exact accept_implies_entitled_update_from_other_zone f m c (Or.inr (Or.inr hcls)) (ha (Or.inr (Or.inr hcls))) h
  | zoneInternal => exact accept_implies_entitled_zone_internal f m c hcls h
  | config => exact accept_implies_entitled_config f m c hcls h
  | command => exact accept_implies_entitled_command f m c hcls h
  | session => exact accept_implies_entitled_session f m c hcls h
  | certRequest => exact Or.inl hcls
  | certUpdate => exact accept_implies_entitled_cert_update f m c hcls h

/-! ## The counterexample F-C13a (kernel-checked; replayed on the real code by the harness) -/

/-- master (0) ← satellite (1) ← agent (2); zone 3 is unrelated, zone 4 is global. -/
def exForest : Forest :=
  { parent := fun z => if z = 1 then some 0 else if z = 2 then some 1 else none,
    isGlobal := fun z => z == 4 }

theorem not_below_master_satellite : ¬ Below exForest 0 1 := by
  intro h
  cases h with
  | step hp _ => simp [exForest] at hp

/-- A satellite (zone 1) receives `event::SetForceNextCheck` for a host of the *master* zone (0) from its
    HA peer (zone 1), no `originZone` in the message. -/
def exPeerNoOrigin : Ctx :=
  { authenticated := true, endpointZone := some 1, originZone := none, localZone := 1, objExists := true,
    objZone := some 0, senderIsCommandEndpoint := false, execEndpointZone := none, forwardZone := none,
    acceptConfig := false, acceptCommands := false }

/-- **F-C13a.**  The full statement fails: accepted, although the object is in the parent zone of the
    sender's zone. -/
theorem accept_implies_entitled_counterexample :
    ¬ (∀ (f : Forest) (m : Method) (c : Ctx), accepts f m c = true → Entitled f m c) := by
  intro hall
  have h := hall exForest .setForceNextCheck exPeerNoOrigin (by decide)
  rcases h with h | ⟨_, s, hs, he⟩
  · simp [Method.cls] at h
  · simp [exPeerNoOrigin] at hs
    subst hs
    simp only [Method.cls, EntitledZone, ObjWithin, exPeerNoOrigin] at he
    rcases he with he | he
    · simp [exForest] at he
    · exact not_below_master_satellite he

/-- F-C13a, second form: the own-zone peer names the master zone in `originZone`; the claim is taken at
    face value. -/
theorem accept_implies_entitled_counterexample_claimed_origin :
    accepts exForest .setAcknowledgement { exPeerNoOrigin with originZone := some 0 } = true ∧
    ¬ Entitled exForest .setAcknowledgement { exPeerNoOrigin with originZone := some 0 } := by
  refine ⟨by decide, ?_⟩
  rintro (h | ⟨_, s, hs, he⟩)
  · simp [Method.cls] at h
  · simp [exPeerNoOrigin] at hs
    subst hs
    simp only [Method.cls, EntitledZone, ObjWithin, exPeerNoOrigin] at he
    rcases he with he | he
    · simp [exForest] at he
    · exact not_below_master_satellite he

/-- F-C13a in general: for the nine `CanAccessObject` rows a sender in the receiver's own zone that
    sends no `originZone` is accepted for an object of ANY zone, in every forest. -/
theorem own_zone_sender_is_not_checked (f : Forest) (m : Method) (c : Ctx)
    (hm : m.cls = .stateUpdate)
    (hauth : c.authenticated = true) (hown : c.endpointZone = some c.localZone)
    (hno : c.originZone = none) (hobj : c.objExists = true) : accepts f m c = true := by
  have he : c.endpoint = some c.localZone := by simp [Ctx.endpoint, hauth, hown]
  have hfz : c.fromZone = none := by rw [fromZone_own he, hno]
  cases m <;> simp [Method.cls] at hm <;> simp [accepts, he, hobj, guardAccess, guardParent, hfz]

/-- An anonymous connection (certificate not verified) sends `pki::UpdateCertificate`. -/
def exAnonymous : Ctx :=
  { authenticated := false, endpointZone := none, originZone := none, localZone := 1, objExists := true,
    objZone := none, senderIsCommandEndpoint := false, execEndpointZone := none, forwardZone := none,
    acceptConfig := false, acceptCommands := false }

/-- **anonymous_only_certificate** (full).  A connection without authenticated, configured endpoint gets
    nothing but the certificate request past the guards — in every forest and context. -/
theorem anonymous_only_certificate (f : Forest) (m : Method) (c : Ctx)
    (hanon : c.endpoint = none) (h : accepts f m c = true) : m = .requestCertificate := by
  cases m <;> first
    | rfl
    | (simp [accepts, hanon, guardCommandSender, guardConfigSender] at h)

/-- master (0) ← satellite (1) ← agent (2): the agent (local zone 2) receives `event::SetRemovalInfo`
    from the satellite zone for a comment that belongs to the master zone (refused since cc1e22f). -/
def exRemoval : Ctx :=
  { authenticated := true, endpointZone := some 1, originZone := none, localZone := 2, objExists := true,
    objZone := some 0, senderIsCommandEndpoint := false, execEndpointZone := none, forwardZone := none,
    acceptConfig := false, acceptCommands := false }

/-! ## Refusal -/

/-- **refused_is_noop** (model level).  A message that does not get past its guards leaves the state as
    it is and sends nothing, whatever the method's effect would have been.  (That the *code's* refuse
    branches do the same is what the harness's before/after snapshot checks.) -/
theorem refused_is_noop {σ μ : Type} (f : Forest) (m : Method) (c : Ctx) (effect : σ → σ × List μ) (s : σ)
    (h : accepts f m c = false) : handle f m c effect s = (s, []) := by
  simp [handle, h]

/-- The heartbeat never does anything. -/
theorem heartbeat_is_noop (f : Forest) (c : Ctx) : accepts f .heartbeat c = false := rfl

/-! ## The executable specification is sound for the proposition -/

/-- What the driver evaluates (`entitledB`) implies the proposition the theorems are about. -/
theorem entitledB_sound (f : Forest) (m : Method) (c : Ctx) (h : entitledB f m c = true) : Entitled f m c := by
  unfold entitledB at h
  simp only [Bool.or_eq_true, beq_iff_eq, Bool.and_eq_true] at h
  rcases h with h | ⟨ha, h⟩
  · exact Or.inl h
  · cases hz : c.endpointZone with
    | none => simp [hz] at h
    | some s =>
      simp only [hz] at h
      refine Or.inr ⟨ha, s, hz, ?_⟩
      cases hcls : m.cls <;> simp only [hcls, entitledZoneB, EntitledZone] at h ⊢
      · exact objWithinB_sound f _ _ _ h
      · simp only [Bool.or_eq_true] at h
        exact h.imp (objWithinB_sound f _ _ _) id
      · cases hx : c.execEndpointZone with
        | none => simp [hx] at h
        | some xz => simp only [hx] at h; exact ⟨xz, rfl, belowB_sound f _ _ _ h⟩
      · simpa using h
      · simp only [Bool.and_eq_true] at h; exact ⟨belowB_sound f _ _ _ h.1, h.2⟩
      · simp only [Bool.and_eq_true, Bool.or_eq_true] at h; exact ⟨belowB_sound f _ _ _ h.1, h.2⟩
      · exact belowB_sound f _ _ _ h

/-! ## Non-vacuity -/

/-- The hypotheses of the per-class theorems are satisfiable on non-trivial contexts: the master (zone 0)
    sends `event::SetAcknowledgement` for a host of the agent zone (2) to the satellite (1) … -/
def exFromMaster : Ctx :=
  { authenticated := true, endpointZone := some 0, originZone := none, localZone := 1, objExists := true,
    objZone := some 2, senderIsCommandEndpoint := false, execEndpointZone := some 2, forwardZone := none,
    acceptConfig := true, acceptCommands := true }

example : accepts exForest .setAcknowledgement exFromMaster = true := by decide
example : accepts exForest .configUpdateObject exFromMaster = true := by decide
example : accepts exForest .executeCommand exFromMaster = true := by decide
example : accepts exForest .executedCommand exFromMaster = true := by decide
example : accepts exForest .setRemovalInfo exFromMaster = true := by decide
example : exFromMaster.endpointZone ≠ some exFromMaster.localZone := by decide
/-- … the same from the agent zone (2) is refused for a satellite-zone host, and zone-internal
    bookkeeping is refused from the master. -/
example : accepts exForest .setAcknowledgement { exFromMaster with endpointZone := some 2, objZone := some 1 } = false := by decide
example : accepts exForest .setSuppressedNotifications exFromMaster = false := by decide
example : accepts exForest .setSuppressedNotifications { exFromMaster with endpointZone := some 1 } = true := by decide
example : accepts exForest .configUpdateObject { exFromMaster with acceptConfig := false } = false := by decide
example : accepts exForest .executeCommand { exFromMaster with endpointZone := some 2 } = false := by decide
/-- forwarding: from the master towards the agent zone yes (also without accept_commands), from the agent zone
    towards anything no, towards the master zone no -/
example : accepts exForest .executeCommand { exFromMaster with forwardZone := some 2, acceptCommands := false } = true := by decide
example : accepts exForest .executeCommand { exFromMaster with endpointZone := some 2, forwardZone := some 2 } = false := by decide
example : accepts exForest .executeCommand { exFromMaster with forwardZone := some 0 } = false := by decide
example : specStep exForest .executeCommand { exFromMaster with endpointZone := some 2, forwardZone := some 2 } ⟨false, false, true, false⟩ = some .appliedOnlyIfEntitled := by decide
/-- the two repaired guards refuse their former witnesses; the legitimate senders are still accepted -/
example : accepts exForest .updateCertificate exAnonymous = false := by decide
example : accepts exForest .updateCertificate exFromMaster = true := by decide
example : accepts exForest .setRemovalInfo exRemoval = false := by decide
example : accepts exForest .setRemovalInfo { exRemoval with objZone := some 2 } = true := by decide
example : exAnonymous.endpoint = none := by decide
/-- objects of a global zone are everybody's -/
example : accepts exForest .setNextCheck { exFromMaster with endpointZone := some 2, objZone := some 4 } = true := by decide

/-- The specification predicate is not vacuous: it rejects an applied update from an unentitled zone,
    an applied message on an anonymous connection, and accepts the entitled one. -/
example : specStep exForest .setForceNextCheck exPeerNoOrigin ⟨true, false, false, false⟩ = some .appliedOnlyIfEntitled := by decide
example : specStep exForest .updateCertificate exAnonymous ⟨false, true, false, false⟩ = some .anonymousOnlyCertificate := by decide
example : specStep exForest .setForceNextCheck exPeerNoOrigin ⟨false, false, false, false⟩ = none := by decide
example : specStep exForest .setAcknowledgement exFromMaster ⟨true, false, true, false⟩ = none := by decide
example : specStep exForest .requestCertificate exAnonymous ⟨false, true, false, false⟩ = none := by decide

end Icinga.C13
